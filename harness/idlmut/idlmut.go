// Package idlmut enumerates rule-breaking edits of a valid multi-file IDL program
// (property C04: invalid input is diagnosed).
//
// A Base wraps a valid program (the intended, parse-level AST of harness/idlgen or
// anything astdump produced) together with its canonical rendering.  Enumerate
// lists, for every file of the program and every rule of the catalogue of
// /verif/coq/Idl/Rules.v, the edits that break that rule in that file: each Edit
// changes ONE file (and may add small new files), either by appending a fresh
// definition that carries the defect or by changing an existing definition.
// (*Edit).Tree materialises the edited tree (Filename -> text); nothing is kept in
// memory until then.
//
// Kind 1 edits leave a tree the parser still accepts (the defect is semantic);
// kind 2 edits leave no AST (syntax errors made on the rendered text, missing
// include files); command line defects are listed by CommandLines.
//
// Strict says that the shape is one the declarative predicate `violates rule`
// of Idl/Rules.v must recognise; non-strict edits are rule-breaking in the
// ordinary sense of the word but outside the predicate (a kind mismatch that
// is only visible through a typedef, a container element or an include).
//
// Everything is a pure function of the program: no randomness in here (the
// producer samples from the enumeration with harness/rng).
package idlmut

import (
	"encoding/json"
	"fmt"
	"path"
	"sort"
	"strings"

	"verif/harness/idlast"
	"verif/harness/idlgen"
)

// Rule codes = position in all_rules of Idl/Rules.v.
const (
	SyntaxError = iota
	MissingInclude
	IncludeCycle
	DupGlobal
	DupField
	DupFieldId
	DupFunction
	DupEnumName
	DupEnumNumber
	EnumOutOfInt32
	UndefinedType
	NonTypeAsType
	TypedefCycle
	UndefinedConst
	AmbiguousConst
	ConstKindMismatch
	StructLiteralBadKey
	OnewayReturns
	OnewayThrows
	UnknownBaseService
	SecondUnionDefault
	BadCommandLine
	NumRules
)

var RuleNames = []string{"SyntaxError", "MissingInclude", "IncludeCycle", "DupGlobal", "DupField", "DupFieldId",
	"DupFunction", "DupEnumName", "DupEnumNumber", "EnumOutOfInt32", "UndefinedType", "NonTypeAsType", "TypedefCycle",
	"UndefinedConst", "AmbiguousConst", "ConstKindMismatch", "StructLiteralBadKey", "OnewayReturns", "OnewayThrows",
	"UnknownBaseService", "SecondUnionDefault", "BadCommandLine"}

// Edit is one rule-breaking change of a base program.
type Edit struct {
	Kind      int    // 1 = the edited tree parses, 2 = it does not (no AST)
	Rule      int    // rule code
	Strict    bool   // kind 1: `violates` of Idl/Rules.v must recognise the shape
	What      string // human description
	Site      string // struct / union / exception / args / throws / typedef / constant / default / ...
	Style     string // "append" (fresh definition), "existing" (changes a definition of the base), "text", "tree"
	File      string // Filename of the edited file
	FileIndex int    // its index in the base program
	build     func() map[string]string
}

// Tree returns the edited tree: Filename -> text (a fresh map).
func (e *Edit) Tree() map[string]string { return e.build() }

type incView struct {
	Prefix string
	Path   string
	Target *fileView // nil when the reference is unknown
}

type fileView struct {
	idx   int
	name  string
	f     *idlast.File // base AST, read-only
	kinds map[string]string
	incs  []incView
}

// Base is a valid program prepared for enumeration.
type Base struct {
	Prog   idlast.Program
	Layout *idlgen.Layout
	Texts  map[string]string
	views  []*fileView
	taken  map[string]bool
	memo   map[string]string
	Depth  []int // include distance of every file from the main file
}

// Clone deep-copies a program.
func Clone(p idlast.Program) idlast.Program {
	var q idlast.Program
	if err := json.Unmarshal(p.JSON(), &q); err != nil {
		panic(err)
	}
	return q
}

// Prefix is semantic.IDLPrefix on slash paths.
func Prefix(p string) string {
	b := path.Base(p)
	return strings.TrimSuffix(b, path.Ext(b))
}

func defKinds(f *idlast.File) map[string]string {
	m := map[string]string{}
	for _, x := range f.Typedefs {
		m[string(x.Alias)] = "typedef"
	}
	for _, x := range f.Constants {
		m[string(x.Name)] = "const"
	}
	for _, x := range f.Enums {
		m[string(x.Name)] = "enum"
	}
	for _, x := range f.Structs {
		m[string(x.Name)] = "struct"
	}
	for _, x := range f.Unions {
		m[string(x.Name)] = "union"
	}
	for _, x := range f.Exceptions {
		m[string(x.Name)] = "exception"
	}
	for _, x := range f.Services {
		m[string(x.Name)] = "service"
	}
	return m
}

func isTypeKind(k string) bool {
	switch k {
	case "typedef", "enum", "struct", "union", "exception":
		return true
	}
	return false
}

// NewBase prepares a program; texts may be nil (then the program is rendered with the layout).
func NewBase(p idlast.Program, layout *idlgen.Layout) *Base {
	b := &Base{Prog: p, Layout: layout, Texts: map[string]string{}, taken: map[string]bool{}, memo: map[string]string{}}
	byName := map[string]*fileView{}
	for i, e := range p {
		v := &fileView{idx: i, name: string(e.Filename), f: e.File, kinds: defKinds(e.File)}
		b.views = append(b.views, v)
		byName[v.name] = v
		b.Texts[v.name] = idlgen.RenderFile(e.File, layout)
	}
	for _, v := range b.views {
		b.taken[Prefix(v.name)] = true
		b.taken[v.name] = true
		for n := range v.kinds {
			b.taken[n] = true
		}
		for _, en := range v.f.Enums {
			for _, ev := range en.Values {
				b.taken[string(ev.Name)] = true
			}
		}
		for _, inc := range v.f.Includes {
			iv := incView{Prefix: Prefix(string(inc.Path)), Path: string(inc.Path)}
			if inc.Ref != nil {
				iv.Target = byName[string(*inc.Ref)]
			}
			v.incs = append(v.incs, iv)
		}
		for _, part := range strings.Split(v.name, "/") {
			b.taken[part] = true
		}
	}
	// include distance from main (breadth first)
	b.Depth = make([]int, len(b.views))
	for i := range b.Depth {
		b.Depth[i] = -1
	}
	if len(b.views) > 0 {
		b.Depth[0] = 0
		queue := []*fileView{b.views[0]}
		for len(queue) > 0 {
			v := queue[0]
			queue = queue[1:]
			for _, iv := range v.incs {
				if iv.Target != nil && b.Depth[iv.Target.idx] < 0 {
					b.Depth[iv.Target.idx] = b.Depth[v.idx] + 1
					queue = append(queue, iv.Target)
				}
			}
		}
	}
	return b
}

// n returns a name derived from want that nothing in the program uses (global names,
// enum value names, include prefixes, path components), the same one on every call.
func (b *Base) n(want string) string {
	if s, ok := b.memo[want]; ok {
		return s
	}
	s := want
	for i := 1; b.taken[s] || b.taken[strings.ToLower(s)]; i++ {
		s = fmt.Sprintf("%s%d", want, i)
	}
	b.memo[want] = s
	b.taken[s] = true
	return s
}

// M is the mutable copy an edit works on.
type M struct {
	Q     idlast.Program
	F     *idlast.File
	Added []*idlast.File
}

func (m *M) addFile(f *idlast.File) {
	m.Added = append(m.Added, f)
	m.Q = append(m.Q, idlast.ProgramEntry{Filename: f.Filename, File: f})
}

func (m *M) include(p string) {
	ref := idlast.B(p)
	m.F.Includes = append(m.F.Includes, &idlast.Include{Path: idlast.B(p), Ref: &ref})
}

type enumerator struct {
	b   *Base
	v   *fileView
	out []*Edit
}

func (e *enumerator) addKind(kind, rule int, strict bool, site, style, what string, mut func(m *M)) {
	b, v := e.b, e.v
	ed := &Edit{Kind: kind, Rule: rule, Strict: strict, Site: site, Style: style, What: what + " in " + v.name, File: v.name, FileIndex: v.idx}
	ed.build = func() map[string]string {
		q := Clone(b.Prog)
		m := &M{Q: q, F: q[v.idx].File}
		mut(m)
		texts := make(map[string]string, len(b.Texts)+len(m.Added))
		for k, t := range b.Texts {
			texts[k] = t
		}
		texts[v.name] = idlgen.RenderFile(m.F, b.Layout)
		for _, a := range m.Added {
			texts[string(a.Filename)] = idlgen.RenderFile(a, b.Layout)
		}
		return texts
	}
	e.out = append(e.out, ed)
}

func (e *enumerator) add(rule int, strict bool, site, style, what string, mut func(m *M)) {
	e.addKind(1, rule, strict, site, style, what, mut)
}

// ---------------------------------------------------------------- AST builders

func T(n string) *idlast.Type            { return &idlast.Type{Name: idlast.B(n)} }
func ListOf(t *idlast.Type) *idlast.Type { return &idlast.Type{Name: "list", ValueType: t} }
func SetOf(t *idlast.Type) *idlast.Type  { return &idlast.Type{Name: "set", ValueType: t} }
func MapOf(k, v *idlast.Type) *idlast.Type {
	return &idlast.Type{Name: "map", KeyType: k, ValueType: v}
}

func I(v int64) *idlast.ConstValue { return &idlast.ConstValue{Kind: idlast.ConstInt, Int: v} }
func S(s string) *idlast.ConstValue {
	return &idlast.ConstValue{Kind: idlast.ConstLiteral, Literal: idlast.B(s)}
}
func Id(s string) *idlast.ConstValue {
	return &idlast.ConstValue{Kind: idlast.ConstIdentifier, Identifier: idlast.B(s)}
}
func D15() *idlast.ConstValue {
	return &idlast.ConstValue{Kind: idlast.ConstDouble, DoubleBits: 0x3ff8000000000000}
} // 1.5
func L(xs ...*idlast.ConstValue) *idlast.ConstValue {
	return &idlast.ConstValue{Kind: idlast.ConstList, List: xs}
}
func Mp(kv ...*idlast.ConstValue) *idlast.ConstValue {
	c := &idlast.ConstValue{Kind: idlast.ConstMap, Map: []idlast.MapEntry{}}
	for i := 0; i+1 < len(kv); i += 2 {
		c.Map = append(c.Map, idlast.MapEntry{Key: kv[i], Value: kv[i+1]})
	}
	return c
}

func Fd(id int32, name string, t *idlast.Type, def *idlast.ConstValue) *idlast.Field {
	return &idlast.Field{ID: id, Name: idlast.B(name), Type: t, Default: def}
}

// Th is a throws field (the parser makes them optional).
func Th(id int32, name string, t *idlast.Type) *idlast.Field {
	return &idlast.Field{ID: id, Name: idlast.B(name), Type: t, Requiredness: idlast.ReqOptional}
}

func SL(k idlast.SLKind, name string, fs ...*idlast.Field) *idlast.StructLike {
	if fs == nil {
		fs = []*idlast.Field{}
	}
	return &idlast.StructLike{Category: k, Name: idlast.B(name), Fields: fs}
}

// Fn builds a function; ret == nil means void.
func Fn(name string, ret *idlast.Type, args, throws []*idlast.Field) *idlast.Function {
	f := &idlast.Function{Name: idlast.B(name), FunctionType: ret, Arguments: args, Throws: throws}
	if ret == nil {
		f.Void, f.FunctionType = true, T("void")
	}
	if f.Arguments == nil {
		f.Arguments = []*idlast.Field{}
	}
	if f.Throws == nil {
		f.Throws = []*idlast.Field{}
	}
	return f
}

func Sv(name string, fns ...*idlast.Function) *idlast.Service {
	if fns == nil {
		fns = []*idlast.Function{}
	}
	return &idlast.Service{Name: idlast.B(name), Functions: fns}
}

func Fs(fs ...*idlast.Field) []*idlast.Field { return fs }

// NewFile is an empty file with every list present.
func NewFile(p string) *idlast.File {
	return &idlast.File{Filename: idlast.B(p), Includes: []*idlast.Include{}, CppIncludes: []idlast.B{}, Namespaces: []*idlast.Namespace{},
		Typedefs: []*idlast.Typedef{}, Constants: []*idlast.Constant{}, Enums: []*idlast.Enum{}, Structs: []*idlast.StructLike{},
		Unions: []*idlast.StructLike{}, Exceptions: []*idlast.StructLike{}, Services: []*idlast.Service{}}
}

func addStructLike(f *idlast.File, s *idlast.StructLike) {
	switch s.Category {
	case idlast.SKStruct:
		f.Structs = append(f.Structs, s)
	case idlast.SKUnion:
		f.Unions = append(f.Unions, s)
	default:
		f.Exceptions = append(f.Exceptions, s)
	}
}

func structLikes(f *idlast.File) []*idlast.StructLike {
	var out []*idlast.StructLike
	out = append(out, f.Structs...)
	out = append(out, f.Unions...)
	out = append(out, f.Exceptions...)
	return out
}

func slSite(k idlast.SLKind) string { return k.Keyword() }

func addConst(f *idlast.File, name string, t *idlast.Type, v *idlast.ConstValue) {
	f.Constants = append(f.Constants, &idlast.Constant{Name: idlast.B(name), Type: t, Value: v})
}
func addTypedef(f *idlast.File, alias string, t *idlast.Type) {
	f.Typedefs = append(f.Typedefs, &idlast.Typedef{Type: t, Alias: idlast.B(alias)})
}
func addEnum(f *idlast.File, name string, vals ...*idlast.EnumValue) {
	if vals == nil {
		vals = []*idlast.EnumValue{}
	}
	f.Enums = append(f.Enums, &idlast.Enum{Name: idlast.B(name), Values: vals})
}
func EV(name string, v int64) *idlast.EnumValue {
	return &idlast.EnumValue{Name: idlast.B(name), Value: v}
}

// ---------------------------------------------------------------- enumeration

// Enumerate lists every edit of every file, in a fixed order.
func (b *Base) Enumerate() []*Edit {
	var out []*Edit
	for _, v := range b.views {
		e := &enumerator{b: b, v: v}
		e.includeCycles()
		e.dupGlobal()
		e.dupFields()
		e.dupFunction()
		e.enums()
		e.undefinedType()
		e.nonType()
		e.typedefCycle()
		e.undefinedConst()
		e.ambiguousConst()
		e.kindMismatch()
		e.badKey()
		e.oneway()
		e.baseService()
		e.unionDefaults()
		e.missingInclude()
		e.syntax()
		out = append(out, e.out...)
	}
	return out
}

// Files returns the Filenames of the base program in program order.
func (b *Base) Files() []string {
	var out []string
	for _, v := range b.views {
		out = append(out, v.name)
	}
	return out
}

// ---------------------------------------------------------------- include cycles

// shortest include distances from v (breadth first over the base DAG)
func (b *Base) dist(from *fileView) map[int]int {
	d := map[int]int{from.idx: 0}
	queue := []*fileView{from}
	for len(queue) > 0 {
		v := queue[0]
		queue = queue[1:]
		for _, iv := range v.incs {
			if iv.Target != nil {
				if _, ok := d[iv.Target.idx]; !ok {
					d[iv.Target.idx] = d[v.idx] + 1
					queue = append(queue, iv.Target)
				}
			}
		}
	}
	return d
}

func (e *enumerator) includeCycles() {
	b, v := e.b, e.v
	through := func(a *fileView) string {
		if a.idx == 0 {
			return "through main"
		}
		return "not through main"
	}
	// length 1: the file includes itself
	e.add(IncludeCycle, true, "self", "existing", fmt.Sprintf("include cycle of length 1 (%s): the file includes itself", through(v)), func(m *M) {
		m.include(v.name)
	})
	// existing files: v is reachable from a at distance k; v gets `include a`: cycle of length k+1
	for _, a := range b.views {
		if a == v {
			continue
		}
		if k, ok := b.dist(a)[v.idx]; ok && k >= 1 && k <= 3 {
			a := a
			e.add(IncludeCycle, true, fmt.Sprintf("existing-files/len%d", k+1), "existing",
				fmt.Sprintf("include cycle of length %d over existing files (%s): back edge to %s", k+1, through(a), a.name), func(m *M) {
					m.include(a.name)
				})
		}
	}
	// new files cyc1..cycn
	cyc := func(i int) string { return b.n(fmt.Sprintf("cyc%d", i)) + ".thrift" }
	mk := func(i int, next string) *idlast.File {
		f := NewFile(cyc(i))
		ref := idlast.B(next)
		f.Includes = append(f.Includes, &idlast.Include{Path: idlast.B(next), Ref: &ref})
		f.Structs = append(f.Structs, SL(idlast.SKStruct, fmt.Sprintf("Cyc%d", i), Fd(1, "a", T("i32"), nil)))
		return f
	}
	for n := 1; n <= 4; n++ {
		n := n
		// a cycle among the new files only, entered from v
		e.add(IncludeCycle, true, fmt.Sprintf("new-files/len%d", n), "append",
			fmt.Sprintf("include cycle of length %d among new files (not through main), entered from the file", n), func(m *M) {
				m.include(cyc(1))
				for i := 1; i <= n; i++ {
					next := cyc(1)
					if i < n {
						next = cyc(i + 1)
					}
					m.addFile(mk(i, next))
				}
			})
		if n <= 3 {
			// a cycle through v: v -> cyc1 -> ... -> cycn -> v, length n+1
			e.add(IncludeCycle, true, fmt.Sprintf("new-files-back/len%d", n+1), "append",
				fmt.Sprintf("include cycle of length %d through the file and new files (%s)", n+1, through(v)), func(m *M) {
					m.include(cyc(1))
					for i := 1; i <= n; i++ {
						next := v.name
						if i < n {
							next = cyc(i + 1)
						}
						m.addFile(mk(i, next))
					}
				})
		}
	}
}

// ---------------------------------------------------------------- duplicate global names

var defKindNames = []string{"typedef", "const", "enum", "struct", "union", "exception", "service"}

func addDef(f *idlast.File, kind, name string) {
	switch kind {
	case "typedef":
		addTypedef(f, name, T("i32"))
	case "const":
		addConst(f, name, T("i32"), I(1))
	case "enum":
		addEnum(f, name, EV("MUT_Q", 0))
	case "struct":
		addStructLike(f, SL(idlast.SKStruct, name, Fd(1, "a", T("i32"), nil)))
	case "union":
		addStructLike(f, SL(idlast.SKUnion, name, Fd(1, "a", T("i32"), nil)))
	case "exception":
		addStructLike(f, SL(idlast.SKException, name, Fd(1, "a", T("i32"), nil)))
	case "service":
		f.Services = append(f.Services, Sv(name))
	}
}

func (e *enumerator) sortedDefs() []string {
	var names []string
	for n := range e.v.kinds {
		names = append(names, n)
	}
	sort.Strings(names)
	return names
}

func (e *enumerator) dupGlobal() {
	d := e.b.n("MutD")
	for i, k1 := range defKindNames {
		for _, k2 := range defKindNames[i:] {
			k1, k2 := k1, k2
			e.add(DupGlobal, true, k1+"/"+k2, "append", fmt.Sprintf("two definitions named %s: %s and %s", d, k1, k2), func(m *M) {
				addDef(m.F, k1, d)
				addDef(m.F, k2, d)
			})
		}
	}
	for i, name := range e.sortedDefs() {
		name := name
		have := e.v.kinds[name]
		kinds := []string{"enum"}
		if k := defKindNames[i%len(defKindNames)]; k != "enum" {
			kinds = append(kinds, k)
		}
		for _, k := range kinds {
			k := k
			e.add(DupGlobal, true, have+"/"+k, "existing", fmt.Sprintf("a second definition (%s) named like the %s %s", k, have, name), func(m *M) {
				addDef(m.F, k, name)
			})
		}
	}
}

// ---------------------------------------------------------------- duplicate field names / ids

func (e *enumerator) dupFields() {
	b := e.b
	sN, svN, ex1, ex2 := b.n("MutS"), b.n("MutSv"), b.n("MutE"), b.n("MutE2")
	for _, k := range []idlast.SLKind{idlast.SKStruct, idlast.SKUnion, idlast.SKException} {
		k := k
		e.add(DupField, true, slSite(k), "append", "two fields of one name in a new "+k.Keyword(), func(m *M) {
			addStructLike(m.F, SL(k, sN, Fd(1, "a", T("i32"), nil), Fd(2, "a", T("string"), nil)))
		})
		e.add(DupFieldId, true, slSite(k), "append", "two fields of one id in a new "+k.Keyword(), func(m *M) {
			addStructLike(m.F, SL(k, sN, Fd(1, "a", T("i32"), nil), Fd(1, "b", T("string"), nil)))
		})
	}
	e.add(DupField, true, "args", "append", "two arguments of one name", func(m *M) {
		m.F.Services = append(m.F.Services, Sv(svN, Fn("f", nil, Fs(Fd(1, "a", T("i32"), nil), Fd(2, "a", T("i32"), nil)), nil)))
	})
	e.add(DupFieldId, true, "args", "append", "two arguments of one id", func(m *M) {
		m.F.Services = append(m.F.Services, Sv(svN, Fn("f", nil, Fs(Fd(1, "a", T("i32"), nil), Fd(1, "b", T("i32"), nil)), nil)))
	})
	twoEx := func(m *M) {
		addStructLike(m.F, SL(idlast.SKException, ex1))
		addStructLike(m.F, SL(idlast.SKException, ex2))
	}
	e.add(DupField, true, "throws", "append", "two throws fields of one name", func(m *M) {
		twoEx(m)
		m.F.Services = append(m.F.Services, Sv(svN, Fn("f", nil, nil, Fs(Th(1, "a", T(ex1)), Th(2, "a", T(ex2))))))
	})
	e.add(DupFieldId, true, "throws", "append", "two throws fields of one id", func(m *M) {
		twoEx(m)
		m.F.Services = append(m.F.Services, Sv(svN, Fn("f", nil, nil, Fs(Th(1, "a", T(ex1)), Th(1, "b", T(ex2))))))
	})
	e.add(DupFieldId, true, "throws-id0", "append", "a throws field with id 0 on a function that returns a value", func(m *M) {
		addStructLike(m.F, SL(idlast.SKException, ex1))
		m.F.Services = append(m.F.Services, Sv(svN, Fn("f", T("i32"), nil, Fs(Th(0, "a", T(ex1))))))
	})

	// existing definitions
	pairs := func(n int) [][2]int {
		if n < 2 {
			return nil
		}
		out := [][2]int{{0, 1}}
		if n > 2 {
			out = append(out, [2]int{n - 2, n - 1}, [2]int{0, n - 1})
		}
		return out
	}
	both := func(site, where string, n int, get func(f *idlast.File) []*idlast.Field) {
		for _, p := range pairs(n) {
			p := p
			e.add(DupField, true, site, "existing", fmt.Sprintf("field %d of %s renamed to the name of field %d", p[1], where, p[0]), func(m *M) {
				fs := get(m.F)
				fs[p[1]].Name = fs[p[0]].Name
			})
			e.add(DupFieldId, true, site, "existing", fmt.Sprintf("field %d of %s given the id of field %d", p[1], where, p[0]), func(m *M) {
				fs := get(m.F)
				fs[p[1]].ID = fs[p[0]].ID
			})
		}
	}
	for i, s := range e.v.f.Structs {
		i := i
		both("struct", "struct "+string(s.Name), len(s.Fields), func(f *idlast.File) []*idlast.Field { return f.Structs[i].Fields })
	}
	for i, s := range e.v.f.Unions {
		i := i
		both("union", "union "+string(s.Name), len(s.Fields), func(f *idlast.File) []*idlast.Field { return f.Unions[i].Fields })
	}
	for i, s := range e.v.f.Exceptions {
		i := i
		both("exception", "exception "+string(s.Name), len(s.Fields), func(f *idlast.File) []*idlast.Field { return f.Exceptions[i].Fields })
	}
	for i, sv := range e.v.f.Services {
		for j, fn := range sv.Functions {
			i, j := i, j
			where := string(sv.Name) + "." + string(fn.Name)
			both("args", "the arguments of "+where, len(fn.Arguments), func(f *idlast.File) []*idlast.Field { return f.Services[i].Functions[j].Arguments })
			both("throws", "the throws of "+where, len(fn.Throws), func(f *idlast.File) []*idlast.Field { return f.Services[i].Functions[j].Throws })
			if !fn.Void && len(fn.Throws) > 0 {
				e.add(DupFieldId, true, "throws-id0", "existing", "first throws field of "+where+" (returns a value) given id 0", func(m *M) {
					m.F.Services[i].Functions[j].Throws[0].ID = 0
				})
			}
		}
	}
}

func (e *enumerator) dupFunction() {
	svN := e.b.n("MutSv")
	e.add(DupFunction, true, "service", "append", "two functions of one name in a new service", func(m *M) {
		m.F.Services = append(m.F.Services, Sv(svN, Fn("f", nil, nil, nil), Fn("f", T("i32"), nil, nil)))
	})
	for i, sv := range e.v.f.Services {
		i := i
		if len(sv.Functions) >= 2 {
			last := len(sv.Functions) - 1
			e.add(DupFunction, true, "service", "existing", fmt.Sprintf("function %d of service %s renamed to the name of function 0", last, sv.Name), func(m *M) {
				fs := m.F.Services[i].Functions
				fs[last].Name = fs[0].Name
			})
		}
		if len(sv.Functions) >= 1 {
			e.add(DupFunction, true, "service", "existing", fmt.Sprintf("a second function named like function 0 of service %s", sv.Name), func(m *M) {
				s := m.F.Services[i]
				s.Functions = append(s.Functions, Fn(string(s.Functions[0].Name), nil, nil, nil))
			})
		}
	}
}

// ---------------------------------------------------------------- enums

var outOfInt32 = []int64{2147483648, -2147483649, 9223372036854775807, -9223372036854775808}

func (e *enumerator) enums() {
	enN := e.b.n("MutEn")
	e.add(DupEnumName, true, "enum", "append", "two values of one name in a new enum", func(m *M) {
		addEnum(m.F, enN, EV("MUT_A", 0), EV("MUT_A", 1))
	})
	e.add(DupEnumNumber, true, "enum", "append", "two names of one value in a new enum", func(m *M) {
		addEnum(m.F, enN, EV("MUT_A", 1), EV("MUT_B", 1))
	})
	for _, x := range outOfInt32 {
		x := x
		e.add(EnumOutOfInt32, true, "enum", "append", fmt.Sprintf("enum value %d in a new enum", x), func(m *M) {
			addEnum(m.F, enN, EV("MUT_A", 0), EV("MUT_B", x))
		})
	}
	for i, en := range e.v.f.Enums {
		i := i
		n := len(en.Values)
		if n >= 2 {
			e.add(DupEnumName, true, "enum", "existing", fmt.Sprintf("last value of enum %s renamed to the name of the first", en.Name), func(m *M) {
				vs := m.F.Enums[i].Values
				vs[n-1].Name = vs[0].Name
			})
			e.add(DupEnumNumber, true, "enum", "existing", fmt.Sprintf("last value of enum %s given the number of the first", en.Name), func(m *M) {
				vs := m.F.Enums[i].Values
				vs[n-1].Value = vs[0].Value
			})
		}
		if n >= 1 {
			for _, x := range outOfInt32 {
				x := x
				e.add(EnumOutOfInt32, true, "enum", "existing", fmt.Sprintf("last value of enum %s set to %d", en.Name, x), func(m *M) {
					vs := m.F.Enums[i].Values
					vs[n-1].Value = x
				})
			}
		}
	}
}

// ---------------------------------------------------------------- type names

// typeSites: the places a (broken) type can be written at, as fresh definitions
var typeSites = []string{"typedef", "constant", "struct", "union", "exception", "list-element", "set-element", "map-key", "map-value", "result", "argument", "throws",
	"map-key/typedef", "map-key/nested", "map-key/argument", "map-key/result", "map-key/constant", "map-key/throws-sibling", "set-element/nested"}

func (e *enumerator) placeType(site string, m *M, t *idlast.Type) {
	b := e.b
	fd := Fd(1, "mut", t, nil)
	switch site {
	case "typedef":
		addTypedef(m.F, b.n("MutTd"), t)
	case "constant":
		addConst(m.F, b.n("MutC"), t, I(0))
	case "struct":
		addStructLike(m.F, SL(idlast.SKStruct, b.n("MutS"), fd))
	case "union":
		addStructLike(m.F, SL(idlast.SKUnion, b.n("MutU"), fd))
	case "exception":
		addStructLike(m.F, SL(idlast.SKException, b.n("MutE"), fd))
	case "list-element":
		addStructLike(m.F, SL(idlast.SKStruct, b.n("MutS"), Fd(1, "mut", ListOf(t), nil)))
	case "set-element":
		addTypedef(m.F, b.n("MutTd"), SetOf(t))
	case "map-key":
		addStructLike(m.F, SL(idlast.SKStruct, b.n("MutS"), Fd(1, "mut", MapOf(t, T("i32")), nil)))
	case "map-value":
		m.F.Services = append(m.F.Services, Sv(b.n("MutSv"), Fn("f", MapOf(T("string"), ListOf(t)), nil, nil)))
	// the KEY of a map whose value type is fine (an error on the key must not be lost
	// when the value resolves), in every kind of position
	case "map-key/typedef":
		addTypedef(m.F, b.n("MutTd"), MapOf(t, T("string")))
	case "map-key/nested":
		addStructLike(m.F, SL(idlast.SKStruct, b.n("MutS"), Fd(1, "mut", ListOf(MapOf(t, ListOf(T("i64")))), nil)))
	case "map-key/argument":
		m.F.Services = append(m.F.Services, Sv(b.n("MutSv"), Fn("f", nil, Fs(Fd(1, "mut", MapOf(t, T("string")), nil)), nil)))
	case "map-key/result":
		m.F.Services = append(m.F.Services, Sv(b.n("MutSv"), Fn("f", MapOf(t, T("i32")), nil, nil)))
	case "map-key/constant":
		addConst(m.F, b.n("MutC"), MapOf(t, T("i32")), Mp())
	case "map-key/throws-sibling":
		addStructLike(m.F, SL(idlast.SKException, b.n("MutE"), Fd(1, "mut", MapOf(t, T("string")), nil)))
		m.F.Services = append(m.F.Services, Sv(b.n("MutSv"), Fn("f", nil, nil, Fs(Th(1, "e", T(b.n("MutE")))))))
	case "set-element/nested":
		addStructLike(m.F, SL(idlast.SKStruct, b.n("MutS"), Fd(1, "mut", MapOf(T("string"), SetOf(t)), nil)))
	case "result":
		m.F.Services = append(m.F.Services, Sv(b.n("MutSv"), Fn("f", t, nil, nil)))
	case "argument":
		m.F.Services = append(m.F.Services, Sv(b.n("MutSv"), Fn("f", nil, Fs(fd), nil)))
	case "throws":
		m.F.Services = append(m.F.Services, Sv(b.n("MutSv"), Fn("f", nil, nil, Fs(Th(1, "mut", t)))))
	default:
		panic("idlmut: type site " + site)
	}
}

type typeSlot struct {
	site, where string
	set         func(f *idlast.File, t *idlast.Type)
}

// existing places of the file whose type can be replaced
func (e *enumerator) typeSlots() []typeSlot {
	var out []typeSlot
	f := e.v.f
	for i, td := range f.Typedefs {
		i := i
		out = append(out, typeSlot{"typedef", "target of typedef " + string(td.Alias), func(f *idlast.File, t *idlast.Type) { f.Typedefs[i].Type = t }})
	}
	slots := func(kind string, n int, get func(f *idlast.File, i int) *idlast.StructLike) {
		for i := 0; i < n; i++ {
			i := i
			s := get(f, i)
			if len(s.Fields) == 0 {
				continue
			}
			j := len(s.Fields) - 1
			out = append(out, typeSlot{kind, fmt.Sprintf("type of the last field of %s %s", kind, s.Name), func(f *idlast.File, t *idlast.Type) {
				fd := get(f, i).Fields[j]
				fd.Type, fd.Default = t, nil
			}})
		}
	}
	slots("struct", len(f.Structs), func(f *idlast.File, i int) *idlast.StructLike { return f.Structs[i] })
	slots("union", len(f.Unions), func(f *idlast.File, i int) *idlast.StructLike { return f.Unions[i] })
	slots("exception", len(f.Exceptions), func(f *idlast.File, i int) *idlast.StructLike { return f.Exceptions[i] })
	for i, sv := range f.Services {
		for j, fn := range sv.Functions {
			i, j := i, j
			where := string(sv.Name) + "." + string(fn.Name)
			if !fn.Void {
				out = append(out, typeSlot{"result", "result type of " + where, func(f *idlast.File, t *idlast.Type) { f.Services[i].Functions[j].FunctionType = t }})
			}
			if len(fn.Arguments) > 0 {
				out = append(out, typeSlot{"argument", "type of the first argument of " + where, func(f *idlast.File, t *idlast.Type) {
					a := f.Services[i].Functions[j].Arguments[0]
					a.Type, a.Default = t, nil
				}})
			}
			if len(fn.Throws) > 0 {
				out = append(out, typeSlot{"throws", "type of the first throws field of " + where, func(f *idlast.File, t *idlast.Type) {
					f.Services[i].Functions[j].Throws[0].Type = t
				}})
			}
		}
	}
	return out
}

func (e *enumerator) typeEverywhere(rule int, desc, name string, prep func(m *M), existing bool) {
	for _, site := range typeSites {
		site := site
		e.add(rule, true, site, "append", desc+" as "+site, func(m *M) {
			if prep != nil {
				prep(m)
			}
			e.placeType(site, m, T(name))
		})
	}
	if existing {
		for _, sl := range e.typeSlots() {
			sl := sl
			e.add(rule, true, sl.site, "existing", desc+" as "+sl.where, func(m *M) {
				if prep != nil {
					prep(m)
				}
				sl.set(m.F, T(name))
			})
		}
	}
}

func (e *enumerator) undefinedType() {
	b := e.b
	nope := b.n("MutNope")
	e.typeEverywhere(UndefinedType, "undefined type "+nope, nope, nil, true)
	seen := map[string]bool{}
	for _, iv := range e.v.incs {
		if seen[iv.Prefix] || iv.Prefix == "" {
			continue
		}
		seen[iv.Prefix] = true
		n := iv.Prefix + "." + nope
		e.typeEverywhere(UndefinedType, "undefined type "+n+" behind an include prefix", n, nil, false)
	}
	nosuch := b.n("mutnosuch") + ".T"
	e.typeEverywhere(UndefinedType, "type "+nosuch+" behind a prefix no include has", nosuch, nil, false)
}

// typeBehind says whether some include of v with the prefix defines name as a type.
func (v *fileView) typeBehind(prefix, name string) bool {
	for _, iv := range v.incs {
		if iv.Prefix == prefix && iv.Target != nil && isTypeKind(iv.Target.kinds[name]) {
			return true
		}
	}
	return false
}

func (v *fileView) serviceBehind(prefix, name string) bool {
	for _, iv := range v.incs {
		if iv.Prefix == prefix && iv.Target != nil && iv.Target.kinds[name] == "service" {
			return true
		}
	}
	return false
}

func (e *enumerator) nonType() {
	b := e.b
	k, sv := b.n("MutK"), b.n("MutBaseSv")
	e.typeEverywhere(NonTypeAsType, "the new constant "+k+" used as a type", k, func(m *M) { addConst(m.F, k, T("i32"), I(1)) }, false)
	e.typeEverywhere(NonTypeAsType, "the new service "+sv+" used as a type", sv, func(m *M) { m.F.Services = append(m.F.Services, Sv(sv)) }, false)
	nc, ns := 0, 0
	for _, name := range e.sortedDefs() {
		switch e.v.kinds[name] {
		case "const":
			if nc < 2 {
				e.typeEverywhere(NonTypeAsType, "the constant "+name+" used as a type", name, nil, nc == 0)
			}
			nc++
		case "service":
			if ns < 2 {
				e.typeEverywhere(NonTypeAsType, "the service "+name+" used as a type", name, nil, ns == 0)
			}
			ns++
		}
	}
	for _, iv := range e.v.incs {
		if iv.Target == nil {
			continue
		}
		var names []string
		for n := range iv.Target.kinds {
			names = append(names, n)
		}
		sort.Strings(names)
		nc, ns = 0, 0
		for _, n := range names {
			kd := iv.Target.kinds[n]
			if (kd != "const" && kd != "service") || e.v.typeBehind(iv.Prefix, n) {
				continue
			}
			if kd == "const" {
				nc++
				if nc > 1 {
					continue
				}
			} else {
				ns++
				if ns > 1 {
					continue
				}
			}
			q := iv.Prefix + "." + n
			e.typeEverywhere(NonTypeAsType, "the "+kd+" "+q+" of an included file used as a type", q, nil, false)
		}
	}
}

// ---------------------------------------------------------------- typedef cycles

func (e *enumerator) typedefCycle() {
	b := e.b
	t := func(i int) string { return b.n(fmt.Sprintf("MutT%d", i)) }
	// resolvable typedef-of-typedef chain, written so that the fixpoint of ResolveTypedefs
	// needs several rounds (MutR2 -> MutR1 -> MutR0 -> i32, declared backwards) and used
	// by a struct: the cycle must be diagnosed although OTHER typedef references of the
	// file keep making progress
	resolvable := func(m *M) {
		addTypedef(m.F, b.n("MutR2"), T(b.n("MutR1")))
		addTypedef(m.F, b.n("MutR1"), T(b.n("MutR0")))
		addTypedef(m.F, b.n("MutR0"), T("i32"))
		addStructLike(m.F, SL(idlast.SKStruct, b.n("MutRS"), Fd(1, "a", T(b.n("MutR2")), nil), Fd(2, "b", ListOf(T(b.n("MutR1"))), nil)))
	}
	for n := 1; n <= 3; n++ {
		n := n
		for _, before := range []bool{true, false} {
			before := before
			what := fmt.Sprintf("typedef cycle of length %d next to a typedef chain that resolves (chain declared %s the cycle)", n, map[bool]string{true: "before", false: "after"}[before])
			e.add(TypedefCycle, true, fmt.Sprintf("typedef/len%d+resolvable", n), "append", what, func(m *M) {
				if before {
					resolvable(m)
				}
				for i := 0; i < n; i++ {
					addTypedef(m.F, t(i), T(t((i+1)%n)))
				}
				if !before {
					resolvable(m)
				}
			})
		}
	}
	for n := 1; n <= 3; n++ {
		for _, chain := range []bool{false, true} {
			for _, withConst := range []bool{false, true} {
				n, chain, withConst := n, chain, withConst
				what := fmt.Sprintf("typedef cycle of length %d", n)
				site := fmt.Sprintf("typedef/len%d", n)
				if chain {
					what += " with a chain leading into it"
					site += "+chain"
				}
				if withConst {
					what += fmt.Sprintf(" and a constant %s.x", t(0))
					site += "+const"
				}
				e.add(TypedefCycle, true, site, "append", what, func(m *M) {
					// typedef T1 T0; typedef T2 T1; ...; typedef T0 T(n-1)
					for i := 0; i < n; i++ {
						addTypedef(m.F, t(i), T(t((i+1)%n)))
					}
					if chain {
						addTypedef(m.F, b.n("MutInto"), T(t(0)))
						addStructLike(m.F, SL(idlast.SKStruct, b.n("MutS"), Fd(1, "a", ListOf(T(b.n("MutInto"))), nil)))
					}
					if withConst {
						addConst(m.F, b.n("MutC"), T("i32"), Id(t(0)+".x"))
					}
				})
			}
		}
	}
	for i, td := range e.v.f.Typedefs {
		i := i
		e.add(TypedefCycle, true, "typedef/len1", "existing", fmt.Sprintf("typedef %s retargeted to itself", td.Alias), func(m *M) {
			m.F.Typedefs[i].Type = T(string(m.F.Typedefs[i].Alias))
		})
		if i > 0 {
			e.add(TypedefCycle, true, "typedef/len2", "existing", fmt.Sprintf("typedefs %s and %s retargeted to each other", e.v.f.Typedefs[0].Alias, td.Alias), func(m *M) {
				a, c := m.F.Typedefs[0], m.F.Typedefs[i]
				a.Type, c.Type = T(string(c.Alias)), T(string(a.Alias))
			})
		}
	}
}

// ---------------------------------------------------------------- identifiers used as values

var valueSites = []string{"constant", "default", "union-default", "exception-default", "arg-default", "list-literal", "map-literal-value", "map-literal-key"}

func (e *enumerator) placeValue(site string, m *M, t *idlast.Type, v *idlast.ConstValue) {
	b := e.b
	switch site {
	case "constant":
		addConst(m.F, b.n("MutC"), t, v)
	case "default":
		addStructLike(m.F, SL(idlast.SKStruct, b.n("MutS"), Fd(1, "mut", t, v)))
	case "union-default":
		addStructLike(m.F, SL(idlast.SKUnion, b.n("MutU"), Fd(1, "mut", t, v)))
	case "exception-default":
		addStructLike(m.F, SL(idlast.SKException, b.n("MutE"), Fd(1, "mut", t, v)))
	case "arg-default":
		m.F.Services = append(m.F.Services, Sv(b.n("MutSv"), Fn("f", nil, Fs(Fd(1, "mut", t, v)), nil)))
	case "list-literal":
		addConst(m.F, b.n("MutC"), ListOf(t), L(v))
	case "map-literal-value":
		addStructLike(m.F, SL(idlast.SKStruct, b.n("MutS"), Fd(1, "mut", MapOf(T("string"), t), Mp(S("k"), v))))
	case "map-literal-key":
		addConst(m.F, b.n("MutC"), MapOf(t, T("string")), Mp(v, S("k")))
	default:
		panic("idlmut: value site " + site)
	}
}

func (e *enumerator) valueEverywhere(rule int, strict bool, desc string, sites []string, prep func(m *M), t *idlast.Type, v *idlast.ConstValue) {
	for _, site := range sites {
		site := site
		e.add(rule, strict, site, "append", desc+" as "+site, func(m *M) {
			if prep != nil {
				prep(m)
			}
			e.placeValue(site, m, t, v)
		})
	}
}

func (e *enumerator) undefinedConst() {
	b := e.b
	nope := b.n("MutNope")
	e.valueEverywhere(UndefinedConst, true, "undefined identifier "+nope, valueSites, nil, T("i32"), Id(nope))
	enN := b.n("MutEn")
	e.valueEverywhere(UndefinedConst, true, "undefined value "+enN+"."+nope+" of a new enum", valueSites,
		func(m *M) { addEnum(m.F, enN, EV("MUT_A", 0)) }, T(enN), Id(enN+"."+nope))
	for i, en := range e.v.f.Enums {
		if i >= 2 {
			break
		}
		name := string(en.Name)
		e.valueEverywhere(UndefinedConst, true, "undefined value "+name+"."+nope+" of an existing enum", valueSites, nil, T(name), Id(name+"."+nope))
	}
	seen := map[string]bool{}
	for _, iv := range e.v.incs {
		if iv.Target == nil || seen[iv.Prefix] {
			continue
		}
		seen[iv.Prefix] = true
		e.valueEverywhere(UndefinedConst, true, "undefined constant "+iv.Prefix+"."+nope+" behind an include prefix", valueSites, nil, T("i32"), Id(iv.Prefix+"."+nope))
		for _, en := range iv.Target.f.Enums {
			q := iv.Prefix + "." + string(en.Name)
			e.valueEverywhere(UndefinedConst, true, "undefined value "+q+"."+nope+" of an enum of an included file", valueSites, nil, T(q), Id(q+"."+nope))
			break
		}
	}
	for i, c := range e.v.f.Constants {
		i := i
		e.add(UndefinedConst, true, "constant", "existing", fmt.Sprintf("value of constant %s replaced by the undefined identifier %s", c.Name, nope), func(m *M) {
			m.F.Constants[i].Value = Id(nope)
		})
	}
}

func validIdent(s string) bool {
	if s == "" {
		return false
	}
	for i := 0; i < len(s); i++ {
		c := s[i]
		ok := c == '_' || (c >= 'a' && c <= 'z') || (c >= 'A' && c <= 'Z') || (i > 0 && c >= '0' && c <= '9')
		if !ok {
			return false
		}
	}
	return true
}

func (e *enumerator) ambiguousConst() {
	b := e.b
	sites := []string{"constant", "default", "arg-default", "list-literal"}
	k := b.n("MUT_K")
	// fresh files: two includes of one base name both defining the constant
	pa, pb := b.n("muta")+"/"+b.n("mutinc")+".thrift", b.n("mutb")+"/"+b.n("mutinc")+".thrift"
	e.valueEverywhere(AmbiguousConst, true, "constant "+b.n("mutinc")+"."+k+" defined by two new includes of one base name", sites, func(m *M) {
		for _, p := range []string{pa, pb} {
			nf := NewFile(p)
			addConst(nf, k, T("i32"), I(7))
			m.addFile(nf)
			m.include(p)
		}
	}, T("i32"), Id(b.n("mutinc")+"."+k))
	// a new include and a local enum named like its prefix
	px := b.n("mutx")
	e.valueEverywhere(AmbiguousConst, true, px+"."+k+": value of a new local enum named like the prefix of a new include that defines the constant", sites, func(m *M) {
		nf := NewFile(px + ".thrift")
		addConst(nf, k, T("i32"), I(7))
		m.addFile(nf)
		m.include(px + ".thrift")
		addEnum(m.F, px, EV(k, 0))
	}, T("i32"), Id(px+"."+k))
	// existing includes
	seen := map[string]bool{}
	for _, iv := range e.v.incs {
		if iv.Target == nil || seen[iv.Prefix] {
			continue
		}
		seen[iv.Prefix] = true
		iv := iv
		// the constants behind the prefix
		var c string
		for _, x := range iv.Target.f.Constants {
			c = string(x.Name)
			break
		}
		if c != "" && validIdent(iv.Prefix) && e.v.kinds[iv.Prefix] == "" {
			e.valueEverywhere(AmbiguousConst, true, iv.Prefix+"."+c+": value of a new local enum named like an include prefix, and constant of that include", sites, func(m *M) {
				addEnum(m.F, iv.Prefix, EV(c, 0))
			}, T("i32"), Id(iv.Prefix+"."+c))
		}
		dup := b.n("mutdup") + "/" + iv.Prefix + ".thrift"
		if c != "" {
			e.valueEverywhere(AmbiguousConst, true, iv.Prefix+"."+c+": a second include of the same base name defines the constant too", sites, func(m *M) {
				nf := NewFile(dup)
				addConst(nf, c, T("i32"), I(7))
				m.addFile(nf)
				m.include(dup)
			}, T("i32"), Id(iv.Prefix+"."+c))
		}
		for _, en := range iv.Target.f.Enums {
			if len(en.Values) == 0 {
				continue
			}
			en := en
			val := string(en.Values[0].Name)
			id := iv.Prefix + "." + string(en.Name) + "." + val
			e.valueEverywhere(AmbiguousConst, true, id+": a second include of the same base name defines the enum value too", sites, func(m *M) {
				nf := NewFile(dup)
				addEnum(nf, string(en.Name), EV(val, 0))
				m.addFile(nf)
				m.include(dup)
			}, T("i32"), Id(id))
			break
		}
	}
}

// ---------------------------------------------------------------- kinds of values

var typedSites = []string{"constant", "default", "arg-default"}

func (e *enumerator) placeTyped(site string, m *M, t *idlast.Type, v *idlast.ConstValue) {
	e.placeValue(site, m, t, v)
}

type namedValue struct {
	name string
	v    func() *idlast.ConstValue
}

var (
	vString = namedValue{"a string literal", func() *idlast.ConstValue { return S("s") }}
	vInt    = namedValue{"an integer", func() *idlast.ConstValue { return I(1) }}
	vDouble = namedValue{"a double", D15}
	vList   = namedValue{"a list literal", func() *idlast.ConstValue { return L(I(1)) }}
	vSList  = namedValue{"a list literal", func() *idlast.ConstValue { return L(S("a")) }}
	vMap    = namedValue{"a map literal", func() *idlast.ConstValue { return Mp(S("a"), I(1)) }}
	vTrue   = namedValue{"the identifier true", func() *idlast.ConstValue { return Id("true") }}
)

func (e *enumerator) kindMismatch() {
	b := e.b
	for _, tn := range []string{"bool", "byte", "i8", "i16", "i32", "i64", "double", "string", "binary"} {
		var vals []namedValue
		switch tn {
		case "bool", "double":
			vals = []namedValue{vString, vList, vMap}
		case "string", "binary":
			vals = []namedValue{vInt, vDouble, vSList, vMap, vTrue}
		default:
			vals = []namedValue{vString, vDouble, vList, vMap}
		}
		for _, nv := range vals {
			tn, nv := tn, nv
			for _, site := range typedSites {
				site := site
				e.add(ConstKindMismatch, true, site, "append", fmt.Sprintf("%s for %s as %s", nv.name, tn, site), func(m *M) {
					e.placeTyped(site, m, T(tn), nv.v())
				})
			}
		}
	}
	sN := b.n("MutS2")
	structVals := []namedValue{vInt, vString, vList, vDouble}
	for _, nv := range structVals {
		nv := nv
		for _, site := range typedSites {
			site := site
			e.add(ConstKindMismatch, true, site, "append", fmt.Sprintf("%s for a new struct of the file as %s", nv.name, site), func(m *M) {
				addStructLike(m.F, SL(idlast.SKStruct, sN, Fd(1, "a", T("i32"), nil)))
				e.placeTyped(site, m, T(sN), nv.v())
			})
		}
	}
	for i, s := range structLikes(e.v.f) {
		nv := structVals[i%len(structVals)]
		name := string(s.Name)
		site := typedSites[i%len(typedSites)]
		e.add(ConstKindMismatch, true, site, "append", fmt.Sprintf("%s for the existing %s %s as %s", nv.name, s.Category.Keyword(), name, site), func(m *M) {
			e.placeTyped(site, m, T(name), nv.v())
		})
	}
	// existing constants / fields of a scalar type named directly
	wrong := func(tn string) *idlast.ConstValue {
		switch tn {
		case "string", "binary":
			return I(1)
		case "bool", "byte", "i8", "i16", "i32", "i64", "double":
			return S("s")
		}
		return nil
	}
	for i, c := range e.v.f.Constants {
		i := i
		if w := wrong(string(c.Type.Name)); w != nil {
			e.add(ConstKindMismatch, true, "constant", "existing", fmt.Sprintf("value of the %s constant %s replaced by a value of the wrong kind", c.Type.Name, c.Name), func(m *M) {
				m.F.Constants[i].Value = wrong(string(m.F.Constants[i].Type.Name))
			})
		}
	}
	for i, s := range e.v.f.Structs {
		for j, fd := range s.Fields {
			i, j := i, j
			if w := wrong(string(fd.Type.Name)); w != nil {
				e.add(ConstKindMismatch, true, "default", "existing", fmt.Sprintf("default of the %s field %s.%s set to a value of the wrong kind", fd.Type.Name, s.Name, fd.Name), func(m *M) {
					x := m.F.Structs[i].Fields[j]
					x.Default = wrong(string(x.Type.Name))
				})
				break
			}
		}
	}
	for i, sv := range e.v.f.Services {
		for j, fn := range sv.Functions {
			for k, fd := range fn.Arguments {
				i, j, k := i, j, k
				if w := wrong(string(fd.Type.Name)); w != nil {
					e.add(ConstKindMismatch, true, "arg-default", "existing", fmt.Sprintf("default of the %s argument %s of %s.%s set to a value of the wrong kind", fd.Type.Name, fd.Name, sv.Name, fn.Name), func(m *M) {
						x := m.F.Services[i].Functions[j].Arguments[k]
						x.Default = wrong(string(x.Type.Name))
					})
					break
				}
			}
		}
	}
	// outside the predicate: the mismatch shows only through a typedef, a container or an include
	td := b.n("MutTd")
	for _, site := range typedSites {
		site := site
		e.add(ConstKindMismatch, false, site+"/via-typedef", "append", "a string literal for a typedef of i32 as "+site, func(m *M) {
			addTypedef(m.F, td, T("i32"))
			e.placeTyped(site, m, T(td), S("s"))
		})
		e.add(ConstKindMismatch, false, site+"/list-element", "append", "a string literal inside a list<i32> literal as "+site, func(m *M) {
			e.placeTyped(site, m, ListOf(T("i32")), L(I(1), S("s")))
		})
		e.add(ConstKindMismatch, false, site+"/set-element", "append", "an integer inside a set<string> literal as "+site, func(m *M) {
			e.placeTyped(site, m, SetOf(T("string")), L(S("a"), I(1)))
		})
		e.add(ConstKindMismatch, false, site+"/map-value", "append", "a string literal as a value of a map<string,i32> literal as "+site, func(m *M) {
			e.placeTyped(site, m, MapOf(T("string"), T("i32")), Mp(S("a"), S("s")))
		})
		e.add(ConstKindMismatch, false, site+"/map-key", "append", "a string literal as a key of a map<i32,string> literal as "+site, func(m *M) {
			e.placeTyped(site, m, MapOf(T("i32"), T("string")), Mp(S("a"), S("b")))
		})
		e.add(ConstKindMismatch, false, site+"/struct-via-typedef", "append", "an integer for a typedef of a new struct as "+site, func(m *M) {
			addStructLike(m.F, SL(idlast.SKStruct, sN, Fd(1, "a", T("i32"), nil)))
			addTypedef(m.F, td, T(sN))
			e.placeTyped(site, m, T(td), I(1))
		})
		e.add(ConstKindMismatch, false, site+"/struct-field", "append", "a string literal for the i32 field inside a struct literal as "+site, func(m *M) {
			addStructLike(m.F, SL(idlast.SKStruct, sN, Fd(1, "a", T("i32"), nil)))
			e.placeTyped(site, m, T(sN), Mp(S("a"), S("s")))
		})
	}
	for _, iv := range e.v.incs {
		if iv.Target == nil {
			continue
		}
		done := false
		for _, s := range iv.Target.f.Structs {
			q := iv.Prefix + "." + string(s.Name)
			if iv2 := e.firstTypeBehind(iv.Prefix, string(s.Name)); iv2 != iv.Target {
				continue
			}
			for _, site := range typedSites {
				site := site
				e.add(ConstKindMismatch, false, site+"/include-struct", "append", "an integer for the struct "+q+" of an included file as "+site, func(m *M) {
					e.placeTyped(site, m, T(q), I(1))
				})
			}
			done = true
			break
		}
		if done {
			break
		}
	}
}

// firstTypeBehind: the file the type name prefix.name binds to (first include with the
// prefix that defines it as a type).
func (e *enumerator) firstTypeBehind(prefix, name string) *fileView {
	for _, iv := range e.v.incs {
		if iv.Prefix == prefix && iv.Target != nil && isTypeKind(iv.Target.kinds[name]) {
			return iv.Target
		}
	}
	return nil
}

func (e *enumerator) badKey() {
	b := e.b
	sN, kN, td := b.n("MutS2"), b.n("MutK"), b.n("MutTd")
	newS := func(m *M) { addStructLike(m.F, SL(idlast.SKStruct, sN, Fd(1, "a", T("i32"), nil))) }
	type keyForm struct {
		name string
		prep func(m *M)
		v    func() *idlast.ConstValue
	}
	forms := []keyForm{
		{"a key naming no field", nil, func() *idlast.ConstValue { return Mp(S("mut_nope"), I(1)) }},
		{"a known key and a key naming no field", nil, func() *idlast.ConstValue { return Mp(S("a"), I(1), S("mut_nope"), I(1)) }},
		{"an integer key", nil, func() *idlast.ConstValue { return Mp(I(1), I(1)) }},
		{"an identifier key", func(m *M) { addConst(m.F, kN, T("string"), S("a")) }, func() *idlast.ConstValue { return Mp(Id(kN), I(1)) }},
	}
	for _, kf := range forms {
		kf := kf
		for _, site := range typedSites {
			site := site
			e.add(StructLiteralBadKey, true, site, "append", fmt.Sprintf("literal of a new struct with %s as %s", kf.name, site), func(m *M) {
				newS(m)
				if kf.prep != nil {
					kf.prep(m)
				}
				e.placeTyped(site, m, T(sN), kf.v())
			})
		}
	}
	for i, s := range structLikes(e.v.f) {
		name := string(s.Name)
		site := typedSites[i%len(typedSites)]
		form := i % 2
		e.add(StructLiteralBadKey, true, site, "append", fmt.Sprintf("literal of the existing %s %s with a bad key as %s", s.Category.Keyword(), name, site), func(m *M) {
			if form == 0 {
				e.placeTyped(site, m, T(name), Mp(S("mut_nope"), I(1)))
			} else {
				e.placeTyped(site, m, T(name), Mp(I(1), I(1)))
			}
		})
	}
	for _, site := range typedSites {
		site := site
		e.add(StructLiteralBadKey, false, site+"/via-typedef", "append", "literal with an unknown key for a typedef of a new struct as "+site, func(m *M) {
			newS(m)
			addTypedef(m.F, td, T(sN))
			e.placeTyped(site, m, T(td), Mp(S("mut_nope"), I(1)))
		})
		e.add(StructLiteralBadKey, false, site+"/list-element", "append", "literal with an integer key inside a list of a new struct as "+site, func(m *M) {
			newS(m)
			e.placeTyped(site, m, ListOf(T(sN)), L(Mp(I(1), I(1))))
		})
	}
	for _, iv := range e.v.incs {
		if iv.Target == nil {
			continue
		}
		done := false
		for _, s := range iv.Target.f.Structs {
			if e.firstTypeBehind(iv.Prefix, string(s.Name)) != iv.Target {
				continue
			}
			q := iv.Prefix + "." + string(s.Name)
			for _, site := range typedSites {
				site := site
				e.add(StructLiteralBadKey, false, site+"/include-struct", "append", "literal with an unknown key for the struct "+q+" of an included file as "+site, func(m *M) {
					e.placeTyped(site, m, T(q), Mp(S("mut_nope"), I(1)))
				})
			}
			done = true
			break
		}
		if done {
			break
		}
	}
}

// ---------------------------------------------------------------- functions, services, unions

func (e *enumerator) oneway() {
	b := e.b
	svN, exN := b.n("MutSv"), b.n("MutE")
	oneway := func(f *idlast.Function) *idlast.Function { f.Oneway = true; return f }
	e.add(OnewayReturns, true, "service", "append", "a oneway function that returns i32 in a new service", func(m *M) {
		m.F.Services = append(m.F.Services, Sv(svN, oneway(Fn("f", T("i32"), nil, nil))))
	})
	e.add(OnewayReturns, true, "service", "append", "a oneway function that returns a list in a new service", func(m *M) {
		m.F.Services = append(m.F.Services, Sv(svN, Fn("g", nil, nil, nil), oneway(Fn("f", ListOf(T("string")), Fs(Fd(1, "a", T("i32"), nil)), nil))))
	})
	e.add(OnewayThrows, true, "service", "append", "a oneway void function with a throws list in a new service", func(m *M) {
		addStructLike(m.F, SL(idlast.SKException, exN))
		m.F.Services = append(m.F.Services, Sv(svN, oneway(Fn("f", nil, nil, Fs(Th(1, "e", T(exN)))))))
	})
	for i, sv := range e.v.f.Services {
		for j, fn := range sv.Functions {
			i, j := i, j
			where := string(sv.Name) + "." + string(fn.Name)
			if fn.Oneway {
				e.add(OnewayReturns, true, "service", "existing", "the oneway function "+where+" made to return i32", func(m *M) {
					f := m.F.Services[i].Functions[j]
					f.Void, f.FunctionType = false, T("i32")
				})
				e.add(OnewayThrows, true, "service", "existing", "the oneway function "+where+" given a throws list", func(m *M) {
					addStructLike(m.F, SL(idlast.SKException, exN))
					f := m.F.Services[i].Functions[j]
					f.Throws = Fs(Th(1, "e", T(exN)))
				})
				continue
			}
			if !fn.Void {
				e.add(OnewayReturns, true, "service", "existing", "the function "+where+" (returns a value) made oneway", func(m *M) {
					m.F.Services[i].Functions[j].Oneway = true
				})
			} else if len(fn.Throws) > 0 {
				e.add(OnewayThrows, true, "service", "existing", "the void function "+where+" (throws) made oneway", func(m *M) {
					m.F.Services[i].Functions[j].Oneway = true
				})
			}
		}
	}
}

func (e *enumerator) baseService() {
	b := e.b
	svN, nope := b.n("MutSv"), b.n("MutNope")
	var bad [][2]string // name, description
	bad = append(bad, [2]string{nope, "an undefined name"})
	bad = append(bad, [2]string{b.n("mutnosuch") + ".S", "a name behind a prefix no include has"})
	for _, name := range e.sortedDefs() {
		if e.v.kinds[name] != "service" {
			bad = append(bad, [2]string{name, "the " + e.v.kinds[name] + " " + name})
			break
		}
	}
	seen := map[string]bool{}
	for _, iv := range e.v.incs {
		if iv.Target == nil || seen[iv.Prefix] {
			continue
		}
		seen[iv.Prefix] = true
		bad = append(bad, [2]string{iv.Prefix + "." + nope, "an undefined name behind an include prefix"})
		var names []string
		for n := range iv.Target.kinds {
			names = append(names, n)
		}
		sort.Strings(names)
		for _, n := range names {
			if iv.Target.kinds[n] != "service" && !e.v.serviceBehind(iv.Prefix, n) {
				bad = append(bad, [2]string{iv.Prefix + "." + n, "the " + iv.Target.kinds[n] + " " + n + " of an included file"})
				break
			}
		}
	}
	for _, bd := range bad {
		bd := bd
		e.add(UnknownBaseService, true, "service", "append", "a new service extends "+bd[1]+" ("+bd[0]+")", func(m *M) {
			s := Sv(svN, Fn("f", nil, nil, nil))
			s.Extends = idlast.B(bd[0])
			m.F.Services = append(m.F.Services, s)
		})
	}
	// a struct of the file as base, with a fresh struct
	sN := b.n("MutS")
	e.add(UnknownBaseService, true, "service", "append", "a new service extends a new struct", func(m *M) {
		addStructLike(m.F, SL(idlast.SKStruct, sN, Fd(1, "a", T("i32"), nil)))
		s := Sv(svN)
		s.Extends = idlast.B(sN)
		m.F.Services = append(m.F.Services, s)
	})
	for i, sv := range e.v.f.Services {
		i := i
		for k, bd := range bad {
			if k >= 2 && (i+k)%2 == 0 {
				continue
			}
			bd := bd
			what := "service " + string(sv.Name) + " made to extend " + bd[1] + " (" + bd[0] + ")"
			e.add(UnknownBaseService, true, "service", "existing", what, func(m *M) {
				m.F.Services[i].Extends = idlast.B(bd[0])
			})
		}
	}
}

func freeIDs(fs []*idlast.Field, n int) []int32 {
	used := map[int32]bool{}
	for _, f := range fs {
		used[f.ID] = true
	}
	var out []int32
	for id := int32(1); len(out) < n; id++ {
		if !used[id] {
			out = append(out, id)
		}
	}
	return out
}

func (e *enumerator) unionDefaults() {
	b := e.b
	uN := b.n("MutU")
	e.add(SecondUnionDefault, true, "union", "append", "a new union with two defaults", func(m *M) {
		addStructLike(m.F, SL(idlast.SKUnion, uN, Fd(1, "a", T("i32"), I(1)), Fd(2, "b", T("i32"), I(2))))
	})
	e.add(SecondUnionDefault, true, "union", "append", "a new union with three fields, the outer two with defaults", func(m *M) {
		addStructLike(m.F, SL(idlast.SKUnion, uN, Fd(1, "a", T("string"), S("x")), Fd(2, "b", T("i32"), nil), Fd(3, "c", T("bool"), Id("true"))))
	})
	for i, u := range e.v.f.Unions {
		i := i
		has := 0
		for _, fd := range u.Fields {
			if fd.Default != nil {
				has++
			}
		}
		need := 2 - has
		if need < 1 {
			need = 1
		}
		e.add(SecondUnionDefault, true, "union", "existing", fmt.Sprintf("union %s (has %d defaults) given %d more fields with defaults", u.Name, has, need), func(m *M) {
			x := m.F.Unions[i]
			ids := freeIDs(x.Fields, need)
			for k := 0; k < need; k++ {
				x.Fields = append(x.Fields, Fd(ids[k], fmt.Sprintf("mut_%c", 'a'+k), T("i32"), I(int64(k+1))))
			}
		})
	}
}

// ---------------------------------------------------------------- no AST: missing includes, syntax errors

func (e *enumerator) missingInclude() {
	b, v := e.b, e.v
	p := b.n("nosuch_file") + ".thrift"
	e.addKind(2, MissingInclude, false, "include", "existing", "an include statement for the file "+p+" that does not exist", func(m *M) {
		m.F.Includes = append(m.F.Includes, &idlast.Include{Path: idlast.B(p)})
	})
	e.addKind(2, MissingInclude, false, "include-first", "existing", "an include statement (first of the file) for a file in a directory that does not exist", func(m *M) {
		m.F.Includes = append([]*idlast.Include{{Path: idlast.B(b.n("nosuchdir") + "/" + p)}}, m.F.Includes...)
	})
	// the same include STRING resolves for one includer (relative to ITS directory; the
	// working directory has no such file) and is missing for a later includer in another
	// directory: a resolution remembered per string instead of per (string, directory)
	// would hide the error.  deep: the failing include statement sits one level further down.
	lib := b.n("mutlib") + ".thrift"
	da, db := b.n("mutsha"), b.n("mutshb")
	for _, deep := range []bool{false, true} {
		deep := deep
		site := "shadowed-by-other-directory"
		if deep {
			site += "/deep"
		}
		e.addKind(2, MissingInclude, false, site, "append",
			"new files: "+da+"/user.thrift includes \""+lib+"\" (found next to it), then "+db+"/… includes the same string (no such file there, none in the working directory); both included from", func(m *M) {
				l := NewFile(da + "/" + lib)
				addStructLike(l, SL(idlast.SKStruct, b.n("MutLib"), Fd(1, "a", T("i32"), nil)))
				m.addFile(l)
				mk := func(name, inc, st string) {
					f := NewFile(name)
					ref := idlast.B(inc)
					f.Includes = append(f.Includes, &idlast.Include{Path: idlast.B(inc), Ref: &ref})
					addStructLike(f, SL(idlast.SKStruct, b.n(st), Fd(1, "a", T("i32"), nil)))
					m.addFile(f)
				}
				mk(da+"/user.thrift", lib, "MutUser")
				m.include(da + "/user.thrift")
				if deep {
					mk(db+"/inner/other.thrift", lib, "MutOther")
					mk(db+"/mid.thrift", "inner/other.thrift", "MutMid")
					m.include(db + "/mid.thrift")
				} else {
					mk(db+"/other.thrift", lib, "MutOther")
					m.include(db + "/other.thrift")
				}
			})
	}
	// ... and with an EXISTING file of the program that lives in a subdirectory and has no
	// namesake in the working directory: a new sibling includes it by its bare name, a new
	// file elsewhere includes the same bare name
	for _, w := range b.views {
		dir, base := path.Split(w.name)
		if dir == "" || w.idx == 0 {
			continue
		}
		if _, clash := b.Texts[base]; clash {
			continue
		}
		w := w
		sib, oth := dir+b.n("mutsib")+".thrift", db+"/"+b.n("mutoth")+".thrift"
		e.addKind(2, MissingInclude, false, "shadowed-by-other-directory/existing", "append",
			"a new sibling of "+w.name+" includes it as \""+base+"\", then a new file in another directory includes the same string; both included from", func(m *M) {
				mk := func(name, st string) {
					f := NewFile(name)
					ref := idlast.B(base)
					f.Includes = append(f.Includes, &idlast.Include{Path: idlast.B(base), Ref: &ref})
					addStructLike(f, SL(idlast.SKStruct, b.n(st), Fd(1, "a", T("i32"), nil)))
					m.addFile(f)
				}
				mk(sib, "MutSib")
				m.include(sib)
				mk(oth, "MutOth")
				m.include(oth)
			})
		break
	}
	if v.idx != 0 {
		ed := &Edit{Kind: 2, Rule: MissingInclude, Site: "deleted-file", Style: "tree", What: "the included file " + v.name + " removed from the tree", File: v.name, FileIndex: v.idx}
		ed.build = func() map[string]string {
			texts := map[string]string{}
			for k, t := range b.Texts {
				if k != v.name {
					texts[k] = t
				}
			}
			return texts
		}
		e.out = append(e.out, ed)
	}
}

func (e *enumerator) syntax() {
	b, v := e.b, e.v
	text := b.Texts[v.name]
	for _, te := range TextEdits(text) {
		te := te
		ed := &Edit{Kind: 2, Rule: SyntaxError, Site: te.Site, Style: "text", What: te.What + " in " + v.name, File: v.name, FileIndex: v.idx}
		ed.build = func() map[string]string {
			texts := map[string]string{}
			for k, t := range b.Texts {
				texts[k] = t
			}
			texts[v.name] = te.Text
			return texts
		}
		e.out = append(e.out, ed)
	}
}
