// c03 produces correspondence cases for property C03 (the parser is total and the AST
// is faithful to the source text).  Every case is one call of parser.ParseString on the
// real parser of /repo (in-process, panics recovered, time limit), written as a Coq term
// of Corr.C03.case together with what the call returned.
//
// Streams (see coq/Corr/C03.v for the codes):
//
//	corpus      hand-written documents with their intended AST: the repaired defects
//	            (hex / octal field ids, doubles with an exponent), the known finding
//	            (type name starting with required/optional), comment placement, literals
//	repo        every *.thrift file of /repo (no intended AST: model against implementation)
//	rendered    documents rendered from idlgen programs under several random layouts,
//	            with the intended AST of the generator (file gen.go)
//	totality    random bytes, random token soup, mutated documents, deep nesting, inputs
//	            up to 64 KiB: only "returns in time without panic" is required
//	peg         short inputs, mostly malformed: whether the generated parser accepts the text
//	            must agree with the PEG interpreter of Idl/Peg.v run on the grammar that
//	            translate-peg produced from thrift.peg (ties the translation, and catches a
//	            thrift.peg.go that was not regenerated after an edit of thrift.peg)
package main

import (
	"crypto/sha256"
	"encoding/hex"
	"flag"
	"fmt"
	"os"
	"path/filepath"
	"sort"
	"strings"
	"time"

	"github.com/cloudwego/thriftgo/parser"

	"verif/harness/astdump"
	"verif/harness/casefile"
	"verif/harness/coqfmt"
	"verif/harness/idlast"
	"verif/harness/rng"
)

const (
	kindRendered = 0
	kindTwoWay   = 1
	kindTotality = 2
	kindPeg      = 3 // accept / reject compared with the PEG interpreter on the translated grammar
)

// Run is one call of the parser on one rendering of a file.
type Run struct {
	Layout string       `json:"layout,omitempty"` // layout / generator of this input
	Src    idlast.B     `json:"src,omitempty"`
	SrcLen int          `json:"src_len"`
	Obs    string       `json:"obs"` // ok | err | panic | timeout
	Err    string       `json:"err,omitempty"`
	Millis float64      `json:"millis"`
	Real   *idlast.File `json:"real,omitempty"`
}

// Case is the JSON description of one case (replay files, classification): one file,
// its intended AST if it was rendered from a model, and the runs on its renderings.
// In the totality stream a case is a batch of inputs of which only the failing ones are kept.
type Case struct {
	Stream   string         `json:"stream"`
	Kind     int            `json:"kind"`
	Sub      string         `json:"sub,omitempty"`
	Filename string         `json:"filename"`
	Seed     uint64         `json:"seed,omitempty"`
	Intended *idlast.File   `json:"intended,omitempty"`
	Runs     []*Run         `json:"runs,omitempty"`
	Batch    map[string]int `json:"batch_counts,omitempty"`
	Failures []*Run         `json:"batch_failures,omitempty"`
}

type result struct {
	ast   *parser.Thrift
	err   error
	panic string
}

// runImpl calls the real parser with a time limit; a panic is an observation.
func runImpl(filename, src string, limit time.Duration) (obs string, ast *idlast.File, errText string, took time.Duration) {
	ch := make(chan result, 1)
	t0 := time.Now()
	go func() {
		var r result
		defer func() {
			if x := recover(); x != nil {
				r.panic = fmt.Sprint(x)
			}
			ch <- r
		}()
		r.ast, r.err = parser.ParseString(filename, src)
	}()
	select {
	case r := <-ch:
		took = time.Since(t0)
		switch {
		case r.panic != "":
			return "panic", nil, r.panic, took
		case r.err != nil:
			e := r.err.Error()
			if len(e) > 160 {
				e = e[:160]
			}
			return "err", nil, e, took
		default:
			f, err := astdump.FileChecked(r.ast)
			if err != nil {
				return "panic", nil, err.Error(), took
			}
			return "ok", f, "", took
		}
	case <-time.After(limit):
		return "timeout", nil, "", time.Since(t0)
	}
}

func coqObs(r *Run) string {
	switch r.Obs {
	case "ok":
		if r.Real == nil {
			return "(ObsOk (empty_file []))"
		}
		return "(ObsOk " + r.Real.Coq() + ")"
	case "err":
		return "ObsErr"
	case "panic":
		return "ObsPanic"
	}
	return "ObsTimeout"
}

func coqCase(c *Case) string {
	intended := "None"
	if c.Intended != nil {
		intended = "(Some " + c.Intended.Coq() + ")"
	}
	var runs []string
	if c.Kind == kindTotality {
		runs = append(runs, fmt.Sprintf("([], ObsBatch %s %s %s %s)", coqfmt.N(uint64(c.Batch["ok"])), coqfmt.N(uint64(c.Batch["err"])),
			coqfmt.N(uint64(c.Batch["panic"])), coqfmt.N(uint64(c.Batch["timeout"]))))
	}
	for _, r := range c.Runs {
		runs = append(runs, "("+coqfmt.Bytes(string(r.Src))+", "+coqObs(r)+")")
	}
	return fmt.Sprintf("mkcase %s %s %s %s", coqfmt.N(uint64(c.Kind)), coqfmt.Bytes(c.Filename), intended, coqfmt.List(runs))
}

type stats struct {
	Evaluations        int            `json:"evaluations"`
	DistinctNontrivial int            `json:"distinct_nontrivial"`
	Rule               string         `json:"rule"`
	Samples            []string       `json:"samples"`
	Streams            map[string]int `json:"inputs_per_stream"`
	Subs               map[string]int `json:"inputs_per_generator"`
	Obs                map[string]int `json:"observations"`
	ObsPerStream       map[string]int `json:"observations_per_stream"`
	MaxMillis          float64        `json:"max_parse_millis"`
	MaxMillisLen       int            `json:"max_parse_millis_input_len"`
	MaxMillisGen       string         `json:"max_parse_millis_generator"`
	LenHist            map[string]int `json:"input_length_histogram"`
	RenderedPrograms   int            `json:"rendered_programs"`
	RenderedFiles      int            `json:"rendered_files"`
	LayoutsPerFile     int            `json:"layouts_per_file"`
	Gen                map[string]int `json:"generated_shapes"`
	RepoFiles          int            `json:"repo_thrift_files"`
	TimeLimitMillis    int            `json:"time_limit_millis"`
}

type producer struct {
	docs, tot *casefile.Writer
	st        *stats
	seen      map[string]bool
	limit     time.Duration
	batch     *Case
}

func lenBucket(n int) string {
	switch {
	case n == 0:
		return "0"
	case n < 64:
		return "1-63"
	case n < 1024:
		return "64-1023"
	case n < 8192:
		return "1K-8K"
	case n < 32768:
		return "8K-32K"
	default:
		return "32K-64K"
	}
}

// run executes one input on the real parser and updates the statistics.
func (p *producer) run(stream, sub, filename, src string) *Run {
	obs, real, errText, took := runImpl(filename, src, p.limit)
	r := &Run{Layout: sub, SrcLen: len(src), Obs: obs, Err: errText, Millis: float64(took.Microseconds()) / 1000, Real: real}
	p.account(stream, sub, src, r)
	st := p.st
	if len(st.Samples) < 6 && st.Evaluations%37 == 5 {
		s := src
		if len(s) > 300 {
			s = s[:300] + "…"
		}
		st.Samples = append(st.Samples, fmt.Sprintf("[%s/%s] %q -> %s", stream, sub, s, obs))
	}
	return r
}

func (p *producer) fail(err error) {
	if err != nil {
		fmt.Fprintln(os.Stderr, err)
		os.Exit(2)
	}
}

// addDoc records one file with the runs on its renderings (srcs: layout name -> text, in order).
func (p *producer) addDoc(stream, sub string, kind int, filename string, intended *idlast.File, seed uint64, layouts []string, srcs []string) {
	c := &Case{Stream: stream, Kind: kind, Sub: sub, Filename: filename, Intended: intended, Seed: seed}
	for i, src := range srcs {
		r := p.run(stream, sub, filename, src)
		r.Layout = layouts[i]
		r.Src = idlast.B(src)
		c.Runs = append(c.Runs, r)
	}
	p.fail(p.docs.Add(coqCase(c), c))
}

// account updates the statistics for one finished run.
func (p *producer) account(stream, sub, src string, r *Run) {
	st := p.st
	st.Evaluations++
	st.Streams[stream]++
	st.Subs[stream+"/"+sub]++
	st.Obs[r.Obs]++
	st.ObsPerStream[stream+"/"+r.Obs]++
	st.LenHist[lenBucket(len(src))]++
	if r.Millis > st.MaxMillis {
		st.MaxMillis, st.MaxMillisLen, st.MaxMillisGen = r.Millis, len(src), stream+"/"+sub
	}
	sum := sha256.Sum256([]byte(src))
	key := hex.EncodeToString(sum[:8])
	if len(src) >= 8 && !p.seen[key] {
		p.seen[key] = true
		st.DistinctNontrivial++
	}
}

type totInput struct{ sub, src string }

// addTotBatch runs a chunk of totality inputs on a small worker pool (the inputs were
// generated sequentially, the accounting is sequential and in order, so the output is
// deterministic) and records them into batches.
func (p *producer) addTotBatch(inputs []totInput) {
	runs := make([]*Run, len(inputs))
	sem := make(chan struct{}, 6)
	done := make(chan struct{})
	for i := range inputs {
		go func(i int) {
			sem <- struct{}{}
			obs, _, errText, took := runImpl("main.thrift", inputs[i].src, p.limit)
			runs[i] = &Run{Layout: inputs[i].sub, SrcLen: len(inputs[i].src), Obs: obs, Err: errText,
				Millis: float64(took.Microseconds()) / 1000}
			<-sem
			done <- struct{}{}
		}(i)
	}
	for range inputs {
		<-done
	}
	for i, in := range inputs {
		r := runs[i]
		p.account("totality", in.sub, in.src, r)
		if p.batch == nil {
			p.batch = &Case{Stream: "totality", Kind: kindTotality, Filename: "main.thrift", Batch: map[string]int{}}
		}
		p.batch.Batch[r.Obs]++
		if r.Obs == "panic" || r.Obs == "timeout" {
			r.Src = idlast.B(in.src)
			p.batch.Failures = append(p.batch.Failures, r)
		}
		n := 0
		for _, k := range p.batch.Batch {
			n += k
		}
		if n >= 500 {
			p.flushTot()
		}
	}
}

// addTot records one input of the totality stream (sequential variant).
func (p *producer) addTot(sub, src string) { p.addTotBatch([]totInput{{sub, src}}) }

func (p *producer) flushTot() {
	if p.batch != nil {
		p.fail(p.tot.Add(coqCase(p.batch), p.batch))
		p.batch = nil
	}
}

// ---------------------------------------------------------------- hand-built intended ASTs

func ty(name string) *idlast.Type { return &idlast.Type{Name: idlast.B(name)} }
func fld(id int32, name string, req idlast.Requiredness, t *idlast.Type, def *idlast.ConstValue) *idlast.Field {
	return &idlast.Field{ID: id, Name: idlast.B(name), Requiredness: req, Type: t, Default: def}
}
func cint(v int64) *idlast.ConstValue { return &idlast.ConstValue{Kind: idlast.ConstInt, Int: v} }
func cdbl(bits uint64) *idlast.ConstValue {
	return &idlast.ConstValue{Kind: idlast.ConstDouble, DoubleBits: bits}
}
func clit(s string) *idlast.ConstValue {
	return &idlast.ConstValue{Kind: idlast.ConstLiteral, Literal: idlast.B(s)}
}
func emptyFile(name string) *idlast.File {
	return &idlast.File{Filename: idlast.B(name), Includes: []*idlast.Include{}, CppIncludes: []idlast.B{},
		Namespaces: []*idlast.Namespace{}, Typedefs: []*idlast.Typedef{}, Constants: []*idlast.Constant{},
		Enums: []*idlast.Enum{}, Structs: []*idlast.StructLike{}, Unions: []*idlast.StructLike{},
		Exceptions: []*idlast.StructLike{}, Services: []*idlast.Service{}}
}
func konst(name string, t *idlast.Type, v *idlast.ConstValue) *idlast.Constant {
	return &idlast.Constant{Name: idlast.B(name), Type: t, Value: v}
}

type corpusDoc struct {
	sub      string
	src      string
	intended func(f *idlast.File) // fills the intended AST; nil = no intended AST (two-way case)
}

func corpus() []corpusDoc {
	strct := func(name string, fs ...*idlast.Field) *idlast.StructLike {
		return &idlast.StructLike{Category: idlast.SKStruct, Name: idlast.B(name), Fields: fs}
	}
	return []corpusDoc{
		// repaired defect: hex / octal field ids
		{"fixed-field-id-radix", "struct S { 0x10: i32 a; 0o17: i32 b; 010: i32 c, i32 d }", func(f *idlast.File) {
			f.Structs = append(f.Structs, strct("S", fld(16, "a", 0, ty("i32"), nil), fld(15, "b", 0, ty("i32"), nil),
				fld(10, "c", 0, ty("i32"), nil), fld(11, "d", 0, ty("i32"), nil)))
		}},
		// repaired defect: doubles with an exponent
		{"fixed-double-exponent", "const double a = 1e5\nconst double b = 1.5e-3 \t// c\nconst double c = 1E+3;\nconst double d = -.5e1", func(f *idlast.File) {
			f.Constants = append(f.Constants, konst("a", ty("double"), cdbl(0x40f86a0000000000)),
				konst("b", ty("double"), cdbl(4564560351926583034)), konst("c", ty("double"), cdbl(0x408f400000000000)),
				konst("d", ty("double"), cdbl(13840687554816376832)))
		}},
		// known finding: FieldReq has no word-boundary guard
		{"req-prefixed-type", "struct S { 1: i32 a\n 2: requiredThing t\n 3: optional_x u }", func(f *idlast.File) {
			f.Structs = append(f.Structs, strct("S", fld(1, "a", 0, ty("i32"), nil), fld(2, "t", 0, ty("requiredThing"), nil),
				fld(3, "u", 0, ty("optional_x"), nil)))
		}},
		// literals: only the enclosing quote is unescaped
		{"literal-escapes", `const string a = "x\"y\\z\'w"` + "\n" + `const string b = 'x\"y\'z'` + "\n" + `const string c = ""`, func(f *idlast.File) {
			f.Constants = append(f.Constants, konst("a", ty("string"), clit(`x"y\\z\'w`)), konst("b", ty("string"), clit(`x\"y'z`)),
				konst("c", ty("string"), clit("")))
		}},
		// keywords by position
		{"keywords-by-position", "struct string { 1: i32 list; 2: optional optional optional; 3: map map }\nenum enum { struct, union = 5 }", nil},
		// comment placement (two-way: the model must record what the implementation records)
		{"comments", "// lead of S\n/* second */\nstruct S { // first line\n  1: i32 a // end a\n  # lead b\n  2: i32 b, /* end b */ // more\n\n  3: i32 c /* before sep */ ; # end c\n} // after S\n// lead of E\nenum E {\n A, // end A\n /* lead B */ B = 3 // ignored\n C\n}\nservice X { /* lead f */ void f(1: i32 a /* arg */) throws (1: S e), // end f\n // lead g\n oneway void g() }", nil},
		{"comments-header", "# top\nnamespace go a.b // ns\n// lead T\ntypedef i32 T // end T\nconst i32 c = 1 // end c\n/* lead d */ const i32 d = 2", nil},
		{"annotations", "struct S { 1: i32 (t = 'u') a (x = \"1\", y = '2'; x = \"3\" x='4') } (k = \"v\", k = \"w\")\ntypedef map<string (a=\"b\"), list<i32> cpp_type \"v\"> (c=\"d\") M ()", nil},
		// header handling: a repeated include path is dropped, an empty one ignored, cpp_include keeps everything
		{"include-dedup", "include \"a.thrift\"\ninclude 'b/a.thrift'\ninclude 'a.thrift' // again\ninclude \"\"\ncpp_include \"\"\ncpp_include 'x.h'\ncpp_include 'x.h'\nnamespace * a\nnamespace go a (k = 'v')", nil},
		{"blank", " \n\t", nil},
		{"only-comment", "// nothing", nil},
	}
}

// ---------------------------------------------------------------- repo files

func repoFiles(repo string) []string {
	var out []string
	filepath.Walk(repo, func(path string, info os.FileInfo, err error) error {
		if err != nil {
			return nil
		}
		if info.IsDir() && info.Name() == ".git" {
			return filepath.SkipDir
		}
		if !info.IsDir() && strings.HasSuffix(path, ".thrift") {
			out = append(out, path)
		}
		return nil
	})
	sort.Strings(out)
	return out
}

// renderedStream is provided by gen.go (idlgen documents under random layouts).
var renderedStream func(p *producer, r *rng.R, tier string)

func main() {
	seed := flag.Uint64("seed", 1, "seed")
	tier := flag.String("tier", "quick", "quick|thorough")
	out := flag.String("out", ".", "output directory")
	flag.Parse()

	for _, d := range []string{"docs", "tot"} {
		if err := os.MkdirAll(filepath.Join(*out, d), 0o755); err != nil {
			fmt.Fprintln(os.Stderr, err)
			os.Exit(2)
		}
	}
	imports := "From Verif Require Import Base.Bytes Idl.Ast Corr.C03."
	perShard := 8
	if *tier == "thorough" {
		perShard = 6 // about 1 MB of Coq text per shard: stays far below the evaluation time limit on a loaded machine
	}
	p := &producer{
		docs: casefile.New(filepath.Join(*out, "docs"), imports, perShard),
		tot:  casefile.New(filepath.Join(*out, "tot"), imports, 1000),
		st: &stats{Streams: map[string]int{}, Subs: map[string]int{}, Obs: map[string]int{}, ObsPerStream: map[string]int{},
			LenHist: map[string]int{}, Gen: map[string]int{}},
		seen:  map[string]bool{},
		limit: 30 * time.Second,
	}
	p.st.TimeLimitMillis = int(p.limit / time.Millisecond)

	// ---- corpus first
	for _, d := range corpus() {
		var intended *idlast.File
		kind := kindTwoWay
		if d.intended != nil {
			intended = emptyFile("main.thrift")
			d.intended(intended)
			kind = kindRendered
		}
		p.addDoc("corpus", d.sub, kind, "main.thrift", intended, 0, []string{"as-written"}, []string{d.src})
	}
	p.addDoc("corpus", "empty-document", kindTwoWay, "main.thrift", nil, 0, []string{"as-written"}, []string{""})

	// ---- every .thrift file of the repository
	repo := os.Getenv("VERIF_REPO")
	if repo == "" {
		repo = "/repo"
	}
	for _, path := range repoFiles(repo) {
		b, err := os.ReadFile(path)
		if err != nil {
			continue
		}
		rel, _ := filepath.Rel(repo, path)
		p.st.RepoFiles++
		p.addDoc("repo", "thrift-file", kindTwoWay, rel, nil, 0, []string{"as-written"}, []string{string(b)})
	}

	r := rng.New(*seed)
	// ---- rendered idlgen documents
	if renderedStream != nil {
		renderedStream(p, r.Fork(), *tier)
	}
	// ---- totality stream
	totalityStream(p, r.Fork(), *tier)
	p.flushTot()
	// ---- PEG agreement stream
	pegStream(p, r.Fork(), *tier)

	if err := p.docs.Close(); err != nil {
		fmt.Fprintln(os.Stderr, err)
		os.Exit(2)
	}
	if err := p.tot.Close(); err != nil {
		fmt.Fprintln(os.Stderr, err)
		os.Exit(2)
	}
	var shards []string
	for _, s := range p.docs.Shards {
		shards = append(shards, "docs/"+s)
	}
	for _, s := range p.tot.Shards {
		shards = append(shards, "tot/"+s)
	}
	p.st.Rule = "an input is non-trivial when it has at least 8 bytes; distinct = distinct SHA-256 of the source bytes"
	if err := casefile.WriteMeta(*out, map[string]interface{}{"stats": p.st, "shards": shards, "total": p.docs.Total() + p.tot.Total()}); err != nil {
		fmt.Fprintln(os.Stderr, err)
		os.Exit(2)
	}
}
