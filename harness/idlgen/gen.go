package idlgen

import (
	"path"
	"sort"
	"strconv"
	"strings"

	"verif/harness/idlast"
	"verif/harness/rng"
)

// Envelope says how much of the thriftgo pipeline must accept a program.
type Envelope int

const (
	// Valid: the whole pipeline accepts the program: parser, semantic.ResolveSymbols,
	// the semantic checker, and the Go backend (thriftgo -g go exits 0).
	Valid Envelope = iota
	// Syntactic: only grammatical. The parser accepts the text and the intended AST is
	// exact, but names need not resolve, ids and names may repeat, values need not fit
	// their types, includes may form cycles.
	Syntactic
)

func (e Envelope) String() string {
	if e == Syntactic {
		return "syntactic"
	}
	return "valid"
}

// Options steer Generate. The zero value is the Valid envelope with defaults.
type Options struct {
	Envelope Envelope
	MaxFiles int // 1..8, default 4; the number of files is random in 1..MaxFiles
	Size     int // rough number of definitions per file, default 8

	// Shapes that specific properties own. All default to false; with the switch
	// off the shape is never produced (in either envelope). With the switch on in
	// the Valid envelope the program is still *meant* as valid IDL, but the pinned
	// pipeline is known to mishandle it (see doc.go).

	// C03: type identifiers starting with "required" / "optional", used on fields
	// that carry no requiredness keyword. Mis-parsed today (FieldReq lacks the
	// !LetterOrDigit guard); the intended AST is what the grammar means.
	ReqPrefixedTypeNames bool
	// C01: names that stress the Go naming styles: New*, *Args, *Result, Go
	// keywords, leading underscores, initialisms, names that collide after
	// conversion.
	NamingStress bool
	// C06/C04: constants and defaults whose declared type is a typedef of a
	// container, or that mention such a field inside a struct literal (the Go
	// backend dereferences a nil ValueType).
	TypedefContainerConsts bool
	// C05/C06: enum values written through a typedef of the enum (TD.VALUE), and
	// enum values of an enum that is only reachable through a typedef chain.
	EnumViaTypedef bool
	// C06: identifiers (constants, enum values) inside a struct literal whose struct
	// type is defined in another file (the Go backend resolves them in the wrong
	// scope: index out of range / "undefined value").
	IdentInForeignStructLiteral bool
	// C05/C04: identifiers (other than true / false) in the default value of a
	// function argument (the semantic pass never resolves them; the Go backend then
	// dereferences the nil Extra).
	IdentInArgDefault bool
	// C01/C04: two definitions X and NewX in one file (the Go backend reserves
	// "New"+X with MustReserve and fails with "failed to reserve NewX" when NewX was
	// installed first, which depends on the kinds and the order of the definitions).
	// Only reachable together with NamingStress.
	NewPrefixPairs bool
	// C01: raw newlines, tabs, backquotes and escapes Go does not know inside
	// literals.
	RawLiterals bool
	// C01: shapes thriftgo accepts but whose generated Go does not compile: two
	// exceptions of one type in a throws list (duplicate case in the generated type
	// switch), field ids outside the i16 range, and struct literals that mention an
	// optional (or union) enum field ("&E_A") or give a struct field by the name of a
	// constant ("&CONST" is a **T).
	CompileHostile bool
}

func (o Options) withDefaults() Options {
	if o.MaxFiles <= 0 {
		o.MaxFiles = 4
	}
	if o.MaxFiles > 8 {
		o.MaxFiles = 8
	}
	if o.Size <= 0 {
		o.Size = 8
	}
	return o
}

// Program is one generated multi-file IDL program.
type Program struct {
	// Files is the intended AST: main file first, the others in the order the
	// recursive parser first reaches them; Filename = root-relative slash path.
	Files   idlast.Program
	Options Options
	stats   map[string]int
}

// AST returns the intended AST: exactly what parser.ParseFile(main, nil, true)
// must return (through astdump.Program) for every rendering of the program when
// the process working directory is the program root, with resolution info at its
// zero value and Comments empty.
func (p *Program) AST() idlast.Program { return p.Files }

// Coq is p.AST().Coq().
func (p *Program) Coq() string { return p.Files.Coq() }

// Main is the root-relative name of the main file.
func (p *Program) Main() string { return string(p.Files[0].Filename) }

// Stats returns counts of what was generated (a fresh copy).
func (p *Program) Stats() map[string]int {
	out := make(map[string]int, len(p.stats))
	for k, v := range p.stats {
		out[k] = v
	}
	return out
}

// ---------------------------------------------------------------- semantic view

type symKind int

const (
	symTypedef symKind = iota
	symConst
	symEnum
	symStruct
	symUnion
	symException
	symService
)

func (k symKind) structLike() bool { return k == symStruct || k == symUnion || k == symException }

// sty is a type as the generator understands it; toAST spells it for a file.
type sty struct {
	base  string // "bool" … "binary", "map", "set", "list"; "" for a named type
	key   *sty
	val   *sty
	sym   *symbol // named type
	raw   string  // Syntactic only: an identifier written as is (may be undefined)
	cpp   string
	annos idlast.Annotations
}

type symbol struct {
	file  *fileGen
	kind  symKind
	name  string
	index int // position among the struct-likes / services of the file (acyclicity)
	rank  int // typedefs and constants: may only depend on lower local ranks

	target *sty // typedef
	ctype  *sty // constant
	canon  string
	enum   *idlast.Enum
	sl     *idlast.StructLike
	ftypes []*sty // parallel to sl.Fields
	svc    *idlast.Service
	funcs  map[string]bool // services: canonKeys of all function names incl. inherited
}

type incEdge struct {
	target *fileGen
	path   string
}

type fileGen struct {
	idx    int
	path   string // root-relative, slash separated
	prefix string // base name without extension
	incs   []*incEdge
	ast    *idlast.File
	names  *nameSet
	syms   []*symbol
	done   bool
}

func (f *fileGen) dir() string {
	d := path.Dir(f.path)
	if d == "." {
		return ""
	}
	return d
}

type gen struct {
	r     *rng.R
	opt   Options
	files []*fileGen
	stats map[string]int
	fnSeq int
}

func (g *gen) stat(k string) { g.stats[k]++ }

func (g *gen) valid() bool { return g.opt.Envelope == Valid }

// syn is true with probability num/den in the Syntactic envelope only.
func (g *gen) syn(num, den int) bool { return g.opt.Envelope == Syntactic && g.r.Chance(num, den) }

// underlying follows typedefs.
func underlying(t *sty) *sty {
	for i := 0; t != nil && t.sym != nil && t.sym.kind == symTypedef && i < 64; i++ {
		t = t.sym.target
	}
	return t
}

func isContainer(t *sty) bool {
	return t != nil && (t.base == "map" || t.base == "set" || t.base == "list")
}

// typedefContainer: written through a typedef, and a container underneath.
func typedefContainer(t *sty) bool {
	return t != nil && t.sym != nil && t.sym.kind == symTypedef && isContainer(underlying(t))
}

// canon is the structural identity of a type with typedefs looked through.
func canon(t *sty) string {
	u := underlying(t)
	switch {
	case u == nil:
		return "?"
	case u.raw != "":
		return "raw:" + u.raw
	case u.sym != nil:
		return u.sym.file.path + "#" + u.sym.name
	case u.base == "map":
		return "map<" + canon(u.key) + "," + canon(u.val) + ">"
	case u.base == "set" || u.base == "list":
		return u.base + "<" + canon(u.val) + ">"
	case u.base == "i8":
		return "byte"
	}
	return u.base
}

// ---------------------------------------------------------------- entry point

// Generate builds one program. All randomness comes from r; the same r state
// and options give the same program.
func Generate(r *rng.R, opt Options) *Program {
	opt = opt.withDefaults()
	g := &gen{r: r, opt: opt, stats: map[string]int{}}
	g.planFiles()
	// leaves first: a file only references files that are already complete
	for i := len(g.files) - 1; i >= 0; i-- {
		g.genFile(g.files[i])
	}
	p := &Program{Options: opt, stats: g.stats}
	seen := map[*fileGen]bool{}
	var walk func(f *fileGen)
	walk = func(f *fileGen) {
		if seen[f] {
			return
		}
		seen[f] = true
		p.Files = append(p.Files, idlast.ProgramEntry{Filename: idlast.B(f.path), File: f.ast})
		for _, e := range f.incs {
			walk(e.target)
		}
	}
	walk(g.files[0])
	g.stats["programs"]++
	g.stats["files"] += len(p.Files)
	return p
}

// ---------------------------------------------------------------- files and includes

func (g *gen) planFiles() {
	n := g.r.Range(1, g.opt.MaxFiles)
	used := map[string]bool{}
	mk := func(idx int, p string) *fileGen {
		used[p] = true
		base := path.Base(p)
		return &fileGen{idx: idx, path: p, prefix: strings.TrimSuffix(base, path.Ext(base))}
	}
	mainName := rng.Pick(g.r, []string{"main", "main", "app", "service", "root"}) + ".thrift"
	if g.r.Chance(1, 4) {
		mainName = rng.Pick(g.r, dirWords) + "/" + mainName
		g.stat("main.in_subdir")
	}
	g.files = append(g.files, mk(0, mainName))
	var bases []string
	for i := 1; i < n; i++ {
		for {
			var b string
			if len(bases) > 0 && g.r.Chance(1, 3) {
				b = rng.Pick(g.r, bases) // equal base names in different directories
			} else {
				b = rng.Pick(g.r, baseNameWords)
			}
			d := ""
			if g.r.Chance(2, 5) {
				d = g.files[g.r.Intn(len(g.files))].dir() // share a directory with an earlier file
			} else if g.r.Chance(3, 4) {
				d = rng.Pick(g.r, dirWords)
				if g.r.Chance(1, 5) {
					d += "/" + rng.Pick(g.r, []string{"sub", "inner", "z"})
				}
			}
			p := b + ".thrift"
			if d != "" {
				p = d + "/" + p
			}
			if used[p] {
				continue
			}
			for _, o := range bases {
				if o == b {
					g.stat("files.equal_base_name")
					break
				}
			}
			bases = append(bases, b)
			g.files = append(g.files, mk(i, p))
			break
		}
	}
	// edges i -> j only for i < j: acyclic; every file has an includer, so main reaches all
	edge := map[[2]int]bool{}
	for j := 1; j < n; j++ {
		edge[[2]int{g.r.Intn(j), j}] = true
	}
	for i := 0; i < n; i++ {
		for j := i + 1; j < n; j++ {
			if g.r.Chance(1, 4) {
				edge[[2]int{i, j}] = true
			}
		}
	}
	if g.opt.Envelope == Syntactic && n > 1 && g.r.Chance(1, 5) {
		// the parser tolerates include cycles (CircleDetect runs later, in the driver)
		j := g.r.Range(0, n-1)
		i := g.r.Range(j, n-1)
		edge[[2]int{i, j}] = true
		g.stat("include.cycle")
	}
	indeg := make([]int, n)
	for i := 0; i < n; i++ {
		var targets []int
		for j := 0; j < n; j++ {
			if edge[[2]int{i, j}] {
				targets = append(targets, j)
			}
		}
		// random include order
		for k := len(targets) - 1; k > 0; k-- {
			m := g.r.Intn(k + 1)
			targets[k], targets[m] = targets[m], targets[k]
		}
		f := g.files[i]
		prefixes := map[string]int{}
		for _, j := range targets {
			t := g.files[j]
			f.incs = append(f.incs, &incEdge{target: t, path: g.spellInclude(f, t, used)})
			g.stat("include.edge")
			indeg[j]++
			prefixes[t.prefix]++
			if prefixes[t.prefix] == 2 {
				g.stat("include.same_prefix_in_one_file")
			}
		}
	}
	for _, d := range indeg {
		if d >= 2 {
			g.stat("include.diamond")
		}
	}
	g.stat("files.per_program=" + strconv.Itoa(n))
}

// spellInclude chooses how file f names file t in its include line. The parser
// looks a path up relative to the working directory (the program root) first and
// relative to the including file's directory second, so a path relative to f's
// directory is only used when nothing exists at that path under the root.
func (g *gen) spellInclude(f, t *fileGen, exists map[string]bool) string {
	d := f.dir()
	if d != "" && strings.HasPrefix(t.path, d+"/") {
		rel := strings.TrimPrefix(t.path, d+"/")
		if !exists[rel] && g.r.Chance(1, 2) {
			if g.r.Chance(1, 4) {
				g.stat("include.spelling.relative_dot")
				return "./" + rel
			}
			g.stat("include.spelling.relative")
			return rel
		}
	}
	switch g.r.Intn(10) {
	case 0:
		g.stat("include.spelling.root_dot")
		return "./" + t.path
	case 1:
		if i := strings.Index(t.path, "/"); i > 0 {
			g.stat("include.spelling.root_dotdot")
			return t.path[:i] + "/../" + t.path // a/../a/x.thrift
		}
	}
	g.stat("include.spelling.root")
	return t.path
}

// ---------------------------------------------------------------- one file

func (g *gen) genFile(f *fileGen) {
	f.ast = &idlast.File{Filename: idlast.B(f.path), Includes: []*idlast.Include{}, CppIncludes: []idlast.B{},
		Namespaces: []*idlast.Namespace{}, Typedefs: []*idlast.Typedef{}, Constants: []*idlast.Constant{},
		Enums: []*idlast.Enum{}, Structs: []*idlast.StructLike{}, Unions: []*idlast.StructLike{},
		Exceptions: []*idlast.StructLike{}, Services: []*idlast.Service{}}
	for _, e := range f.incs {
		ref := idlast.B(e.target.path)
		f.ast.Includes = append(f.ast.Includes, &idlast.Include{Path: idlast.B(e.path), Ref: &ref})
	}
	for i := g.r.Intn(3) - 1; i > 0; i-- {
		f.ast.CppIncludes = append(f.ast.CppIncludes, idlast.B(rng.Pick(g.r, []string{"<vector>", "util/x.h", "", "a b.hpp"})))
		g.stat("header.cpp_include")
	}
	g.genNamespaces(f)

	// global names: distinct, and never equal to an include prefix of the program
	// (an identifier x.K must not be explainable both as enum.value and include.constant)
	f.names = newNameSet(g.valid() && !g.opt.NamingStress)
	f.names.noNewPairs = g.valid() && !g.opt.NewPrefixPairs
	for _, o := range g.files {
		f.names.take(o.prefix)
	}

	// phase 1: decide the definitions and their names
	n := g.r.Range(g.opt.Size/2, g.opt.Size+g.opt.Size/2)
	if g.r.Chance(1, 12) {
		n = 0 // an (almost) empty file
	}
	var enums, typedefs, structs, consts, services []*symbol
	nsl, nsvc := 0, 0
	add := func(k symKind) *symbol {
		s := &symbol{file: f, kind: k, name: g.globalName(f, k)}
		f.syms = append(f.syms, s)
		return s
	}
	// every kind at least sometimes, structs most often
	for i := 0; i < n; i++ {
		switch k := g.r.Intn(20); {
		case k < 3:
			enums = append(enums, add(symEnum))
		case k < 6:
			typedefs = append(typedefs, add(symTypedef))
		case k < 11:
			s := add(symStruct)
			s.index = nsl
			nsl++
			structs = append(structs, s)
		case k < 12:
			s := add(symUnion)
			s.index = nsl
			nsl++
			structs = append(structs, s)
		case k < 14:
			s := add(symException)
			s.index = nsl
			nsl++
			structs = append(structs, s)
		case k < 18:
			consts = append(consts, add(symConst))
		default:
			s := add(symService)
			s.index = nsvc
			nsvc++
			services = append(services, s)
		}
	}
	// ranks: a random order in which typedefs / constants may depend on each other
	for _, list := range [][]*symbol{typedefs, consts} {
		perm := make([]int, len(list))
		for i := range perm {
			perm[i] = i
		}
		for k := len(perm) - 1; k > 0; k-- {
			m := g.r.Intn(k + 1)
			perm[k], perm[m] = perm[m], perm[k]
		}
		for i, s := range list {
			s.rank = perm[i]
		}
	}

	// phase 2: enums (self-contained)
	for _, s := range enums {
		g.genEnum(f, s)
	}
	// phase 3: typedef targets, in rank order so that lower ranks are complete
	byRank := append([]*symbol(nil), typedefs...)
	sort.SliceStable(byRank, func(i, j int) bool { return byRank[i].rank < byRank[j].rank })
	for _, s := range byRank {
		g.genTypedefTarget(f, s)
	}
	for _, s := range typedefs {
		td := &idlast.Typedef{Type: g.toAST(f, s.target), Alias: idlast.B(s.name), Annotations: g.annos("typedef", 1, 5)}
		f.ast.Typedefs = append(f.ast.Typedefs, td)
		g.stat("def.typedef")
	}
	// phase 4: struct-like shells and field types
	for _, s := range structs {
		g.genStructFields(f, s)
	}
	// phase 5: constants, in rank order
	byRank = append([]*symbol(nil), consts...)
	sort.SliceStable(byRank, func(i, j int) bool { return byRank[i].rank < byRank[j].rank })
	cdefs := map[*symbol]*idlast.Constant{}
	for _, s := range byRank {
		cdefs[s] = g.genConstant(f, s)
	}
	for _, s := range consts {
		f.ast.Constants = append(f.ast.Constants, cdefs[s])
		g.stat("def.const")
	}
	// phase 6: field defaults (all constants and struct shapes are known now)
	for _, s := range structs {
		g.genDefaults(f, s)
		switch s.kind {
		case symStruct:
			f.ast.Structs = append(f.ast.Structs, s.sl)
			g.stat("def.struct")
		case symUnion:
			f.ast.Unions = append(f.ast.Unions, s.sl)
			g.stat("def.union")
		case symException:
			f.ast.Exceptions = append(f.ast.Exceptions, s.sl)
			g.stat("def.exception")
		}
	}
	// phase 7: services
	for _, s := range services {
		g.genService(f, s)
		f.ast.Services = append(f.ast.Services, s.svc)
		g.stat("def.service")
	}
	f.done = true
}

func (g *gen) genNamespaces(f *fileGen) {
	// the effective Go namespace is the first "go" namespace, else the last "*" one
	segs := []string{}
	for i := g.r.Intn(3); i > 0; i-- {
		segs = append(segs, rng.Pick(g.r, []string{"org", "com", "x", "gen", "pkg" + strconv.Itoa(g.r.Intn(3)), "v1"}))
	}
	last := rng.Pick(g.r, []string{"common", "model", "types", "api", "svc"}) // shared last segments stress import aliases
	if g.r.Chance(1, 2) {
		last = "p" + strconv.Itoa(f.idx)
	}
	// distinct per file: the file index is part of the path
	segs = append(segs, "f"+strconv.Itoa(f.idx), last)
	if g.opt.NamingStress && g.r.Chance(1, 4) {
		segs[len(segs)-1] = rng.Pick(g.r, []string{"fmt", "context", "thrift", "strings", "bytes", "Upper", "mixedCase"})
	}
	goNS := strings.Join(segs, ".")
	noise := func() {
		for i := g.r.Intn(3); i > 0; i-- {
			lang := rng.Pick(g.r, nsLanguages)
			name := rng.Pick(g.r, []string{"a", "a.b", "com.example.idl", "X1", "_u.v", "main"})
			f.ast.Namespaces = append(f.ast.Namespaces, &idlast.Namespace{Language: idlast.B(lang), Name: idlast.B(name), Annotations: g.annos("namespace", 1, 6)})
			g.stat("header.namespace.other")
		}
	}
	noise()
	switch {
	case g.syn(1, 6):
		// no Go namespace at all, or several
		g.stat("header.namespace.go_absent")
	case g.r.Chance(1, 5):
		// only a "*" namespace; an earlier "*" is overridden by the last one
		if g.r.Chance(1, 3) {
			f.ast.Namespaces = append(f.ast.Namespaces, &idlast.Namespace{Language: "*", Name: "shadowed.star"})
		}
		f.ast.Namespaces = append(f.ast.Namespaces, &idlast.Namespace{Language: "*", Name: idlast.B(goNS), Annotations: g.annos("namespace", 1, 6)})
		g.stat("header.namespace.star_only")
	default:
		if g.r.Chance(1, 4) {
			f.ast.Namespaces = append(f.ast.Namespaces, &idlast.Namespace{Language: "*", Name: "star.before"})
			g.stat("header.namespace.star_and_go")
		}
		f.ast.Namespaces = append(f.ast.Namespaces, &idlast.Namespace{Language: "go", Name: idlast.B(goNS), Annotations: g.annos("namespace", 1, 6)})
		g.stat("header.namespace.go")
		if g.r.Chance(1, 8) {
			// a second go namespace and a later "*" are both ignored by the backend
			f.ast.Namespaces = append(f.ast.Namespaces, &idlast.Namespace{Language: "go", Name: "ignored.second"})
			g.stat("header.namespace.go_twice")
		}
		if g.r.Chance(1, 8) {
			f.ast.Namespaces = append(f.ast.Namespaces, &idlast.Namespace{Language: "*", Name: "star.after"})
		}
	}
	noise()
}

// globalName picks a file-level name for a definition of kind k.
func (g *gen) globalName(f *fileGen, k symKind) string {
	if g.opt.ReqPrefixedTypeNames && k != symConst && k != symService && g.r.Chance(1, 3) {
		w := rng.Pick(g.r, []string{"required", "optional"}) + rng.Pick(g.r, []string{"Thing", "_x", "Item", "2", "s", "Field"})
		g.stat("name.req_prefixed")
		return f.names.fresh(w)
	}
	if g.opt.NamingStress && g.r.Chance(1, 2) {
		pool := stressTypeNames
		if k == symConst {
			pool = stressConstNames
		}
		g.stat("name.stress.global")
		return f.names.fresh(g.stressSafe(rng.Pick(g.r, pool)))
	}
	var w string
	switch k {
	case symTypedef:
		w = rng.Pick(g.r, typedefWords)
	case symConst:
		w = rng.Pick(g.r, constWords)
		if g.r.Bool() {
			w += "_" + rng.Pick(g.r, constWords)
		}
	case symEnum:
		w = rng.Pick(g.r, enumWords)
	case symStruct:
		w = rng.Pick(g.r, typeWords)
	case symUnion:
		w = rng.Pick(g.r, typeWords) + "Choice"
	case symException:
		w = rng.Pick(g.r, exceptionWords)
		if g.r.Bool() {
			w += "Error"
		}
	case symService:
		w = rng.Pick(g.r, serviceWords)
	}
	return f.names.fresh(w)
}

// stressSafe keeps stress names inside what the grammar can carry.
func (g *gen) stressSafe(s string) string {
	if thriftKeywords[s] || (hasReqPrefix(s) && !g.opt.ReqPrefixedTypeNames) {
		return s + "_"
	}
	return s
}

// ---------------------------------------------------------------- annotations and texts

var safePieces = []string{"a", "b", "Z", "7", " ", "_", "-", ".", ",", ":", "/", "é", "日本", "\"", "'", "\\n", "\\t", "\\\\n",
	"\\\\x", "word", "k=v", "{}", "[1]", "<T>", "#", "//", "/*", "*/", "%s", "$", "(", ")", ";", "="}

var rawPieces = []string{"\n", "\t", "`", "\\q", "\\x41", "\r\n", "\\0", "\\u00e9", "\x7f", "\\ "}

// text builds the AST text of a literal: no backslash directly before a quote
// character and none at the end (every piece ends in a non-backslash).
func (g *gen) text() string {
	n := g.r.Intn(7)
	if g.r.Chance(1, 8) {
		n = 0
	}
	var sb strings.Builder
	for i := 0; i < n; i++ {
		if g.opt.RawLiterals && g.r.Chance(1, 5) {
			sb.WriteString(rng.Pick(g.r, rawPieces))
			g.stat("literal.raw_piece")
			continue
		}
		sb.WriteString(rng.Pick(g.r, safePieces))
	}
	return sb.String()
}

// annos returns, with probability num/den, a non-empty annotation list: keys
// distinct, repeated keys grouped under their first occurrence.
func (g *gen) annos(where string, num, den int) idlast.Annotations {
	if !g.r.Chance(num, den) {
		return nil
	}
	g.stat("anno.on." + where)
	n := g.r.Range(1, 4)
	var out idlast.Annotations
	for i := 0; i < n; i++ {
		k := rng.Pick(g.r, annoKeys)
		if len(out) > 0 && g.r.Chance(1, 3) {
			k = string(out[g.r.Intn(len(out))].Key) // repeated key
		}
		v := idlast.B(g.text())
		found := false
		for j := range out {
			if string(out[j].Key) == k {
				out[j].Values = append(out[j].Values, v)
				found = true
				g.stat("anno.repeated_key")
				break
			}
		}
		if !found {
			out = append(out, idlast.Annotation{Key: idlast.B(k), Values: []idlast.B{v}})
		}
	}
	g.stat("anno.lists")
	return out
}

// ---------------------------------------------------------------- enums

func (g *gen) genEnum(f *fileGen, s *symbol) {
	e := &idlast.Enum{Name: idlast.B(s.name), Values: []*idlast.EnumValue{}, Annotations: g.annos("enum", 1, 4)}
	n := g.r.Range(1, 6)
	if g.r.Chance(1, 15) {
		n = 0
		g.stat("enum.empty")
	}
	names := newNameSet(g.valid() && !g.opt.NamingStress)
	usedVals := map[int64]bool{}
	cur := int64(-1)
	if g.r.Chance(1, 6) {
		cur = int64(g.r.Range(-6, -2)) // start negative
	}
	for i := 0; i < n; i++ {
		var v int64
		switch k := g.r.Intn(10); {
		case k < 6:
			v = cur + 1 // equals the implicit value
			g.stat("enum.value.sequential")
		case k < 8:
			v = cur + int64(g.r.Range(2, 20)) // gap
			g.stat("enum.value.gap")
		case k < 9:
			v = int64(-g.r.Range(1, 1000)) // negative, possibly going backwards
			g.stat("enum.value.negative")
		default:
			v = rng.Pick(g.r, []int64{2147483647, -2147483648, 65536, 255, 0})
			g.stat("enum.value.extreme")
		}
		if g.syn(1, 20) {
			v = rng.Pick(g.r, []int64{9223372036854775807, -9223372036854775808, 4294967296})
		}
		if (usedVals[v] || v > 2147483647) && !g.syn(1, 2) {
			// the checker wants distinct values inside the int32 range
			for usedVals[v] || v > 2147483647 {
				if v >= 2147483647 {
					v = int64(g.r.Range(-5000, 5000))
				} else {
					v++
				}
			}
		}
		usedVals[v] = true
		cur = v
		var name string
		if g.opt.NamingStress && g.r.Chance(1, 2) {
			name = names.fresh(g.stressSafe(rng.Pick(g.r, stressEnumValues)))
		} else {
			name = names.fresh(rng.Pick(g.r, enumValueWords))
		}
		if g.syn(1, 15) && i > 0 {
			name = string(e.Values[g.r.Intn(i)].Name) // duplicate name
		}
		e.Values = append(e.Values, &idlast.EnumValue{Name: idlast.B(name), Value: v, Annotations: g.annos("enum_value", 1, 6)})
	}
	s.enum = e
	f.ast.Enums = append(f.ast.Enums, e)
	g.stat("def.enum")
}

// ---------------------------------------------------------------- types

var baseTypes = []string{"bool", "byte", "i8", "i16", "i32", "i64", "double", "string", "binary"}

type typeCtx struct {
	depth     int  // container nesting already around this position
	key       bool // map key position
	limitRank bool // with maxRank: local typedefs must have a lower rank
	maxRank   int
	noTypedef bool    // never a typedef (throws)
	only      symKind // with onlyKind: restrict named types to this kind
	onlyKind  bool
}

// visible lists the symbols file f can name, of the wanted kinds.
func (g *gen) visible(f *fileGen, want func(*symbol) bool) []*symbol {
	var out []*symbol
	for _, s := range f.syms {
		if want(s) {
			out = append(out, s)
		}
	}
	for _, e := range f.incs {
		if !e.target.done {
			continue // back edge of a cycle
		}
		for _, s := range e.target.syms {
			if want(s) && g.nameable(f, s) {
				out = append(out, s)
			}
		}
	}
	return out
}

// nameable: prefix.Name written in f means s. With two includes of one prefix the
// first that defines the name wins for types and the reference is ambiguous for
// constants, so the name must be unique among them.
func (g *gen) nameable(f *fileGen, s *symbol) bool {
	if s.file == f {
		return true
	}
	direct := false
	for _, e := range f.incs {
		if e.target == s.file {
			direct = true
			continue
		}
		if e.target.prefix == s.file.prefix {
			for _, o := range e.target.syms {
				if o.name == s.name {
					return false
				}
				// an enum named like the include prefix cannot exist; but a constant
				// K next to an enum value E.K of another file with the same prefix is
				// still told apart by the number of dots
			}
		}
	}
	return direct
}

func (g *gen) refName(f *fileGen, s *symbol) string {
	if s.file == f {
		return s.name
	}
	return s.file.prefix + "." + s.name
}

func (g *gen) genType(f *fileGen, c typeCtx) *sty {
	t := g.genType1(f, c)
	if t == nil {
		return nil
	}
	if t.sym == nil && t.raw == "" {
		t.annos = g.annos("type", 1, 12)
	} else {
		t.annos = g.annos("type", 1, 20)
	}
	return t
}

func (g *gen) genType1(f *fileGen, c typeCtx) *sty {
	if g.syn(1, 25) {
		g.stat("type.undefined_name")
		return &sty{raw: rng.Pick(g.r, []string{"Missing", "nowhere.Thing", "a.b.C", "x.y.z.W", "_", "T1", "base.Nope", "Void", "Map", "strings", "i128"})}
	}
	k := g.r.Intn(100)
	if c.onlyKind {
		k = 99
	}
	switch {
	case k < 45 || (c.depth >= 4 && k < 75):
		b := rng.Pick(g.r, baseTypes)
		g.stat("type.base." + b)
		return &sty{base: b}
	case k < 75 && !c.onlyKind && !(c.key && g.valid()):
		inner := c
		inner.depth++
		inner.key = false
		g.stat("type.container.depth=" + strconv.Itoa(inner.depth))
		t := &sty{}
		switch g.r.Intn(3) {
		case 0:
			t.base = "map"
			kc := inner
			kc.key = true
			t.key = g.genType(f, kc)
			t.val = g.genType(f, inner)
			g.stat("type.map")
			if u := underlying(t.key); u != nil && u.sym != nil && u.sym.kind.structLike() {
				g.stat("type.map.struct_key")
			}
		case 1:
			t.base = "set"
			t.val = g.genType(f, inner)
			g.stat("type.set")
		default:
			t.base = "list"
			t.val = g.genType(f, inner)
			g.stat("type.list")
		}
		if g.r.Chance(1, 15) {
			t.cpp = rng.Pick(g.r, []string{"std::vector", "my::Map<K, V>", "", "x"})
			if t.cpp != "" {
				g.stat("type.cpp_type")
			}
		}
		return t
	}
	// a named type
	cands := g.visible(f, func(s *symbol) bool {
		if c.onlyKind && s.kind != c.only {
			return false
		}
		switch s.kind {
		case symException:
			if c.onlyKind {
				return true
			}
			return g.r.Chance(1, 6) // exceptions as plain field types are legal but unusual
		case symEnum, symStruct, symUnion:
			return true
		case symTypedef:
			if c.noTypedef || s.target == nil {
				return false // s.target == nil: a local typedef that is not complete yet (higher rank)
			}
			if s.file == f && c.limitRank && s.rank >= c.maxRank {
				return false
			}
			if c.key && g.valid() && isContainer(underlying(&sty{sym: s})) {
				return false // a map key must not be a container in the Valid envelope
			}
			return true
		}
		return false
	})
	if len(cands) == 0 {
		if c.onlyKind {
			return nil
		}
		b := rng.Pick(g.r, baseTypes)
		g.stat("type.base." + b)
		return &sty{base: b}
	}
	s := rng.Pick(g.r, cands)
	switch {
	case s.file != f:
		g.stat("type.named.included")
	default:
		g.stat("type.named.local")
	}
	if s.kind == symTypedef {
		depth := 0
		for u := s; u != nil && u.kind == symTypedef && u.target != nil && depth < 64; u = u.target.sym {
			depth++
			if u.target.sym != nil && u.target.sym.file != u.file {
				g.stat("type.typedef_chain.crosses_file")
			}
		}
		g.stat("type.typedef_chain.len=" + strconv.Itoa(depth))
	}
	return &sty{sym: s}
}

// toAST spells a type for file f.
func (g *gen) toAST(f *fileGen, t *sty) *idlast.Type {
	out := &idlast.Type{CppType: idlast.B(t.cpp), Annotations: t.annos}
	switch {
	case t.raw != "":
		out.Name = idlast.B(t.raw)
	case t.sym != nil:
		out.Name = idlast.B(g.refName(f, t.sym))
	default:
		out.Name = idlast.B(t.base)
		if t.key != nil {
			out.KeyType = g.toAST(f, t.key)
		}
		if t.val != nil {
			out.ValueType = g.toAST(f, t.val)
		}
	}
	return out
}

func (g *gen) genTypedefTarget(f *fileGen, s *symbol) {
	if g.r.Chance(1, 4) {
		// a chain: typedef of a typedef (local of lower rank, or from an include)
		s.target = g.genType(f, typeCtx{limitRank: true, maxRank: s.rank, onlyKind: true, only: symTypedef})
	}
	if s.target == nil {
		s.target = g.genType(f, typeCtx{limitRank: true, maxRank: s.rank})
	}
	if s.target.sym != nil && s.target.sym.file != f {
		g.stat("typedef.of_included")
	}
}
