(* Idl/ResolveFuelEnum.v — getEnum with the fuel the model gives it ([enum_fuel]) never
   runs out, provided every typedef of the program denotes something (no cycle, no
   dangling end) and definition names are plain. *)
From Coq Require Import List Bool Arith Lia NArith ZArith Permutation.
From Coq.Strings Require Import Byte.
From Verif Require Import Base.Bytes Idl.Ast Idl.AstUtil Idl.AstFacts Idl.Resolve Idl.ResolveSpec Idl.ResolveTd
     Idl.ResolveLemmas Idl.ResolveInv Idl.ResolveConst Idl.ResolveProg Idl.ResolveDeref Idl.ResolveFacts
     Idl.ResolvableSpec Idl.ResolvePath.
Import ListNotations.
Local Open Scope resolve_scope.

Lemma def_path_typedef_inv p gn name tgt d l :
  def_of p gn name = Some (DkTypedef tgt) -> def_path p gn name d l ->
  exists l', l = (gn, name) :: l' /\ name_path p gn tgt d l'.
Proof.
  intros Hd H. destruct H as [? ? ? H | ? ? ? H | ? ? tgt' ? l' H Hn]; try congruence.
  assert (tgt' = tgt) by congruence. subst. eauto.
Qed.

Lemma name_path_inv p gn tgt d l :
  name_path p gn tgt d l ->
  (exists c, builtin_category tgt = Some c) \/
  (builtin_category tgt = None /\ exists a, split_type tgt = [a] /\ def_path p gn a d l) \/
  (builtin_category tgt = None /\ exists f pre m i hn, split_type tgt = [pre; m] /\ prog_file p gn = Some f /\
     spec_include p is_type_kind pre m (file_incs f) 0 = Some (i, hn) /\ def_path p hn m d l).
Proof.
  destruct 1 as [? ? c Hb | ? ? a ? ? Hb Hs Hdp | ? f0 ? pre m i hn ? ? Hb Hs Hf0 Hsi Hdp].
  - left. eauto.
  - right. left. eauto.
  - right. right. split; [exact Hb|]. exists f0, pre, m, i, hn. auto.
Qed.

Section EnumFuel.
  Variables (p done : program).
  Hypothesis Hinv : inv p done.
  Hypothesis Hplain : plain_names p = true.
  (* every typedef of the program has a chain end *)
  Hypothesis Hall_td : forall gn n tgt, def_of p gn n = Some (DkTypedef tgt) -> exists d, def_denotes p gn n d.

  Lemma plain_lookup_none gn g tgt :
    prog_file p gn = Some g -> plain_name tgt = false -> lookup tgt (file_defs g) = None.
  Proof.
    intros Hg Hp. destruct (lookup tgt (file_defs g)) as [k|] eqn:L; [|reflexivity]. exfalso.
    assert (plain_name tgt = true) by (eapply plain_def; [exact Hplain | rewrite (def_of_file p gn g tgt Hg); exact L]). congruence.
  Qed.

  Lemma get_enum_total : forall fuel gn g g' name,
    ectx p done gn g g' -> 0 < fuel ->
    (forall tgt d l, lookup name (file_defs g) = Some (DkTypedef tgt) -> def_path p gn name d l -> length l < fuel) ->
    exists res, get_enum fuel done g' name = Ok res.
  Proof.
    induction fuel as [|k IH]; intros gn g g' name Ec Hpos Hlen; [lia|]. cbn [get_enum].
    pose proof (ec_file _ _ _ _ _ Ec) as Hg. rewrite (ec_n2c _ _ _ _ _ Ec).
    destruct (lookup name (file_defs g)) as [kd|] eqn:Lk; cbn [option_map]; [|eauto].
    destruct kd as [tgt| |vs|s|]; cbn [dkind_cat]; eauto.
    - (* typedef *)
      destruct (Hall_td gn name tgt ltac:(rewrite (def_of_file p gn g name Hg); exact Lk)) as (d & Hd).
      destruct (proj1 (denotes_path p) _ _ _ Hd) as (l & Hl). pose proof (Hlen tgt d l eq_refl Hl) as Hlt.
      destruct (def_path_typedef_inv p gn name tgt d l ltac:(rewrite (def_of_file p gn g name Hg); exact Lk) Hl) as (l' & -> & Hnp).
      cbn [length] in Hlt.
      destruct (ec_td _ _ _ _ _ Ec name tgt Lk) as (td' & Ft & Hn & Href). rewrite Ft, Hn.
      assert (Hfallback : lookup tgt (file_defs g) = None -> exists res, get_enum k done g' tgt = Ok res).
      { intros Ln. destruct k as [|k']; [lia|]. cbn [get_enum]. rewrite (ec_n2c _ _ _ _ _ Ec), Ln. cbn. eauto. }
      destruct (name_path_inv p gn tgt d l' Hnp) as [(c & Hb)|[(Hb & a & Hs & Hdp)|(Hb & f0 & pre & m & i & hn & Hs & Hf0 & Hsi & Hdp)]].
      + rewrite Hb in Href. rewrite Href. cbn [bind].
        apply Hfallback. eapply plain_lookup_none; eauto. unfold plain_name. rewrite Hb. reflexivity.
      + rewrite Hb, Hs in Href. rewrite Href. cbn [bind]. pose proof (split_type_single _ _ Hs) as ->.
        apply (IH gn g g' tgt Ec); [lia|]. intros tgt2 d2 l2 _ Hp2. rewrite (proj1 (path_fun p) _ _ _ _ Hdp _ _ Hp2). lia.
      + rewrite Hb, Hs in Href. destruct Href as (i' & hn' & h' & Hsi' & Hr0 & Htg & Lh).
        assert (f0 = g) by congruence. subst f0. rewrite Hsi in Hsi'. injection Hsi' as <- <-.
        rewrite Hr0, Htg. cbn [ref_name ref_index].
        destruct (Hinv hn h' Lh) as (h & Hh & Gh).
        destruct (IH hn h h' m (good_ectx p done hn h h' Hh Gh)) as (r1 & ->); [lia| |].
        { intros tgt2 d2 l2 _ Hp2. rewrite (proj1 (path_fun p) _ _ _ _ Hdp _ _ Hp2). lia. }
        cbn [bind]. destruct r1 as [[en idx]|]; [eauto|].
        apply Hfallback. eapply plain_lookup_none; eauto. unfold plain_name. rewrite Hb, Hs. reflexivity.
    - (* enum *)
      destruct (file_defs_enum_inv g name vs (ec_nodup _ _ _ _ _ Ec) Lk) as (en & Fe & _).
      unfold find_enum in *. rewrite (ec_enums _ _ _ _ _ Ec), Fe. eauto.
    - destruct s; cbn; eauto.
  Qed.
End EnumFuel.

(* ---------------------------------------------------------------- the bound: chains stay inside the finished files and the current one *)

Section EnumBound.
  Variables (p done : program) (fn : bytes) (f : file).
  Hypothesis Hinv : inv p done.
  Hypothesis Hf : prog_file p fn = Some f.
  Hypothesis Htargets : forall i, In i (f_includes f) -> exists hn, in_ref i = Some hn /\ lookup hn done <> None.

  Definition near (gn : bytes) : Prop := gn = fn \/ lookup gn done <> None.
  Definition near_typedefs : list (bytes * bytes) :=
    map (fun td => (fn, td_alias td)) (f_typedefs f) ++ all_typedefs done.

  Lemma near_typedefs_length : length near_typedefs = length (f_typedefs f) + prog_typedef_count done.
  Proof. unfold near_typedefs. rewrite app_length, map_length, all_typedefs_length. reflexivity. Qed.

  Lemma typedef_alias_in g m tgt : lookup m (file_defs g) = Some (DkTypedef tgt) -> In m (map td_alias (f_typedefs g)).
  Proof.
    intros H. apply lookup_In in H. unfold file_defs in H. apply in_app_or in H. destruct H as [H|H].
    - apply in_map_iff in H. destruct H as (td & [= <- _] & Hin). apply in_map. exact Hin.
    - exfalso. repeat (apply in_app_or in H; destruct H as [H|H]); apply in_map_iff in H; destruct H as (? & [= _ ?] & _).
  Qed.

  Lemma near_path :
    (forall gn m d l, def_path p gn m d l -> near gn -> incl l near_typedefs) /\
    (forall gn n d l, name_path p gn n d l -> near gn -> incl l near_typedefs).
  Proof.
    apply path_mutind; try (intros; intros x []; fail).
    - intros gn m tgt d l H _ IH Hn x [<-|Hx]; [|apply IH; assumption]. unfold near_typedefs. apply in_or_app.
      destruct (lookup gn done) as [g'|] eqn:Lg.
      + right. destruct (Hinv gn g' Lg) as (g & Hg & Gd). rewrite (def_of_file p gn g m Hg) in H.
        destruct (good_find_typedef p done gn g g' m tgt Gd H) as (td' & Ft & _).
        apply lookup_In in Lg. unfold find_typedef in Ft. destruct (find_by_In _ _ _ _ Ft) as (Hin & Ha).
        unfold all_typedefs. apply in_flat_map'. exists (gn, g'). split; [exact Lg|]. cbn [fst snd].
        apply in_map_iff. exists td'. rewrite Ha. auto.
      + left. destruct Hn as [->|Hn]; [|congruence]. rewrite (def_of_file p fn f m Hf) in H.
        pose proof (typedef_alias_in f m tgt H) as Hin. apply in_map_iff in Hin. destruct Hin as (td & <- & Hin).
        apply in_map_iff. exists td. auto.
    - intros gn n a d l Hb Hs _ IH Hn. apply IH. exact Hn.
    - intros gn f0 n pre m i hn d l Hb Hs Hf0 Hsi _ IH Hn. apply IH. right.
      destruct (spec_include_nth _ _ _ _ _ _ _ _ Hsi) as (_ & Hnth & _). rewrite Nat.sub_0_r in Hnth.
      unfold file_incs in Hnth. rewrite nth_error_map in Hnth.
      destruct (nth_error (f_includes f0) i) as [x|] eqn:Nx; [|discriminate]. cbn [option_map] in Hnth. injection Hnth as _ Hrx.
      destruct (lookup gn done) as [g'|] eqn:Lg.
      + destruct (Hinv gn g' Lg) as (g & Hg & Gd). assert (f0 = g) by congruence. subst f0.
        destruct (gd_targets _ _ _ _ _ Gd x (nth_error_In _ _ Nx)) as (hn2 & Hr2 & Hl2). congruence.
      + destruct Hn as [->|Hn]; [|congruence]. assert (f0 = f) by congruence. subst f0.
        destruct (Htargets x (nth_error_In _ _ Nx)) as (hn2 & Hr2 & Hl2). congruence.
  Qed.

  Lemma near_path_length gn m d l : def_path p gn m d l -> near gn ->
    length l <= length (f_typedefs f) + prog_typedef_count done.
  Proof.
    intros H Hn. rewrite <- near_typedefs_length. apply NoDup_incl_length; [eapply def_path_NoDup; eauto|].
    eapply (proj1 near_path); eauto.
  Qed.

  Hypothesis Hplain : plain_names p = true.
  Hypothesis Hall_td : forall gn n tgt, def_of p gn n = Some (DkTypedef tgt) -> exists d, def_denotes p gn n d.

  (* getEnum with the model's fuel never runs out *)
  Theorem enum_fuel_suffices n2c tds1 gn g g' name :
    mapM (resolve_typedef done (with_name2cat f (Some n2c))) (f_typedefs f) = Ok tds1 ->
    ectx p done gn g g' -> near gn ->
    exists res, get_enum (enum_fuel done (cur1 f n2c tds1)) done g' name = Ok res.
  Proof.
    intros Htds Ec Hn. apply (get_enum_total p done Hinv Hplain Hall_td _ gn g g' name Ec).
    - unfold enum_fuel. lia.
    - intros tgt d l _ Hp. pose proof (near_path_length _ _ _ _ Hp Hn) as Hb.
      assert (length tds1 = length (f_typedefs f)) as El.
      { symmetry. eapply Forall2_len. exact (mapM_Forall2 _ _ _ Htds). }
      unfold enum_fuel. change (f_typedefs (cur1 f n2c tds1)) with tds1. rewrite El. lia.
  Qed.
End EnumBound.
