(* Props/C01.v — property C01 "Every accepted IDL yields Go code that compiles" (partial).
   Proved here: the collision-renaming logic every generated identifier table goes through
   (pkg/namespace) never gives one name to two ids, never takes a reserved name away, for
   every sequence of operations and every rename function.  Not proved (observed by compiling
   the generated code in the correspondence harness): that template text is well-typed Go. *)
From Coq Require Import List Arith Bool.
From Verif Require Import Base.Bytes Gen.Namespace Gen.NamespaceFacts.
Import ListNotations.

Theorem C01_ns_injective :
  forall rename ops s vs i j n,
  run_ops rename ns0 ops = (s, vs) ->
  lookup i (id2name s) = Some n -> lookup j (id2name s) = Some n -> i = j.
Proof. exact ns_injective. Qed.
Print Assumptions C01_ns_injective.

Theorem C01_ns_owner_stable :
  forall rename ops s s' vs, run_ops rename s ops = (s', vs) -> owners_kept s s'.
Proof. exact ns_owner_stable. Qed.
Print Assumptions C01_ns_owner_stable.

Theorem C01_reserve_spec :
  forall s name id,
  (lookup name (name2id s) = None -> exists s', reserve s name id = (s', true) /\ get s' id = name /\ get_id s' name = id) /\
  (lookup name (name2id s) <> None -> reserve s name id = (s, false)).
Proof. exact reserve_spec. Qed.
Print Assumptions C01_reserve_spec.

Theorem C01_add_spec :
  forall rename s name id s' r,
  add rename s name id = Some (s', r) ->
  get s' id = r /\ get_id s' r = id /\
  ((lookup name (name2id s) = None \/ lookup name (name2id s) = Some id) -> r = name).
Proof. exact add_spec. Qed.
Print Assumptions C01_add_spec.

(* non-vacuity: a collision is renamed, a reservation blocks, ids stay apart *)
From Coq Require Import String.
Open Scope string_scope.
Example C01_example :
  snd (run_ops underscore_suffix ns0
        [OReserve (B "New") (B "r"); OAdd (B "New") (B "a"); OAdd (B "New") (B "b"); OGet (B "a"); OID (B "New__")])
  = [VBool true; VName (B "New_"); VName (B "New__"); VName (B "New_"); VName (B "b")].
Proof. vm_compute. reflexivity. Qed.
