(* Idl/AcceptKinds.v — property C04: the kind errors of constant and default values,
   for every way the declared type can be written (Idl/RulesKinds.v).  The resolved
   image of a type has the category of what its name denotes (C05: resolve_category),
   semantic.Deref arrives at the denoted struct-like with the fuel the model uses (C05:
   deref_spec_fuel), and resolution changes neither the shape of types nor anything of a
   value but the bindings of identifiers; so [kind_check] on the resolved program
   rejects whatever [spec_kind] flags on the parsed one. *)
From Coq Require Import List Bool Arith Lia NArith ZArith.
From Coq.Strings Require Import Byte.
From Verif Require Import Base.Bytes Idl.Ast Idl.AstUtil Idl.AstFacts Idl.Resolve Idl.ResolveSpec Idl.ResolveTd
     Idl.ResolveLemmas Idl.ResolveInv Idl.ResolveConst Idl.ResolveProg Idl.ResolveDeref Idl.ResolveFacts Idl.ResolveFuel
     Idl.ResolvableSpec Idl.ResolveComplete
     Idl.Check Idl.Rules Idl.RulesKinds Idl.CheckFacts Idl.Accept Idl.AcceptFacts Idl.AcceptBackend Idl.AcceptSound.
Import ListNotations.
Local Open Scope resolve_scope.

(* ---------------------------------------------------------------- resolution keeps the shape of a type *)

Fixpoint ty_sim (t t2 : ty) {struct t} : Prop :=
  match t with
  | Ty n k v _ _ _ _ _ =>
    ty_name t2 = n /\
    match builtin_category n with
    | Some CatMap =>
      match k, ty_key t2 with Some x, Some y => ty_sim x y | _, _ => False end /\
      match v, ty_value t2 with Some x, Some y => ty_sim x y | _, _ => False end
    | Some CatList | Some CatSet =>
      match v, ty_value t2 with Some x, Some y => ty_sim x y | _, _ => False end
    | _ => True
    end
  end.

Lemma fix_ty_inv d g st n k v cpp an c r td t2 :
  fix_ty d g st (Ty n k v cpp an c r td) = Ok t2 ->
  ty_name t2 = n /\
  match k with Some x => exists y, ty_key t2 = Some y /\ fix_ty d g st x = Ok y | None => ty_key t2 = None end /\
  match v with Some x => exists y, ty_value t2 = Some y /\ fix_ty d g st x = Ok y | None => ty_value t2 = None end.
Proof.
  cbn [fix_ty]. intros H. inv_bind H. rename x into k', x0 into v'.
  assert (Hk : match k with Some x => exists y, k' = Some y /\ fix_ty d g st x = Ok y | None => k' = None end).
  { destruct k as [x|]; [inv_bind E; injection E as <-; eauto | injection E as <-; reflexivity]. }
  assert (Hv : match v with Some x => exists y, v' = Some y /\ fix_ty d g st x = Ok y | None => v' = None end).
  { destruct v as [x|]; [inv_bind E0; injection E0 as <-; eauto | injection E0 as <-; reflexivity]. }
  assert (Hform : exists c', t2 = Ty n k' v' cpp an c' r td).
  { destruct (is_typedef_cat c); [|injection H as <-; eauto].
    destruct (match r with Some rf => ext_typedef_cat d g rf | None => te_lookup st n end) as [c'|]; [|discriminate].
    destruct (is_typedef_cat c'); [discriminate|]. injection H as <-. eauto. }
  destruct Hform as (c' & ->). cbn [ty_name ty_key ty_value]. auto.
Qed.

Lemma kept_sim d g st : forall t t1 t2, resolve_ty d g t = Ok t1 -> fix_ty d g st t1 = Ok t2 -> ty_sim t t2.
Proof.
  induction t as [n k v cpp an cat r td IHk IHv] using ty_ind'. intros t1 t2 H1 H2.
  cbn [resolve_ty] in H1. cbn [ty_sim]. destruct (builtin_category n) as [c|] eqn:Bn.
  - destruct c;
      try (injection H1 as <-; destruct (fix_ty_inv _ _ _ _ _ _ _ _ _ _ _ _ H2) as (Hn & _); split; [exact Hn | exact I]).
    + (* map *)
      destruct k as [kt|]; [|discriminate]. destruct v as [vt|]; [|cbn [bind] in H1; inv_bind H1; discriminate].
      inv_bind H1. injection H1 as <-. destruct (fix_ty_inv _ _ _ _ _ _ _ _ _ _ _ _ H2) as (Hn & (y1 & Hk2 & Fk) & (y2 & Hv2 & Fv)).
      split; [exact Hn|]. rewrite Hk2, Hv2. split; [exact (IHk kt eq_refl _ _ E Fk) | exact (IHv vt eq_refl _ _ E0 Fv)].
    + destruct v as [vt|]; [|discriminate]. inv_bind H1. injection H1 as <-.
      destruct (fix_ty_inv _ _ _ _ _ _ _ _ _ _ _ _ H2) as (Hn & _ & (y2 & Hv2 & Fv)).
      split; [exact Hn|]. rewrite Hv2. exact (IHv vt eq_refl _ _ E Fv).
    + destruct v as [vt|]; [|discriminate]. inv_bind H1. injection H1 as <-.
      destruct (fix_ty_inv _ _ _ _ _ _ _ _ _ _ _ _ H2) as (Hn & _ & (y2 & Hv2 & Fv)).
      split; [exact Hn|]. rewrite Hv2. exact (IHv vt eq_refl _ _ E Fv).
  - assert (Hf : exists c r' td', t1 = Ty n k v cpp an c r' td').
    { destruct (split_type n) as [|a [|m [|? ?]]]; try discriminate.
      - destruct (lookup a (n2c_of g)) as [c|]; [|discriminate]. destruct (is_type_cat c); [|discriminate]. injection H1 as <-. eauto.
      - destruct (find_include d is_type_cat a m (f_includes g) 0) as [[idx c]|]; [|discriminate]. injection H1 as <-. eauto. }
    destruct Hf as (c & r' & td' & ->). destruct (fix_ty_inv _ _ _ _ _ _ _ _ _ _ _ _ H2) as (Hn & _). split; [exact Hn | exact I].
Qed.

(* ... and of a value: only the bindings of identifiers are added *)
Lemma resolve_cv_strip fuel d g : forall c c', resolve_cv fuel d g c = Ok c' -> cv_strip c' = cv_strip c.
Proof.
  induction c as [b|z|s0|s0 e0|l IHl|l IHl] using const_value_ind'; intros c' H; cbn [resolve_cv] in H.
  - injection H as <-. reflexivity.
  - injection H as <-. reflexivity.
  - injection H as <-. reflexivity.
  - inv_bind H. injection H as <-. reflexivity.
  - inv_bind H. injection H as <-. cbn [cv_strip]. f_equal. clear -IHl E. revert x E.
    induction IHl as [|y l Hy _ IH2]; intros l' E.
    + injection E as <-. reflexivity.
    + inv_bind E. injection E as <-. cbn [map]. rewrite (Hy _ E0), (IH2 _ E1). reflexivity.
  - inv_bind H. injection H as <-. cbn [cv_strip]. f_equal. clear -IHl E. revert x E.
    induction IHl as [|[k v] l (Hk & Hv) _ IH2]; intros l' E.
    + injection E as <-. reflexivity.
    + inv_bind E. injection E as <-. cbn [map fst snd] in *. rewrite (Hk _ E0), (Hv _ E1), (IH2 _ E2). reflexivity.
Qed.

Lemma strip_shape c c' : cv_strip c' = cv_strip c -> shape c' = shape c.
Proof.
  destruct c as [b|z|s|s e|l|l], c' as [b'|z'|s'|s' e'|l'|l']; cbn [cv_strip shape]; intros H; try discriminate H; try reflexivity.
  - injection H as ->. reflexivity.
  - f_equal. injection H as H. revert l' H. induction l as [|[k v] l IH]; intros [|[k' v'] l'] H; cbn [map] in *; try discriminate H; [reflexivity|].
    injection H as Hk _ Hl. cbn [fst snd] in *. rewrite (IH _ Hl). f_equal.
    destruct k, k'; cbn [cv_strip lit_key] in *; try discriminate Hk; try reflexivity. injection Hk as ->. reflexivity.
Qed.

Lemma map_eq_In {A B} (h : A -> B) l l2 x : map h l2 = map h l -> In x l -> exists x2, In x2 l2 /\ h x2 = h x.
Proof.
  intros E Hin. assert (Hm : In (h x) (map h l2)) by (rewrite E; apply in_map; exact Hin).
  apply in_map_iff in Hm. destruct Hm as (x2 & E2 & H2). eauto.
Qed.

Lemma first_defect_some {A} (h : A -> option kdefect) l d : first_defect h l = Some d -> exists x d', In x l /\ h x = Some d'.
Proof.
  induction l as [|y l IH]; cbn [first_defect]; [discriminate|]. destruct (h y) as [d0|] eqn:E.
  - intros _. exists y, d0. split; [left; reflexivity | exact E].
  - intros H. destruct (IH H) as (x & d' & Hin & Hx). exists x, d'. split; [right; exact Hin | exact Hx].
Qed.

Lemma first_err_some {A} (chk : A -> option const_error) l x : In x l -> chk x <> None -> first_err chk l <> None.
Proof. intros Hin Hx H. exact (Hx (first_err_none chk l H x Hin)). Qed.

Lemma kind_check_enum_form k r g t2 v2 v :
  ty_category t2 = CatEnum -> shape v2 = shape v ->
  match v with CInt _ | CIdent _ _ => False | _ => True end -> kind_check (S k) r g t2 v2 <> None.
Proof.
  intros Hc Hs Hv. cbn [kind_check]. rewrite Hc.
  destruct v as [b|z|s|s e|l|l]; try contradiction;
    destruct v2 as [b2|z2|s2|s2 e2|l2|l2]; cbn [shape] in Hs; try discriminate Hs; intros X; discriminate X.
Qed.

(* ---------------------------------------------------------------- the file of a denoted struct-like is reachable *)

Lemma denotes_reaches p :
  (forall fn a d, def_denotes p fn a d -> forall gn m k, d = TStruct gn m k -> reaches p fn gn) /\
  (forall fn n d, name_denotes p fn n d -> forall gn m k, d = TStruct gn m k -> reaches p fn gn).
Proof.
  apply denotes_mutind.
  - intros fn n vs H gn m k E. discriminate E.
  - intros fn n k H gn m k' E. injection E as <- _ _. apply r_refl.
  - intros fn n tgt d H _ IH gn m k E. exact (IH gn m k E).
  - intros fn n c H gn m k E. discriminate E.
  - intros fn n a d Hb Hs _ IH gn m k E. exact (IH gn m k E).
  - intros fn f n pre m i gn0 d Hb Hs Hf Hi _ IH gn m' k E.
    destruct (spec_include_nth _ _ _ _ _ _ _ _ Hi) as (_ & Hn & _). rewrite Nat.sub_0_r in Hn.
    unfold file_incs in Hn. rewrite nth_error_map in Hn. destruct (nth_error (f_includes f) i) as [x|] eqn:Nx; [|discriminate].
    cbn [option_map] in Hn. injection Hn as _ Hrx.
    eapply r_step; [|exact (IH gn m' k E)]. exists f, x. split; [exact Hf|]. split; [exact (nth_error_In _ _ Nx) | exact Hrx].
Qed.

Lemma done_reaches p done : inv p done -> forall a b, reaches p a b -> lookup a done <> None -> lookup b done <> None.
Proof.
  intros Hinv a b Hr. induction Hr as [a|a b c Hs _ IH]; intros Ha; [exact Ha|]. apply IH.
  destruct (lookup a done) as [g'|] eqn:La; [|congruence]. destruct (Hinv a g' La) as (g & Pg & Gd).
  destruct Hs as (f & i & Pf & Hi & Hri). assert (f = g) by congruence. subst f.
  destruct (gd_targets _ _ _ _ _ Gd i Hi) as (hn & Hrn & Hl). congruence.
Qed.

(* ---------------------------------------------------------------- one resolved file against its source *)

Definition fd_sim (fd fd2 : field) : Prop := fd_name fd2 = fd_name fd /\ ty_sim (fd_type fd) (fd_type fd2).
Definition sl_sim (s s2 : struct_like) : Prop := sl_name s2 = sl_name s /\ Forall2 fd_sim (sl_fields s) (sl_fields s2).

Lemma file_sims d1 f f' : resolve_file_in d1 f = Ok f' ->
  Forall2 sl_sim (struct_likes f) (struct_likes f') /\
  forall tv, In tv (typed_values f) ->
    exists tv2, In tv2 (backend_values f') /\ ty_sim (fst tv) (fst tv2) /\ cv_strip (snd tv2) = cv_strip (snd tv).
Proof.
  intros Hres. pose proof Hres as H. unfold resolve_file_in in H. inv_bind H. injection H as <-.
  rename x into n2c, x0 into tds1, x1 into cs1, x2 into ss1, x3 into us1, x4 into es1, x5 into sv1,
         x6 into st, x7 into tds2, x8 into cs2, x9 into ss2, x10 into us2, x11 into es2, x12 into sv2.
  set (f0 := with_name2cat f (Some n2c)) in *. set (f1 := with_typedefs f0 tds1) in *.
  set (fuel := enum_fuel d1 f1) in *.
  pose proof (structs_kept d1 f1 st fuel _ _ _ E2 E9) as Ks.
  pose proof (structs_kept d1 f1 st fuel _ _ _ E3 E10) as Ku.
  pose proof (structs_kept d1 f1 st fuel _ _ _ E4 E11) as Ke.
  assert (Ksl : Forall2 (sl_kept d1 f1 st fuel) (struct_likes f) (ss2 ++ us2 ++ es2))
    by (unfold struct_likes; repeat apply Forall2_app; assumption).
  assert (Ksv : Forall2 (sv_kept d1 f1 st fuel) (f_services f) sv2).
  { eapply Forall2_impl'; [|exact (two_mapM _ _ _ _ _ E5 E12)]. intros sv sv2' (sv1' & A & B). eapply service_kept; eauto. }
  assert (Kc : Forall2 (co_kept d1 f1 st fuel) (f_constants f) cs2).
  { eapply Forall2_impl'; [|exact (two_mapM _ _ _ _ _ E1 E8)]. intros c c2 (c1 & A & B). eapply constant_kept; eauto. }
  assert (Hts : forall t t2, ty_kept d1 f1 st t t2 -> ty_sim t t2).
  { intros t t2 (t1 & A & B). exact (kept_sim d1 f1 st t t1 t2 A B). }
  split.
  - unfold struct_likes at 2. cbn [with_includes f_structs f_unions f_exceptions].
    eapply Forall2_impl'; [|exact Ksl]. intros s s2 (Hn & Hfs). split; [exact Hn|].
    eapply Forall2_impl'; [|exact Hfs]. intros fd fd2 (Hfn & Hft & _). split; [exact Hfn | exact (Hts _ _ Hft)].
  - intros tv Hin.
    assert (Hpair : exists tv2, In tv2 (flat_map field_values (flat_map' sl_fields (ss2 ++ us2 ++ es2) ++ flat_map' service_fields sv2) ++
                                  map (fun c => (co_type c, co_value c)) cs2) /\ tv_kept d1 f1 st fuel tv tv2).
    { unfold typed_values in Hin. apply in_app_or in Hin. destruct Hin as [Hin|Hin].
      - apply in_map_iff in Hin. destruct Hin as (c & <- & Hc).
        destruct (Forall2_In_l _ _ _ _ Kc Hc) as (c2 & Hc2 & (Kt & Kv)).
        exists (co_type c2, co_value c2). split; [|split; assumption].
        apply in_or_app. right. apply in_map_iff. eauto.
      - change (In tv (flat_map field_values (file_fields f))) in Hin.
        assert (Kf : Forall2 (fd_kept d1 f1 st fuel) (file_fields f)
                             (flat_map' sl_fields (ss2 ++ us2 ++ es2) ++ flat_map' service_fields sv2)).
        { unfold file_fields. apply Forall2_app.
          - clear -Ksl. induction Ksl as [|s s2 l l2 (_ & Hfs) _ IH]; [constructor|].
            unfold flat_map' in *. cbn [map concat]. apply Forall2_app; assumption.
          - clear -Ksv. induction Ksv as [|sv sv2' l l2 Hsv _ IH]; [constructor|].
            unfold flat_map' at 1 2. cbn [map concat]. apply Forall2_app; [|exact IH].
            unfold service_fields. clear -Hsv. unfold sv_kept in Hsv.
            induction Hsv as [|fu fu2 l l2 (Ha & Ht) _ IH]; [constructor|].
            unfold flat_map' in *. cbn [map concat]. apply Forall2_app; [|exact IH].
            unfold function_fields. apply Forall2_app; assumption. }
        destruct (fields_values d1 f1 st fuel _ _ Kf tv Hin) as (tv2 & Hi & Hk).
        exists tv2. split; [apply in_or_app; left; exact Hi | exact Hk]. }
    destruct Hpair as (tv2 & Hi2 & (Kt & Kv)). exists tv2. split; [|split].
    + unfold backend_values, file_fields, struct_likes.
      cbn [with_includes f_structs f_unions f_exceptions f_services f_constants]. exact Hi2.
    + exact (Hts _ _ Kt).
    + exact (resolve_cv_strip _ _ _ _ _ Kv).
Qed.

Lemma struct_field_top g s2 fd2 : In s2 (struct_likes g) -> In fd2 (sl_fields s2) -> In (fd_type fd2) (file_top_occs g).
Proof.
  intros Hs Hf. unfold file_top_occs. apply in_or_app. right. apply in_or_app. right. apply in_or_app. left.
  apply in_map. apply in_flat_map'_iff. eauto.
Qed.

Lemma backend_values_top g tv2 : In tv2 (backend_values g) -> In (fst tv2) (file_top_occs g).
Proof.
  unfold backend_values. intros H. apply in_app_or in H. destruct H as [H|H].
  - apply in_flat_map in H. destruct H as (fd & Hfd & Htv). destruct (fd_default fd) as [v|]; [|destruct Htv].
    destruct Htv as [<-|[]]. cbn [fst]. unfold file_fields in Hfd. apply in_app_or in Hfd. destruct Hfd as [Hfd|Hfd].
    + apply in_flat_map'_iff in Hfd. destruct Hfd as (s & Hs & Hf). exact (struct_field_top g s fd Hs Hf).
    + apply in_flat_map'_iff in Hfd. destruct Hfd as (sv & Hsv & Hf). unfold service_fields in Hf.
      apply in_flat_map'_iff in Hf. destruct Hf as (fu & Hfu & Hf).
      unfold file_top_occs. apply in_or_app. right. apply in_or_app. right. apply in_or_app. right.
      apply in_flat_map'_iff. exists sv. split; [exact Hsv|]. apply in_flat_map'_iff. exists fu. split; [exact Hfu|].
      unfold function_top_types. apply in_or_app. right. apply in_map. exact Hf.
  - apply in_map_iff in H. destruct H as (c & <- & Hc). cbn [fst]. unfold file_top_occs.
    apply in_or_app. right. apply in_or_app. left. apply in_map. exact Hc.
Qed.

Lemma occs_value t2 e2 :
  (builtin_category (ty_name t2) = Some CatList \/ builtin_category (ty_name t2) = Some CatSet \/
   builtin_category (ty_name t2) = Some CatMap) ->
  ty_value t2 = Some e2 -> incl (ty_occs e2) (ty_occs t2).
Proof.
  destruct t2 as [n k v cpp an c r td]. cbn [ty_name ty_value]. intros Hb -> x Hx. rewrite ty_occs_unfold. right.
  destruct Hb as [Hb | [Hb | Hb]]; rewrite Hb; cbn [opt_occs]; [exact Hx | exact Hx | apply in_or_app; right; exact Hx].
Qed.

Lemma occs_key t2 e2 : builtin_category (ty_name t2) = Some CatMap -> ty_key t2 = Some e2 -> incl (ty_occs e2) (ty_occs t2).
Proof.
  destruct t2 as [n k v cpp an c r td]. cbn [ty_name ty_key]. intros Hb -> x Hx. rewrite ty_occs_unfold. right.
  rewrite Hb. cbn [opt_occs]. apply in_or_app. left. exact Hx.
Qed.

(* ---------------------------------------------------------------- the main lemma *)

Section Deep.
  Variables (p r done : program).
  Hypothesis Hp : parsed_program p = true.
  Hypothesis Hr : resolve_program p = Ok r.
  Hypothesis Hinv : inv p done.
  Hypothesis Htr : traced p done.
  Hypothesis Hres : forall fn f', lookup fn done = Some f' -> prog_file r fn = Some f'.

  (* [f'] is the resolved form of the parsed file [f] called [fn] *)
  Definition image (fn : bytes) (f f' : file) : Prop := prog_file p fn = Some f /\ lookup fn done = Some f'.

  Lemma image_res fn f f' : image fn f f' ->
    prog_file r fn = Some f' /\ f_name2cat f' <> None /\ exists d1, resolve_file_in d1 f = Ok f'.
  Proof.
    intros (Pf & L). split; [exact (Hres fn f' L)|]. destruct (Hinv fn f' L) as (g & Pg & Gd). split; [exact (gd_resolved _ _ _ _ _ Gd)|].
    destruct (Htr fn f' L) as (d1 & f0 & Pf0 & _ & _ & _ & R1). assert (f0 = f) by congruence. subst f0. eauto.
  Qed.

  Lemma denote_builtin fn n c : builtin_category n = Some c -> denote (denote_fuel p) p fn n = Some (TBuiltin c).
  Proof. intros H. unfold denote_fuel. rewrite Nat.add_comm. cbn [plus denote]. rewrite H. reflexivity. Qed.

  Lemma kind_deep : forall k fn f f' t t2 v v2 n dft,
    image fn f f' -> ty_sim t t2 -> incl (ty_occs t2) (file_occs f') -> cv_strip v2 = cv_strip v ->
    spec_kind k p fn t v = Some dft -> kind_check n r f' t2 v2 <> None.
  Proof.
    induction k as [|k IH]; intros fn f f' t t2 v v2 n dft Himg Hsim Hincl Hstrip Hs; [discriminate|].
    destruct n as [|m]; [cbn [kind_check]; discriminate|].
    destruct (image_res fn f f' Himg) as (Pr & Hn2c & _).
    assert (Hocc : In t2 (file_occs f')) by (apply Hincl, ty_occs_head).
    destruct (resolve_category p r Hp Hr fn f' t2 Pr Hn2c Hocc) as (d0 & Hd0 & Hcat).
    destruct t as [nm kk vv cpp an cat rr td]. cbn [ty_sim] in Hsim. destruct Hsim as (Hname & Hch).
    cbn [spec_kind ty_name ty_key ty_value] in Hs. rewrite Hname in Hd0.
    assert (Hshape : shape v2 = shape v) by (apply strip_shape; exact Hstrip).
    (* the scalar / enum / struct branch, shared by builtin scalars and other names *)
    assert (Hden : forall dd, denote (denote_fuel p) p fn nm = Some dd ->
              match dd with
              | TBuiltin c => if scalar_holds c v then None else Some DMismatch
              | TEnum _ _ => match v with CInt _ | CIdent _ _ => None | _ => Some DMismatch end
              | TStruct gn name _ =>
                match v with
                | CIdent _ _ => None
                | CMap l =>
                  match prog_file p gn with
                  | Some g =>
                    match find_struct_like g name with
                    | Some s =>
                      first_defect (fun kv => match fst kv with
                                              | CLiteral n0 => match find_field s n0 with
                                                               | Some fd => spec_kind k p gn (fd_type fd) (snd kv)
                                                               | None => Some DBadKey
                                                               end
                                              | _ => Some DBadKey
                                              end) l
                    | None => None
                    end
                  | None => None
                  end
                | _ => Some DMismatch
                end
              end = Some dft -> kind_check (S m) r f' t2 v2 <> None).
    { intros dd Hdd Hs'. pose proof (denote_sound p _ _ _ _ Hdd) as Hdn.
      pose proof (name_denotes_fun p fn nm d0 Hd0 dd Hdn) as <-.
      destruct d0 as [c|efn en|gn name ks]; cbn [kind] in Hcat.
      - destruct (scalar_holds c v) eqn:Sh; [discriminate|]. exact (kind_check_scalar m r f' t2 v2 c v Hcat Hshape Sh).
      - apply (kind_check_enum_form m r f' t2 v2 v Hcat Hshape). destruct v; try exact I; discriminate.
      - assert (Hsl : is_struct_like_category (ty_category t2) = true) by (rewrite Hcat; destruct ks; reflexivity).
        destruct v as [b|z|s0|s0 e0|l0|l]; try discriminate Hs';
          try (apply (kind_check_struct_form m r f' t2 v2 _ Hsl Hshape); exact I).
        destruct (prog_file p gn) as [g|] eqn:Pg; [|discriminate]. destruct (find_struct_like g name) as [s|] eqn:Fs; [|discriminate].
        (* Deref arrives at the struct-like *)
        destruct (deref_spec_fuel p r Hp Hr fn f' t2 Pr Hn2c Hocc) as (d1 & Hd1 & (h' & x & Hrun & _ & _ & _ & Hrest)).
        rewrite Hname in Hd1. pose proof (name_denotes_fun p fn nm _ Hdn d1 Hd1) as <-. destruct Hrest as (Ph & Hxn).
        pose proof (Hrun (deref_fuel r) (le_n _)) as Hderef.
        (* its file is a resolved image *)
        assert (Hreach : reaches p fn gn) by exact (proj2 (denotes_reaches p) fn nm _ Hdn gn name ks eq_refl).
        assert (Lg : lookup gn done <> None).
        { apply (done_reaches p done Hinv fn gn Hreach). destruct Himg as (_ & L). congruence. }
        destruct (lookup gn done) as [h0|] eqn:Lh; [|congruence]. assert (h0 = h') by (pose proof (Hres gn h0 Lh); congruence). subst h0.
        assert (Himg' : image gn g h') by (split; assumption).
        destruct (image_res gn g h' Himg') as (_ & _ & d1' & Rg). destruct (file_sims d1' g h' Rg) as (Ksl & _).
        unfold find_struct_like in Fs.
        destruct (find_by_rel sl_name sl_sim _ _ Ksl (fun a b HR => proj1 HR) name s Fs) as (s2 & Fs2 & (_ & Hfs)).
        (* the value *)
        destruct v2 as [b2|z2|s2'|s2' e2|l2'|l2]; cbn [cv_strip] in Hstrip; try discriminate Hstrip. injection Hstrip as Hmap.
        destruct (first_defect_some _ _ _ Hs') as (kv & d' & Hin & Hkv).
        destruct (map_eq_In _ _ _ kv Hmap Hin) as (kv2 & Hin2 & Ekv). injection Ekv as Ek Ev.
        assert (Hentry : match fst kv2 with
                         | CLiteral n0 => match find_field s2 n0 with
                                          | Some fd2 => kind_check m r h' (fd_type fd2) (snd kv2)
                                          | None => Some EUnknownField
                                          end
                         | _ => Some EBadKey
                         end <> None).
        { destruct (fst kv) as [b1|z1|n1|s1 e1|l1|l1] eqn:Ekey;
            destruct (fst kv2) as [b3|z3|n3|s3 e3|l3|l3]; cbn [cv_strip] in Ek; try discriminate Ek; try discriminate.
          injection Ek as ->. destruct (find_field s n1) as [fd|] eqn:Ff.
          - unfold find_field in Ff.
            destruct (find_by_rel fd_name fd_sim _ _ Hfs (fun a b HR => proj1 HR) n1 fd Ff) as (fd2 & Ff2 & (_ & Hts)).
            unfold find_field. rewrite Ff2.
            apply (IH gn g h' (fd_type fd) (fd_type fd2) (snd kv) (snd kv2) m d' Himg' Hts); [|exact Ev | exact Hkv].
            apply In_top_occs_file_occs. destruct (find_by_In _ _ _ _ Fs2) as (Hs2 & _). destruct (find_by_In _ _ _ _ Ff2) as (Hf2 & _).
            exact (struct_field_top h' s2 fd2 Hs2 Hf2).
          - unfold find_field in *. rewrite (proj2 (find_by_rel_none fd_name fd_sim _ _ Hfs (fun a b HR => proj1 HR) n1) Ff). discriminate. }
        cbn [kind_check]. unfold find_struct_like.
        destruct ks; cbn [sl_kind_category] in Hcat; rewrite Hcat, Hderef, Hxn, Fs2;
          exact (first_err_some _ _ kv2 Hin2 Hentry). }
    destruct (builtin_category nm) as [c|] eqn:Bn.
    - pose proof (name_denotes_fun p fn nm d0 Hd0 (TBuiltin c) (nd_builtin p fn nm c Bn)) as ->. cbn [kind] in Hcat.
      pose proof (denote_builtin fn nm c Bn) as Hdb. rewrite Hdb in Hs.
      destruct c; try exact (Hden _ Hdb Hs).
      + (* map *)
        destruct v as [b|z|s0|s0 e0|l0|l]; try discriminate Hs.
        destruct kk as [kt|]; [|discriminate]. destruct vv as [vt|]; [|discriminate]. destruct Hch as (Hk & Hv).
        destruct (ty_key t2) as [kt2|] eqn:Tk; [|contradiction]. destruct (ty_value t2) as [vt2|] eqn:Tv; [|contradiction].
        destruct v2 as [b2|z2|s2'|s2' e2|l2'|l2]; cbn [cv_strip] in Hstrip; try discriminate Hstrip. injection Hstrip as Hmap.
        destruct (first_defect_some _ _ _ Hs) as (kv & d' & Hin & Hkv).
        destruct (map_eq_In _ _ _ kv Hmap Hin) as (kv2 & Hin2 & Ekv). injection Ekv as Ek Ev.
        assert (Bn2 : builtin_category (ty_name t2) = Some CatMap) by (rewrite Hname; exact Bn).
        cbn [kind_check]. rewrite Hcat. destruct l2 as [|y l2]; [destruct Hin2|]. rewrite Tk, Tv.
        apply (first_err_some _ _ kv2 Hin2). cbv beta.
        destruct (spec_kind k p fn kt (fst kv)) as [dk|] eqn:Sk.
        * pose proof (IH fn f f' kt kt2 (fst kv) (fst kv2) m dk Himg Hk
                        (fun o Ho => Hincl o (occs_key t2 kt2 Bn2 Tk o Ho)) Ek Sk) as Hne.
          destruct (kind_check m r f' kt2 (fst kv2)); [discriminate | contradiction].
        * destruct (kind_check m r f' kt2 (fst kv2)); [discriminate|].
          exact (IH fn f f' vt vt2 (snd kv) (snd kv2) m d' Himg Hv
                    (fun o Ho => Hincl o (occs_value t2 vt2 (or_intror (or_intror Bn2)) Tv o Ho)) Ev Hkv).
      + (* list *)
        destruct v as [b|z|s0|s0 e0|l|l0]; try discriminate Hs. destruct vv as [et|]; [|discriminate].
        destruct (ty_value t2) as [e2|] eqn:Tv; [|contradiction].
        destruct v2 as [b2|z2|s2'|s2' e2'|l2|l2']; cbn [cv_strip] in Hstrip; try discriminate Hstrip. injection Hstrip as Hmap.
        destruct (first_defect_some _ _ _ Hs) as (x & d' & Hin & Hx).
        destruct (map_eq_In _ _ _ x Hmap Hin) as (x2 & Hin2 & Ex).
        assert (Bn2 : builtin_category (ty_name t2) = Some CatList) by (rewrite Hname; exact Bn).
        cbn [kind_check]. rewrite Hcat, Tv. apply (first_err_some _ _ x2 Hin2).
        exact (IH fn f f' et e2 x x2 m d' Himg Hch (fun o Ho => Hincl o (occs_value t2 e2 (or_introl Bn2) Tv o Ho)) Ex Hx).
      + (* set *)
        destruct v as [b|z|s0|s0 e0|l|l0]; try discriminate Hs. destruct vv as [et|]; [|discriminate].
        destruct (ty_value t2) as [e2|] eqn:Tv; [|contradiction].
        destruct v2 as [b2|z2|s2'|s2' e2'|l2|l2']; cbn [cv_strip] in Hstrip; try discriminate Hstrip. injection Hstrip as Hmap.
        destruct (first_defect_some _ _ _ Hs) as (x & d' & Hin & Hx).
        destruct (map_eq_In _ _ _ x Hmap Hin) as (x2 & Hin2 & Ex).
        assert (Bn2 : builtin_category (ty_name t2) = Some CatSet) by (rewrite Hname; exact Bn).
        cbn [kind_check]. rewrite Hcat, Tv. apply (first_err_some _ _ x2 Hin2).
        exact (IH fn f f' et e2 x x2 m d' Himg Hch (fun o Ho => Hincl o (occs_value t2 e2 (or_intror (or_introl Bn2)) Tv o Ho)) Ex Hx).
    - destruct (denote (denote_fuel p) p fn nm) as [dd|] eqn:Hdd; [|discriminate]. exact (Hden dd eq_refl Hs).
  Qed.
End Deep.

(* ---------------------------------------------------------------- accepted programs *)

Theorem accepted_file_kinds_deep p b : parsed_program p = true -> accepts p b = AOk ->
  forall fn f, reach p fn -> prog_file p fn = Some f ->
  (be_recursive b = true \/ exists rest, p = (fn, f) :: rest) ->
  forall d, value_defect d p fn f = false.
Proof.
  intros Hp Ha fn f Hr Pf Hpos d. destruct (accepts_front p b Ha) as (r & order & Hfe & Hbk).
  destruct (front_end_ok p r order Hfe) as (_ & _ & Hrs & Hord).
  destruct (resolve_program_run p r Hrs) as (done & Hinv & Htr & Hall & Hres).
  destruct (Hall fn Hr) as (f' & L). pose proof (Hres fn f' L) as Pr.
  assert (Hin : In fn (scope_files r order b)).
  { unfold scope_files. destruct Hpos as [Hrec|(rest & Ep)].
    - rewrite Hrec. eapply dfs_order_complete; eauto. congruence.
    - destruct (be_recursive b); [eapply dfs_order_complete; eauto; congruence|].
      destruct r as [|[m mf] rest'] eqn:Er; [discriminate|].
      assert (m = fn).
      { unfold resolve_program in Hrs. rewrite Ep in Hrs. inv_bind Hrs. cbn [map fst] in Hrs. congruence. }
      subst m. rewrite <- Er in *. eapply scope_closure_self; eauto. }
  unfold backend_stage in Hbk. pose proof (first_err_none _ _ Hbk fn Hin) as Hc.
  unfold check_scope in Hc. rewrite Pr in Hc. pose proof (first_err_none _ _ Hc) as Hvals. cbv beta in Hvals.
  assert (Himg : image p done fn f f') by (split; assumption).
  destruct (image_res p r done Hinv Htr Hres fn f f' Himg) as (_ & _ & d1 & R1).
  destruct (file_sims d1 f f' R1) as (_ & Hpair).
  unfold value_defect. apply existsb_false. intros tv Htv.
  destruct (spec_kind (S (cv_depth (snd tv))) p fn (fst tv) (snd tv)) as [d'|] eqn:Sk; [|reflexivity]. exfalso.
  destruct (Hpair tv Htv) as (tv2 & Hi2 & Hts & Hst).
  refine (kind_deep p r done Hp Hrs Hinv Htr Hres _ fn f f' (fst tv) (fst tv2) (snd tv) (snd tv2) _ d' Himg Hts _ Hst Sk (Hvals tv2 Hi2)).
  apply In_top_occs_file_occs. exact (backend_values_top f' tv2 Hi2).
Qed.

(* with -r: every position of the include graph *)
Theorem accepts_sound_kinds_deep p b : parsed_program p = true -> accepts p b = AOk -> be_recursive b = true ->
  violates_deep ConstKindMismatch p = false /\ violates_deep StructLiteralBadKey p = false.
Proof.
  intros Hp Ha Hrec. cbn [violates_deep].
  split; apply some_file_false; intros fn f R Pf; exact (accepted_file_kinds_deep p b Hp Ha fn f R Pf (or_introl Hrec) _).
Qed.

(* without -r: the main file *)
Theorem accepts_sound_kinds_deep_main p b : parsed_program p = true -> accepts p b = AOk ->
  forall d, main_file p (value_defect d p) = false.
Proof.
  intros Hp Ha d. unfold main_file. destruct p as [|[m mf] rest] eqn:Ep; [reflexivity|]. rewrite <- Ep in *.
  assert (R : reach p m) by (eapply reach_main; exact Ep).
  assert (Pf : prog_file p m = Some mf) by (rewrite Ep; unfold prog_file; cbn [lookup]; rewrite beqb_refl; reflexivity).
  exact (accepted_file_kinds_deep p b Hp Ha m mf R Pf (or_intror (ex_intro _ rest Ep)) d).
Qed.
