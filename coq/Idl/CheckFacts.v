(* Idl/CheckFacts.v — proofs about the checker model Idl/Check.v against the
   declarative predicates of Idl/Rules.v (property C04):
     - each check of [check_file] that passes excludes the corresponding defects;
     - the depth-first walk [dfs] reaches every file that is reachable through
       include statements, so [check_program p = COk] excludes the defects in every
       reachable file. *)
From Coq Require Import List Bool Arith Lia NArith ZArith.
From Coq.Strings Require Import Byte.
From Verif Require Import Base.Bytes Idl.Ast Idl.AstUtil Idl.Resolve Idl.ResolveSpec Idl.Check Idl.Rules.
Import ListNotations.
Local Open Scope check_scope.

(* ---------------------------------------------------------------- small facts *)

Lemma cseq_ok a b : a ;;; b = COk -> a = COk /\ b = COk.
Proof. destruct a; cbn [cseq]; [auto | discriminate]. Qed.

Lemma call_all_ok {A} (chk : A -> cres) l : call_all chk l = COk -> forall x, In x l -> chk x = COk.
Proof.
  induction l as [|y l IH]; intros H x Hin; [destruct Hin|].
  cbn [call_all] in H. apply cseq_ok in H. destruct H as (Hy & Hl).
  destruct Hin as [<-|Hin]; auto.
Qed.

Lemma memb_true x l : memb x l = true <-> In x l.
Proof.
  unfold memb. rewrite existsb_exists. split.
  - intros (y & Hin & E). apply beqb_true in E. subst. exact Hin.
  - intros Hin. exists x. split; [exact Hin | apply beqb_refl].
Qed.

Lemma memb_false_cons x y l : memb x (y :: l) = false -> beqb x y = false /\ memb x l = false.
Proof. unfold memb. cbn [existsb]. apply orb_false_elim. Qed.

Lemma zmem_false_cons x y l : zmem x (y :: l) = false -> Z.eqb x y = false /\ zmem x l = false.
Proof. unfold zmem. cbn [existsb]. apply orb_false_elim. Qed.

Lemma existsb_false {A} (g : A -> bool) l : (forall y, In y l -> g y = false) -> existsb g l = false.
Proof.
  induction l as [|y l IH]; intros H; cbn [existsb]; [reflexivity|].
  rewrite (H y (or_introl eq_refl)), IH; [reflexivity|]. intros z Hz. apply H. right. exact Hz.
Qed.

Lemma existsb_false_inv {A} (g : A -> bool) l : existsb g l = false -> forall y, In y l -> g y = false.
Proof.
  intros H y Hin. destruct (g y) eqn:E; [|reflexivity].
  assert (existsb g l = true) by (apply existsb_exists; eauto). congruence.
Qed.

(* ---------------------------------------------------------------- CheckGlobals *)

Lemma first_dup_false : forall l seen, first_dup seen l = false ->
  dupb beqb l = false /\ forall y, In y l -> memb y seen = false.
Proof.
  induction l as [|x r IH]; intros seen H; cbn [first_dup] in H.
  - split; [reflexivity | intros y []].
  - destruct (memb x seen) eqn:Mx; [discriminate|]. destruct (IH _ H) as (Hd & Hs).
    split.
    + cbn [dupb]. rewrite Hd, orb_false_r. apply existsb_false. intros y Hy.
      destruct (memb_false_cons _ _ _ (Hs y Hy)) as (E & _). rewrite beqb_sym. exact E.
    + intros y [<-|Hy]; [exact Mx|]. exact (proj2 (memb_false_cons _ _ _ (Hs y Hy))).
Qed.

(* a global name that is an enum is not looked at by CheckGlobals: the predicate for
   what it does exclude *)
Definition dup_global_checked (f : file) : bool := dupb beqb (global_names f).

Lemma check_globals_ok f : check_globals f = COk -> dup_global_checked f = false.
Proof.
  unfold check_globals, dup_global_checked. destruct (first_dup [] (global_names f)) eqn:E; [discriminate|].
  intros _. exact (proj1 (first_dup_false _ _ E)).
Qed.

(* ---------------------------------------------------------------- CheckEnums *)

Lemma check_enum_values_ok : forall vs exist v2n,
  (forall z n, zlookup z v2n = Some n -> memb n exist = true) ->
  check_enum_values exist v2n vs = COk ->
  dupb beqb (map ev_name vs) = false /\ dupb Z.eqb (map ev_value vs) = false /\
  (forall w, In w vs -> memb (ev_name w) exist = false /\ zlookup (ev_value w) v2n = None /\
                        fits_int32 (ev_value w) = true).
Proof.
  induction vs as [|v r IH]; intros exist v2n Inv H.
  - split; [reflexivity|]. split; [reflexivity | intros w []].
  - cbn [check_enum_values] in H.
    destruct (memb (ev_name v) exist) eqn:Mn.
    { exfalso. destruct (zlookup (ev_value v) v2n) as [n|]; [destruct (beqb n (ev_name v))|]; discriminate. }
    destruct (zlookup (ev_value v) v2n) as [n|] eqn:Zl.
    { exfalso. destruct (beqb n (ev_name v)) eqn:En; [|discriminate].
      apply beqb_true in En. subst n. rewrite (Inv _ _ Zl) in Mn. discriminate. }
    destruct (in_int32 (ev_value v)) eqn:Rg; [|discriminate].
    assert (Inv' : forall z n, zlookup z ((ev_value v, ev_name v) :: v2n) = Some n -> memb n (ev_name v :: exist) = true).
    { intros z n Hz. cbn [zlookup] in Hz. unfold memb. cbn [existsb]. destruct (Z.eqb z (ev_value v)).
      - injection Hz as <-. rewrite beqb_refl. reflexivity.
      - rewrite (Inv _ _ Hz) at 1. apply orb_true_r. }
    destruct (IH _ _ Inv' H) as (Hdn & Hdv & Hall). split; [|split].
    + cbn [map dupb]. rewrite Hdn, orb_false_r. apply existsb_false. intros y Hy.
      apply in_map_iff in Hy. destruct Hy as (w & <- & Hw). destruct (Hall w Hw) as (M & _ & _).
      destruct (memb_false_cons _ _ _ M) as (E & _). rewrite beqb_sym. exact E.
    + cbn [map dupb]. rewrite Hdv, orb_false_r. apply existsb_false. intros y Hy.
      apply in_map_iff in Hy. destruct Hy as (w & <- & Hw). destruct (Hall w Hw) as (_ & Z0 & _).
      cbn [zlookup] in Z0. destruct (Z.eqb (ev_value w) (ev_value v)) eqn:E; [discriminate|].
      rewrite Z.eqb_sym. exact E.
    + intros w [<-|Hw].
      * split; [exact Mn|]. split; [exact Zl|]. exact Rg.
      * destruct (Hall w Hw) as (M & Z0 & R0). split; [exact (proj2 (memb_false_cons _ _ _ M))|].
        split; [|exact R0]. cbn [zlookup] in Z0. destruct (Z.eqb (ev_value w) (ev_value v)); [discriminate | exact Z0].
Qed.

Lemma check_enums_ok f : check_enums f = COk ->
  dup_enum_name f = false /\ dup_enum_number f = false /\ enum_out_of_int32 f = false.
Proof.
  unfold check_enums, dup_enum_name, dup_enum_number, enum_out_of_int32. intros H.
  pose proof (call_all_ok _ _ H) as Hall. cbv beta in Hall.
  assert (He : forall e, In e (f_enums f) ->
            dupb beqb (map ev_name (en_values e)) = false /\ dupb Z.eqb (map ev_value (en_values e)) = false /\
            forall w, In w (en_values e) -> fits_int32 (ev_value w) = true).
  { intros e Hin. assert (Inv : forall z n, zlookup z (@nil (Z * bytes)) = Some n -> memb n [] = true) by (intros z n Hz; discriminate).
    destruct (check_enum_values_ok (en_values e) [] [] Inv (Hall e Hin)) as (H1 & H2 & H3).
    split; [exact H1|]. split; [exact H2|]. intros w Hw. exact (proj2 (proj2 (H3 w Hw))). }
  split; [|split]; apply existsb_false; intros e Hin; destruct (He e Hin) as (H1 & H2 & H3); auto.
  apply existsb_false. intros w Hw. rewrite (H3 w Hw). reflexivity.
Qed.

(* ---------------------------------------------------------------- checkFieldList *)

Lemma check_field_list_ok : forall fs ids names, check_field_list ids names fs = COk ->
  dupb Z.eqb (map fd_id fs) = false /\ dupb beqb (map fd_name fs) = false /\
  forall x, In x fs -> zmem (fd_id x) ids = false /\ memb (fd_name x) names = false.
Proof.
  induction fs as [|x r IH]; intros ids names H.
  - split; [reflexivity|]. split; [reflexivity | intros y []].
  - cbn [check_field_list] in H. destruct (zmem (fd_id x) ids) eqn:Zi; [discriminate|].
    destruct (memb (fd_name x) names) eqn:Mn; [discriminate|].
    destruct (IH _ _ H) as (Hdi & Hdn & Hall). split; [|split].
    + cbn [map dupb]. rewrite Hdi, orb_false_r. apply existsb_false. intros y Hy.
      apply in_map_iff in Hy. destruct Hy as (w & <- & Hw). destruct (Hall w Hw) as (Z0 & _).
      destruct (zmem_false_cons _ _ _ Z0) as (E & _). rewrite Z.eqb_sym. exact E.
    + cbn [map dupb]. rewrite Hdn, orb_false_r. apply existsb_false. intros y Hy.
      apply in_map_iff in Hy. destruct Hy as (w & <- & Hw). destruct (Hall w Hw) as (_ & M0).
      destruct (memb_false_cons _ _ _ M0) as (E & _). rewrite beqb_sym. exact E.
    + intros y [<-|Hy]; [auto|]. destruct (Hall y Hy) as (Z0 & M0).
      split; [exact (proj2 (zmem_false_cons _ _ _ Z0)) | exact (proj2 (memb_false_cons _ _ _ M0))].
Qed.

Lemma check_field_list_nil_ok fs : check_field_list [] [] fs = COk ->
  dupb Z.eqb (map fd_id fs) = false /\ dupb beqb (map fd_name fs) = false.
Proof. intros H. destruct (check_field_list_ok _ _ _ H) as (H1 & H2 & _). auto. Qed.

(* ---------------------------------------------------------------- CheckUnions *)

Lemma check_union_fields_ok : forall fs hd, check_union_fields hd fs = COk ->
  List.length (filter has_default fs) + (if hd then 1 else 0) <= 1.
Proof.
  induction fs as [|x r IH]; intros hd H; cbn [check_union_fields] in H; cbn [filter].
  - destruct hd; cbn; lia.
  - unfold has_default at 1. destruct (fd_default x) as [d|].
    + destruct hd; [discriminate|]. specialize (IH _ H). cbn [List.length]. cbn in IH. lia.
    + exact (IH _ H).
Qed.

Lemma check_unions_ok f : check_unions f = COk -> second_union_default f = false.
Proof.
  unfold check_unions, second_union_default. intros H. pose proof (call_all_ok _ _ H) as Hall. cbv beta in Hall.
  apply existsb_false. intros u Hu. pose proof (check_union_fields_ok _ _ (Hall u Hu)) as L. cbn in L.
  apply Nat.leb_gt. lia.
Qed.

(* ---------------------------------------------------------------- CheckFunctions *)

(* what a function that passes excludes *)
Definition function_clean (fn : function) : Prop :=
  (fn_oneway fn && negb (fn_void fn) = false) /\
  (fn_oneway fn && match fn_throws fn with [] => false | _ => true end = false) /\
  dupb Z.eqb (map fd_id (fn_args fn)) = false /\ dupb beqb (map fd_name (fn_args fn)) = false /\
  dupb beqb (map fd_name (fn_throws fn)) = false /\
  dupb Z.eqb ((if fn_void fn then [] else [0%Z]) ++ map fd_id (fn_throws fn)) = false.

Lemma check_function_ok fn : check_function fn = COk -> function_clean fn.
Proof.
  unfold check_function, function_clean. intros H.
  destruct (fn_oneway fn && negb (fn_void fn)) eqn:E1; [discriminate|].
  destruct (fn_oneway fn && negb (is_nil (fn_throws fn))) eqn:E2; [discriminate|].
  apply cseq_ok in H. destruct H as (Ha & H). apply cseq_ok in H. destruct H as (Ht & Hz).
  destruct (check_field_list_nil_ok _ Ha) as (A1 & A2). destruct (check_field_list_nil_ok _ Ht) as (T1 & T2).
  split; [reflexivity|]. split.
  { destruct (fn_throws fn); [apply andb_false_r | exact E2]. }
  split; [exact A1|]. split; [exact A2|]. split; [exact T2|].
  destruct (fn_void fn); cbn [app]; [exact T1|].
  cbn [negb andb] in Hz. destruct (existsb (fun a => Z.eqb (fd_id a) 0) (fn_throws fn)) eqn:Ez; [discriminate|].
  cbn [dupb]. rewrite T1, orb_false_r. apply existsb_false. intros y Hy.
  apply in_map_iff in Hy. destruct Hy as (w & <- & Hw).
  rewrite Z.eqb_sym. exact (existsb_false_inv _ _ Ez w Hw).
Qed.

Lemma check_functions_of_ok : forall fns defined, check_functions_of defined fns = COk ->
  dupb beqb (map fn_name fns) = false /\
  forall fn, In fn fns -> memb (fn_name fn) defined = false /\ function_clean fn.
Proof.
  induction fns as [|x r IH]; intros defined H.
  - split; [reflexivity | intros y []].
  - cbn [check_functions_of] in H. destruct (memb (fn_name x) defined) eqn:Mn; [discriminate|].
    apply cseq_ok in H. destruct H as (Hx & Hr). destruct (IH _ Hr) as (Hd & Hall). split.
    + cbn [map dupb]. rewrite Hd, orb_false_r. apply existsb_false. intros y Hy.
      apply in_map_iff in Hy. destruct Hy as (w & <- & Hw). destruct (Hall w Hw) as (M0 & _).
      destruct (memb_false_cons _ _ _ M0) as (E & _). rewrite beqb_sym. exact E.
    + intros y [<-|Hy]; [split; [exact Mn | exact (check_function_ok _ Hx)]|].
      destruct (Hall y Hy) as (M0 & C). split; [exact (proj2 (memb_false_cons _ _ _ M0)) | exact C].
Qed.

Lemma check_functions_ok f : check_functions f = COk ->
  dup_function f = false /\
  forall sv fn, In sv (f_services f) -> In fn (sv_functions sv) -> function_clean fn.
Proof.
  unfold check_functions, dup_function. intros H. pose proof (call_all_ok _ _ H) as Hall. cbv beta in Hall. split.
  - apply existsb_false. intros sv Hsv. exact (proj1 (check_functions_of_ok _ _ (Hall sv Hsv))).
  - intros sv fn Hsv Hfn. exact (proj2 (proj2 (check_functions_of_ok _ _ (Hall sv Hsv)) fn Hfn)).
Qed.

(* ---------------------------------------------------------------- one file *)

Lemma in_flat_map'_iff {A B} (g : A -> list B) l y : In y (flat_map' g l) <-> exists x, In x l /\ In y (g x).
Proof.
  unfold flat_map'. rewrite in_concat. split.
  - intros (l0 & Hl & Hy). apply in_map_iff in Hl. destruct Hl as (x & <- & Hx). eauto.
  - intros (x & Hx & Hy). exists (g x). split; [apply in_map; exact Hx | exact Hy].
Qed.

(* the defects CheckAll looks for in a file; [dup_global_checked] is the part of
   DupGlobal it sees (no enum names) *)
Definition file_clean (f : file) : Prop :=
  dup_global_checked f = false /\ dup_enum_name f = false /\ dup_enum_number f = false /\
  enum_out_of_int32 f = false /\ dup_field_name f = false /\ dup_field_id f = false /\
  second_union_default f = false /\ dup_function f = false /\
  oneway_returns f = false /\ oneway_throws f = false.

Lemma check_file_ok f : check_file f = COk -> file_clean f.
Proof.
  unfold check_file. intros H.
  apply cseq_ok in H. destruct H as (Hg & H). apply cseq_ok in H. destruct H as (He & H).
  apply cseq_ok in H. destruct H as (Hs & H). apply cseq_ok in H. destruct H as (Hu & Hf).
  destruct (check_enums_ok _ He) as (E1 & E2 & E3). destruct (check_functions_ok _ Hf) as (F1 & F2).
  pose proof (call_all_ok _ _ Hs) as Hsl. cbv beta in Hsl.
  unfold file_clean. split; [exact (check_globals_ok _ Hg)|]. split; [exact E1|]. split; [exact E2|].
  split; [exact E3|]. split; [|split; [|split; [exact (check_unions_ok _ Hu)|split; [exact F1|split]]]].
  - (* field names *)
    unfold dup_field_name, field_lists. apply existsb_false. intros l Hl. apply in_app_or in Hl. destruct Hl as [Hl|Hl].
    + apply in_map_iff in Hl. destruct Hl as (s & <- & Hsin). exact (proj2 (check_field_list_nil_ok _ (Hsl s Hsin))).
    + apply in_flat_map'_iff in Hl. destruct Hl as (sv & Hsv & Hl). apply in_flat_map'_iff in Hl.
      destruct Hl as (fn & Hfn & Hl). destruct (F2 sv fn Hsv Hfn) as (_ & _ & _ & A2 & T2 & _).
      destruct Hl as [<-|[<-|[]]]; assumption.
  - (* field ids *)
    unfold dup_field_id, id_lists. apply existsb_false. intros l Hl. apply in_app_or in Hl. destruct Hl as [Hl|Hl].
    + apply in_map_iff in Hl. destruct Hl as (s & <- & Hsin). exact (proj1 (check_field_list_nil_ok _ (Hsl s Hsin))).
    + apply in_flat_map'_iff in Hl. destruct Hl as (sv & Hsv & Hl). apply in_flat_map'_iff in Hl.
      destruct Hl as (fn & Hfn & Hl). destruct (F2 sv fn Hsv Hfn) as (_ & _ & A1 & _ & _ & T1).
      destruct Hl as [<-|[<-|[]]]; assumption.
  - unfold oneway_returns, some_function. apply existsb_false. intros sv Hsv. apply existsb_false. intros fn Hfn.
    exact (proj1 (F2 sv fn Hsv Hfn)).
  - unfold oneway_throws, some_function. apply existsb_false. intros sv Hsv. apply existsb_false. intros fn Hfn.
    exact (proj1 (proj2 (F2 sv fn Hsv Hfn))).
Qed.

(* ---------------------------------------------------------------- reachability *)

(* reached from the main file through include statements whose target is part of
   the program *)
Inductive reach (p : program) : bytes -> Prop :=
| reach_main m f rest : p = (m, f) :: rest -> reach p m
| reach_inc a f h : reach p a -> prog_file p a = Some f -> In h (inc_targets f) -> reach p h.

Lemma inc_targets_refs f : inc_targets f = inc_refs f.
Proof. reflexivity. Qed.

Lemma reach_b_sound p : forall n a b, reach p a -> reach_b n p a b = true -> reach p b.
Proof.
  induction n as [|n IH]; intros a b Ha H; cbn [reach_b] in H.
  - rewrite orb_false_r in H. apply beqb_true in H. subst. exact Ha.
  - apply orb_true_iff in H. destruct H as [H|H]; [apply beqb_true in H; subst; exact Ha|].
    destruct (prog_file p a) as [f|] eqn:Pf; [|discriminate].
    apply existsb_exists in H. destruct H as (h & Hin & Hr).
    exact (IH h b (reach_inc p a f h Ha Pf Hin) Hr).
Qed.

Lemma reachable_reach p fn : reachable p fn = true -> reach p fn.
Proof.
  unfold reachable. destruct p as [|[m f] rest] eqn:Ep; [discriminate|]. rewrite <- Ep. intros H.
  eapply reach_b_sound; [|exact H]. eapply reach_main. exact Ep.
Qed.

(* the shape of every "some reachable file ..." predicate *)
Lemma some_file_false p (bad : bytes -> file -> bool) :
  (forall fn f, reach p fn -> prog_file p fn = Some f -> bad fn f = false) -> some_file p bad = false.
Proof.
  intros H. unfold some_file. apply existsb_false. intros fn _.
  destruct (reachable p fn) eqn:R; [|reflexivity]. cbn [andb].
  destruct (prog_file p fn) as [f|] eqn:Pf; [|reflexivity]. exact (H fn f (reachable_reach _ _ R) Pf).
Qed.

(* ---------------------------------------------------------------- DepthFirstSearch reaches every file *)

(* the new members of the set are sent, and are closed under include statements *)
Definition dfs_post (p : program) (st st' : list bytes * list bytes) : Prop :=
  incl (fst st) (fst st') /\ incl (snd st) (snd st') /\
  (forall g, In g (fst st') -> ~ In g (fst st) -> In g (snd st')) /\
  (forall g f h, In g (fst st') -> ~ In g (fst st) -> prog_file p g = Some f -> In h (inc_refs f) ->
                 prog_file p h <> None -> In h (fst st')).

Lemma dfs_post_refl p st : dfs_post p st st.
Proof. unfold dfs_post. repeat split; try apply incl_refl; intros; contradiction. Qed.

Lemma dfs_post_trans p a b c : dfs_post p a b -> dfs_post p b c -> dfs_post p a c.
Proof.
  intros (A1 & A2 & A3 & A4) (B1 & B2 & B3 & B4). unfold dfs_post. repeat split.
  - eapply incl_tran; eauto.
  - eapply incl_tran; eauto.
  - intros g Hg Hn. destruct (in_dec (list_eq_dec Byte.byte_eq_dec) g (fst b)) as [Hb|Hb].
    + apply B2. apply A3; assumption.
    + apply B3; assumption.
  - intros g f h Hg Hn Pf Hh Ph. destruct (in_dec (list_eq_dec Byte.byte_eq_dec) g (fst b)) as [Hb|Hb].
    + apply B1. eapply A4; eauto.
    + eapply B4; eauto.
Qed.

Lemma dfs_spec p : forall fuel st fn st', dfs fuel p st fn = Some st' ->
  dfs_post p st st' /\ (prog_file p fn <> None -> In fn (fst st')).
Proof.
  induction fuel as [|k IH]; intros st fn st' H; [discriminate|].
  cbn [dfs] in H. destruct (prog_file p fn) as [f|] eqn:Pf.
  2:{ injection H as <-. split; [apply dfs_post_refl | congruence]. }
  destruct (memb fn (fst st)) eqn:Mv.
  { injection H as <-. split; [apply dfs_post_refl|]. intros _. apply memb_true. exact Mv. }
  match type of H with match ?go (inc_refs f) ?s0 with _ => _ end = _ => set (GO := go) in H; set (st0 := s0) in H end.
  assert (Hgo : forall refs s s', GO refs s = Some s' ->
            dfs_post p s s' /\ forall h, In h refs -> prog_file p h <> None -> In h (fst s')).
  { induction refs as [|h refs IHr]; intros s s' Hg; cbn in Hg.
    - injection Hg as <-. split; [apply dfs_post_refl | intros h []].
    - destruct (dfs k p s h) as [s1|] eqn:D1; [|discriminate].
      destruct (IH _ _ _ D1) as (P1 & I1). destruct (IHr _ _ Hg) as (P2 & I2).
      split; [eapply dfs_post_trans; eauto|]. intros h' [<-|Hh] Ph; [|auto].
      destruct P2 as (Q1 & _). apply Q1. auto. }
  destruct (GO (inc_refs f) st0) as [s1|] eqn:G; [|discriminate]. injection H as <-.
  destruct (Hgo _ _ _ G) as ((P1 & P2 & P3 & P4) & Iall). subst st0. cbn [fst snd] in *.
  assert (Mv' : ~ In fn (fst st)) by (intros Hin; apply memb_true in Hin; congruence).
  split.
  - unfold dfs_post. cbn [fst snd]. repeat split.
    + intros x Hx. apply P1. right. exact Hx.
    + intros x Hx. right. apply P2. exact Hx.
    + intros g Hg Hn. destruct (list_eq_dec Byte.byte_eq_dec g fn) as [->|Hne]; [left; reflexivity|].
      right. apply P3; [exact Hg|]. intros [E|Hin]; [congruence | contradiction].
    + intros g f0 h Hg Hn Pg Hh Ph. destruct (list_eq_dec Byte.byte_eq_dec g fn) as [->|Hne].
      * assert (f0 = f) by congruence. subst f0. apply Iall; assumption.
      * eapply P4; eauto. intros [E|Hin]; [congruence | contradiction].
  - intros _. apply P1. left. reflexivity.
Qed.

(* every reachable file of the program is in the order CheckAll walks through *)
Theorem dfs_order_complete p order : dfs_order p = Some order ->
  forall fn, reach p fn -> prog_file p fn <> None -> In fn order.
Proof.
  unfold dfs_order. destruct p as [|[m mf] rest] eqn:Ep.
  { intros _ fn Hr. exfalso. inversion Hr; subst; discriminate. }
  rewrite <- Ep. destruct (dfs (S (List.length p)) p ([], []) m) as [st|] eqn:D; [|discriminate].
  intros [= <-]. destruct (dfs_spec p _ _ _ _ D) as ((_ & _ & P3 & P4) & Hm). cbn [fst snd] in *.
  assert (Hset : forall fn, reach p fn -> prog_file p fn <> None -> In fn (fst st)).
  { intros fn Hr. induction Hr as [m' f' rest' E|a f h Ha IHa Pa Hh]; intros Pn.
    - rewrite Ep in E. injection E as <- _ _. exact (Hm Pn).
    - eapply P4; [apply IHa; congruence | intros [] | exact Pa | exact Hh | exact Pn]. }
  intros fn Hr Pn. apply -> in_rev. apply P3; [apply Hset; assumption | intros []].
Qed.

(* ---------------------------------------------------------------- the whole checker *)

Theorem check_program_ok p : check_program p = COk ->
  forall fn f, reach p fn -> prog_file p fn = Some f -> file_clean f.
Proof.
  unfold check_program. destruct (dfs_order p) as [order|] eqn:D; [|discriminate]. intros H fn f Hr Pf.
  assert (Hin : In fn order) by (eapply dfs_order_complete; eauto; congruence).
  pose proof (call_all_ok _ _ H fn Hin) as Hc. unfold check_named in Hc. rewrite Pf in Hc.
  exact (check_file_ok _ Hc).
Qed.
