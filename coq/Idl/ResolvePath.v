(* Idl/ResolvePath.v — the typedefs a denotation passes through: pairwise distinct, hence
   never more than the program has.  This is what makes the concrete fuels of the model
   sufficient. *)
From Coq Require Import List Bool Arith Lia NArith ZArith Permutation.
From Coq.Strings Require Import Byte.
From Verif Require Import Base.Bytes Idl.Ast Idl.AstUtil Idl.AstFacts Idl.Resolve Idl.ResolveSpec Idl.ResolveTd
     Idl.ResolveLemmas Idl.ResolveInv Idl.ResolveDeref Idl.ResolveFacts Idl.ResolvableSpec.
Import ListNotations.

(* [def_path p fn n d l]: [def_denotes p fn n d], and [l] lists the typedefs (file, alias)
   the chain passes through, in order *)
Inductive def_path (p : program) : bytes -> bytes -> tdef -> list (bytes * bytes) -> Prop :=
| dp_enum fn n vs : def_of p fn n = Some (DkEnum vs) -> def_path p fn n (TEnum fn n) []
| dp_struct fn n k : def_of p fn n = Some (DkStruct k) -> def_path p fn n (TStruct fn n k) []
| dp_typedef fn n tgt d l :
    def_of p fn n = Some (DkTypedef tgt) -> name_path p fn tgt d l -> def_path p fn n d ((fn, n) :: l)
with name_path (p : program) : bytes -> bytes -> tdef -> list (bytes * bytes) -> Prop :=
| np_builtin fn n c : builtin_category n = Some c -> name_path p fn n (TBuiltin c) []
| np_local fn n a d l :
    builtin_category n = None -> split_type n = [a] -> def_path p fn a d l -> name_path p fn n d l
| np_qualified fn f n pre m i gn d l :
    builtin_category n = None -> split_type n = [pre; m] -> prog_file p fn = Some f ->
    spec_include p is_type_kind pre m (file_incs f) 0 = Some (i, gn) ->
    def_path p gn m d l -> name_path p fn n d l.

Scheme def_path_min := Minimality for def_path Sort Prop
  with name_path_min := Minimality for name_path Sort Prop.
Combined Scheme path_mutind from def_path_min, name_path_min.

Lemma denotes_path p :
  (forall fn n d, def_denotes p fn n d -> exists l, def_path p fn n d l) /\
  (forall fn n d, name_denotes p fn n d -> exists l, name_path p fn n d l).
Proof.
  apply denotes_mutind.
  - intros. eexists. eapply dp_enum; eauto.
  - intros. eexists. eapply dp_struct; eauto.
  - intros fn n tgt d H _ (l & Hl). eexists. eapply dp_typedef; eauto.
  - intros. eexists. eapply np_builtin; eauto.
  - intros fn n a d Hb Hs _ (l & Hl). eexists. eapply np_local; eauto.
  - intros fn f n pre m i gn d Hb Hs Hf Hi _ (l & Hl). eexists. eapply np_qualified; eauto.
Qed.

Lemma path_denotes p :
  (forall fn n d l, def_path p fn n d l -> def_denotes p fn n d) /\
  (forall fn n d l, name_path p fn n d l -> name_denotes p fn n d).
Proof.
  apply path_mutind; intros.
  - eapply dd_enum; eauto.
  - eapply dd_struct; eauto.
  - eapply dd_typedef; eauto.
  - eapply nd_builtin; eauto.
  - eapply nd_local; eauto.
  - eapply nd_qualified; eauto.
Qed.

(* the path is determined by the name *)
Lemma path_fun p :
  (forall fn n d l, def_path p fn n d l -> forall d' l', def_path p fn n d' l' -> l' = l) /\
  (forall fn n d l, name_path p fn n d l -> forall d' l', name_path p fn n d' l' -> l' = l).
Proof.
  apply path_mutind.
  - intros fn n vs H d' l' H'. inversion H'; subst; congruence.
  - intros fn n k H d' l' H'. inversion H'; subst; congruence.
  - intros fn n tgt d l H _ IH d' l' H'. inversion H'; subst; try congruence.
    match goal with H2 : def_of p fn n = Some (DkTypedef ?t) |- _ => assert (t = tgt) by congruence; subst end.
    f_equal. eapply IH; eauto.
  - intros fn n c H d' l' H'. inversion H'; subst; congruence.
  - intros fn n a d l Hb Hs _ IH d' l' H'. inversion H'; subst; try congruence.
    match goal with H2 : split_type n = [?x] |- _ => assert (x = a) by congruence; subst end. eapply IH; eauto.
  - intros fn f n pre m i gn d l Hb Hs Hf Hi _ IH d' l' H'. inversion H'; subst; try congruence.
    match goal with H2 : split_type n = [?x; ?y] |- _ => assert (x = pre /\ y = m) as (-> & ->) by (split; congruence) end.
    match goal with H2 : prog_file p fn = Some ?x |- _ => assert (x = f) by congruence; subst end.
    match goal with H2 : spec_include _ _ _ _ _ _ = Some (_, ?x) |- _ => assert (x = gn) by congruence; subst end.
    eapply IH; eauto.
Qed.

(* every typedef on the path has the rest of the path as its own path *)
Lemma path_suffix p :
  (forall fn n d l, def_path p fn n d l -> forall l1 gn m l2, l = l1 ++ (gn, m) :: l2 -> def_path p gn m d ((gn, m) :: l2)) /\
  (forall fn n d l, name_path p fn n d l -> forall l1 gn m l2, l = l1 ++ (gn, m) :: l2 -> def_path p gn m d ((gn, m) :: l2)).
Proof.
  apply path_mutind.
  - intros fn n vs H l1 gn m l2 E. destruct l1; discriminate.
  - intros fn n k H l1 gn m l2 E. destruct l1; discriminate.
  - intros fn n tgt d l H Hn IH l1 gn m l2 E. destruct l1 as [|x l1]; cbn [app] in E.
    + injection E as <- <- <-. eapply dp_typedef; eauto.
    + injection E as _ E. eapply IH; eauto.
  - intros fn n c H l1 gn m l2 E. destruct l1; discriminate.
  - intros fn n a d l Hb Hs _ IH l1 gn m l2 E. eapply IH; eauto.
  - intros fn f n pre m i gn d l Hb Hs Hf Hi _ IH l1 gn' m' l2 E. eapply IH; eauto.
Qed.

Lemma def_path_NoDup p fn n d l : def_path p fn n d l -> NoDup l.
Proof.
  intros H. remember (length l) as k eqn:Hk. revert fn n d l H Hk.
  induction k as [k IHk] using lt_wf_ind. intros fn n d l H Hk.
  destruct l as [|[gn m] l2]; [constructor|]. constructor.
  - intros Hin. apply in_split in Hin. destruct Hin as (l3 & l4 & E).
    pose proof (proj1 (path_suffix p) _ _ _ _ H [] gn m l2 eq_refl) as H1.
    pose proof (proj1 (path_suffix p) _ _ _ _ H ((gn, m) :: l3) gn m l4 ltac:(cbn [app]; rewrite E; reflexivity)) as H2.
    pose proof (proj1 (path_fun p) _ _ _ _ H1 _ _ H2) as E2. injection E2 as E2.
    assert (length l4 = length l2) by (rewrite E2; reflexivity). rewrite E, app_length in H0. cbn [length] in H0. lia.
  - destruct l2 as [|[gn2 m2] l3]; [constructor|].
    pose proof (proj1 (path_suffix p) _ _ _ _ H [(gn, m)] gn2 m2 l3 eq_refl) as H1.
    eapply (IHk (length ((gn2, m2) :: l3))); [subst k; cbn [length]; lia | exact H1 | reflexivity].
Qed.

(* all typedefs of a program, as (file name, alias) *)
Definition all_typedefs (p : program) : list (bytes * bytes) :=
  flat_map' (fun e => map (fun td => (fst e, td_alias td)) (f_typedefs (snd e))) p.

Lemma all_typedefs_length p : length (all_typedefs p) = prog_typedef_count p.
Proof.
  unfold all_typedefs, flat_map', prog_typedef_count. induction p as [|e p IH]; cbn [map concat fold_right]; [reflexivity|].
  rewrite app_length, map_length, IH. reflexivity.
Qed.

Lemma def_of_typedef_in p fn n tgt : def_of p fn n = Some (DkTypedef tgt) -> In (fn, n) (all_typedefs p).
Proof.
  unfold def_of, prog_file. destruct (lookup fn p) as [f|] eqn:L; [|discriminate]. intros H.
  apply lookup_In in L. apply lookup_In in H. unfold all_typedefs. apply in_flat_map'. exists (fn, f). split; [exact L|].
  cbn [fst snd]. unfold file_defs in H. apply in_app_or in H. destruct H as [H|H].
  - apply in_map_iff in H. destruct H as (td & [= <- _] & Hin). apply in_map_iff. exists td. auto.
  - exfalso. repeat (apply in_app_or in H; destruct H as [H|H]); apply in_map_iff in H; destruct H as (? & [= _ ?] & _).
Qed.

Lemma path_incl p :
  (forall fn n d l, def_path p fn n d l -> incl l (all_typedefs p)) /\
  (forall fn n d l, name_path p fn n d l -> incl l (all_typedefs p)).
Proof.
  apply path_mutind; intros; try (intros x []; fail); auto.
  intros x [<-|Hx]; [eapply def_of_typedef_in; eauto | auto].
Qed.

(* the pigeonhole: a chain passes through at most as many typedefs as the program has *)
Theorem def_path_bound p fn n d l : def_path p fn n d l -> length l <= prog_typedef_count p.
Proof.
  intros H. rewrite <- all_typedefs_length. apply NoDup_incl_length; [eapply def_path_NoDup; eauto | eapply (proj1 (path_incl p)); eauto].
Qed.

Theorem name_path_bound p fn n d l : name_path p fn n d l -> length l <= prog_typedef_count p.
Proof.
  intros H. destruct H as [| fn n a d l Hb Hs Hd | fn f n pre m i gn d l Hb Hs Hf Hi Hd]; [cbn; lia | |]; eapply def_path_bound; eauto.
Qed.

(* ---------------------------------------------------------------- the executable denotation is complete *)

Lemma denote_path p :
  (forall fn n d l, def_path p fn n d l -> forall k, length l <= k -> denote_def (denote k p) p fn n = Some d) /\
  (forall fn n d l, name_path p fn n d l -> forall k, length l < k -> denote k p fn n = Some d).
Proof.
  apply path_mutind.
  - intros fn n vs H k _. unfold denote_def. rewrite H. reflexivity.
  - intros fn n kk H k _. unfold denote_def. rewrite H. reflexivity.
  - intros fn n tgt d l H _ IH k Hk. unfold denote_def. rewrite H. apply IH. cbn [length] in Hk. lia.
  - intros fn n c H k Hk. destruct k; [lia|]. cbn [denote]. rewrite H. reflexivity.
  - intros fn n a d l Hb Hs _ IH k Hk. destruct k; [lia|]. cbn [denote]. rewrite Hb, Hs. apply IH. lia.
  - intros fn f n pre m i gn d l Hb Hs Hf Hi _ IH k Hk. destruct k; [lia|]. cbn [denote]. rewrite Hb, Hs, Hf, Hi. apply IH. lia.
Qed.

(* [denote] with [denote_fuel] decides [name_denotes] *)
Theorem denote_complete p fn n d : name_denotes p fn n d -> denote (denote_fuel p) p fn n = Some d.
Proof.
  intros H. destruct (proj2 (denotes_path p) _ _ _ H) as (l & Hl).
  apply (proj2 (denote_path p) _ _ _ _ Hl). pose proof (name_path_bound _ _ _ _ _ Hl). unfold denote_fuel. lia.
Qed.

Theorem denotes_b_iff p fn n : denotes_b p fn n = true <-> exists d, name_denotes p fn n d.
Proof.
  split.
  - unfold denotes_b. destruct (denote (denote_fuel p) p fn n) as [d|] eqn:E; [|discriminate].
    intros _. exists d. clear -E. revert fn n d E. generalize (denote_fuel p).
    induction n as [|k IH]; intros fn n0 d H; cbn [denote] in H; [discriminate|].
    assert (Hdef : forall gn a, denote_def (denote k p) p gn a = Some d -> def_denotes p gn a d).
    { intros gn a Hd. unfold denote_def in Hd. destruct (def_of p gn a) as [kd|] eqn:Dk; [|discriminate].
      destruct kd as [tgt| |vs|s|]; try discriminate.
      - eapply dd_typedef; eauto.
      - injection Hd as <-. eapply dd_enum; eauto.
      - injection Hd as <-. eapply dd_struct; eauto. }
    destruct (builtin_category n0) as [c|] eqn:Bn; [injection H as <-; apply nd_builtin; exact Bn|].
    destruct (split_type n0) as [|a [|m [|? ?]]] eqn:Sn; try discriminate.
    + eapply nd_local; eauto.
    + destruct (prog_file p fn) as [f|] eqn:Pf; [|discriminate].
      destruct (spec_include p is_type_kind a m (file_incs f) 0) as [[i gn]|] eqn:Si; [|discriminate].
      eapply nd_qualified; eauto.
  - intros (d & H). unfold denotes_b. rewrite (denote_complete _ _ _ _ H). reflexivity.
Qed.
