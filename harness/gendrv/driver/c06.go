package main

// Verbs of property C06 (constants and default values). The producer (cmd/c06) writes a file
// c06_registry.go into the scratch module that registers, per unit and IDL file name, every
// generated constant / variable and every NewX constructor under its IDL name (the Go identifiers
// come from the generator's own naming functions, see cmd/c06/names.go).
//
//	c06const <unit> <file> <IDL const>                       {"v":value,"k":Go kind}
//	c06new   <unit> <file> <IDL struct>                      {"new":NewX(),"init":InitDefault on &X{}}
//	c06init  <unit> <file> <IDL struct> <slots JSON>         {"before":object,"after":object after InitDefault()}
//	c06get   <unit> <file> <IDL struct> <new|zero> <slots JSON> <[[id,getter,isset],...]>
//	                                                         {"obj":object,"getters":[[id,v]],"isset":[[id,b]]}
//
// Values are printed in the JSON value form of reflect.go; an untyped integer constant arrives
// as a Go int and is printed as an integer.

import (
	"encoding/json"
	"fmt"
	"reflect"
)

var c06Consts = map[string]func() interface{}{}
var c06Ctors = map[string]func() interface{}{}

func RegisterC06Const(unit, file, name string, get func() interface{}) {
	c06Consts[unit+"|"+file+"|"+name] = get
}

func RegisterC06Ctor(unit, file, name string, ctor func() interface{}) {
	c06Ctors[unit+"|"+file+"|"+name] = ctor
}

func c06New(unit, file, name string) interface{} {
	c, ok := c06Ctors[unit+"|"+file+"|"+name]
	if !ok {
		panic("c06: constructor not registered: " + unit + "|" + file + "|" + name)
	}
	return c()
}

func c06Dump(rv reflect.Value) string {
	switch rv.Kind() {
	case reflect.Int:
		return fmt.Sprintf("%d", rv.Int())
	case reflect.Invalid:
		return "null"
	}
	return Dump(rv)
}

func c06Kind(t reflect.Type) string {
	if t == nil {
		return "nil"
	}
	if t.Kind() == reflect.Int {
		return "int"
	}
	return Kind(t)
}

func init() {
	RegisterCommand("c06const", func(a []string) interface{} {
		g, ok := c06Consts[a[0]+"|"+a[1]+"|"+a[2]]
		if !ok {
			panic("c06: constant not registered: " + a[0] + "|" + a[1] + "|" + a[2])
		}
		x := g()
		rv := reflect.ValueOf(x)
		return map[string]interface{}{"v": json.RawMessage(c06Dump(rv)), "k": c06Kind(reflect.TypeOf(x))}
	})

	RegisterCommand("c06new", func(a []string) interface{} {
		x := c06New(a[0], a[1], a[2])
		z := reflect.New(reflect.TypeOf(x).Elem()).Interface()
		z.(interface{ InitDefault() }).InitDefault()
		return map[string]interface{}{
			"new":  json.RawMessage(Dump(reflect.ValueOf(x))),
			"init": json.RawMessage(Dump(reflect.ValueOf(z))),
		}
	})

	RegisterCommand("c06init", func(a []string) interface{} {
		x := c06New(a[0], a[1], a[2])
		z := reflect.New(reflect.TypeOf(x).Elem()).Interface()
		Fill(reflect.ValueOf(z).Elem(), ParseValue(a[3]))
		before := Dump(reflect.ValueOf(z))
		z.(interface{ InitDefault() }).InitDefault()
		return map[string]interface{}{
			"before": json.RawMessage(before),
			"after":  json.RawMessage(Dump(reflect.ValueOf(z))),
		}
	})

	RegisterCommand("c06get", func(a []string) interface{} {
		x := c06New(a[0], a[1], a[2])
		if a[3] == "zero" {
			x = reflect.New(reflect.TypeOf(x).Elem()).Interface()
		}
		rv := reflect.ValueOf(x)
		Fill(rv.Elem(), ParseValue(a[4]))
		var names [][]interface{}
		if err := json.Unmarshal([]byte(a[5]), &names); err != nil {
			panic(err)
		}
		res := map[string]interface{}{"obj": json.RawMessage(Dump(rv))}
		getters, issets := []interface{}{}, []interface{}{}
		for _, n := range names {
			id := int(n[0].(float64))
			if g, _ := n[1].(string); g != "" {
				m := rv.MethodByName(g)
				if !m.IsValid() || m.Type().NumIn() != 0 || m.Type().NumOut() != 1 {
					panic("c06: no getter " + g)
				}
				getters = append(getters, []interface{}{id, json.RawMessage(Dump(m.Call(nil)[0]))})
			}
			if s, _ := n[2].(string); s != "" {
				m := rv.MethodByName(s)
				if !m.IsValid() || m.Type().NumIn() != 0 || m.Type().NumOut() != 1 {
					panic("c06: no IsSet method " + s)
				}
				issets = append(issets, []interface{}{id, m.Call(nil)[0].Bool()})
			}
		}
		res["getters"] = getters
		res["isset"] = issets
		return res
	})
}
