"""C14 — field-mask library: queries and JSON transport agree with path semantics (fieldmask/*.go)."""
import json
import vlib


class S(vlib.Spec):
    prop = "C14"
    design_ref = "DESIGN.md section 3 / C14"
    coq_targets = ["Props/C14.vo", "Corr/C14.vo"]
    props_file = "Props/C14.v"
    harness_pkg = "./cmd/c14"
    harness_name = "c14"
    corr_codes = {1, 9}
    code_names = {
        1: "model and implementation disagree",
        9: "model left its fragment / inconsistent case record",
        2: "query answers disagree with the path-set specification on the domain",
        3: "a later star dropped selections made through explicit keys",
        4: "black list: a path ending with a star passes its elements",
        5: "black list: a path and its proper prefix reject nothing",
        6: "answers change over MarshalJSON/Unmarshal on the domain",
        7: "MarshalJSON text with a strconv.Quote-only escape cannot be read back",
        8: "the empty mask cannot be read back from its JSON",
        10: "a path outside the grammar was accepted",
        11: "a permutation / regrouping of the same path set answers differently on the domain",
        12: "the library panicked",
        13: "the library did not return",
        14: "a path through a field without mask type (union/exception) was accepted",
        15: "a path going on below a struct star was accepted",
        16: "a well-typed conflict-free path list was rejected",
        17: "the string key * is read back from JSON as the any-star",
        18: "bytes returned by Marshal/MarshalJSON changed after later operations (history)",
    }
    classes = {
        3: "C14-star-resets-explicit-keys", 4: "C14-black-tail-star-passes", 5: "C14-black-prefix-path-passes",
        7: "C14-json-key-not-json-quoted", 8: "C14-json-empty-mask", 10: "C14-malformed-path-accepted",
        14: "C14-union-field-unselectable", 15: "C14-struct-star-continuation", 17: "C14-json-key-star-becomes-any",
        2: "C14-query-disagrees-with-path-set", 6: "C14-json-round-trip-changes-answers",
        11: "C14-order-or-grouping-dependence", 12: "C14-panic", 13: "C14-hang", 16: "C14-valid-list-rejected",
        18: "C14-json-text-not-stable-over-history",
    }
    modelled = ("fieldmask/path.go: pathIterator.Next/lit/str, newPathToken -> coq/Mask/Path.v; "
                "fieldmask/utils.go: switchFt, unwrapDesc (typedefs looked through) -> coq/Mask/Desc.v; "
                "fieldmask/mask.go: NewFieldMask/init/addPath, Field/Int/Str/All/Exist/ret/hasChild, ForEachChild (set children); "
                "fieldmask/storage.go: fieldMap/intMap/strMap SetIfNotExist/Get/Reset, setAll, reset; fieldmask/path.go: GetPath/PathInMask -> coq/Mask/Trie.v; "
                "fieldmask/serdes.go: MarshalJSON/marshalRec (sorted children, text), UnmarshalJSON/TransferFrom/checkAll -> coq/Mask/Json.v; "
                "hand-written, tied by correspondence on every run (all after the repairs proposed_fixes/C14-1..9)")
    trusted_base = [
        "hand-written models coq/Mask/{Path,Desc,Trie,Json}.v of fieldmask/{path,utils,mask,storage,serdes}.go; the four child stores of a FieldMask are one association list (a store is non-nil iff it has an entry: every set* allocates and inserts, nothing is deleted)",
        "Go's encoding/json (text -> fieldMaskTransfer), strconv.Unquote/Quote/Atoi and sort.Stable as modelled on the fragment the compared streams use (bytes < 0x80; escapes \\\\ \\\" \\n \\t \\r \\xHH); int is 64 bit; field ids fit int16 in queries",
        "the projection of real thrift_reflection descriptors to Mask/Desc.v terms (harness/maskkit/desc.go: IsBasic/IsList/IsMap/IsStruct/IsEnum, typedefs unwrapped); the real library is always run on the real, typedef-carrying descriptors",
        "the path strings given to the library are map print_path ps for the generated syntactic paths (coq/Mask/Print.v = maskkit.Path.Render; compared in Coq on every grammar case and variant, code 9), and tokenize (print_path p) = tokens_of p is a theorem",
        "harness/cmd/c14 (drives the real fieldmask package in-process, every call under recover, watchdog for calls that do not return), harness/coqfmt, lib/vlib.py",
        "the totality stream (arbitrary byte strings and JSON documents) is judged by 'no panic, no hang' only; nothing is proved about panics",
    ]
    assumptions = ["a Go map store is non-nil exactly when the model's child list has an entry of that kind",
                   "the rest of a path handed to the children of an index/key set tokenizes to the rest of the token list (the tokenizer keeps no state between tokens)",
                   "error values are observed as error/no error only"]

    def producer_args(self, ctx):
        return ["-seed", str(ctx.seed), "-tier", ctx.tier, "-out", ctx.out, "-coq", vlib.COQ]

    def classify(self, code, case):
        return self.classes.get(code, "C14-code-%d" % code)

    def search(self, ctx):
        return None


def run(tier):
    return vlib.standard_run(S(), tier)


def replay(path):
    obj = json.load(open(path))
    print(json.dumps(obj, indent=1)[:6000])
    return 0
