(* Props/C20.v — property C20 "Every documented backend option switches exactly its own feature",
   stated about the model Gen/Options.v of generator/golang/option.go + util.go, args/args.go
   (checkOptions) and plugin/plugin.go (Pack / ParseCompactArguments), over the option table
   [table] regenerated from the repository on every run (Gen/OptionsTable.v) and the documentation
   tables [readme_options], [help_options] (Gen/OptionsDoc.v).
   Statements only; every proof is [exact lemma] and is followed by Print Assumptions. *)
From Coq Require Import String.
From Coq Require Import List Arith Bool.
From Verif Require Import Base.Bytes Gen.OptionsSyntax Gen.OptionsTable Gen.OptionsDoc Gen.Options Gen.OptionsFacts.
Import ListNotations.
Close Scope string_scope.

(* --- lookup: "first entry whose name is a prefix of the key" never diverts a documented name.
   For every entry of the regenerated table the prefix scan on the entry's own name returns that
   very entry (no earlier entry captures it, although code_ref is a prefix of code_ref_slim), and
   the same holds for every name in the README table. *)
Theorem C20_lookup_exact :
  forall n a, In (n, a) table -> find_entry n table = Some (n, a).
Proof. intros n a H. exact (proj1 (entry_facts n a H)). Qed.
Print Assumptions C20_lookup_exact.

Theorem C20_readme_names_are_options :
  forall n d, In (n, d) readme_options -> documented n.
Proof. intros n d H. exact (proj1 (readme_entry n d H)). Qed.
Print Assumptions C20_readme_names_are_options.

(* --- frame: one documented option, applied in any well-formed state, writes exactly one setting
   (the one [writes] names for its action) and leaves every other setting as it was. *)
Theorem C20_frame :
  forall n a v c c', In (n, a) table -> wf c -> step (n, v) c = Ok c' ->
  exists s x, writes a v = Some (s, x) /\ wf c' /\
              forall s', get s' c' = if setting_eqb s' s then x else get s' c.
Proof. exact step_frame. Qed.
Print Assumptions C20_frame.

Theorem C20_initial_state_well_formed : wf default_cfg.
Proof. exact wf_default. Qed.
Print Assumptions C20_initial_state_well_formed.

(* --- last wins, whatever precedes or follows: for option lists of any length and order over
   documented names, every setting of the accepted result is the value written by the last option
   that names it, else its default; only documented implication: slim switches deep-equal off. *)
Theorem C20_last_wins :
  forall opts c, Forall (fun o => documented (fst o)) opts ->
  handle opts default_cfg = Ok c -> forall s, get s c = expected default_of s opts.
Proof. exact last_wins. Qed.
Print Assumptions C20_last_wins.

(* --- accepted exactly when every option is valid and no rejected combination results *)
Theorem C20_accepted_iff :
  forall opts, Forall (fun o => documented (fst o)) opts ->
  ((exists c, handle opts default_cfg = Ok c) <-> spec_accepts default_of opts = true).
Proof. exact accepted_iff. Qed.
Print Assumptions C20_accepted_iff.

(* --- boolean forms: bare and =true set, =false clears, anything else is an error *)
Theorem C20_bool_forms :
  forall n i c, In (n, AFeature i) table -> wf c ->
  step (n, []) c = Ok (set_feat i true c) /\
  step (n, B "true"%string) c = Ok (set_feat i true c) /\
  step (n, B "false"%string) c = Ok (set_feat i false c) /\
  get (SFeat i) (set_feat i true c) = VBool true /\
  get (SFeat i) (set_feat i false c) = VBool false /\
  forall v, v <> [] -> v <> B "true"%string -> v <> B "false"%string -> step (n, v) c = Err EBool.
Proof. exact bool_forms_feature. Qed.
Print Assumptions C20_bool_forms.

Theorem C20_bool_forms_ignore_initialisms :
  forall n c, In (n, AIgnoreInit) table ->
  step (n, []) c = Ok (set_init false c) /\
  step (n, B "true"%string) c = Ok (set_init false c) /\
  step (n, B "false"%string) c = Ok (set_init true c) /\
  forall v, v <> [] -> v <> B "true"%string -> v <> B "false"%string -> step (n, v) c = Err EBool.
Proof. exact bool_forms_initialisms. Qed.
Print Assumptions C20_bool_forms_ignore_initialisms.

(* --- invalid values are rejected wherever they stand in the list and whatever surrounds them *)
Theorem C20_invalid_rejected :
  forall n a v, In (n, a) table -> writes a v = None ->
  forall before after c, exists e, handle (before ++ (n, v) :: after) c = Err e.
Proof. exact invalid_value_rejected. Qed.
Print Assumptions C20_invalid_rejected.

(* which values are invalid: non-booleans, unknown naming styles, unknown templates, use_package
   without '=' *)
Theorem C20_invalid_values :
  (forall i v, writes (AFeature i) v = None <-> v <> [] /\ v <> B "true"%string /\ v <> B "false"%string) /\
  (forall v, writes AIgnoreInit v = None <-> v <> [] /\ v <> B "true"%string /\ v <> B "false"%string) /\
  (forall v, writes ANamingStyle v = None <-> ~ In v naming_styles) /\
  (forall v, writes ATemplate v = None <-> v <> default_template /\ ~ In v templates) /\
  (forall v, writes AUsePackage v = None <-> ~ In ch_eq v).
Proof.
  exact (conj writes_bool_none (conj writes_init_none (conj writes_style_none
        (conj writes_template_none writes_use_package_none)))).
Qed.
Print Assumptions C20_invalid_values.

(* --- invalid combinations never survive HandleOptions, from any start state, any list *)
Theorem C20_invalid_combination_rejected :
  forall opts c c', handle opts c = Ok c' ->
  ~ (get_feat ix_apache_warning c' = true /\ get_feat ix_apache_adaptor c' = true) /\
  (get_feat ix_with_field_mask c' = true -> get_feat ix_with_reflection c' = true) /\
  ~ (get_feat ix_snake c' = true /\ get_feat ix_lower_camel c' = true) /\
  (get_feat ix_always_json c' = true -> get_feat ix_gen_json_tag c' = true).
Proof. exact invalid_combination_rejected. Qed.
Print Assumptions C20_invalid_combination_rejected.

(* the indices used above are those of the documented option names *)
Theorem C20_combination_names_resolve : named_indices_ok = true.
Proof. exact named_indices_ok_true. Qed.
Print Assumptions C20_combination_names_resolve.

(* --- every documented option alone is accepted and sets exactly its feature, the rest default;
   the one exception is with_field_mask=true, documented to require with_reflection *)
Theorem C20_valid_accepted_bool :
  forall n i v b, In (n, AFeature i) table -> parse_bool v = Some b ->
  (b = true -> i <> ix_with_field_mask) ->
  handle [(n, v)] default_cfg = Ok (set_feat i b default_cfg).
Proof. exact single_bool_accepted. Qed.
Print Assumptions C20_valid_accepted_bool.

Theorem C20_valid_accepted_other :
  (forall n s, In (n, ANamingStyle) table -> In s naming_styles ->
     handle [(n, s)] default_cfg = Ok (set_style s default_cfg)) /\
  (forall n v b, In (n, AIgnoreInit) table -> parse_bool v = Some b ->
     handle [(n, v)] default_cfg = Ok (set_init (negb b) default_cfg)) /\
  (forall n v, In (n, APackagePrefix) table ->
     handle [(n, v)] default_cfg = Ok (set_prefix v default_cfg)) /\
  (forall n v, In (n, AImportPath) table ->
     handle [(n, v)] default_cfg = Ok (set_import default_thrift_lib v default_cfg)) /\
  (forall n p r, In (n, AUsePackage) table -> ~ In ch_eq p ->
     handle [(n, p ++ ch_eq :: r)] default_cfg = Ok (set_import p r default_cfg)) /\
  (forall n t, In (n, ATemplate) table -> t = default_template \/ In t templates ->
     handle [(n, t)] default_cfg = Ok (post (set_template t default_cfg))).
Proof.
  exact (conj single_style_accepted (conj single_initialisms_accepted (conj single_prefix_accepted
        (conj single_import_path_accepted (conj single_use_package_accepted single_template_accepted))))).
Qed.
Print Assumptions C20_valid_accepted_other.

(* --- documented implications *)
Theorem C20_slim_disables_deep_equal :
  forall opts c c', handle opts c = Ok c' -> c_template c' = slim -> get_feat ix_deep_equal c' = false.
Proof. exact slim_disables_deep_equal. Qed.
Print Assumptions C20_slim_disables_deep_equal.

Theorem C20_nested_forces_slim :
  forall opts c,
  get_feat ix_nested (final_state opts default_cfg) = true ->
  (forall o, In o opts -> fst o <> template_name) ->
  handle (check_options opts) default_cfg = Ok c ->
  c_template c = slim /\ get_feat ix_deep_equal c = false.
Proof. exact nested_forces_slim. Qed.
Print Assumptions C20_nested_forces_slim.

Theorem C20_check_options_otherwise_identity :
  forall opts,
  get_feat ix_nested (final_state opts default_cfg) = false \/
  (exists o, In o opts /\ fst o = template_name) ->
  check_options opts = opts.
Proof. exact check_options_keeps. Qed.
Print Assumptions C20_check_options_otherwise_identity.

(* Pack followed by the SplitN of HandleOptions gives back name and value *)
Theorem C20_pack_roundtrip : forall o, ~ In ch_eq (fst o) -> parse_arg (pack o) = o.
Proof. exact parse_pack. Qed.
Print Assumptions C20_pack_roundtrip.

(* --- the whole command-line path, for ANY -g value: ParseCompactArguments, checkOptions, Pack and
   the SplitN of HandleOptions compose to HandleOptions on the options checkOptions returns (names
   never contain '=', so packing loses nothing) *)
Theorem C20_command_line_handle :
  forall g, handle_packed (targets g) = handle (targets g) default_cfg.
Proof. exact command_line_handle. Qed.
Print Assumptions C20_command_line_handle.

(* hence last-wins holds for what a -g value finally configures *)
Theorem C20_command_line_last_wins :
  forall g c, Forall (fun o => documented (fst o)) (targets g) ->
  handle_packed (targets g) = Ok c -> forall s, get s c = expected default_of s (targets g).
Proof. exact command_line_last_wins. Qed.
Print Assumptions C20_command_line_last_wins.

(* nested structs force slim, at full strength and stated on the outcome: whenever the accepted
   configuration has nested structs on and no option named template was given, the template is slim
   (C20_nested_forces_slim needed the pre-adaptation state as hypothesis) *)
Theorem C20_nested_forces_slim_outcome :
  forall opts c, handle (check_options opts) default_cfg = Ok c ->
  get_feat ix_nested c = true ->
  (forall o, In o opts -> fst o <> template_name) ->
  c_template c = slim /\ get_feat ix_deep_equal c = false.
Proof. exact nested_forces_slim_outcome. Qed.
Print Assumptions C20_nested_forces_slim_outcome.

Theorem C20_command_line_nested_forces_slim :
  forall g c, handle_packed (targets g) = Ok c ->
  get_feat ix_nested c = true ->
  (forall o, In o (snd (parse_compact g)) -> fst o <> template_name) ->
  c_template c = slim /\ get_feat ix_deep_equal c = false.
Proof. exact command_line_nested. Qed.
Print Assumptions C20_command_line_nested_forces_slim.

(* --- documentation *)
Theorem C20_documented_defaults_agree :
  forall n d, In (n, d) readme_options ->
  match d with
  | DBool b => (exists i, In (n, AFeature i) table /\ nth i feature_defaults false = b) \/
               (In (n, AIgnoreInit) table /\ init_curinit = negb b /\ init_doinit = negb b)
  | DStr s => In (n, ANamingStyle) table /\ s = default_style
  | DNone => True
  end.
Proof. intros n d H. exact (proj2 (readme_entry n d H)). Qed.
Print Assumptions C20_documented_defaults_agree.

Theorem C20_help_defaults_agree :
  forall n en dep i, In (n, (en, dep)) help_options -> In (n, AFeature i) table ->
  nth i feature_defaults false = en.
Proof. exact help_defaults_agree. Qed.
Print Assumptions C20_help_defaults_agree.

Theorem C20_documented_string_defaults :
  readme_thrift_lib = Some default_thrift_lib /\ help_thrift_lib = Some default_thrift_lib /\
  help_style_default = Some default_style.
Proof. exact doc_string_defaults. Qed.
Print Assumptions C20_documented_string_defaults.

Theorem C20_oracle_defaults_are_model_defaults :
  forall s, match s with SFeat i => i < nfeat | _ => True end -> doc_default_of s = default_of s.
Proof. exact documented_defaults_agree. Qed.
Print Assumptions C20_oracle_defaults_are_model_defaults.

Theorem C20_documented_value_sets :
  (forall s, In s readme_styles <-> In s naming_styles) /\
  (forall s, In s help_styles <-> In s naming_styles) /\
  (forall t, In t readme_templates <-> In t templates) /\
  (forall t, In t help_templates <-> In t templates) /\
  (forall v, In v readme_bool_forms <-> parse_bool v <> None) /\
  (forall v, In v help_bool_forms <-> parse_bool v <> None).
Proof. exact doc_value_sets. Qed.
Print Assumptions C20_documented_value_sets.

(* -h lists exactly the table in lookup order; every README name is in -h; a -h name missing from
   the README is marked deprecated *)
Theorem C20_help_lists_all :
  map fst help_options = map fst table /\
  (forall n, In n (map fst readme_options) -> In n (map fst help_options)) /\
  (forall n en dep, In (n, (en, dep)) help_options -> In n (map fst readme_options) \/ dep = true).
Proof. exact help_lists_all. Qed.
Print Assumptions C20_help_lists_all.

(* --- the defect repaired by proposed_fixes/C20-naming-style-resets-initialisms: from the initial
   state of the unrepaired NewCodeUtils (doInitialisms false, style object correcting initialisms)
   the single option naming_style=golint also switches initialism correction off.  [wf] excludes
   exactly this; C20_initial_state_well_formed fails to compile if the repair is reverted. *)
Theorem C20_unrepaired_initial_state_refuted :
  exists n s c', existsb (fun e => beqb (fst e) n && action_eqb (snd e) ANamingStyle) table = true /\
    handle [(n, s)] unrepaired_default_cfg = Ok c' /\
    get SInit unrepaired_default_cfg = VBool true /\ get SInit c' = VBool false.
Proof. exact unrepaired_naming_style_resets_initialisms. Qed.
Print Assumptions C20_unrepaired_initial_state_refuted.

(* --- non-vacuity: the hypotheses are satisfiable on the regenerated table *)
Open Scope string_scope.
Example C20_example_prefix_pair :
  match exact_action (B "code_ref"), exact_action (B "code_ref_slim") with
  | Some (AFeature i), Some (AFeature j) => negb (Nat.eqb i j) && is_prefix (B "code_ref") (B "code_ref_slim")
  | _, _ => false
  end = true.
Proof. vm_compute. reflexivity. Qed.

Example C20_example_list :
  handle_args [B "code_ref_slim"; B "naming_style=golint"; B "gen_setter"; B "gen_setter=false"; B "template=slim"; B "gen_deep_equal"]
  = Ok (set_template slim (set_style (B "golint") (set_feat (feat_index (B "code_ref_slim")) true default_cfg))).
Proof. vm_compute. reflexivity. Qed.

Example C20_example_rejected :
  handle_args [B "apache_warning"; B "apache_adaptor"] = Err (ECombo 1) /\
  handle_args [B "with_field_mask"] = Err (ECombo 2) /\
  handle_args [B "gen_setter=yes"] = Err EBool /\
  handle_args [B "use_package=nopath"] = Err EUsePackage.
Proof. vm_compute. intuition. Qed.

Example C20_example_nested :
  targets (B "go:enable_nested_struct,gen_setter") =
  [(B "enable_nested_struct", []); (B "gen_setter", []); (B "template", B "slim")].
Proof. vm_compute. reflexivity. Qed.

Example C20_example_command_line_nested :
  match handle_packed (targets (B "go:gen_setter,enable_nested_struct,gen_deep_equal")) with
  | Ok c => get_feat ix_nested c && beqb (c_template c) slim && negb (get_feat ix_deep_equal c)
  | Err _ => false
  end = true.
Proof. vm_compute. reflexivity. Qed.
