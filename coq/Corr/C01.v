(* Corr/C01.v — cases for C01.
   NsCase: a sequence of Namespace operations run on the real pkg/namespace with one of the
   rename functions used by the generator, and the value every operation returned.
   BuildCase: one (program, option set) run through the real thriftgo: did it exit 0, did
   every written .go file parse, did the whole output tree type-check (go build / go vet).
   Codes:
     1  namespace model and implementation disagree                  (correspondence)
     2  two different ids hold the same name in the implementation     (property oracle)
     3  thriftgo exited 0 but a written .go file is not valid Go syntax (property oracle)
     4  thriftgo exited 0 but the generated packages do not type-check (property oracle)
     5  thriftgo exited 0 but wrote no Go file at all                  (property oracle)
     9  model out of fuel
   ScopeCase: one Go package directory written by an accepted thriftgo run: the resolved IDL
   files that were generated into it (astdump), the features the table-building code reads, the
   answers of the real naming style (identify) and of LowerFirstRune for every string the model
   asks about, and what go/parser finds DECLARED in the directory: package-level identifiers
   (one entry per declaration), per type its fields, methods and interface methods with the
   receiver / parameter / result names.  The model (Gen/Scope.v) recomputes every name table
   and the comparison is by SETS per table:
     1  a name table of the model and the declared identifiers disagree (correspondence);
        sub-checks: model raised an error although thriftgo accepted; package-level identifiers;
        members of a struct type; method names of a service; parameter names of a method
     6  a package-level identifier is declared twice in one directory  (property oracle)
     7  a struct type has two members (fields / methods) of one name   (property oracle)
     8  a method has two receiver / parameter / result names alike     (property oracle)
   RejectCase: a program the real front end accepts and the Go backend rejects with the
   MustReserve panic (recovered by Scope.init, non-zero exit): the model must raise the reserve
   failure for one of its files (code 1 otherwise).
   Identifiers that templates compose without asking a name table are NOT MODELLED; they are
   excluded from the set comparison by the rule [not_modelled] below (and only by it) but take
   part in the oracles 6, 7, 8. *)
From Coq Require Import List Arith Bool NArith.
From Coq.Strings Require Import Byte String.
From Verif Require Import Base.Bytes Gen.Namespace Idl.Ast Idl.AstUtil Gen.Scope.
Import ListNotations.

Inductive rename_kind := RUnderscore | RImport | RNumber.
Definition rename_of (k : rename_kind) : bytes -> nat -> bytes :=
  match k with RUnderscore => underscore_suffix | RImport => import_suffix | RNumber => number_suffix end.

(* observed results: a name (Add/Get/ID) or a boolean (Reserve) *)
Inductive obs := OName (n : bytes) | OBool (b : bool).


(* ------------------------------------------------------------------ scope cases: observed side *)
Record gofunc := GoFunc { gf_name : bytes; gf_recv : bytes; gf_params : list bytes; gf_results : list bytes }.
(* gt_kind: 0 struct, 1 interface, 2 alias, 3 other *)
Record gotype := GoType { gt_name : bytes; gt_kind : N; gt_fields : list bytes; gt_iface : list gofunc; gt_methods : list gofunc }.

(* what the selected templates emit at all (from the option set; decides which table entries
   must be found declared) *)
Record tflags := TFlags {
  tf_processor : bool;      (* <Svc>Client / <Svc>Processor are generated (not slim, not no_processor, not no_default_serdes) *)
  tf_synth : bool;          (* the <Svc><Func>Args / Result structs are generated (not slim) *)
  tf_serdes : bool;         (* Read / Write / ReadFieldN / writeFieldN are generated *)
  tf_slim : bool }.         (* template=slim: only types, constructors, getters, setters, String *)

Inductive case :=
| NsCase (k : rename_kind) (ops : list op) (outs : list obs)
         (final_ids : list (bytes * bytes))  (* (id, Get id) for every id used, asked at the end *)
| BuildCase (exit0 parse_ok build_ok : bool) (go_files : N)
| ScopeCase (ft : features) (tf : tflags)
            (identify_answers lower_first_answers : list (bytes * bytes))
            (files : list file)
            (idents : list bytes) (types : list gotype)
| RejectCase (ft : features) (identify_answers lower_first_answers : list (bytes * bytes)) (files : list file).

Definition obs_eqb (v : outv) (o : obs) : bool :=
  match v, o with
  | VName a, OName b => beqb a b
  | VBool a, OBool b => Bool.eqb a b
  | _, _ => false
  end.

Fixpoint outs_eqb (vs : list outv) (os : list obs) : bool :=
  match vs, os with
  | [], [] => true
  | v :: vs', o :: os' => obs_eqb v o && outs_eqb vs' os'
  | _, _ => false
  end.

Fixpoint dup_name (l : list (bytes * bytes)) : bool :=
  match l with
  | [] => false
  | (i, n) :: r => (negb (beqb n []) && existsb (fun p => beqb (snd p) n && negb (beqb (fst p) i)) r) || dup_name r
  end.


(* ------------------------------------------------------------------ scope cases: comparison *)
Definition memb (x : bytes) (l : list bytes) : bool := existsb (beqb x) l.
Definition subsetb (a b : list bytes) : bool := forallb (fun x => memb x b) a.
Definition minus (a b : list bytes) : list bytes := filter (fun x => negb (memb x b)) a.
Fixpoint has_dup (l : list bytes) : bool :=
  match l with [] => false | x :: r => memb x r || has_dup r end.
Definition exported (n : bytes) : bool :=
  match n with b :: _ => let c := Byte.to_N b in (N.leb 65 c && N.leb c 90)%bool | [] => false end.

(* the answers of the real style functions; a question the harness did not answer shows up as a
   name that cannot be declared *)
Definition answer (tbl : list (bytes * bytes)) (raw : bytes) : bytes :=
  match lookup raw tbl with Some v => v | None => x3f :: x3f :: raw end.

Definition names_where (p : entry -> bool) (es : list entry) : list bytes := map e_name (filter p es).
Definition in_table (t : table) (e : entry) : bool := table_eqb (e_table e) t.
Definition owned_by (t : table) (k : kind) (e : entry) : bool := table_eqb (e_owner e) t && kind_eqb (e_kind e) k.
Definition is_globalish (e : entry) : bool :=
  match e_table e with TGlobals | TEnum _ => true | _ => false end.
Definition name_owned (es : list entry) (t : table) (k : kind) : bytes :=
  match filter (owned_by t k) es with e :: _ => e_name e | [] => [] end.

(* --- package level --- *)
(* table entries that the templates of the option set declare at package level *)
Definition global_declared (tf : tflags) (e : entry) : bool :=
  is_globalish e &&
  match e_kind e with
  | KService | KEnum | KEnumValue | KTypedef | KConstant => true
  | KStructType | KNew => match e_owner e with TSynth _ _ _ => tf_synth tf | _ => true end
  | KIds => match e_owner e with TSynth _ _ _ => tf_synth tf && negb (tf_slim tf) | _ => negb (tf_slim tf) end
  | KClient | KProcessor => tf_processor tf
  | _ => false   (* KTypedefNew: New<Alias> exists only for typedefs of local struct-likes; never required *)
  end.

(* NOT MODELLED package-level identifiers: composed inside templates from table names, without
   asking a table.  [es] = the entries of one file. *)
Definition sB (s : string) : bytes := B s.
Definition struct_tables (es : list entry) : list table :=
  map e_owner (filter (fun e => kind_eqb (e_kind e) KStructType) es).
Definition derived_globals (es : list entry) : list bytes :=
  (* <Type>_<Field>_DEFAULT *)
  flat_map (fun t => let tn := name_owned es t KStructType in
                     map (fun fn => tn ++ [x5f] ++ fn ++ sB "_DEFAULT")
                         (names_where (fun e => in_table t e && kind_eqb (e_kind e) KField) es))
           (struct_tables es) ++
  (* New<Svc>Client, New<Svc>ClientFactory, New<Svc>ClientProtocol, New<Svc>Processor *)
  flat_map (fun e => match e_kind e with
                     | KClient => [sB "New" ++ e_name e; sB "New" ++ e_name e ++ sB "Factory"; sB "New" ++ e_name e ++ sB "Protocol"]
                     | KProcessor => [sB "New" ++ e_name e]
                     | KEnum => [e_name e ++ sB "FromString"; e_name e ++ sB "Ptr"]
                     | _ => []
                     end) es.
Definition fixed_globals : list bytes := [sB "KitexUnusedProtection"; sB "ThriftGoUnusedProtection"].
Definition not_modelled_global (model derived : list bytes) (n : bytes) : bool :=
  negb (memb n model) &&
  (negb (exported n) || memb n derived || is_prefix (sB "GetFileDescriptorFor") n || memb n fixed_globals).

(* --- members of one struct type --- *)
Definition member_declared (ft : features) (tf : tflags) (e : entry) : bool :=
  match e_kind e with
  | KField | KGetter => true
  | KSetter => true
  | KIsSet => true
  | KReadField | KWriteField => tf_serdes tf
  | KFieldDeepEqual => true
  | KBuiltin => (beqb (e_name e) s_String) || (beqb (e_name e) s_InitDefault) ||
                ((beqb (e_name e) s_Read || beqb (e_name e) s_Write) && tf_serdes tf) ||
                beqb (e_name e) s_Error || beqb (e_name e) s_DeepEqual ||
                (beqb (e_name e) s_Carrying && negb (tf_slim tf))
  | _ => false
  end.
(* NOT MODELLED members: written by templates under fixed names *)
Definition fixed_members : list bytes :=
  [sB "GetTypeDescriptor"; sB "GetDescriptor"; sB "Get_FieldMask"; sB "Set_FieldMask"; sB "Pass_FieldMask";
   sB "BLength"; sB "FastAppend"; sB "FastRead"; sB "FastWrite"; sB "FastWriteNocopy"].
Definition not_modelled_member (tn : bytes) (model : list bytes) (n : bytes) : bool :=
  negb (memb n model) &&
  (negb (exported n) || memb n fixed_members || beqb n (s_CountSetFields ++ tn)).

Definition find_type (types : list gotype) (name : bytes) : option gotype :=
  find (fun t => beqb (gt_name t) name) types.
Definition find_func (fs : list gofunc) (name : bytes) : option gofunc :=
  find (fun f => beqb (gf_name f) name) fs.

(* disagreements of one file, as (sub-check, names) for the replay; [] = agreement.
   sub-check 10 model error, 11 declared but in no table, 12 table entry not declared,
   13 struct type missing, 14 member in no table, 15 member entry not declared,
   16 service interface / method missing, 17 parameter names differ *)
Definition scope_file_diff (ft : features) (tf : tflags) (es : list entry) (idents : list bytes) (types : list gotype)
  : list (N * list bytes) :=
  (* members *)
  flat_map (fun t =>
     let tn := name_owned es t KStructType in
     let synth := match t with TSynth _ _ _ => true | _ => false end in
     if synth && negb (tf_synth tf) then [] else
     match find_type types tn with
     | None => [(13%N, [tn])]
     | Some gt =>
       let model := names_where (in_table t) es in
       let declared := gt_fields gt ++ map gf_name (gt_methods gt) in
       let extra := filter (fun n => negb (memb n model) && negb (not_modelled_member tn model n)) declared in
       let missing := minus (names_where (fun e => in_table t e && member_declared ft tf e) es) declared in
       (if extra then [] else [(14%N, tn :: extra)]) ++ (if missing then [] else [(15%N, tn :: missing)])
     end) (struct_tables es) ++
  (* services *)
  flat_map (fun e =>
     match e_kind e, e_owner e with
     | KService, TService i =>
       match find_type types (e_name e) with
       | None => [(16%N, [e_name e])]
       | Some gt =>
         let fns := filter (fun x => in_table (TService i) x) es in
         (if subsetb (map e_name fns) (map gf_name (gt_iface gt)) && subsetb (map gf_name (gt_iface gt)) (map e_name fns)
          then [] else [(16%N, e_name e :: map gf_name (gt_iface gt))]) ++
         flat_map (fun fe =>
            let model := names_where (fun x => in_table (e_owner fe) x && (kind_eqb (e_kind x) KParam || (kind_eqb (e_kind x) KLocal && negb (beqb (e_name x) s__result)))) es in
            let chk (who : bytes) (with_recv : bool) (gf : gofunc) :=
              let declared := (if with_recv then [gf_recv gf] else []) ++ gf_params gf ++ gf_results gf in
              let model' := if with_recv then model else minus model [s_p] in
              if subsetb declared model' && subsetb model' declared then [] else [(17%N, who :: e_name fe :: declared)] in
            (match find_func (gt_iface gt) (e_name fe) with Some gf => chk (e_name e) false gf | None => [] end) ++
            (if tf_processor tf then
               match find_type types (name_owned es (TService i) KClient) with
               | Some ct => match find_func (gt_methods ct) (e_name fe) with
                            | Some gf => chk (gt_name ct) true gf
                            | None => [(16%N, [gt_name ct; e_name fe])]
                            end
               | None => [(16%N, [name_owned es (TService i) KClient])]
               end
             else [])) fns
       end
     | _, _ => []
     end) es.

Definition scope_dir_diff (ft : features) (tf : tflags) (ess : list (list entry)) (idents : list bytes) (types : list gotype)
  : list (N * list bytes) :=
  let all := List.concat ess in
  let model := names_where is_globalish all in
  let derived := flat_map derived_globals ess in
  let extra := filter (fun n => negb (memb n model) && negb (not_modelled_global model derived n)) idents in
  let missing := minus (names_where (global_declared tf) all) idents in
  (if extra then [] else [(11%N, extra)]) ++ (if missing then [] else [(12%N, missing)]) ++
  flat_map (fun es => scope_file_diff ft tf es idents types) ess.

Fixpoint run_files (ft : features) (idt lft : list (bytes * bytes)) (fs : list file) : sresult (list (list entry)) :=
  match fs with
  | [] => SOk []
  | f :: r => match scope_run (answer idt) (answer lft) ft f with
              | SErr e => SErr e
              | SOk es => match run_files ft idt lft r with SErr e => SErr e | SOk ess => SOk (es :: ess) end
              end
  end.

(* the property oracles, on the extracted names only *)
Definition dup_members (types : list gotype) : bool :=
  existsb (fun t => has_dup (gt_fields t ++ map gf_name (gt_methods t)) || has_dup (map gf_name (gt_iface t))) types.
Definition dup_params (types : list gotype) : bool :=
  existsb (fun t => existsb (fun f => has_dup ((if gf_recv f then [] else [gf_recv f]) ++ gf_params f ++ gf_results f))
                            (gt_iface t ++ gt_methods t)) types.

Definition scope_report (c : case) : list (N * list bytes) :=
  match c with
  | ScopeCase ft tf idt lft files idents types =>
    match run_files ft idt lft files with
    | SErr EReserve => [(10%N, [])]
    | SErr EFuel => [(9%N, [])]
    | SOk ess => scope_dir_diff ft tf ess idents types
    end
  | _ => []
  end.

Definition rejects_reserve (ft : features) (idt lft : list (bytes * bytes)) (f : file) : bool :=
  match scope_run (answer idt) (answer lft) ft f with SErr EReserve => true | _ => false end.

Definition check (c : case) : list N :=
  match c with
  | NsCase k ops outs finals =>
      let '(_, vs) := run_ops (rename_of k) ns0 ops in
      (if existsb (fun v => match v with VFuel => true | _ => false end) vs then [9%N]
       else if outs_eqb vs outs then [] else [1%N]) ++
      (if dup_name finals then [2%N] else [])
  | BuildCase exit0 parse_ok build_ok nfiles =>
      if exit0 then (if parse_ok then [] else [3%N]) ++ (if build_ok then [] else [4%N]) ++
                    (if N.eqb nfiles 0 then [5%N] else [])
      else []
  | ScopeCase ft tf idt lft files idents types =>
      (match scope_report c with
       | [] => []
       | (9%N, _) :: _ => [9%N]
       | _ => [1%N]
       end) ++
      (if has_dup idents then [6%N] else []) ++
      (if dup_members types then [7%N] else []) ++
      (if dup_params types then [8%N] else [])
  | RejectCase ft idt lft files => if existsb (rejects_reserve ft idt lft) files then [] else [1%N]
  end.

Fixpoint mismatches_from (i : N) (cs : list case) : list (N * N) :=
  match cs with
  | [] => []
  | c :: r => map (fun code => (i, code)) (check c) ++ mismatches_from (i + 1)%N r
  end.
Definition mismatches (cs : list case) : list (N * N) := mismatches_from 0%N cs.
