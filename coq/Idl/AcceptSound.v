(* Idl/AcceptFacts.v, part 4 (property C04): the theorems.  An accepted program
   violates no AST-level rule of the catalogue, in any file reachable through include
   statements; getEnum terminates on acyclic typedef graphs (and only there); the
   command-line stage; witnesses where the code still accepts a violating input. *)
From Coq Require Import List Bool Arith Lia NArith ZArith.
From Coq.Strings Require Import Byte String.
From Verif Require Import Base.Bytes Idl.Ast Idl.AstUtil Idl.AstFacts Idl.Resolve Idl.ResolveSpec Idl.ResolveTd
     Idl.ResolveLemmas Idl.ResolveInv Idl.ResolveConst Idl.ResolveProg
     Idl.Check Idl.Rules Idl.CheckFacts Idl.Accept Idl.AcceptFacts Idl.AcceptConst Idl.AcceptBackend.
Import ListNotations.
Local Open Scope resolve_scope.

(* ---------------------------------------------------------------- the run behind an accepted program *)

Lemma resolve_program_run p r : resolve_program p = Ok r ->
  exists done, inv p done /\ traced p done /\
    (forall fn, reach p fn -> exists f', lookup fn done = Some f') /\
    (forall fn f', lookup fn done = Some f' -> prog_file r fn = Some f').
Proof.
  intros H. destruct (resolve_program_reaches p r H) as (done0 & _). clear done0.
  pose proof H as H0. unfold resolve_program in H. destruct p as [|[mainfn mf] p'] eqn:Ep.
  { exists []. split; [apply inv_nil|]. split; [apply traced_nil|]. split.
    - intros fn Hr. exfalso. inversion Hr; subst; discriminate.
    - intros fn f' L. discriminate. }
  rewrite <- Ep in *. inv_bind H. injection H as <-. rename x into done.
  destruct (resolve_rec_inv p _ _ _ _ (inv_nil p) E) as (Hinv & _ & Lm).
  pose proof (resolve_rec_traced p _ _ _ _ (inv_nil p) (traced_nil p) E) as Htr.
  exists done. split; [exact Hinv|]. split; [exact Htr|]. split.
  - intros fn Hr. induction Hr as [m' f' rest' E'|a f h Ha IHa Pa Hh].
    + rewrite Ep in E'. injection E' as <- _ _. destruct (lookup mainfn done) as [g|]; [eauto | congruence].
    + destruct IHa as (g' & La). destruct (Hinv a g' La) as (g & Pg & Gd).
      assert (g = f) by congruence. subst g. apply in_inc_targets in Hh. destruct Hh as (i & Hi & Hri).
      destruct (gd_targets _ _ _ _ _ Gd i Hi) as (hn & Hrn & Hl). assert (hn = h) by congruence. subst hn.
      destruct (lookup h done) as [h'|]; [eauto | congruence].
  - intros fn f' L. destruct (Hinv fn f' L) as (g & Pg & _). unfold prog_file in *.
    rewrite lookup_map_done, Pg, L. reflexivity.
Qed.

(* ---------------------------------------------------------------- one reachable file of an accepted program *)

Lemma some_type_name_ok st p fn f : st <> NsOk ->
  (forall o, In o (file_occs f) -> type_name_status p fn f (ty_name o) = NsOk) -> some_type_name st p fn f = false.
Proof.
  intros Hst H. unfold some_type_name. apply existsb_false. intros o Ho. rewrite (H o Ho).
  destruct st; [congruence | reflexivity | reflexivity].
Qed.

Record file_ok (p : program) (fn : bytes) (f : file) : Prop := {
  fo_clean : file_clean f;
  fo_global : dup_global f = false;
  fo_undefined : some_type_name NsUndefined p fn f = false;
  fo_nontype : some_type_name NsNotAType p fn f = false;
  fo_base : unknown_base_service p fn f = false;
  fo_tdcycle : typedef_cycle p fn f = false;
  fo_consts : plain_names p = true -> undefined_const p fn f = false /\ ambiguous_const p fn f = false }.

Theorem accepted_file_ok p b : accepts p b = AOk ->
  forall fn f, reach p fn -> prog_file p fn = Some f -> file_ok p fn f.
Proof.
  intros Ha fn f Hr Pf. destruct (accepts_front p b Ha) as (r & order & Hfe & _).
  destruct (front_end_ok p r order Hfe) as (_ & Hck & Hrs & _).
  destruct (resolve_program_run p r Hrs) as (done & Hinv & Htr & Hall & _).
  destruct (Hall fn Hr) as (f' & L). destruct (Htr fn f' L) as (d1 & f0 & Pf0 & I1 & _ & T1 & R1).
  assert (f0 = f) by congruence. subst f0.
  destruct (file_types_ok p d1 fn f f' I1 Pf T1 R1) as (Hty & Hbase).
  destruct (Hinv fn f' L) as (g & Pg & Gd). assert (g = f) by congruence. subst g.
  constructor.
  - exact (check_program_ok p Hck fn f Hr Pf).
  - exact (resolve_file_in_nodup d1 f f' R1).
  - apply some_type_name_ok; [discriminate | exact Hty].
  - apply some_type_name_ok; [discriminate | exact Hty].
  - exact Hbase.
  - exact (good_no_typedef_cycle p done fn f f' Pf Gd).
  - intros Hpl. exact (file_consts_ok p d1 fn f f' I1 Hpl Pf T1 R1).
Qed.

(* ---------------------------------------------------------------- the files the backend looks at *)

Lemma scope_closure_incl r : forall fuel visited fn, incl visited (scope_closure fuel r visited fn).
Proof.
  induction fuel as [|k IH]; intros visited fn; cbn [scope_closure]; [apply incl_refl|].
  destruct (memb fn visited); [apply incl_refl|]. destruct (prog_file r fn) as [g|]; [|apply incl_refl].
  assert (Hf : forall refs v, incl v (fold_left (scope_closure k r) refs v)).
  { induction refs as [|h refs IHr]; intros v; cbn [fold_left]; [apply incl_refl|].
    eapply incl_tran; [apply IH | apply IHr]. }
  intros x Hx. apply Hf. right. exact Hx.
Qed.

Lemma scope_closure_self r k fn g : prog_file r fn = Some g -> In fn (scope_closure (S k) r [] fn).
Proof.
  intros Pr. cbn [scope_closure memb existsb]. rewrite Pr.
  assert (Hf : forall refs v, incl v (fold_left (scope_closure k r) refs v)).
  { induction refs as [|h refs IHr]; intros v; cbn [fold_left]; [apply incl_refl|].
    eapply incl_tran; [apply scope_closure_incl | apply IHr]. }
  apply Hf. left. reflexivity.
Qed.

Theorem accepted_file_kinds p b : accepts p b = AOk ->
  forall fn f, reach p fn -> prog_file p fn = Some f ->
  (be_recursive b = true \/ exists rest, p = (fn, f) :: rest) ->
  kind_mismatch p fn f = false /\ struct_literal_bad_key p fn f = false.
Proof.
  intros Ha fn f Hr Pf Hpos. destruct (accepts_front p b Ha) as (r & order & Hfe & Hbk).
  destruct (front_end_ok p r order Hfe) as (_ & _ & Hrs & Hord).
  destruct (resolve_program_run p r Hrs) as (done & Hinv & Htr & Hall & Hres).
  destruct (Hall fn Hr) as (f' & L). destruct (Htr fn f' L) as (d1 & f0 & Pf0 & I1 & _ & T1 & R1).
  assert (f0 = f) by congruence. subst f0. pose proof (Hres fn f' L) as Pr.
  assert (Hin : In fn (scope_files r order b)).
  { unfold scope_files. destruct Hpos as [Hrec|(rest & Ep)].
    - rewrite Hrec. eapply dfs_order_complete; eauto. congruence.
    - destruct (be_recursive b); [eapply dfs_order_complete; eauto; congruence|].
      destruct r as [|[m mf] rest'] eqn:Er; [discriminate|].
      assert (m = fn).
      { unfold resolve_program in Hrs. rewrite Ep in Hrs. inv_bind Hrs. cbn [map fst] in Hrs. congruence. }
      subst m. rewrite <- Er in *. eapply scope_closure_self; eauto. }
  unfold backend_stage in Hbk. pose proof (first_err_none _ _ Hbk fn Hin) as Hc.
  exact (check_scope_kinds p d1 fn f f' Pf R1 r Pr Hc).
Qed.

(* ---------------------------------------------------------------- soundness of acceptance, rule by rule *)

(* the rules acceptance excludes for every program, every position, both backends *)
Definition always_excluded (r : rule) : bool :=
  match r with
  | IncludeCycle | DupGlobal | DupField | DupFieldId | DupFunction | DupEnumName | DupEnumNumber
  | EnumOutOfInt32 | UndefinedType | NonTypeAsType | TypedefCycle | OnewayReturns | OnewayThrows
  | UnknownBaseService | SecondUnionDefault => true
  | _ => false
  end.

Theorem accepts_sound p b : accepts p b = AOk -> forall r, always_excluded r = true -> violates r p = false.
Proof.
  intros Ha r Hr. pose proof (accepted_file_ok p b Ha) as Hok.
  destruct r; try discriminate Hr; cbn [violates].
  - destruct (accepts_front p b Ha) as (r' & order & Hfe & _).
    exact (circle_detect_complete p (proj1 (front_end_ok p r' order Hfe))).
  - apply some_file_false. intros fn f R Pf. exact (fo_global _ _ _ (Hok fn f R Pf)).
  - apply some_file_false. intros fn f R Pf. pose proof (fo_clean _ _ _ (Hok fn f R Pf)) as C. unfold file_clean in C. tauto.
  - apply some_file_false. intros fn f R Pf. pose proof (fo_clean _ _ _ (Hok fn f R Pf)) as C. unfold file_clean in C. tauto.
  - apply some_file_false. intros fn f R Pf. pose proof (fo_clean _ _ _ (Hok fn f R Pf)) as C. unfold file_clean in C. tauto.
  - apply some_file_false. intros fn f R Pf. pose proof (fo_clean _ _ _ (Hok fn f R Pf)) as C. unfold file_clean in C. tauto.
  - apply some_file_false. intros fn f R Pf. pose proof (fo_clean _ _ _ (Hok fn f R Pf)) as C. unfold file_clean in C. tauto.
  - apply some_file_false. intros fn f R Pf. pose proof (fo_clean _ _ _ (Hok fn f R Pf)) as C. unfold file_clean in C. tauto.
  - apply some_file_false. intros fn f R Pf. exact (fo_undefined _ _ _ (Hok fn f R Pf)).
  - apply some_file_false. intros fn f R Pf. exact (fo_nontype _ _ _ (Hok fn f R Pf)).
  - apply some_file_false. intros fn f R Pf. exact (fo_tdcycle _ _ _ (Hok fn f R Pf)).
  - apply some_file_false. intros fn f R Pf. pose proof (fo_clean _ _ _ (Hok fn f R Pf)) as C. unfold file_clean in C. tauto.
  - apply some_file_false. intros fn f R Pf. pose proof (fo_clean _ _ _ (Hok fn f R Pf)) as C. unfold file_clean in C. tauto.
  - apply some_file_false. intros fn f R Pf. exact (fo_base _ _ _ (Hok fn f R Pf)).
  - apply some_file_false. intros fn f R Pf. pose proof (fo_clean _ _ _ (Hok fn f R Pf)) as C. unfold file_clean in C. tauto.
Qed.

(* identifiers: for programs whose definition names are plain identifiers *)
Theorem accepts_sound_consts p b : accepts p b = AOk -> plain_names p = true ->
  violates UndefinedConst p = false /\ violates AmbiguousConst p = false.
Proof.
  intros Ha Hpl. pose proof (accepted_file_ok p b Ha) as Hok. cbn [violates].
  split; apply some_file_false; intros fn f R Pf; destruct (fo_consts _ _ _ (Hok fn f R Pf) Hpl); assumption.
Qed.

(* kinds of values: with -r every reachable file; without, the main file *)
Theorem accepts_sound_kinds p b : accepts p b = AOk -> be_recursive b = true ->
  violates ConstKindMismatch p = false /\ violates StructLiteralBadKey p = false.
Proof.
  intros Ha Hrec. cbn [violates].
  split; apply some_file_false; intros fn f R Pf;
    destruct (accepted_file_kinds p b Ha fn f R Pf (or_introl Hrec)); assumption.
Qed.

Theorem accepts_sound_kinds_main p b : accepts p b = AOk ->
  main_file p (kind_mismatch p) = false /\ main_file p (struct_literal_bad_key p) = false.
Proof.
  intros Ha. unfold main_file. destruct p as [|[m mf] rest] eqn:Ep; [auto|]. rewrite <- Ep in *.
  assert (R : reach p m) by (eapply reach_main; exact Ep).
  assert (Pf : prog_file p m = Some mf) by (rewrite Ep; unfold prog_file; cbn [lookup]; rewrite beqb_refl; reflexivity).
  exact (accepted_file_kinds p b Ha m mf R Pf (or_intror (ex_intro _ rest Ep))).
Qed.

(* the contrapositive reading: a violating program is not accepted *)
Corollary diagnosed p b r : always_excluded r = true -> violates r p = true -> accepts p b <> AOk.
Proof. intros Hr Hv Ha. rewrite (accepts_sound p b Ha r Hr) in Hv. discriminate. Qed.

(* ---------------------------------------------------------------- getEnum terminates *)

(* the hops getEnum makes from (file, name): through the Reference of the typedef's
   type into an include, and to the local name of that type *)
Inductive ge_step (done : program) : file * bytes -> file * bytes -> Prop :=
| ge_ref g name x r h :
    lookup name (n2c_of g) = Some CatTypedef -> find_typedef g name = Some x ->
    ty_ref (td_type x) = Some r -> reference_target done g r = Some h ->
    ge_step done (g, name) (h, ref_name r)
| ge_local g name x :
    lookup name (n2c_of g) = Some CatTypedef -> find_typedef g name = Some x ->
    ge_step done (g, name) (g, ty_name (td_type x)).

(* no infinite chain of hops from the names of [g]: what ResolveTypedefs establishes —
   but only AFTER the constants have been resolved *)
Definition chain_ends (done : program) (g : file) (name : bytes) : Prop :=
  Acc (fun b a => ge_step done a b) (g, name).
Definition typedef_acyclic (done : program) (g : file) : Prop := forall name, chain_ends done g name.

Theorem get_enum_terminates_from done g name : chain_ends done g name ->
  exists n, forall m, n <= m -> get_enum m done g name <> Error ErrOutOfFuel.
Proof.
  unfold chain_ends. intros A.
  remember (g, name) as node eqn:En. revert g name En.
  induction A as [node _ IH]. intros g name ->.
  destruct (lookup name (n2c_of g)) as [c|] eqn:Lk.
  2:{ exists 1. intros m Hm. destruct m as [|k]; [lia|]. cbn [get_enum]. rewrite Lk. discriminate. }
  destruct (category_eqb c CatTypedef) eqn:Ec.
  2:{ exists 1. intros m Hm. destruct m as [|k]; [lia|]. cbn [get_enum]. rewrite Lk.
      destruct c; try discriminate; try discriminate Ec. destruct (find_enum g name); discriminate. }
  assert (c = CatTypedef) by (destruct c; try discriminate Ec; reflexivity). subst c. clear Ec.
  destruct (find_typedef g name) as [x|] eqn:Ft.
  2:{ exists 1. intros m Hm. destruct m as [|k]; [lia|]. cbn [get_enum]. rewrite Lk, Ft. discriminate. }
  destruct (IH (g, ty_name (td_type x)) (ge_local done g name x Lk Ft) g _ eq_refl) as (n2 & H2).
  assert (H1 : exists n1, forall k, n1 <= k ->
            forall r, ty_ref (td_type x) = Some r -> forall h, reference_target done g r = Some h ->
            get_enum k done h (ref_name r) <> Error ErrOutOfFuel).
  { destruct (ty_ref (td_type x)) as [r|] eqn:Tr; [|exists 0; intros k _ r' E; discriminate E].
    destruct (reference_target done g r) as [h|] eqn:Rt.
    - destruct (IH (h, ref_name r) (ge_ref done g name x r h Lk Ft Tr Rt) h _ eq_refl) as (n1 & Hn1).
      exists n1. intros k Hk r' [= <-] h' E'. assert (h' = h) by congruence. subst h'. apply Hn1. exact Hk.
    - exists 0. intros k _ r' [= <-] h' E'. congruence. }
  destruct H1 as (n1 & H1). exists (S (Nat.max n1 n2)). intros m Hm. destruct m as [|k]; [lia|].
  cbn [get_enum]. rewrite Lk, Ft. specialize (H1 k ltac:(lia)). specialize (H2 k ltac:(lia)).
  destruct (ty_ref (td_type x)) as [r|].
  - destruct (reference_target done g r) as [h|] eqn:Rt; [|discriminate].
    specialize (H1 r eq_refl h Rt). destruct (get_enum k done h (ref_name r)) as [e|err]; cbn [bind].
    + destruct e as [[en z]|]; [discriminate | exact H2].
    + intros [= E]. subst err. contradiction.
  - cbn [bind]. exact H2.
Qed.

Theorem get_enum_terminates done g : typedef_acyclic done g ->
  forall name, exists n, forall m, n <= m -> get_enum m done g name <> Error ErrOutOfFuel.
Proof. intros H name. exact (get_enum_terminates_from done g name (H name)). Qed.

(* where the hypothesis fails — typedef B A  typedef A B, names registered, typedef
   types through ResolveType — no amount of fuel is enough: the image of the stack
   overflow of the unrepaired getEnum (the repaired one answers "not an enum") *)
Definition cyc_ty (n : string) : ty := Ty (B n) None None [] [] CatTypedef None (Some true).
Definition cyc_file : file :=
  File (B "b.thrift") [] [] []
       [Typedef (cyc_ty "B") (B "A") [] []; Typedef (cyc_ty "A") (B "B") [] []]
       [Constant (B "c") (ty_named (B "i32")) (CIdent (B "A.x") None) [] []] [] [] [] [] []
       (Some [(B "A", CatTypedef); (B "B", CatTypedef); (B "c", CatConstant)]).

Theorem get_enum_cycle_diverges : forall n,
  get_enum n [] cyc_file (B "A") = Error ErrOutOfFuel /\ get_enum n [] cyc_file (B "B") = Error ErrOutOfFuel.
Proof.
  induction n as [|n (IHa & IHb)]; [split; reflexivity|]. split.
  - change (get_enum (S n) [] cyc_file (B "A")) with
      (r1 <- Ok None ;; match r1 with Some x1 => Ok (Some x1) | None => get_enum n [] cyc_file (B "B") end).
    cbn [bind]. exact IHb.
  - change (get_enum (S n) [] cyc_file (B "B")) with
      (r1 <- Ok None ;; match r1 with Some x1 => Ok (Some x1) | None => get_enum n [] cyc_file (B "A") end).
    cbn [bind]. exact IHa.
Qed.

Corollary cyc_not_acyclic : ~ typedef_acyclic [] cyc_file.
Proof.
  intros H. destruct (get_enum_terminates [] cyc_file H (B "A")) as (n & Hn).
  exact (Hn n (le_n n) (proj1 (get_enum_cycle_diverges n))).
Qed.

(* the hypothesis is satisfiable: typedef E T1  typedef T1 T2  enum E { A } *)
Definition chain_ty (n : string) (c : category) : ty := Ty (B n) None None [] [] c None (Some true).
Definition chain_file : file :=
  File (B "c.thrift") [] [] []
       [Typedef (Ty (B "E") None None [] [] CatEnum None None) (B "T1") [] []; Typedef (chain_ty "T1" CatTypedef) (B "T2") [] []]
       [] [Enum (B "E") [EnumValue (B "A") 0 [] []] [] []] [] [] [] []
       (Some [(B "E", CatEnum); (B "T1", CatTypedef); (B "T2", CatTypedef)]).

Lemma chain_file_acyclic : typedef_acyclic [] chain_file.
Proof.
  assert (HE : chain_ends [] chain_file (B "E")).
  { constructor. intros y H. inversion H; subst; match goal with L : lookup _ _ = Some CatTypedef |- _ => vm_compute in L; discriminate L end. }
  assert (Hstep : forall name y, ge_step [] (chain_file, name) y ->
            (name = B "T1" /\ y = (chain_file, B "E")) \/ (name = B "T2" /\ y = (chain_file, B "T1"))).
  { intros name y H. inversion H; subst.
    - match goal with F : find_typedef _ _ = Some ?x, R : ty_ref (td_type ?x) = Some _ |- _ =>
        unfold find_typedef in F; cbn [find_by chain_file f_typedefs td_alias] in F;
        destruct (beqb (B "T1") name); [injection F as <-; discriminate R|];
        destruct (beqb (B "T2") name); [injection F as <-; discriminate R | discriminate F] end.
    - match goal with F : find_typedef _ _ = Some ?x |- _ =>
        unfold find_typedef in F; cbn [find_by chain_file f_typedefs td_alias] in F;
        destruct (beqb (B "T1") name) eqn:E1; [injection F as <-; apply beqb_true in E1; left; split; [symmetry; exact E1 | reflexivity]|];
        destruct (beqb (B "T2") name) eqn:E2; [injection F as <-; apply beqb_true in E2; right; split; [symmetry; exact E2 | reflexivity] | discriminate F] end. }
  assert (H1 : chain_ends [] chain_file (B "T1")).
  { constructor. intros y H. destruct (Hstep _ _ H) as [(_ & ->)|(E & _)]; [exact HE | discriminate E]. }
  intros name. constructor. intros y H. destruct (Hstep _ _ H) as [(_ & ->)|(_ & ->)]; [exact HE | exact H1].
Qed.

(* ---------------------------------------------------------------- the command line *)

Lemma gen_langs_bad r order rec : forall langs w,
  forallb (fun l => match lang_of l with Some _ => true | None => false end) langs = false ->
  exit0 (gen_langs r order rec langs w) = false.
Proof.
  induction langs as [|l langs IH]; intros w H; cbn [forallb] in H; [discriminate|]. cbn [gen_langs].
  destruct (lang_of l) as [lg|]; [|reflexivity]. cbn [andb] in H.
  destruct (backend_stage r order (Backend lg rec)); [reflexivity | apply IH; exact H].
Qed.

(* an invalid command line never ends in exit status 0 *)
Theorem bad_cmdline_rejected c p : cmdline_valid c = false -> exit0 (run_cmdline c p) = false.
Proof.
  unfold cmdline_valid, run_cmdline. intros H.
  destruct (cl_flags_ok c && (cl_idl_args c =? 1)) eqn:E1; cbn [negb]; [|reflexivity]. cbn [andb] in H.
  destruct (front_end p) as [r order|why]; [|reflexivity].
  destruct (cl_specs_ok c); cbn [negb andb] in *; [|reflexivity].
  destruct (cl_langs c) as [|l langs] eqn:El; [reflexivity|]. cbn [is_nil negb andb] in H.
  apply gen_langs_bad. exact H.
Qed.

(* an invalid program produces nothing, whatever the command line *)
Theorem rejected_program_no_output c p why : front_end p = FrontRej why ->
  run_cmdline c p = Outcome false false.
Proof.
  unfold run_cmdline. intros ->. destruct (negb (cl_flags_ok c && (cl_idl_args c =? 1))); reflexivity.
Qed.

(* with ONE -g, a run that does not exit 0 has written nothing *)
Theorem single_language_no_partial_output c p l :
  cl_langs c = [l] -> exit0 (run_cmdline c p) = false -> wrote (run_cmdline c p) = false.
Proof.
  unfold run_cmdline. intros El.
  destruct (negb (cl_flags_ok c && (cl_idl_args c =? 1))); [reflexivity|].
  destruct (front_end p) as [r order|why]; [|reflexivity].
  destruct (negb (cl_specs_ok c)); [reflexivity|]. rewrite El. cbn [gen_langs].
  destruct (lang_of l) as [lg|]; [|reflexivity].
  destruct (backend_stage r order (Backend lg (cl_recursive c))); [reflexivity | discriminate].
Qed.

(* ---------------------------------------------------------------- witnesses: still accepted *)

Definition i32 : ty := ty_named (B "i32").
Definition wit_inc : file :=
  File (B "inc_bad.thrift") [] [] [] []
       [Constant (B "x") i32 (CLiteral (B "s")) [] []] []
       [StructLike SKStruct (B "T") [Field 1 (B "a") ReqDefault i32 None [] []] [] []] [] [] [] None.
Definition wit_main : file :=
  File (B "main.thrift") [Include (B "inc_bad.thrift") (Some (B "inc_bad.thrift")) None] [] [] [] [] []
       [StructLike SKStruct (B "S") [Field 1 (B "t") ReqDefault i32 None [] []] [] []] [] [] [] None.
(* main.thrift: include "inc_bad.thrift"  struct S { 1: i32 t }
   inc_bad.thrift: const i32 x = "s"  struct T { 1: i32 a } *)
Definition wit_unused_include : program := [(B "main.thrift", wit_main); (B "inc_bad.thrift", wit_inc)].

(* without -r the constant checks only reach the files a Go scope is built for: a
   kind error in an include nothing refers through is not diagnosed *)
Theorem diagnosed_ConstKindMismatch_refuted :
  exists p b, be_recursive b = false /\ violates ConstKindMismatch p = true /\ accepts p b = AOk.
Proof. exists wit_unused_include, (Backend LGo false). vm_compute. auto. Qed.

(* thriftgo -g go -g java: the go files are on disk when the second language fails *)
Definition wit_cmdline : cmdline := Cmdline true 1 true [B "go"; B "java"] false.
Definition wit_valid : program :=
  [(B "ok.thrift", File (B "ok.thrift") [] [] [] [] [] []
      [StructLike SKStruct (B "S") [Field 1 (B "a") ReqDefault i32 None [] []] [] []] [] [] [] None)].

Theorem bad_cmdline_no_output_refuted :
  exists c p, cmdline_valid c = false /\ run_cmdline c p = Outcome false true.
Proof. exists wit_cmdline, wit_valid. vm_compute. auto. Qed.
