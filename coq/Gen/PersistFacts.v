(* Gen/PersistFacts.v — proofs about the transition system of Gen/Persist.v (property C19).
   Everything is for arbitrary job lists, concurrency limits, post-processors and fault oracles,
   and for every execution: induction over reachability with the invariant [Inv]. *)
From Coq Require Import List Arith Bool Lia Permutation.
From Verif Require Import Base.Bytes Gen.Persist.
Import ListNotations.

Definition b2n (b : bool) : nat := if b then 1 else 0.
Arguments count : simpl never.
Arguments getw : simpl never.

(* ---------- lists: set / nth / count ---------- *)
Lemma set_length {A} (l : list A) i x : List.length (set l i x) = List.length l.
Proof. revert i; induction l as [|a l IH]; intros [|i]; cbn; auto. Qed.

Lemma nth_set_eq {A} (l : list A) i x dflt : i < List.length l -> nth i (set l i x) dflt = x.
Proof.
  revert i; induction l as [|a l IH]; intros [|i] H; cbn in *; try lia; auto.
  apply IH; lia.
Qed.

Lemma nth_set_neq {A} (l : list A) i j x dflt : i <> j -> nth j (set l i x) dflt = nth j l dflt.
Proof.
  revert i j; induction l as [|a l IH]; intros [|i] [|j] H; cbn; auto; try congruence.
Qed.

Lemma count_set p l j x :
  j < List.length l -> count p (set l j x) + b2n (p (nth j l Idle)) = count p l + b2n (p x).
Proof.
  unfold count. revert j; induction l as [|a l IH]; intros [|j] H; cbn in *; try lia.
  - destruct (p a), (p x); cbn; lia.
  - specialize (IH j ltac:(lia)). destruct (p a); cbn; lia.
Qed.

Lemma sum_set l j x :
  j < List.length l ->
  list_sum (map wmeasure (set l j x)) + wmeasure (nth j l Idle) = list_sum (map wmeasure l) + wmeasure x.
Proof.
  revert j; induction l as [|a l IH]; intros [|j] H; cbn [set map list_sum fold_right nth List.length] in *; try lia.
  specialize (IH j ltac:(lia)). unfold list_sum in IH. lia.
Qed.

Lemma count_le p l : count p l <= List.length l.
Proof. unfold count. induction l as [|a l IH]; cbn; [lia|]. destruct (p a); cbn; lia. Qed.

Lemma count_zero_all p l : count p l = 0 -> forall j, p (nth j l Idle) = true -> List.length l <= j.
Proof.
  unfold count. induction l as [|a l IH]; intros H j Hp; cbn in *; [lia|].
  destruct (p a) eqn:E; cbn in H; [lia|].
  destruct j as [|j]; [congruence|]. specialize (IH H j Hp). lia.
Qed.

Lemma count_pos_ex p l : 0 < count p l -> exists j, j < List.length l /\ p (nth j l Idle) = true.
Proof.
  unfold count. induction l as [|a l IH]; cbn; [lia|]. intros H.
  destruct (p a) eqn:E.
  - exists 0. split; [lia|exact E].
  - destruct (IH H) as [j [Hj Hp]]. exists (S j). split; [lia|exact Hp].
Qed.

Lemma count_two_disjoint p q l :
  (forall w, p w = true -> q w = true -> False) -> count p l + count q l <= List.length l.
Proof.
  intros D. unfold count. induction l as [|a l IH]; cbn; [lia|].
  destruct (p a) eqn:Ep, (q a) eqn:Eq; cbn; try lia. exfalso; eauto.
Qed.

Lemma count_repeat_idle p m : p Idle = false -> count p (repeat Idle m) = 0.
Proof. intros H. unfold count. induction m; cbn; auto. rewrite H. auto. Qed.

Lemma NoDup_app_l {A} (l r : list A) : NoDup (l ++ r) -> NoDup l.
Proof.
  induction l as [|a l IH]; cbn; intros H; [constructor|].
  inversion H as [|x y Hn Hd]; subst. constructor; [|apply IH; exact Hd].
  intros Hin. apply Hn. apply in_or_app. left. exact Hin.
Qed.

Section Facts.
  Variable jobs : list job.
  Variable k : nat.
  Variable pp : bytes -> bytes -> bytes.
  Variable fail_pp fail_w : nat -> bool.

  Notation n := (n jobs).
  Notation cap := (cap k).
  Notation init := (init jobs).
  Notation fire := (fire jobs k pp fail_pp fail_w).
  Notation step := (step jobs k pp fail_pp fail_w).
  Notation path := (path jobs k pp fail_pp fail_w).
  Notation reachable := (reachable jobs k pp fail_pp fail_w).
  Notation out := (out pp).
  Notation outs_of := (outs_of pp).
  Notation failing := (failing fail_pp fail_w).
  Notation measure := (measure jobs).
  Notation succs := (succs jobs k pp fail_pp fail_w).

  (* ---------- outs_of under an update of one worker ---------- *)
  Lemma outs_of_set_same l js j w :
    written w = written (nth j l Idle) -> j < List.length l -> outs_of (set l j w) js = outs_of l js.
  Proof.
    revert js j; induction l as [|a l IH]; intros [|jb js] [|j] H Hj; cbn [set Persist.outs_of nth List.length] in *; try lia; auto.
    - rewrite H. reflexivity.
    - rewrite IH; auto. lia.
  Qed.

  Lemma outs_of_set_written l js j w p c :
    written (nth j l Idle) = false -> written w = true -> nth_error js j = Some (p, c) ->
    j < List.length l ->
    Permutation (outs_of (set l j w) js) ((p, pp p c) :: outs_of l js).
  Proof.
    revert js j; induction l as [|a l IH]; intros [|jb js] [|j] H Hw Hn Hj; cbn [set Persist.outs_of nth nth_error List.length] in *; try lia; try discriminate.
    - injection Hn as ->. rewrite H, Hw. cbn. apply Permutation_refl.
    - eapply Permutation_trans.
      + apply Permutation_app_head. apply (IH js j H Hw Hn). lia.
      + apply Permutation_sym, Permutation_middle.
  Qed.

  Lemma outs_of_all l js :
    List.length l = List.length js -> (forall j, j < List.length l -> written (nth j l Idle) = true) ->
    outs_of l js = map out js.
  Proof.
    revert js; induction l as [|a l IH]; intros [|jb js] HL H; cbn in *; try lia; auto.
    rewrite (H 0 ltac:(lia)). cbn. f_equal. apply IH; [lia|]. intros j Hj. apply (H (S j)). lia.
  Qed.

  Lemma outs_of_sub l js :
    exists rest, Permutation (outs_of l js ++ rest) (map out js).
  Proof.
    revert js; induction l as [|a l IH]; intros js.
    - exists (map out js). destruct js; apply Permutation_refl.
    - destruct js as [|jb js]; [exists []; apply Permutation_refl|].
      destruct (IH js) as [rest Hr]. cbn [Persist.outs_of map].
      destruct (written a).
      + exists rest. cbn. apply perm_skip. exact Hr.
      + exists (out jb :: rest). cbn. eapply Permutation_trans; [apply Permutation_sym, Permutation_middle|].
        apply perm_skip. exact Hr.
  Qed.

  Lemma outs_of_ext l1 l2 js :
    List.length l1 = List.length l2 ->
    (forall j, written (nth j l1 Idle) = written (nth j l2 Idle)) -> outs_of l1 js = outs_of l2 js.
  Proof.
    revert l2 js; induction l1 as [|a l1 IH]; intros [|b l2] js HL H; cbn in *; try lia; auto.
    destruct js as [|jb js]; auto.
    rewrite (H 0). cbn. f_equal. apply IH; [lia|]. intros j. apply (H (S j)).
  Qed.

  (* ---------- the invariant ---------- *)
  Definition fresh_from (i : nat) (s : st) : Prop :=
    (forall j, j < i -> getw s j <> Idle) /\ (forall j, i <= j -> getw s j = Idle).

  Definition consumed (x : dst) : nat := match x with ErrWait _ | Ret (Some _) => 1 | _ => 0 end.

  (* what a worker knows: its arguments are those of its own job, and how far it got is
     consistent with the fault oracle *)
  Definition wlocal (j : nat) (w : wst) : Prop :=
    match w with
    | Idle => True
    | Spawned p c | Running p c => nth_error jobs j = Some (p, c)
    | PPdone p c => exists c0, nth_error jobs j = Some (p, c0) /\ c = pp p c0 /\ fail_pp j = false
    | Failed | Reported | DoneW false | Released false => failing j = true
    | Written | DoneW true | Released true => failing j = false
    end.

  Record Inv (s : st) : Prop := {
    (* one worker slot per job *)
    I_len : List.length (ws s) = n;
    (* the caller spawns the jobs in order, each at most once *)
    I_front : match d s with
              | Loop i => i <= n /\ fresh_from i s
              | Sel i | Spawn i => i < n /\ fresh_from i s
              | FinalSel | Ret None => forall j, j < n -> getw s j <> Idle
              | _ => True
              end;
    (* token accounting: the semaphore holds one token per worker between acquire and release *)
    I_tok : tokens s = count holds_token (ws s) + match d s with Spawn _ => 1 | _ => 0 end;
    I_cap : tokens s <= cap;
    (* WaitGroup accounting: the counter is the number of workers that have not called Done *)
    I_wg : wg s = count in_flight (ws s);
    (* error accounting: every reported error is in the channel or has been received *)
    I_errs : List.length (errs s) + consumed (d s) = count reported (ws s);
    I_errs_genuine : Forall (fun e => failing e = true) (errs s)
                     /\ match d s with ErrWait e | Ret (Some e) => failing e = true | _ => True end;
    (* worker-local state *)
    I_wlocal : forall j, wlocal j (getw s j);
    (* the disk log is exactly the outputs of the workers that completed their write *)
    I_disk : Permutation (disk s) (outs_of (ws s) jobs);
    (* at the final select and at return no worker is in flight; nil is returned only when the
       error channel was empty *)
    I_ret : match d s with
            | FinalSel => wg s = 0
            | Ret r => wg s = 0 /\ (r = None -> errs s = [])
            | _ => True
            end
  }.

  Lemma getw_lt s j : getw s j <> Idle -> j < List.length (ws s).
  Proof.
    intros H. destruct (Nat.lt_ge_cases j (List.length (ws s))) as [L|L]; auto.
    exfalso. apply H. unfold getw. apply nth_overflow. exact L.
  Qed.

  Lemma inv_init : Inv init.
  Proof.
    constructor; unfold Persist.init; cbn [d ws errs tokens wg disk List.length consumed].
    - apply repeat_length.
    - split; [lia|]. split; [intros j Hj; lia|]. intros j _. unfold getw; cbn.
      destruct (Nat.lt_ge_cases j n) as [L|L]; [apply nth_repeat | apply nth_overflow; rewrite repeat_length; exact L].
    - rewrite count_repeat_idle; auto.
    - lia.
    - rewrite count_repeat_idle; auto.
    - rewrite count_repeat_idle; auto.
    - split; [constructor | exact I].
    - intros j. unfold getw; cbn.
      destruct (Nat.lt_ge_cases j n) as [L|L]; [rewrite nth_repeat | rewrite nth_overflow by (rewrite repeat_length; exact L)]; exact I.
    - generalize jobs. unfold Persist.n. intros js. induction js as [|jb js IH]; cbn; auto.
    - exact I.
  Qed.

  (* update of one worker slot: what the other slots and the caller-side facts see *)
  Lemma getw_with j j' l w dd e t g dk :
    getw (mk dd (set l j w) e t g dk) j' = if Nat.eqb j j' then (if j <? List.length l then w else Idle) else nth j' l Idle.
  Proof.
    unfold getw; cbn [ws]. destruct (Nat.eqb_spec j j') as [->|Hne].
    - destruct (Nat.ltb_spec j' (List.length l)) as [L|L].
      + apply nth_set_eq; exact L.
      + apply nth_overflow. rewrite set_length. exact L.
    - apply nth_set_neq; exact Hne.
  Qed.

  Lemma fresh_from_update i s j w dd e t g dk :
    fresh_from i s -> getw s j <> Idle -> w <> Idle ->
    fresh_from i (mk dd (set (ws s) j w) e t g dk).
  Proof.
    intros [F1 F2] Hj Hw. pose proof (getw_lt _ _ Hj) as L.
    split; intros j' Hj'; rewrite getw_with.
    - destruct (Nat.eqb_spec j j') as [->|Hne].
      + apply Nat.ltb_lt in L. rewrite L. exact Hw.
      + apply F1; exact Hj'.
    - destruct (Nat.eqb_spec j j') as [->|Hne].
      + exfalso. apply Hj. apply F2. exact Hj'.
      + apply F2; exact Hj'.
  Qed.

  Lemma started_update s j w dd e t g dk :
    (forall j', j' < n -> getw s j' <> Idle) -> getw s j <> Idle -> w <> Idle ->
    forall j', j' < n -> getw (mk dd (set (ws s) j w) e t g dk) j' <> Idle.
  Proof.
    intros F Hj Hw j' Hj'. pose proof (getw_lt _ _ Hj) as L. rewrite getw_with.
    destruct (Nat.eqb_spec j j') as [->|Hne].
    - apply Nat.ltb_lt in L. rewrite L. exact Hw.
    - apply F; exact Hj'.
  Qed.

  Lemma front_update s j w e t g dk :
    Inv s -> getw s j <> Idle -> w <> Idle ->
    match d s with
    | Loop i => i <= n /\ fresh_from i (mk (d s) (set (ws s) j w) e t g dk)
    | Sel i | Spawn i => i < n /\ fresh_from i (mk (d s) (set (ws s) j w) e t g dk)
    | FinalSel | Ret None => forall j', j' < n -> getw (mk (d s) (set (ws s) j w) e t g dk) j' <> Idle
    | _ => True
    end.
  Proof.
    intros HI Hj Hw. pose proof (I_front s HI) as F.
    destruct (d s) as [i|i|i|e0| |[e0|]]; auto.
    - destruct F as [F0 F]. split; auto. apply fresh_from_update; auto.
    - destruct F as [F0 F]. split; auto. apply fresh_from_update; auto.
    - destruct F as [F0 F]. split; auto. apply fresh_from_update; auto.
    - apply started_update; auto.
    - apply started_update; auto.
  Qed.

  Lemma wlocal_update s j w e t g dk dd :
    Inv s -> getw s j <> Idle -> wlocal j w ->
    forall j', wlocal j' (getw (mk dd (set (ws s) j w) e t g dk) j').
  Proof.
    intros HI Hj Hw j'. pose proof (getw_lt _ _ Hj) as L. rewrite getw_with.
    destruct (Nat.eqb_spec j j') as [->|Hne].
    - apply Nat.ltb_lt in L. rewrite L. exact Hw.
    - apply (I_wlocal s HI).
  Qed.

  (* ---------- the invariant is preserved by every step ---------- *)
  Ltac counts s j H :=
    let L := fresh "L" in
    assert (L : j < List.length (ws s)) by (apply getw_lt; rewrite H; discriminate);
    pose proof (count_set holds_token (ws s) j) as CT;
    pose proof (count_set in_flight (ws s) j) as CW;
    pose proof (count_set reported (ws s) j) as CR;
    unfold getw in H.

  Lemma inv_step s l s' : Inv s -> step s l s' -> Inv s'.
  Proof.
    intros HI Hs. unfold Persist.step, Persist.fire in Hs.
    pose proof (I_len s HI) as Hlen. pose proof (I_front s HI) as Hfr. pose proof (I_tok s HI) as Htok.
    pose proof (I_cap s HI) as Hcap. pose proof (I_wg s HI) as Hwg. pose proof (I_errs s HI) as Herr.
    pose proof (I_errs_genuine s HI) as [Hgen Hgend]. pose proof (I_wlocal s HI) as Hloc.
    pose proof (I_disk s HI) as Hdisk. pose proof (I_ret s HI) as Hret.
    destruct l as [i|i|i|i| | |j|j|j|j|j|j].
    - (* dispatch *)
      destruct (d s) as [i'|i'|i'|e0| |r] eqn:Ed; try discriminate.
      destruct (Nat.eqb_spec i' i) as [->|]; [|discriminate].
      destruct (Nat.ltb_spec i n) as [Li|]; [|discriminate]. cbn in Hs. injection Hs as <-.
      constructor; cbn; auto; try lia.
      destruct Hfr as [_ F]. split; auto.
    - (* acquire *)
      destruct (d s) as [i'|i'|i'|e0| |r] eqn:Ed; try discriminate.
      destruct (Nat.eqb_spec i' i) as [->|]; [|discriminate].
      destruct (Nat.ltb_spec (tokens s) cap) as [Lt|]; [|discriminate]. cbn in Hs. injection Hs as <-.
      constructor; cbn; auto; try lia.
    - (* recv-err *)
      destruct (d s) as [i'|i'|i'|e0| |r] eqn:Ed; try discriminate.
      destruct (errs s) as [|e r] eqn:Ee; [discriminate|].
      destruct (Nat.eqb_spec i' i) as [->|]; [|discriminate]. injection Hs as <-.
      constructor; cbn; auto; try lia; try (rewrite set_length; exact Hlen).
      + cbn in Herr. lia.
      + inversion Hgen; subst. split; auto.
    - (* spawn *)
      destruct (d s) as [i'|i'|i'|e0| |r] eqn:Ed; try discriminate.
      destruct (Nat.eqb_spec i' i) as [->|]; [|discriminate].
      destruct (nth_error jobs i) as [[p c]|] eqn:En; [|discriminate]. injection Hs as <-.
      destruct Hfr as [Li [F1 F2]].
      assert (Hidle : nth i (ws s) Idle = Idle) by (apply (F2 i); lia).
      assert (L : i < List.length (ws s)) by lia.
      pose proof (count_set holds_token (ws s) i (Spawned p c) L) as CT.
      pose proof (count_set in_flight (ws s) i (Spawned p c) L) as CW.
      pose proof (count_set reported (ws s) i (Spawned p c) L) as CR.
      rewrite Hidle in CT, CW, CR. cbn in CT, CW, CR.
      constructor; cbn; auto; try lia; try (rewrite set_length; exact Hlen).
      + split; [lia|]. split; intros j Hj; rewrite getw_with.
        * destruct (Nat.eqb_spec i j) as [->|Hne].
          -- apply Nat.ltb_lt in L. rewrite L. discriminate.
          -- apply F1. lia.
        * destruct (Nat.eqb_spec i j) as [->|Hne]; [lia|]. apply F2. lia.
      + cbn in Herr. lia.
      + intros j. rewrite getw_with. destruct (Nat.eqb_spec i j) as [->|Hne].
        * apply Nat.ltb_lt in L. rewrite L. cbn. exact En.
        * apply Hloc.
      + rewrite outs_of_set_same; auto. rewrite Hidle. reflexivity.
    - (* final-wait *)
      destruct (d s) as [i'|i'|i'|e0| |r] eqn:Ed; try discriminate.
      destruct (Nat.leb_spec n i') as [Li|]; [|discriminate].
      destruct (Nat.eqb_spec (wg s) 0) as [W0|]; [|discriminate]. cbn in Hs. injection Hs as <-.
      destruct Hfr as [Li' [F1 F2]].
      constructor; cbn; auto; try lia; try (rewrite set_length; exact Hlen).
      intros j Hj. apply F1. lia.
    - (* return *)
      destruct (d s) as [i'|i'|i'|e0| |r] eqn:Ed; try discriminate.
      + destruct (Nat.eqb_spec (wg s) 0) as [W0|]; [|discriminate]. injection Hs as <-.
        constructor; cbn; auto; try lia. split; auto. discriminate.
      + cbn in Herr. destruct (errs s) as [|e r] eqn:Ee; injection Hs as <-.
        * constructor; cbn; rewrite ?Ee; auto; try lia.
        * constructor; cbn; auto; try lia.
          -- cbn in Herr. lia.
          -- inversion Hgen; subst. split; auto.
          -- split; auto. discriminate.
    - (* worker-start *)
      destruct (getw s j) as [|p c|p c|p c| | | |ok|ok] eqn:Ew; try discriminate. injection Hs as <-.
      pose proof (Hloc j) as Hl. rewrite Ew in Hl.
      counts s j Ew. specialize (CT (Running p c) L). specialize (CW (Running p c) L). specialize (CR (Running p c) L).
      rewrite Ew in CT, CW, CR. cbn in CT, CW, CR.
      assert (Hj : getw s j <> Idle) by (unfold getw; rewrite Ew; discriminate).
      constructor; cbn; auto; try lia; try (rewrite set_length; exact Hlen).
      + apply (front_update s j (Running p c) (errs s) (tokens s) (wg s) (disk s)); auto. discriminate.
      + apply wlocal_update; auto.
      + rewrite outs_of_set_same; auto. rewrite Ew. reflexivity.
    - (* pp-done *)
      destruct (getw s j) as [|p c|p c|p c| | | |ok|ok] eqn:Ew; try discriminate. injection Hs as <-.
      pose proof (Hloc j) as Hl. rewrite Ew in Hl.
      assert (Hj : getw s j <> Idle) by (rewrite Ew; discriminate).
      counts s j Ew.
      set (w' := if fail_pp j then Failed else PPdone p (pp p c)).
      specialize (CT w' L). specialize (CW w' L). specialize (CR w' L).
      rewrite Ew in CT, CW, CR.
      assert (Hw' : holds_token w' = true /\ in_flight w' = true /\ reported w' = false /\ written w' = false /\ w' <> Idle)
        by (unfold w'; destruct (fail_pp j); cbn; repeat split; auto; discriminate).
      destruct Hw' as (T1 & T2 & T3 & T4 & T5). rewrite T1 in CT. rewrite T2 in CW. rewrite T3 in CR.
      cbn in CT, CW, CR.
      constructor; cbn; auto; try lia; try (rewrite set_length; exact Hlen).
      + apply (front_update s j w' (errs s) (tokens s) (wg s) (disk s)); auto.
      + apply wlocal_update; auto. unfold w'. destruct (fail_pp j) eqn:Ef; cbn.
        * unfold Persist.failing. rewrite Ef. reflexivity.
        * exists c. auto.
      + rewrite outs_of_set_same; auto. rewrite Ew. exact T4.
    - (* write-done *)
      destruct (getw s j) as [|p c|p c|p c| | | |ok|ok] eqn:Ew; try discriminate.
      pose proof (Hloc j) as Hl. rewrite Ew in Hl. destruct Hl as (c0 & Hn & Hc & Hfp).
      assert (Hj : getw s j <> Idle) by (rewrite Ew; discriminate).
      counts s j Ew.
      destruct (fail_w j) eqn:Efw; injection Hs as <-.
      + specialize (CT Failed L). specialize (CW Failed L). specialize (CR Failed L).
        rewrite Ew in CT, CW, CR. cbn in CT, CW, CR.
        constructor; cbn; auto; try lia; try (rewrite set_length; exact Hlen).
        * apply (front_update s j Failed (errs s) (tokens s) (wg s) (disk s)); auto. discriminate.
        * apply wlocal_update; auto. cbn. unfold Persist.failing. rewrite Efw. apply orb_true_r.
        * rewrite outs_of_set_same; auto. rewrite Ew. reflexivity.
      + specialize (CT Written L). specialize (CW Written L). specialize (CR Written L).
        rewrite Ew in CT, CW, CR. cbn in CT, CW, CR.
        constructor; cbn; auto; try lia; try (rewrite set_length; exact Hlen).
        * apply (front_update s j Written (errs s) (tokens s) (wg s) (disk s ++ [(p, c)])); auto. discriminate.
        * apply wlocal_update; auto. cbn. unfold Persist.failing. rewrite Efw, Hfp. reflexivity.
        * eapply Permutation_trans; [| apply Permutation_sym; apply (outs_of_set_written (ws s) jobs j Written p c0); auto; rewrite Ew; reflexivity].
          subst c. eapply Permutation_trans; [apply Permutation_app_comm|]. cbn. apply perm_skip. exact Hdisk.
    - (* err-send *)
      destruct (getw s j) as [|p c|p c|p c| | | |ok|ok] eqn:Ew; try discriminate.
      destruct (Nat.ltb_spec (List.length (errs s)) n) as [Le|]; [|discriminate]. injection Hs as <-.
      pose proof (Hloc j) as Hl. rewrite Ew in Hl.
      assert (Hj : getw s j <> Idle) by (rewrite Ew; discriminate).
      counts s j Ew.
      specialize (CT Reported L). specialize (CW Reported L). specialize (CR Reported L).
      rewrite Ew in CT, CW, CR. cbn in CT, CW, CR.
      constructor; cbn; auto; try lia; try (rewrite set_length; exact Hlen).
      + apply (front_update s j Reported (errs s ++ [j]) (tokens s) (wg s) (disk s)); auto. discriminate.
      + rewrite app_length. cbn. lia.
      + split; [apply Forall_app; split; auto|exact Hgend].
      + apply wlocal_update; auto.
      + rewrite outs_of_set_same; auto. rewrite Ew. reflexivity.
      + destruct (d s) as [i'|i'|i'|e0| |r]; auto. destruct Hret as [W0 Hr]. split; auto.
        intros ->. specialize (Hr eq_refl).
        (* at Ret the WaitGroup is 0, so no worker is in state Failed *)
        exfalso. pose proof (count_zero_all in_flight (ws s) ltac:(lia) j) as Z. rewrite Ew in Z. specialize (Z eq_refl). lia.
    - (* done *)
      destruct (getw s j) as [|p c|p c|p c| | | |ok|ok] eqn:Ew; try discriminate.
      + destruct (Nat.ltb_spec 0 (wg s)) as [Lw|]; [|discriminate]. injection Hs as <-.
        pose proof (Hloc j) as Hl. rewrite Ew in Hl.
        assert (Hj : getw s j <> Idle) by (rewrite Ew; discriminate).
        counts s j Ew.
        specialize (CT (DoneW true) L). specialize (CW (DoneW true) L). specialize (CR (DoneW true) L).
        rewrite Ew in CT, CW, CR. cbn in CT, CW, CR.
        constructor; cbn; auto; try lia; try (rewrite set_length; exact Hlen).
        * apply (front_update s j (DoneW true) (errs s) (tokens s) (pred (wg s)) (disk s)); auto. discriminate.
        * apply wlocal_update; auto.
        * rewrite outs_of_set_same; auto. rewrite Ew. reflexivity.
        * destruct (d s) as [i'|i'|i'|e0| |r]; auto; lia.
      + destruct (Nat.ltb_spec 0 (wg s)) as [Lw|]; [|discriminate]. injection Hs as <-.
        pose proof (Hloc j) as Hl. rewrite Ew in Hl.
        assert (Hj : getw s j <> Idle) by (rewrite Ew; discriminate).
        counts s j Ew.
        specialize (CT (DoneW false) L). specialize (CW (DoneW false) L). specialize (CR (DoneW false) L).
        rewrite Ew in CT, CW, CR. cbn in CT, CW, CR.
        constructor; cbn; auto; try lia; try (rewrite set_length; exact Hlen).
        * apply (front_update s j (DoneW false) (errs s) (tokens s) (pred (wg s)) (disk s)); auto. discriminate.
        * apply wlocal_update; auto.
        * rewrite outs_of_set_same; auto. rewrite Ew. reflexivity.
        * destruct (d s) as [i'|i'|i'|e0| |r]; auto; lia.
    - (* release *)
      destruct (getw s j) as [|p c|p c|p c| | | |ok|ok] eqn:Ew; try discriminate.
      destruct (Nat.ltb_spec 0 (tokens s)) as [Lt|]; [|discriminate]. injection Hs as <-.
      pose proof (Hloc j) as Hl. rewrite Ew in Hl.
      assert (Hj : getw s j <> Idle) by (rewrite Ew; discriminate).
      counts s j Ew.
      specialize (CT (Released ok) L). specialize (CW (Released ok) L). specialize (CR (Released ok) L).
      rewrite Ew in CT, CW, CR. destruct ok; cbn in CT, CW, CR.
      + constructor; cbn; auto; try lia; try (rewrite set_length; exact Hlen).
        * apply (front_update s j (Released true) (errs s) (pred (tokens s)) (wg s) (disk s)); auto. discriminate.
        * apply wlocal_update; auto.
        * rewrite outs_of_set_same; auto. rewrite Ew. reflexivity.
      + constructor; cbn; auto; try lia; try (rewrite set_length; exact Hlen).
        * apply (front_update s j (Released false) (errs s) (pred (tokens s)) (wg s) (disk s)); auto. discriminate.
        * apply wlocal_update; auto.
        * rewrite outs_of_set_same; auto. rewrite Ew. reflexivity.
  Qed.

  Lemma inv_path s tr s' : Inv s -> path s tr s' -> Inv s'.
  Proof. intros HI P. induction P as [s|s l s1 tr s' Hs P IH]; auto. apply IH. eapply inv_step; eauto. Qed.

  Theorem inv_reachable s : reachable s -> Inv s.
  Proof. intros [tr P]. eapply inv_path; [apply inv_init | exact P]. Qed.

  (* ---------- accounting theorems ---------- *)
  Lemma count_pos_of p l j : j < List.length l -> p (nth j l Idle) = true -> 0 < count p l.
  Proof.
    intros L H. destruct (count p l) eqn:E; [|lia].
    pose proof (count_zero_all p l E j H). lia.
  Qed.

  Theorem token_accounting s : reachable s ->
    tokens s = count holds_token (ws s) + match d s with Spawn _ => 1 | _ => 0 end /\ tokens s <= cap.
  Proof. intros R. pose proof (inv_reachable s R) as HI. split; [apply (I_tok s HI) | apply (I_cap s HI)]. Qed.

  Theorem waitgroup_accounting s : reachable s -> wg s = count in_flight (ws s).
  Proof. intros R. apply (I_wg s (inv_reachable s R)). Qed.

  Lemma errs_room s j : Inv s -> getw s j = Failed -> List.length (errs s) < n.
  Proof.
    intros HI Hj.
    assert (L : j < List.length (ws s)) by (apply getw_lt; rewrite Hj; discriminate).
    pose proof (count_two_disjoint reported (fun w => match w with Failed => true | _ => false end) (ws s)) as D.
    assert (D' : count reported (ws s) + count (fun w => match w with Failed => true | _ => false end) (ws s) <= List.length (ws s)).
    { apply D. intros [] ? ?; discriminate. }
    pose proof (count_pos_of (fun w => match w with Failed => true | _ => false end) (ws s) j L) as P.
    unfold getw in Hj. rewrite Hj in P. specialize (P eq_refl).
    pose proof (I_errs s HI). pose proof (I_len s HI). lia.
  Qed.

  Theorem error_channel_never_full s : reachable s ->
    List.length (errs s) <= n /\ forall j, getw s j = Failed -> List.length (errs s) < n.
  Proof.
    intros R. pose proof (inv_reachable s R) as HI. split.
    - pose proof (I_errs s HI). pose proof (count_le reported (ws s)). pose proof (I_len s HI). lia.
    - intros j. apply errs_room; exact HI.
  Qed.

  (* ---------- what a returned state looks like ---------- *)
  Lemma quiescent s j : Inv s -> wg s = 0 -> in_flight (getw s j) = false.
  Proof.
    intros HI W. destruct (in_flight (getw s j)) eqn:E; auto. exfalso.
    assert (L : j < List.length (ws s)) by (apply getw_lt; intros H; rewrite H in E; discriminate).
    pose proof (count_pos_of in_flight (ws s) j L E). pose proof (I_wg s HI). lia.
  Qed.

  Theorem no_write_in_flight_at_return s : reachable s -> is_ret s = true ->
    forall j, in_flight (getw s j) = false /\ write_pending (getw s j) = false.
  Proof.
    intros R Hr j. pose proof (inv_reachable s R) as HI.
    assert (W : wg s = 0).
    { pose proof (I_ret s HI) as H. unfold is_ret in Hr. destruct (d s); try discriminate. apply H. }
    pose proof (quiescent s j HI W) as Q. split; auto.
    destruct (getw s j); cbn in *; auto.
  Qed.

  Theorem ok_implies_all_written s : reachable s -> d s = Ret None ->
    (forall j, j < n -> finished_ok (getw s j) = true) /\
    Permutation (disk s) (map out jobs) /\
    (forall j, j < n -> failing j = false).
  Proof.
    intros R Hd. pose proof (inv_reachable s R) as HI.
    pose proof (I_front s HI) as F. pose proof (I_ret s HI) as Hr. pose proof (I_errs s HI) as He.
    rewrite Hd in F, Hr, He. destruct Hr as [W E0]. specialize (E0 eq_refl). rewrite E0 in He. cbn in He.
    assert (A : forall j, j < n -> finished_ok (getw s j) = true).
    { intros j Hj. pose proof (quiescent s j HI W) as Q. specialize (F j Hj).
      assert (L : j < List.length (ws s)) by (apply getw_lt; exact F).
      destruct (reported (getw s j)) eqn:Er.
      - pose proof (count_pos_of reported (ws s) j L Er). lia.
      - destruct (getw s j) as [|p c|p c|p c| | | |[]|[]]; cbn in *; congruence. }
    split; [exact A|]. split.
    - eapply Permutation_trans; [apply (I_disk s HI)|].
      rewrite outs_of_all; [apply Permutation_refl | rewrite (I_len s HI); reflexivity |].
      intros j Hj. rewrite (I_len s HI) in Hj. specialize (A j Hj). unfold getw in A.
      destruct (nth j (ws s) Idle) as [|p c|p c|p c| | | |[]|[]]; cbn in *; congruence.
    - intros j Hj. specialize (A j Hj). pose proof (I_wlocal s HI j) as Wl.
      destruct (getw s j) as [|p c|p c|p c| | | |[]|[]]; cbn in *; congruence.
  Qed.

  Theorem failure_implies_error s r : reachable s -> d s = Ret r ->
    (exists j, has_failed (getw s j) = true) -> exists e, r = Some e /\ failing e = true.
  Proof.
    intros R Hd [j Hj]. pose proof (inv_reachable s R) as HI.
    pose proof (I_ret s HI) as Hr. pose proof (I_errs s HI) as He. pose proof (I_errs_genuine s HI) as [_ Hg].
    rewrite Hd in Hr, He, Hg. destruct Hr as [W E0].
    destruct r as [e|]; [exists e; split; auto|]. exfalso.
    specialize (E0 eq_refl). rewrite E0 in He. cbn in He.
    pose proof (quiescent s j HI W) as Q.
    assert (L : j < List.length (ws s)) by (apply getw_lt; intros H; rewrite H in Hj; discriminate).
    assert (Er : reported (getw s j) = true) by (destruct (getw s j) as [|p c|p c|p c| | | |[]|[]]; cbn in *; congruence).
    pose proof (count_pos_of reported (ws s) j L Er). lia.
  Qed.

  Theorem fault_implies_error s r : reachable s -> d s = Ret r ->
    (exists j, j < n /\ failing j = true) -> r <> None.
  Proof.
    intros R Hd [j [Hj Hf]] ->. destruct (ok_implies_all_written s R Hd) as (_ & _ & A).
    rewrite (A j Hj) in Hf. discriminate.
  Qed.

  Theorem returned_error_is_genuine s e : reachable s -> d s = Ret (Some e) -> failing e = true.
  Proof. intros R Hd. pose proof (I_errs_genuine s (inv_reachable s R)) as [_ H]. rewrite Hd in H. exact H. Qed.

  (* ---------- every error in the channel, and the one received, was sent by a worker that
     was started and failed (a second invariant on top of Inv) ---------- *)
  Definition errs_reported (s : st) : Prop :=
    Forall (fun e => reported (getw s e) = true) (errs s) /\
    match d s with ErrWait e | Ret (Some e) => reported (getw s e) = true | _ => True end.

  Lemma reported_update s j w' dd e t g dk x :
    j < List.length (ws s) -> (reported (getw s j) = true -> reported w' = true) ->
    reported (getw s x) = true -> reported (getw (mk dd (set (ws s) j w') e t g dk) x) = true.
  Proof.
    intros L Himp Hx. rewrite getw_with. destruct (Nat.eqb_spec j x) as [->|Hne]; [|exact Hx].
    apply Nat.ltb_lt in L. rewrite L. apply Himp. exact Hx.
  Qed.

  Lemma errs_reported_worker s j w' e' t g dk :
    errs_reported s -> j < List.length (ws s) -> (reported (getw s j) = true -> reported w' = true) ->
    (e' = errs s \/ (e' = errs s ++ [j] /\ reported w' = true)) ->
    errs_reported (mk (d s) (set (ws s) j w') e' t g dk).
  Proof.
    intros [HF HD] L Himp He. split; cbn [errs d].
    - assert (F0 : Forall (fun e => reported (getw (mk (d s) (set (ws s) j w') e' t g dk) e) = true) (errs s)).
      { eapply Forall_impl; [|exact HF]. intros x Hx. apply reported_update; auto. }
      destruct He as [->|[-> Hr]]; [exact F0|]. apply Forall_app. split; [exact F0|].
      constructor; [|constructor]. rewrite getw_with, Nat.eqb_refl. apply Nat.ltb_lt in L. rewrite L. exact Hr.
    - destruct (d s) as [i|i|i|e0| |[e0|]]; auto; apply reported_update; auto.
  Qed.

  Lemma errs_reported_init : errs_reported init.
  Proof. split; cbn; [constructor | exact I]. Qed.

  Lemma errs_reported_step s l s' : Inv s -> errs_reported s -> step s l s' -> errs_reported s'.
  Proof.
    intros HI [HF HD] Hs. pose proof (conj HF HD) as H2. unfold Persist.step, Persist.fire in Hs.
    pose proof (I_len s HI) as Hlen. pose proof (I_front s HI) as Hfr.
    destruct l as [i|i|i|i| | |j|j|j|j|j|j].
    - destruct (d s) as [i'|i'|i'|e0| |r] eqn:Ed; try discriminate.
      destruct ((i' =? i) && (i <? n)); [|discriminate]. injection Hs as <-. split; [exact HF|exact I].
    - destruct (d s) as [i'|i'|i'|e0| |r] eqn:Ed; try discriminate.
      destruct ((i' =? i) && (tokens s <? cap)); [|discriminate]. injection Hs as <-. split; [exact HF|exact I].
    - destruct (d s) as [i'|i'|i'|e0| |r] eqn:Ed; try discriminate.
      destruct (errs s) as [|e r] eqn:Ee; [discriminate|].
      destruct (i' =? i); [|discriminate]. injection Hs as <-.
      inversion HF as [|x y Hx Hy]; subst. split; [exact Hy|exact Hx].
    - destruct (d s) as [i'|i'|i'|e0| |r] eqn:Ed; try discriminate.
      destruct (Nat.eqb_spec i' i) as [->|]; [|discriminate].
      destruct (nth_error jobs i) as [[p c]|] eqn:En; [|discriminate]. injection Hs as <-.
      destruct Hfr as [Li [F1 F2]].
      assert (Hidle : getw s i = Idle) by (apply F2; lia).
      split; cbn [errs d]; [|exact I].
      eapply Forall_impl; [|exact HF]. intros x Hx. apply reported_update; auto; [lia|].
      rewrite Hidle. discriminate.
    - destruct (d s) as [i'|i'|i'|e0| |r] eqn:Ed; try discriminate.
      destruct ((n <=? i') && (wg s =? 0)); [|discriminate]. injection Hs as <-. split; [exact HF|exact I].
    - destruct (d s) as [i'|i'|i'|e0| |r] eqn:Ed; try discriminate.
      + destruct (wg s =? 0); [|discriminate]. injection Hs as <-. split; [exact HF|exact HD].
      + destruct (errs s) as [|e r] eqn:Ee; injection Hs as <-.
        * split; [unfold with_d; cbn [errs]; rewrite Ee; constructor|exact I].
        * inversion HF as [|x y Hx Hy]; subst. split; [exact Hy|exact Hx].
    - destruct (getw s j) as [|p c|p c|p c| | | |ok|ok] eqn:Ew; try discriminate. injection Hs as <-.
      apply errs_reported_worker; auto; try (apply getw_lt; rewrite Ew; discriminate); try (rewrite Ew; discriminate).
    - destruct (getw s j) as [|p c|p c|p c| | | |ok|ok] eqn:Ew; try discriminate. injection Hs as <-.
      apply errs_reported_worker; auto; try (apply getw_lt; rewrite Ew; discriminate); try (rewrite Ew; discriminate).
    - destruct (getw s j) as [|p c|p c|p c| | | |ok|ok] eqn:Ew; try discriminate.
      destruct (fail_w j); injection Hs as <-.
      + apply errs_reported_worker; auto; try (apply getw_lt; rewrite Ew; discriminate); try (rewrite Ew; discriminate).
      + assert (E : errs_reported (mk (d s) (set (ws s) j Written) (errs s) (tokens s) (wg s) (disk s))).
        { apply errs_reported_worker; auto; try (apply getw_lt; rewrite Ew; discriminate); try (rewrite Ew; discriminate). }
        exact E.
    - destruct (getw s j) as [|p c|p c|p c| | | |ok|ok] eqn:Ew; try discriminate.
      destruct (List.length (errs s) <? n); [|discriminate]. injection Hs as <-.
      apply errs_reported_worker; auto; try (apply getw_lt; rewrite Ew; discriminate); try (rewrite Ew; discriminate); try (right; split; reflexivity).
    - destruct (getw s j) as [|p c|p c|p c| | | |ok|ok] eqn:Ew; try discriminate.
      + destruct (0 <? wg s); [|discriminate]. injection Hs as <-.
        apply errs_reported_worker; auto; try (apply getw_lt; rewrite Ew; discriminate); try (rewrite Ew; discriminate).
      + destruct (0 <? wg s); [|discriminate]. injection Hs as <-.
        apply errs_reported_worker; auto; try (apply getw_lt; rewrite Ew; discriminate); try (rewrite Ew; discriminate).
    - destruct (getw s j) as [|p c|p c|p c| | | |ok|ok] eqn:Ew; try discriminate.
      destruct (0 <? tokens s); [|discriminate]. injection Hs as <-.
      apply errs_reported_worker; auto; try (apply getw_lt; rewrite Ew; discriminate); try (rewrite Ew; discriminate).
      rewrite Ew. destruct ok; cbn; auto.
  Qed.

  Lemma errs_reported_path s tr s' : Inv s -> errs_reported s -> path s tr s' -> errs_reported s'.
  Proof.
    intros HI H2 P. induction P as [s|s l s1 tr s' Hs P IH]; auto.
    apply IH; [eapply inv_step; eauto | eapply errs_reported_step; eauto].
  Qed.

  Theorem errs_reported_reachable s : reachable s -> errs_reported s.
  Proof. intros [tr P]. eapply errs_reported_path; [apply inv_init | apply errs_reported_init | exact P]. Qed.

  (* the returned error is the error of a job that was started and did fail in this execution *)
  Theorem returned_error_from_failed_job s e : reachable s -> d s = Ret (Some e) ->
    has_failed (getw s e) = true /\ failing e = true /\ e < n.
  Proof.
    intros R Hd. pose proof (errs_reported_reachable s R) as [_ H]. rewrite Hd in H.
    pose proof (inv_reachable s R) as HI. split; [|split].
    - destruct (getw s e) as [|p c|p c|p c| | | |[]|[]]; cbn in *; congruence.
    - pose proof (I_errs_genuine s HI) as [_ G]. rewrite Hd in G. exact G.
    - rewrite <- (I_len s HI). apply getw_lt. intros E. rewrite E in H. discriminate.
  Qed.

  (* full characterisation of the result: an error is returned iff some started job failed *)
  Theorem error_iff_failure s r : reachable s -> d s = Ret r ->
    (r <> None <-> exists j, has_failed (getw s j) = true).
  Proof.
    intros R Hd. split.
    - destruct r as [e|]; [|congruence]. intros _. exists e.
      apply (returned_error_from_failed_job s e R Hd).
    - intros Hj. destruct (failure_implies_error s r R Hd Hj) as (e & -> & _). discriminate.
  Qed.

  (* ---------- the disk log ---------- *)
  Theorem never_twice_never_mixed s : reachable s ->
    exists rest, Permutation (disk s ++ rest) (map out jobs).
  Proof.
    intros R. pose proof (inv_reachable s R) as HI. destruct (outs_of_sub (ws s) jobs) as [rest Hr].
    exists rest. eapply Permutation_trans; [apply Permutation_app_tail, (I_disk s HI) | exact Hr].
  Qed.

  Theorem no_path_written_twice s : NoDup (map fst jobs) -> reachable s -> NoDup (map fst (disk s)).
  Proof.
    intros ND R. destruct (never_twice_never_mixed s R) as [rest Hr].
    assert (E : map fst (map out jobs) = map fst jobs) by (rewrite map_map; apply map_ext; intros [p c]; reflexivity).
    pose proof (Permutation_map fst Hr) as P. rewrite E, map_app in P.
    apply Permutation_sym in P. pose proof (Permutation_NoDup P ND) as ND'.
    apply NoDup_app_l in ND'. exact ND'.
  Qed.

  Theorem schedule_free_content s1 s2 : reachable s1 -> reachable s2 ->
    (forall j, written (getw s1 j) = written (getw s2 j)) -> Permutation (disk s1) (disk s2).
  Proof.
    intros R1 R2 H. pose proof (inv_reachable s1 R1) as I1. pose proof (inv_reachable s2 R2) as I2.
    eapply Permutation_trans; [apply (I_disk s1 I1)|]. eapply Permutation_trans; [|apply Permutation_sym, (I_disk s2 I2)].
    rewrite (outs_of_ext (ws s1) (ws s2) jobs); [apply Permutation_refl | rewrite (I_len s1 I1), (I_len s2 I2); reflexivity | exact H].
  Qed.

  Theorem schedule_free_content_ok s1 s2 : reachable s1 -> reachable s2 ->
    d s1 = Ret None -> d s2 = Ret None -> Permutation (disk s1) (disk s2).
  Proof.
    intros R1 R2 H1 H2. destruct (ok_implies_all_written s1 R1 H1) as (_ & P1 & _).
    destruct (ok_implies_all_written s2 R2 H2) as (_ & P2 & _).
    eapply Permutation_trans; [exact P1 | apply Permutation_sym; exact P2].
  Qed.

  (* ---------- progress ---------- *)
  Lemma worker_can_step s j : Inv s -> holds_token (getw s j) = true -> exists l s', step s l s'.
  Proof.
    intros HI H. unfold Persist.step.
    assert (L : j < List.length (ws s)) by (apply getw_lt; intros E; rewrite E in H; discriminate).
    destruct (getw s j) as [|p c|p c|p c| | | |ok|ok] eqn:Ew; try discriminate.
    - exists (EStart j). unfold Persist.fire. rewrite Ew. eauto.
    - exists (EPP j). unfold Persist.fire. rewrite Ew. eauto.
    - exists (EWrite j). unfold Persist.fire. rewrite Ew. destruct (fail_w j); eauto.
    - exists (EErrSend j). unfold Persist.fire. rewrite Ew. pose proof (errs_room s j HI Ew) as Le.
      apply Nat.ltb_lt in Le. rewrite Le. eauto.
    - exists (EDone j). unfold Persist.fire. rewrite Ew.
      assert (Lw : 0 < wg s).
      { rewrite (I_wg s HI). apply (count_pos_of in_flight (ws s) j L). unfold getw in Ew. rewrite Ew. reflexivity. }
      apply Nat.ltb_lt in Lw. rewrite Lw. eauto.
    - exists (EDone j). unfold Persist.fire. rewrite Ew.
      assert (Lw : 0 < wg s).
      { rewrite (I_wg s HI). apply (count_pos_of in_flight (ws s) j L). unfold getw in Ew. rewrite Ew. reflexivity. }
      apply Nat.ltb_lt in Lw. rewrite Lw. eauto.
    - exists (ERelease j). unfold Persist.fire. rewrite Ew.
      assert (Lt : 0 < tokens s).
      { rewrite (I_tok s HI). pose proof (count_pos_of holds_token (ws s) j L) as P. unfold getw in Ew. rewrite Ew in P.
        specialize (P eq_refl). lia. }
      apply Nat.ltb_lt in Lt. rewrite Lt. eauto.
  Qed.

  Lemma in_flight_holds w : in_flight w = true -> holds_token w = true.
  Proof. destruct w; cbn; auto. Qed.

  Lemma waiting_can_step s : Inv s -> wg s <> 0 -> exists l s', step s l s'.
  Proof.
    intros HI W. pose proof (I_wg s HI) as Hw.
    destruct (count_pos_ex in_flight (ws s)) as [j [Lj Hj]]; [lia|].
    apply (worker_can_step s j HI). apply in_flight_holds. exact Hj.
  Qed.

  Lemma progress_inv s : Inv s -> is_ret s = false -> exists l s', step s l s'.
  Proof.
    intros HI Hr. pose proof (I_front s HI) as F. unfold is_ret in Hr.
    destruct (d s) as [i|i|i|e| |r] eqn:Ed; try discriminate.
    - (* loop head *)
      destruct F as [Li _]. destruct (Nat.lt_ge_cases i n) as [Lt|Ge].
      + exists (EDispatch i). unfold Persist.step, Persist.fire. rewrite Ed, Nat.eqb_refl.
        apply Nat.ltb_lt in Lt. rewrite Lt. cbn. eauto.
      + destruct (Nat.eq_dec (wg s) 0) as [W|W].
        * exists EFinalWait. unfold Persist.step, Persist.fire. rewrite Ed.
          apply Nat.leb_le in Ge. rewrite Ge. rewrite W. cbn. eauto.
        * apply waiting_can_step; auto.
    - (* select *)
      destruct (Nat.lt_ge_cases (tokens s) cap) as [Lt|Ge].
      + exists (EAcquire i). unfold Persist.step, Persist.fire. rewrite Ed, Nat.eqb_refl.
        apply Nat.ltb_lt in Lt. rewrite Lt. cbn. eauto.
      + pose proof (I_tok s HI) as Ht. rewrite Ed in Ht.
        assert (C : 0 < cap) by (unfold Persist.cap; destruct (k =? 0) eqn:E; [lia | apply Nat.eqb_neq in E; lia]).
        destruct (count_pos_ex holds_token (ws s)) as [j [Lj Hj]]; [lia|].
        apply (worker_can_step s j HI). exact Hj.
    - (* spawn *)
      destruct F as [Li _]. unfold Persist.n in Li.
      destruct (nth_error jobs i) as [[p c]|] eqn:En; [|apply nth_error_None in En; lia].
      exists (ESpawn i). unfold Persist.step, Persist.fire. rewrite Ed, Nat.eqb_refl, En. eauto.
    - (* wait on the error path *)
      destruct (Nat.eq_dec (wg s) 0) as [W|W].
      + exists EReturn. unfold Persist.step, Persist.fire. rewrite Ed, W. cbn. eauto.
      + apply waiting_can_step; auto.
    - (* final select *)
      exists EReturn. unfold Persist.step, Persist.fire. rewrite Ed. destruct (errs s); eauto.
  Qed.

  Theorem progress s : reachable s -> is_ret s = false -> exists l s', step s l s'.
  Proof. intros R. apply progress_inv. apply inv_reachable. exact R. Qed.

  (* ---------- termination ---------- *)
  Lemma terminates_inv s l s' : Inv s -> step s l s' -> measure s' < measure s.
  Proof.
    intros HI Hs. unfold Persist.step, Persist.fire in Hs. pose proof (I_front s HI) as Hfr.
    pose proof (I_len s HI) as Hlen. unfold Persist.measure.
    destruct l as [i|i|i|i| | |j|j|j|j|j|j].
    - destruct (d s) as [i'|i'|i'|e0| |r] eqn:Ed; try discriminate.
      destruct (Nat.eqb_spec i' i) as [->|]; [|discriminate].
      destruct (Nat.ltb_spec i n) as [Li|]; [|discriminate]. cbn in Hs. injection Hs as <-. cbn; unfold list_sum in *; lia.
    - destruct (d s) as [i'|i'|i'|e0| |r] eqn:Ed; try discriminate.
      destruct (Nat.eqb_spec i' i) as [->|]; [|discriminate].
      destruct (tokens s <? cap); [|discriminate]. cbn in Hs. injection Hs as <-. cbn; unfold list_sum in *; lia.
    - destruct (d s) as [i'|i'|i'|e0| |r] eqn:Ed; try discriminate.
      destruct (errs s) as [|e r]; [discriminate|].
      destruct (Nat.eqb_spec i' i) as [->|]; [|discriminate]. injection Hs as <-. cbn; unfold list_sum in *; lia.
    - destruct (d s) as [i'|i'|i'|e0| |r] eqn:Ed; try discriminate.
      destruct (Nat.eqb_spec i' i) as [->|]; [|discriminate].
      destruct (nth_error jobs i) as [[p c]|] eqn:En; [|discriminate]. injection Hs as <-.
      destruct Hfr as [Li [F1 F2]].
      assert (Hidle : nth i (ws s) Idle = Idle) by (apply (F2 i); lia).
      pose proof (sum_set (ws s) i (Spawned p c) ltac:(lia)) as SS. rewrite Hidle in SS. cbn in SS. cbn.
      replace (n - i) with (S (n - S i)) by lia. unfold list_sum in *. lia.
    - destruct (d s) as [i'|i'|i'|e0| |r] eqn:Ed; try discriminate.
      destruct ((n <=? i') && (wg s =? 0)); [|discriminate]. injection Hs as <-. cbn; unfold list_sum in *; lia.
    - destruct (d s) as [i'|i'|i'|e0| |r] eqn:Ed; try discriminate.
      + destruct (wg s =? 0); [|discriminate]. injection Hs as <-. cbn; unfold list_sum in *; lia.
      + destruct (errs s) as [|e r]; injection Hs as <-; cbn; unfold list_sum in *; lia.
    - destruct (getw s j) as [|p c|p c|p c| | | |ok|ok] eqn:Ew; try discriminate. injection Hs as <-.
      assert (L : j < List.length (ws s)) by (apply getw_lt; rewrite Ew; discriminate).
      pose proof (sum_set (ws s) j (Running p c) L) as SS. unfold getw in Ew. rewrite Ew in SS. cbn in SS. cbn; unfold list_sum in *; lia.
    - destruct (getw s j) as [|p c|p c|p c| | | |ok|ok] eqn:Ew; try discriminate. injection Hs as <-.
      assert (L : j < List.length (ws s)) by (apply getw_lt; rewrite Ew; discriminate).
      pose proof (sum_set (ws s) j (if fail_pp j then Failed else PPdone p (pp p c)) L) as SS.
      unfold getw in Ew. rewrite Ew in SS. destruct (fail_pp j); cbn in SS; cbn; unfold list_sum in *; lia.
    - destruct (getw s j) as [|p c|p c|p c| | | |ok|ok] eqn:Ew; try discriminate.
      assert (L : j < List.length (ws s)) by (apply getw_lt; rewrite Ew; discriminate).
      unfold getw in Ew. destruct (fail_w j); injection Hs as <-.
      + pose proof (sum_set (ws s) j Failed L) as SS. rewrite Ew in SS. cbn in SS. cbn; unfold list_sum in *; lia.
      + pose proof (sum_set (ws s) j Written L) as SS. rewrite Ew in SS. cbn in SS. cbn; unfold list_sum in *; lia.
    - destruct (getw s j) as [|p c|p c|p c| | | |ok|ok] eqn:Ew; try discriminate.
      destruct (List.length (errs s) <? n); [|discriminate]. injection Hs as <-.
      assert (L : j < List.length (ws s)) by (apply getw_lt; rewrite Ew; discriminate).
      pose proof (sum_set (ws s) j Reported L) as SS. unfold getw in Ew. rewrite Ew in SS. cbn in SS. cbn; unfold list_sum in *; lia.
    - destruct (getw s j) as [|p c|p c|p c| | | |ok|ok] eqn:Ew; try discriminate.
      + destruct (0 <? wg s); [|discriminate]. injection Hs as <-.
        assert (L : j < List.length (ws s)) by (apply getw_lt; rewrite Ew; discriminate).
        pose proof (sum_set (ws s) j (DoneW true) L) as SS. unfold getw in Ew. rewrite Ew in SS. cbn in SS. cbn; unfold list_sum in *; lia.
      + destruct (0 <? wg s); [|discriminate]. injection Hs as <-.
        assert (L : j < List.length (ws s)) by (apply getw_lt; rewrite Ew; discriminate).
        pose proof (sum_set (ws s) j (DoneW false) L) as SS. unfold getw in Ew. rewrite Ew in SS. cbn in SS. cbn; unfold list_sum in *; lia.
    - destruct (getw s j) as [|p c|p c|p c| | | |ok|ok] eqn:Ew; try discriminate.
      destruct (0 <? tokens s); [|discriminate]. injection Hs as <-.
      assert (L : j < List.length (ws s)) by (apply getw_lt; rewrite Ew; discriminate).
      pose proof (sum_set (ws s) j (Released ok) L) as SS. unfold getw in Ew. rewrite Ew in SS. cbn in SS. cbn; unfold list_sum in *; lia.
  Qed.

  Theorem terminates s l s' : reachable s -> step s l s' -> measure s' < measure s.
  Proof. intros R. apply terminates_inv. apply inv_reachable. exact R. Qed.

  Lemma exec_bounded_inv s tr s' : Inv s -> path s tr s' -> List.length tr + measure s' <= measure s.
  Proof.
    intros HI P. induction P as [s|s l s1 tr s' Hs P IH]; cbn; [lia|].
    pose proof (terminates_inv s l s1 HI Hs). specialize (IH (inv_step s l s1 HI Hs)). lia.
  Qed.

  Theorem execution_length_bounded tr s : path init tr s -> List.length tr <= 10 * n + 3.
  Proof.
    intros P. pose proof (exec_bounded_inv init tr s inv_init P) as B.
    assert (M : measure init = 10 * n + 3).
    { unfold Persist.measure, Persist.init; cbn [d ws Persist.dmeasure].
      assert (E : forall m, list_sum (map wmeasure (repeat Idle m)) = 7 * m) by (induction m as [|m IHm]; [reflexivity|]; cbn [repeat map list_sum fold_right wmeasure]; unfold list_sum in IHm; lia).
      rewrite E. lia. }
    lia.
  Qed.

  Lemma path_app s1 tr1 s2 tr2 s3 : path s1 tr1 s2 -> path s2 tr2 s3 -> path s1 (tr1 ++ tr2) s3.
  Proof. intros P Q. induction P; cbn; auto. econstructor; eauto. Qed.

  Lemma reachable_path s tr s' : reachable s -> path s tr s' -> reachable s'.
  Proof. intros [t P] Q. exists (t ++ tr). eapply path_app; eauto. Qed.

  Theorem maximal_execution_returns s tr s' : reachable s -> path s tr s' ->
    (forall l s'', ~ step s' l s'') -> is_ret s' = true.
  Proof.
    intros R P Hmax. destruct (is_ret s') eqn:E; auto. exfalso.
    destruct (progress s' (reachable_path s tr s' R P) E) as (l & s'' & Hs). exact (Hmax l s'' Hs).
  Qed.

  Theorem always_can_return s : reachable s -> exists tr s', path s tr s' /\ is_ret s' = true.
  Proof.
    intros R. pose proof (inv_reachable s R) as HI. clear R.
    remember (measure s) as m eqn:Em. assert (Hm : measure s <= m) by lia. clear Em.
    revert s HI Hm. induction m as [|m IH]; intros s HI Hm.
    - destruct (is_ret s) eqn:E; [exists [], s; split; [constructor|exact E]|].
      destruct (progress_inv s HI E) as (l & s1 & Hs). pose proof (terminates_inv s l s1 HI Hs). lia.
    - destruct (is_ret s) eqn:E; [exists [], s; split; [constructor|exact E]|].
      destruct (progress_inv s HI E) as (l & s1 & Hs). pose proof (terminates_inv s l s1 HI Hs) as T.
      destruct (IH s1 (inv_step s l s1 HI Hs) ltac:(lia)) as (tr & s' & P & Rr).
      exists (l :: tr), s'. split; auto. econstructor; eauto.
  Qed.

  (* after the call has returned the only steps left are token releases: nothing is written *)
  Theorem after_return_only_release s l s' : reachable s -> is_ret s = true -> step s l s' ->
    (exists j, l = ERelease j) /\ disk s' = disk s /\ d s' = d s.
  Proof.
    intros R Hr Hs. pose proof (no_write_in_flight_at_return s R Hr) as Q.
    pose proof (inv_reachable s R) as HI.
    assert (W : wg s = 0).
    { pose proof (I_ret s HI) as H. unfold is_ret in Hr. destruct (d s); try discriminate. apply H. }
    unfold Persist.step, Persist.fire, is_ret in *.
    destruct l as [i|i|i|i| | |j|j|j|j|j|j]; try (destruct (d s); discriminate);
      specialize (Q j); destruct Q as [Q _]; destruct (getw s j); cbn in Q; try discriminate.
    destruct (0 <? tokens s); [|discriminate]. injection Hs as <-. cbn. eauto.
  Qed.

  (* ---------- the executable presentations agree with the relation ---------- *)
  Lemma run_trace_path s tr s' : run_trace jobs k pp fail_pp fail_w s tr = Some s' <-> path s tr s'.
  Proof.
    split.
    - revert s; induction tr as [|l tr IH]; intros s H; cbn in H.
      + injection H as <-. constructor.
      + destruct (fire s l) as [s1|] eqn:E; [|discriminate]. econstructor; [exact E | apply IH; exact H].
    - intros P. induction P as [s|s l s1 tr s' Hs P IH]; cbn; auto.
      unfold Persist.step in Hs. rewrite Hs. exact IH.
  Qed.

  Theorem accepted_trace_is_execution tr :
    accepts_trace jobs k pp fail_pp fail_w tr = true <-> exists s, path init tr s.
  Proof.
    unfold accepts_trace. split.
    - destruct (run_trace jobs k pp fail_pp fail_w init tr) as [s|] eqn:E; [|discriminate].
      intros _. exists s. apply run_trace_path. exact E.
    - intros [s P]. apply run_trace_path in P. rewrite P. reflexivity.
  Qed.

  Lemma fire_in_labels s l s' : fire s l = Some s' -> In l (labels s).
  Proof.
    intros H. unfold labels. apply in_or_app. unfold Persist.fire in H.
    assert (WL : forall j, getw s j <> Idle -> forall x, In x (wlabels j) ->
                 In x (flat_map wlabels (seq 0 (List.length (ws s))))).
    { intros j Hj x Hx. apply in_flat_map. exists j. split; [|exact Hx].
      apply in_seq. split; [lia|]. apply getw_lt. exact Hj. }
    destruct l as [i|i|i|i| | |j|j|j|j|j|j].
    - left. unfold dlabels. destruct (d s) as [i'|i'|i'|e0| |r]; try discriminate.
      destruct (Nat.eqb_spec i' i) as [E|E]; [subst; cbn; auto|discriminate].
    - left. unfold dlabels. destruct (d s) as [i'|i'|i'|e0| |r]; try discriminate.
      destruct (Nat.eqb_spec i' i) as [E|E]; [subst; cbn; auto|discriminate].
    - left. unfold dlabels. destruct (d s) as [i'|i'|i'|e0| |r]; try discriminate.
      destruct (errs s); [discriminate|].
      destruct (Nat.eqb_spec i' i) as [E|E]; [subst; cbn; auto|discriminate].
    - left. unfold dlabels. destruct (d s) as [i'|i'|i'|e0| |r]; try discriminate.
      destruct (Nat.eqb_spec i' i) as [E|E]; [subst; cbn; auto|discriminate].
    - left. unfold dlabels. destruct (d s) as [i'|i'|i'|e0| |r]; try discriminate. cbn; auto.
    - left. unfold dlabels. destruct (d s) as [i'|i'|i'|e0| |r]; try discriminate; cbn; auto.
    - right. apply (WL j); [intros E; rewrite E in H; discriminate | cbn; auto].
    - right. apply (WL j); [intros E; rewrite E in H; discriminate | cbn; auto].
    - right. apply (WL j); [intros E; rewrite E in H; discriminate | cbn; auto].
    - right. apply (WL j); [intros E; rewrite E in H; discriminate | cbn; auto 6].
    - right. apply (WL j); [intros E; rewrite E in H; discriminate | cbn; auto 7].
    - right. apply (WL j); [intros E; rewrite E in H; discriminate | cbn; auto 8].
  Qed.

  Theorem succs_spec s l s' : In (l, s') (succs s) <-> step s l s'.
  Proof.
    unfold Persist.succs, Persist.step. rewrite in_flat_map. split.
    - intros [l0 [_ H]]. destruct (fire s l0) as [s0|] eqn:E; [|destruct H].
      destruct H as [H|[]]. injection H as -> ->. exact E.
    - intros H. exists l. split; [eapply fire_in_labels; eauto|]. rewrite H. left. reflexivity.
  Qed.
End Facts.
