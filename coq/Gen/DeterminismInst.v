(* Gen/DeterminismInst.v — the hypotheses of the Sorted class are satisfiable: lexicographic
   order on byte strings (what sort.Strings / sort.Slice on Go type names use) is total,
   transitive and antisymmetric, so collecting a map's string keys in ANY iteration order and
   sorting them yields one list. *)
From Coq Require Import List Arith Bool Lia NArith Permutation.
From Coq.Strings Require Import Byte.
From Verif Require Import Base.Bytes Gen.FileManager Gen.Determinism.
Import ListNotations.

Lemma byte_eqb_refl a : Byte.eqb a a = true.
Proof. apply byte_eqb_eq. reflexivity. Qed.

Lemma byte_eqb_false a b : Byte.eqb a b = false -> a <> b.
Proof. intros H E. subst. rewrite byte_eqb_refl in H. discriminate. Qed.

Lemma to_N_inj a b : Byte.to_N a = Byte.to_N b -> a = b.
Proof.
  intro H. pose proof (Byte.of_to_N a) as Ha. pose proof (Byte.of_to_N b) as Hb.
  rewrite H in Ha. congruence.
Qed.

Lemma lex_total x : forall y, lex_leb x y = true \/ lex_leb y x = true.
Proof.
  induction x as [|a x IH]; intros y; [left; reflexivity|].
  destruct y as [|b y]; [right; reflexivity|]. cbn [lex_leb].
  destruct (Byte.eqb a b) eqn:E.
  - apply byte_eqb_eq in E. subst b. rewrite byte_eqb_refl. apply IH.
  - assert (Byte.eqb b a = false) as ->.
    { destruct (Byte.eqb b a) eqn:E2; [|reflexivity]. apply byte_eqb_eq in E2. subst. rewrite byte_eqb_refl in E. discriminate. }
    unfold bleb. destruct (N.leb_spec (Byte.to_N a) (Byte.to_N b)); [left; reflexivity|].
    right. apply N.leb_le. lia.
Qed.

Lemma lex_antisym x : forall y, lex_leb x y = true -> lex_leb y x = true -> x = y.
Proof.
  induction x as [|a x IH]; intros y; destruct y as [|b y]; cbn [lex_leb]; try discriminate; [reflexivity|].
  destruct (Byte.eqb a b) eqn:E.
  - apply byte_eqb_eq in E. subst b. rewrite byte_eqb_refl. intros H1 H2. f_equal. apply IH; assumption.
  - assert (Byte.eqb b a = false) as ->.
    { destruct (Byte.eqb b a) eqn:E2; [|reflexivity]. apply byte_eqb_eq in E2. subst. rewrite byte_eqb_refl in E. discriminate. }
    unfold bleb. intros H1 H2. apply N.leb_le in H1. apply N.leb_le in H2.
    exfalso. apply (byte_eqb_false _ _ E). apply to_N_inj. lia.
Qed.

Lemma lex_trans x : forall y z, lex_leb x y = true -> lex_leb y z = true -> lex_leb x z = true.
Proof.
  induction x as [|a x IH]; intros y z; [reflexivity|].
  destruct y as [|b y]; [discriminate|]. destruct z as [|c z]; [cbn [lex_leb]; intros _ H; discriminate H|].
  cbn [lex_leb].
  destruct (Byte.eqb a b) eqn:Eab.
  - apply byte_eqb_eq in Eab. subst b. destruct (Byte.eqb a c) eqn:Eac; [apply IH | intros _ H; exact H].
  - destruct (Byte.eqb b c) eqn:Ebc.
    + apply byte_eqb_eq in Ebc. subst c. rewrite Eab. intros H _. exact H.
    + unfold bleb. intros H1 H2. apply N.leb_le in H1. apply N.leb_le in H2.
      destruct (Byte.eqb a c) eqn:Eac.
      * apply byte_eqb_eq in Eac. subst c. exfalso. apply (byte_eqb_false _ _ Eab). apply to_N_inj. lia.
      * apply N.leb_le. lia.
Qed.

(* whatever order a map delivered its string keys in, sorting gives the same list *)
Theorem sorted_strings_deterministic (B : Type) (emit : list bytes -> B) (l l' : list bytes) :
  Permutation l l' -> emit (isort bytes lex_leb l) = emit (isort bytes lex_leb l').
Proof.
  apply (sort_then_emit_perm_invariant bytes lex_leb lex_total
           (fun x y z => lex_trans x y z) (fun x y => lex_antisym x y)).
Qed.
