(* Wire/FastFacts.v — proofs about the fastgo model (Wire/Fast.v).

     wire_size_table / wire_type_table / elem_const_table
                            what the regenerated tables of generator/fastgo/consts.go must say; every
                            theorem below goes through them, so a changed entry breaks the proofs
     bl_val_exact           BLength = number of bytes FastAppend writes, for EVERY value
     fa_val_is_std          FastAppend = enc of what the standard Write emits, fields sorted by id at
                            every level
     ...                                                                                         *)
From Coq Require Import List ZArith Bool Lia Permutation Sorted.
From Coq.Strings Require Import Byte.
From Verif Require Import Base.Bytes Base.BE Wire.TType Wire.WVal Wire.Codec Wire.CodecFacts
  Wire.Schema Wire.Value Wire.GenTables Wire.FastTables Wire.Std Wire.StdFacts Wire.Fast.
Import ListNotations.
Open Scope Z_scope.

(* ------------------------------------------------------------------ the tables *)

Lemma wire_size_table c :
  cat_lookup c fast_category2WireSize =
  Some (match c with
        | Cat_Bool | Cat_Byte => 1 | Cat_I16 => 2 | Cat_I32 | Cat_Enum => 4 | Cat_I64 | Cat_Double => 8
        | _ => 0 end).
Proof. destruct c; reflexivity. Qed.

Lemma wire_type_table c :
  cat_lookup c fast_category2WireType =
  Some (code (match c with
              | Cat_Bool => T_BOOL | Cat_Byte => T_BYTE | Cat_I16 => T_I16 | Cat_I32 => T_I32 | Cat_I64 => T_I64
              | Cat_Double => T_DOUBLE | Cat_String | Cat_Binary => T_STRING | Cat_Enum => T_I32
              | Cat_Struct | Cat_Union | Cat_Exception => T_STRUCT
              | Cat_List => T_LIST | Cat_Set => T_SET | Cat_Map => T_MAP end)).
Proof. destruct c; reflexivity. Qed.

Lemma elem_const_table c :
  match cat_lookup c fast_category2GopkgConsts with Some s => gopkg_const s | None => 0 end =
  code (match c with
        | Cat_Bool => T_BOOL | Cat_Byte => T_BYTE | Cat_I16 => T_I16 | Cat_I32 => T_I32 | Cat_I64 => T_I64
        | Cat_Double => T_DOUBLE | Cat_String | Cat_Binary => T_STRING | Cat_Enum => T_I32
        | Cat_Struct | Cat_Union | Cat_Exception => T_STRUCT
        | Cat_List => T_LIST | Cat_Set => T_SET | Cat_Map => T_MAP end).
Proof. destruct c; vm_compute; reflexivity. Qed.

Definition cat_ttype (c : category) : ttype :=
  match c with
  | Cat_Bool => T_BOOL | Cat_Byte => T_BYTE | Cat_I16 => T_I16 | Cat_I32 => T_I32 | Cat_I64 => T_I64
  | Cat_Double => T_DOUBLE | Cat_String | Cat_Binary => T_STRING | Cat_Enum => T_I32
  | Cat_Struct | Cat_Union | Cat_Exception => T_STRUCT
  | Cat_List => T_LIST | Cat_Set => T_SET | Cat_Map => T_MAP end.

Lemma cat_ttype_spec e t : cat_ttype (category_of e t) = spec_ttype t.
Proof.
  destruct t; try reflexivity. cbn [category_of spec_ttype].
  destruct (find_struct e name) as [s|]; [destruct (s_kind s)|]; reflexivity.
Qed.

(* the wire type written into field headers and the constant written into container headers are
   the wire type Thrift prescribes for the IDL type *)
Theorem wire_type_spec e t : wire_type e t = code (spec_ttype t).
Proof. unfold wire_type. rewrite wire_type_table, <- (cat_ttype_spec e t). reflexivity. Qed.

Theorem elem_const_spec e t : elem_const e t = code (spec_ttype t).
Proof. unfold elem_const. rewrite elem_const_table, <- (cat_ttype_spec e t). reflexivity. Qed.

Definition fixed_size (t : ty) : Z :=
  match t with
  | TBool | TByte => 1 | TI16 => 2 | TI32 | TEnum _ => 4 | TI64 | TDouble => 8
  | _ => 0 end.

Theorem wire_size_spec e t : wire_size e t = fixed_size t.
Proof.
  unfold wire_size. rewrite wire_size_table. destruct t; try reflexivity.
  cbn [category_of]. destruct (find_struct e name) as [s|]; [destruct (s_kind s)|]; reflexivity.
Qed.

(* ------------------------------------------------------------------ small list facts *)

Lemma lenZ_app {A} (a b : list A) : lenZ (a ++ b) = lenZ a + lenZ b.
Proof. unfold lenZ. rewrite app_length. lia. Qed.
Lemma lenZ_cons {A} (x : A) l : lenZ (x :: l) = 1 + lenZ l.
Proof. unfold lenZ. cbn [length]. lia. Qed.
Lemma lenZ_nil {A} : lenZ (@nil A) = 0.
Proof. reflexivity. Qed.
Lemma lenZ_put n z : lenZ (put_be n z) = Z.of_nat n.
Proof. unfold lenZ. rewrite put_be_length. reflexivity. Qed.
Lemma lenZ_nonneg {A} (l : list A) : 0 <= lenZ l.
Proof. unfold lenZ. lia. Qed.

Lemma lenZ_flat_map {A} (f : A -> bytes) (g : A -> Z) l :
  Forall (fun x => g x = lenZ (f x)) l -> sumZ (map g l) = lenZ (flat_map f l).
Proof.
  induction 1 as [|x l Hx _ IH]; [reflexivity|].
  cbn [map sumZ flat_map]. rewrite lenZ_app, Hx, IH. reflexivity.
Qed.

Lemma lenZ_flat_map_const {A} (f : A -> bytes) (c : Z) l :
  Forall (fun x => lenZ (f x) = c) l -> lenZ l * c = lenZ (flat_map f l).
Proof.
  induction 1 as [|x l Hx _ IH]; [reflexivity|].
  cbn [flat_map]. rewrite lenZ_app, lenZ_cons, Hx, <- IH. lia.
Qed.

(* sorting by id only looks at the first components *)
Lemma insert_by_id_map {A B} (g : A -> B) x l :
  insert_by_id (fst x, g (snd x)) (map (fun y => (fst y, g (snd y))) l) =
  map (fun y : Z * A => (fst y, g (snd y))) (insert_by_id x l).
Proof.
  induction l as [|y l IH]; [reflexivity|].
  cbn [map insert_by_id fst]. destruct (fst x <=? fst y); [reflexivity|].
  cbn [map]. rewrite IH. reflexivity.
Qed.

Lemma sort_by_id_map {A B} (g : A -> B) (l : list (Z * A)) :
  sort_by_id (map (fun y => (fst y, g (snd y))) l) = map (fun y => (fst y, g (snd y))) (sort_by_id l).
Proof.
  unfold sort_by_id. induction l as [|x l IH]; [reflexivity|].
  cbn [map fold_right]. rewrite IH. apply insert_by_id_map.
Qed.

Lemma insert_by_id_perm {A} (x : Z * A) l : Permutation (x :: l) (insert_by_id x l).
Proof.
  induction l as [|y l IH]; [reflexivity|].
  cbn [insert_by_id]. destruct (fst x <=? fst y); [reflexivity|].
  rewrite perm_swap. constructor. exact IH.
Qed.

Lemma sort_by_id_perm {A} (l : list (Z * A)) : Permutation l (sort_by_id l).
Proof.
  unfold sort_by_id. induction l as [|x l IH]; [reflexivity|].
  cbn [fold_right]. rewrite <- insert_by_id_perm. constructor. exact IH.
Qed.

(* ------------------------------------------------------------------ named versions of the inline lambdas *)

Definition bl_slot (e : env) (s : sschema) (p : Z * value) : Z :=
  match find_field (fst p) (s_fields s) with
  | Some f =>
      if bl_emit f (snd p) then
        if base_ptr f then
          match snd p with VSome x => 3 + bl_val e (f_ty f) x | _ => 0 end
        else 3 + bl_val e (f_ty f) (snd p)
      else 0
  | None => 0 end.

Definition fa_slot (e : env) (s : sschema) (p : Z * value) : bytes :=
  match find_field (fst p) (s_fields s) with
  | Some f =>
      if fa_emit f (snd p) then
        if base_ptr f then
          match snd p with
          | VSome x => put_be 1 (wire_type e (f_ty f)) ++ put_be 2 (f_id f) ++ fa_val e (f_ty f) x
          | _ => [] end
        else put_be 1 (wire_type e (f_ty f)) ++ put_be 2 (f_id f) ++ fa_val e (f_ty f) (snd p)
      else []
  | None => [] end.

Lemma bl_val_struct e n fs :
  bl_val e (TRef n) (VStruct fs) =
  match find_struct e n with
  | Some s => sumZ (map snd (sort_by_id (map (fun p => (fst p, bl_slot e s p)) fs))) + 1
  | None => 1 end.
Proof.
  cbn [bl_val]. rewrite wire_size_spec. reflexivity.
Qed.

Lemma fa_val_struct e n fs :
  fa_val e (TRef n) (VStruct fs) =
  match find_struct e n with
  | Some s => flat_map snd (sort_by_id (map (fun p => (fst p, fa_slot e s p)) fs)) ++ [x00]
  | None => [x00] end.
Proof. reflexivity. Qed.

(* the two generators use the same skip rules *)
Lemma bl_emit_fa_emit f v : bl_emit f v = fa_emit f v.
Proof. reflexivity. Qed.

(* ------------------------------------------------------------------ BLength is exact *)

(* a type with a table size: FastAppend writes exactly that many bytes, whatever the value *)
Lemma fa_val_fixed e t v : 0 < fixed_size t -> lenZ (fa_val e t v) = fixed_size t.
Proof.
  destruct t; cbn [fixed_size]; try lia; intros _; destruct v; cbn [fa_val]; rewrite ?lenZ_put; reflexivity.
Qed.

Lemma bl_val_fixed e t v : 0 < fixed_size t -> bl_val e t v = fixed_size t.
Proof.
  intro H. destruct v; cbn [bl_val]; rewrite wire_size_spec;
    (destruct (0 <? fixed_size t) eqn:E; [reflexivity | apply Z.ltb_ge in E; lia]).
Qed.

Definition bl_ok (e : env) (v : value) : Prop := forall t, bl_val e t v = lenZ (fa_val e t v).

Lemma bl_val_exact_aux e : forall v, bl_ok e v /\ match v with VSome x => bl_ok e x | _ => True end.
Proof.
  intro v. induction v using value_ind2;
    (split; [| try exact I]); try (apply IHv);
    intro t;
    (destruct (Z.ltb_spec 0 (fixed_size t)) as [Hfix|Hnf];
     [rewrite bl_val_fixed, fa_val_fixed by assumption; reflexivity|]).
  all: destruct t; cbn [fixed_size] in Hnf; try lia; clear Hnf.
  all: try (cbn [bl_val fa_val v_bytes]; rewrite ?wire_size_spec; cbn [fixed_size Z.ltb Z.compare];
            rewrite ?lenZ_app, ?lenZ_put, ?lenZ_cons, ?lenZ_nil; try reflexivity; try lia).
  - (* VList / TList *)
    match goal with |- _ = ?a + (?b + ?X) => replace (a + (b + X)) with (5 + X) by lia end. f_equal.
    destruct (Z.ltb_spec 0 (fixed_size t)) as [Hf|Hf].
    + apply lenZ_flat_map_const. apply Forall_forall. intros x _. apply fa_val_fixed. assumption.
    + apply lenZ_flat_map. revert H. apply Forall_impl. intros x [Hx _]. apply Hx.
  - (* VList / TSet *)
    match goal with |- _ = ?a + (?b + ?X) => replace (a + (b + X)) with (5 + X) by lia end. f_equal.
    destruct (Z.ltb_spec 0 (fixed_size t)) as [Hf|Hf].
    + apply lenZ_flat_map_const. apply Forall_forall. intros x _. apply fa_val_fixed. assumption.
    + apply lenZ_flat_map. revert H. apply Forall_impl. intros x [Hx _]. apply Hx.
  - (* VMap / TMap *)
    match goal with |- _ = ?a + (?b + (?c + ?X)) => replace (a + (b + (c + X))) with (6 + X) by lia end. f_equal.
    destruct (Z.ltb_spec 0 (fixed_size t1)) as [Hk|Hk], (Z.ltb_spec 0 (fixed_size t2)) as [Hv|Hv]; cbn [andb].
    + apply lenZ_flat_map_const. apply Forall_forall. intros kv _.
      rewrite lenZ_app, !fa_val_fixed by assumption. reflexivity.
    + rewrite <- (lenZ_flat_map (fun kv => fa_val e t1 (fst kv) ++ fa_val e t2 (snd kv))
                             (fun kv => fixed_size t1 + bl_val e t2 (snd kv))).
      * clear H. induction kvs as [|kv kvs IH]; [reflexivity|].
        cbn [map sumZ]. rewrite lenZ_cons. lia.
      * revert H. apply Forall_impl. intros kv [_ [Hkv _]].
        rewrite lenZ_app, fa_val_fixed, (Hkv t2) by assumption. reflexivity.
    + rewrite <- (lenZ_flat_map (fun kv => fa_val e t1 (fst kv) ++ fa_val e t2 (snd kv))
                             (fun kv => bl_val e t1 (fst kv) + fixed_size t2)).
      * clear H. induction kvs as [|kv kvs IH]; [reflexivity|].
        cbn [map sumZ]. rewrite lenZ_cons. lia.
      * revert H. apply Forall_impl. intros kv [[Hkv _] _].
        rewrite lenZ_app, (fa_val_fixed e t2), (Hkv t1) by assumption. reflexivity.
    + apply lenZ_flat_map. revert H. apply Forall_impl. intros kv [[Hk1 _] [Hv1 _]].
      rewrite lenZ_app, (Hk1 t1), (Hv1 t2). reflexivity.
  - (* VStruct / TRef *)
    fold (bl_slot e). 
    destruct (find_struct e name) as [s|]; [|reflexivity].
    change (sumZ (map snd (sort_by_id (map (fun p => (fst p, bl_slot e s p)) fs))) + 1 =
            lenZ (flat_map snd (sort_by_id (map (fun p => (fst p, fa_slot e s p)) fs)) ++ [x00])).
    rewrite lenZ_app. f_equal.
    assert (E : map (fun p => (fst p, bl_slot e s p)) fs =
                map (fun q => (fst q, lenZ (snd q))) (map (fun p => (fst p, fa_slot e s p)) fs)).
    { rewrite map_map. apply map_ext_Forall. revert H. apply Forall_impl. intros p Hp. cbn [fst snd]. f_equal.
      unfold bl_slot, fa_slot. destruct (find_field (fst p) (s_fields s)) as [f|]; [|reflexivity].
      rewrite bl_emit_fa_emit. destruct (fa_emit f (snd p)); [|reflexivity].
      destruct (base_ptr f).
      - destruct (snd p) eqn:Es; try reflexivity. destruct Hp as [_ Hp].
        rewrite !lenZ_app, !lenZ_put. rewrite (Hp (f_ty f)). lia.
      - destruct Hp as [Hp _]. rewrite !lenZ_app, !lenZ_put, (Hp (f_ty f)). lia. }
    rewrite E, (sort_by_id_map lenZ), map_map. cbn [snd].
    apply lenZ_flat_map. apply Forall_forall. intros q _. reflexivity.
Qed.

Theorem bl_val_exact e v t : bl_val e t v = lenZ (fa_val e t v).
Proof. apply (bl_val_exact_aux e v). Qed.

Corollary blength_exact e s v : blength e s v = lenZ (fast_append e s v).
Proof. apply bl_val_exact. Qed.

(* ------------------------------------------------------------------ FastAppend = enc (sorted standard wire value) *)

Lemma fa_emit_present f v : fa_emit f v = present f v.
Proof.
  destruct f as [id name rq t d td]. unfold fa_emit, present, isset, go_pointer, base_ptr, is_container_type,
    is_optional, has_default, default_var. cbn [f_req f_ty f_default].
  destruct rq; cbn [req_eqb negb orb andb]; try reflexivity.
  destruct d as [l|]; destruct t; cbn; reflexivity.
Qed.

Lemma put_be_wrap32 z : put_be 4 (wrap32 z) = put_be 4 z.
Proof.
  rewrite (put_be_mod 4 (wrap32 z)), (put_be_mod 4 z). f_equal.
  change (256 ^ Z.of_nat 4) with (2 ^ 32). unfold wrap32. apply wrap_mod. lia.
Qed.

(* insertion into a sorted list commutes with filtering *)
Section FilterSort.
  Context {A : Type} (P : Z * A -> bool).
  Definition le_id (a b : Z * A) : Prop := fst a <= fst b.

  Lemma insert_by_id_sorted x l :
    StronglySorted le_id l -> StronglySorted le_id (insert_by_id x l).
  Proof.
    induction 1 as [|y l Hs IH Hy]; cbn [insert_by_id].
    - repeat constructor.
    - destruct (Z.leb_spec (fst x) (fst y)) as [Hle|Hgt].
      + constructor; [constructor; assumption|]. constructor; [exact Hle|].
        rewrite Forall_forall in *. intros z Hz. unfold le_id in *. specialize (Hy z Hz). lia.
      + constructor; [exact IH|]. rewrite Forall_forall in *. intros z Hz.
        apply (Permutation_in _ (Permutation_sym (insert_by_id_perm x l))) in Hz. destruct Hz as [<-|Hz].
        * unfold le_id. lia.
        * apply Hy. exact Hz.
  Qed.

  Lemma sort_by_id_sorted (l : list (Z * A)) : StronglySorted le_id (sort_by_id l).
  Proof.
    unfold sort_by_id. induction l as [|x l IH]; [constructor|]. cbn [fold_right]. apply insert_by_id_sorted. exact IH.
  Qed.

  Lemma insert_front x (l : list (Z * A)) : Forall (le_id x) l -> insert_by_id x l = x :: l.
  Proof.
    destruct l as [|y l]; [reflexivity|]. intro H. inversion H; subst. cbn [insert_by_id].
    destruct (Z.leb_spec (fst x) (fst y)); [reflexivity | unfold le_id in *; lia].
  Qed.

  Lemma filter_insert x l :
    StronglySorted le_id l ->
    filter P (insert_by_id x l) = if P x then insert_by_id x (filter P l) else filter P l.
  Proof.
    induction 1 as [|y l Hs IH Hy]; cbn [insert_by_id filter].
    - destruct (P x); reflexivity.
    - destruct (Z.leb_spec (fst x) (fst y)) as [Hle|Hgt].
      + cbn [filter]. destruct (P x); [|reflexivity].
        symmetry. apply insert_front.
        assert (Hall : Forall (le_id x) (y :: l)).
        { constructor; [exact Hle|]. rewrite Forall_forall in *. intros z Hz. specialize (Hy z Hz). unfold le_id in *. lia. }
        rewrite Forall_forall in *. intros z Hz. apply Hall.
        change (In z (filter P (y :: l))) in Hz. apply filter_In in Hz. tauto.
      + cbn [filter]. rewrite IH. destruct (P y), (P x); try reflexivity.
        cbn [insert_by_id]. destruct (Z.leb_spec (fst x) (fst y)); [lia | reflexivity].
  Qed.

  Lemma filter_sort_by_id (l : list (Z * A)) : filter P (sort_by_id l) = sort_by_id (filter P l).
  Proof.
    induction l as [|x l IH]; [reflexivity|].
    change (sort_by_id (x :: l)) with (insert_by_id x (sort_by_id l)).
    rewrite filter_insert by apply sort_by_id_sorted. rewrite IH. cbn [filter].
    destruct (P x); reflexivity.
  Qed.
End FilterSort.

Definition nonempty (q : Z * bytes) : bool := match snd q with [] => false | _ => true end.

Lemma flat_map_filter_nonempty (l : list (Z * bytes)) : flat_map snd (filter nonempty l) = flat_map snd l.
Proof.
  induction l as [|[k b] l IH]; [reflexivity|]. cbn [filter flat_map]. unfold nonempty at 1. cbn [snd].
  destruct b; cbn [flat_map snd]; rewrite IH; reflexivity.
Qed.

Definition sortw_field (f : wfield) : wfield := (fst f, sortw (snd f)).

Lemma sortw_struct wfs : sortw (WStruct wfs) = WStruct (sort_wfields (map sortw_field wfs)).
Proof. reflexivity. Qed.

Lemma enc_struct_flat wfs : enc (WStruct wfs) = flat_map enc_field wfs ++ [x00].
Proof. rewrite <- (app_nil_r wfs) at 1. rewrite enc_struct_app. reflexivity. Qed.

Lemma enc_sorted_struct wfs :
  enc (WStruct (sort_wfields wfs)) = flat_map snd (sort_by_id (map (fun f => (wkey f, enc_field f)) wfs)) ++ [x00].
Proof.
  rewrite enc_struct_flat. f_equal. unfold sort_wfields.
  replace (map (fun f => (wkey f, enc_field f)) wfs)
    with (map (fun y : Z * wfield => (fst y, enc_field (snd y))) (map (fun f => (wkey f, f)) wfs))
    by (rewrite map_map; reflexivity).
  rewrite (sort_by_id_map enc_field).
  induction (sort_by_id (map (fun f => (wkey f, f)) wfs)) as [|y l IH]; [reflexivity|].
  cbn [map flat_map snd]. rewrite IH. reflexivity.
Qed.

Lemma enc_list_go_flat l : enc_list_go l = flat_map enc l.
Proof. induction l as [|x l IH]; [reflexivity|]. cbn [flat_map]. rewrite <- IH. reflexivity. Qed.
Lemma enc_map_go_flat l : enc_map_go l = flat_map (fun kv => enc (fst kv) ++ enc (snd kv)) l.
Proof. induction l as [|[k x] l IH]; [reflexivity|]. cbn [flat_map fst snd]. rewrite <- IH, <- app_assoc. reflexivity. Qed.

Lemma flat_map_map {A B C} (f : B -> list C) (g : A -> B) l : flat_map f (map g l) = flat_map (fun x => f (g x)) l.
Proof. induction l as [|x l IH]; [reflexivity|]. cbn [map flat_map]. rewrite IH. reflexivity. Qed.

Definition fa_ok (e : env) (v : value) : Prop := forall t w, to_w e t v = Ok w -> fa_val e t v = enc (sortw w).

Lemma flat_map_Forall2 {A B} (f : A -> bytes) (g : B -> bytes) l ws :
  Forall2 (fun x w => f x = g w) l ws -> flat_map f l = flat_map g ws.
Proof. induction 1 as [|x w l ws H _ IH]; [reflexivity|]. cbn [flat_map]. rewrite H, IH. reflexivity. Qed.

Lemma Forall2_impl_Forall {A B} (R S : A -> B -> Prop) (P : A -> Prop) l ws :
  Forall2 R l ws -> Forall P l -> (forall x w, P x -> R x w -> S x w) -> Forall2 S l ws.
Proof.
  intros H2 HP H. induction H2 as [|x w l ws Hxw _ IH]; [constructor|].
  inversion HP; subst. constructor; auto.
Qed.

Lemma fa_val_is_std_aux e : forall v, fa_ok e v /\ match v with VSome x => fa_ok e x | _ => True end.
Proof.
  intro v. induction v using value_ind2; (split; [| try exact I]); try (apply IHv); intros t w Hw.
  - destruct t; try discriminate. injection Hw as <-. reflexivity.
  - destruct t; try discriminate; injection Hw as <-; cbn [fa_val v_int sortw enc]; try reflexivity.
    symmetry. apply put_be_wrap32.
  - destruct t; try discriminate. injection Hw as <-. reflexivity.
  - destruct t; try discriminate. injection Hw as <-. reflexivity.
  - destruct t; try discriminate. injection Hw as <-. reflexivity.
  - (* VList *)
    destruct t; try discriminate; cbn [to_w] in Hw.
    + destruct (mapM (to_w e t) l) as [ws|] eqn:Hm; [|discriminate]. injection Hw as <-.
      apply mapM_Forall2 in Hm.
      cbn [fa_val sortw]. rewrite enc_list_unfold, enc_list_go_flat, map_length, elem_const_spec, ttype_of_spec.
      unfold lenZ. rewrite (Forall2_length _ _ _ Hm). do 2 f_equal. rewrite flat_map_map.
      apply flat_map_Forall2. apply (Forall2_impl_Forall _ _ _ _ _ Hm H). intros x wx [Hx _] Hxw. apply Hx. exact Hxw.
    + destruct (set_has_dup l); [discriminate|].
      destruct (mapM (to_w e t) l) as [ws|] eqn:Hm; [|discriminate]. injection Hw as <-.
      apply mapM_Forall2 in Hm.
      cbn [fa_val sortw]. rewrite enc_set_unfold, enc_list_go_flat, map_length, elem_const_spec, ttype_of_spec.
      unfold lenZ. rewrite (Forall2_length _ _ _ Hm). do 2 f_equal. rewrite flat_map_map.
      apply flat_map_Forall2. apply (Forall2_impl_Forall _ _ _ _ _ Hm H). intros x wx [Hx _] Hxw. apply Hx. exact Hxw.
  - (* VMap *)
    destruct t; try discriminate; cbn [to_w] in Hw.
    match type of Hw with bind (mapM ?F kvs) _ = _ => set (f := F) in * end.
    destruct (mapM f kvs) as [ws|] eqn:Hm; [|discriminate]. injection Hw as <-.
    apply mapM_Forall2 in Hm.
    cbn [fa_val sortw]. rewrite enc_map_unfold, enc_map_go_flat, map_length, !elem_const_spec, !ttype_of_spec.
    unfold lenZ. rewrite (Forall2_length _ _ _ Hm). do 3 f_equal. rewrite flat_map_map.
    apply flat_map_Forall2. apply (Forall2_impl_Forall _ _ _ _ _ Hm H). intros kv wkv [[Hk _] [Hx _]] Hxw. unfold f in Hxw.
    destruct (to_w e t1 (fst kv)) as [wk|] eqn:E1; [|discriminate].
    destruct (to_w e t2 (snd kv)) as [wx|] eqn:E2; [|discriminate]. injection Hxw as <-.
    cbn [fst snd]. rewrite (Hk _ _ E1), (Hx _ _ E2). reflexivity.
  - (* VStruct *)
    destruct t; try discriminate. rewrite to_w_struct in Hw. rewrite fa_val_struct.
    destruct (find_struct e name) as [s|] eqn:Hs; [|discriminate]. cbn zeta in Hw.
    destruct (is_union s && negb (count_set (s_fields s) fs =? 1)%nat); [discriminate|].
    destruct (mapM (wfield_fn e s) fs) as [ofs|] eqn:Hm; [|discriminate]. injection Hw as <-.
    rewrite sortw_struct, enc_sorted_struct. f_equal.
    rewrite <- flat_map_filter_nonempty, filter_sort_by_id. f_equal. f_equal.
    apply mapM_Forall2 in Hm. clear Hs.
    induction Hm as [|p o fs' ofs' Hpo _ IH]; [reflexivity|].
    inversion H as [|? ? Hp Hrest]; subst. specialize (IH Hrest).
    cbn [map filter].
    assert (Hslot : fa_slot e s p = match o with Some wf => enc_field (sortw_field wf) | None => [] end /\
                    (forall wf, o = Some wf -> wkey wf = fst p)).
    { unfold wfield_fn in Hpo. unfold fa_slot.
      destruct (find_field (fst p) (s_fields s)) as [f|] eqn:Hf; [|discriminate].
      destruct (find_field_In _ _ _ Hf) as [_ Hid].
      rewrite fa_emit_present. destruct (present f (snd p)).
      - destruct (base_ptr f).
        + destruct (snd p) as [| | | | | | | | |x] eqn:Es; try discriminate.
          destruct (to_w e (f_ty f) x) as [wx|] eqn:E1; [|discriminate]. injection Hpo as <-.
          destruct Hp as [_ Hp]. rewrite (Hp _ _ E1), wire_type_spec, <- (ttype_of_spec e (f_ty f)).
          split; [reflexivity|]. intros wf [= <-]. exact Hid.
        + destruct (to_w e (f_ty f) (snd p)) as [wx|] eqn:E1; [|discriminate]. injection Hpo as <-.
          destruct Hp as [Hp _]. rewrite (Hp _ _ E1), wire_type_spec, <- (ttype_of_spec e (f_ty f)).
          split; [reflexivity|]. intros wf [= <-]. exact Hid.
      - injection Hpo as <-. split; [reflexivity | discriminate]. }
    destruct Hslot as [Hslot Hkey]. unfold nonempty at 1. cbn [snd]. rewrite Hslot.
    destruct o as [wf|]; cbn [cat_somes map].
    + destruct (enc_field (sortw_field wf)) eqn:Eb.
      { exfalso. destruct wf as [[tt id] x]. apply (f_equal (@length byte)) in Eb.
        unfold sortw_field, enc_field in Eb. cbn [fst snd] in Eb. rewrite !app_length, !put_be_length in Eb. cbn in Eb. lia. }
      rewrite <- Eb. f_equal; [|exact IH].
      f_equal. symmetry. destruct wf as [[tt id] x]. exact (Hkey _ eq_refl).
    + exact IH.
  - (* VNil *)
    destruct t; try discriminate; cbn [to_w] in Hw.
    + injection Hw as <-. reflexivity.
    + destruct (find_struct e name) as [s|] eqn:Hs; [|discriminate]. destruct (is_union s); [discriminate|].
      injection Hw as <-. reflexivity.
    + injection Hw as <-. cbn [fa_val sortw map enc]. rewrite elem_const_spec, ttype_of_spec. reflexivity.
    + injection Hw as <-. cbn [fa_val sortw map enc]. rewrite elem_const_spec, ttype_of_spec. reflexivity.
    + injection Hw as <-. cbn [fa_val sortw map enc]. rewrite !elem_const_spec, !ttype_of_spec. reflexivity.
  - discriminate.
Qed.

Theorem fa_val_is_std e v t w : to_w e t v = Ok w -> fa_val e t v = enc (sortw w).
Proof. apply (fa_val_is_std_aux e v). Qed.

Corollary fast_append_is_std e s v w : to_wire e s v = Ok w -> fast_append e s v = enc (sortw w).
Proof. apply fa_val_is_std. Qed.
