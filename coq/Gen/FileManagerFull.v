(* Gen/FileManagerFull.v — text level specification of BuildResponse for EVERY history, without
   any condition on insertion point names: at each position the longest key of the file's table
   (the markers the scanner found in the submitted text and the markers of the patches recorded
   for the file) that matches there is replaced by the patches of that key in submission order;
   a byte where no key matches is copied; inserted text is not scanned again. *)
From Coq Require Import List Arith Bool Lia NArith Permutation.
From Coq.Strings Require Import Byte.
From Verif Require Import Base.Bytes Gen.FileManager Gen.FileManagerFacts Gen.Determinism Gen.DeterminismInst
                          Corr.C12 Gen.FileManagerText Gen.FileManagerOrder Gen.FileManagerExpand.
Import ListNotations.

Fixpoint longest_key (ks : list bytes) (s : bytes) : option bytes :=
  match ks with
  | [] => None
  | k :: r =>
    let best := longest_key r s in
    if is_prefix k s
    then match best with
         | Some b => if List.length b <? List.length k then Some k else Some b
         | None => Some k
         end
    else best
  end.

Fixpoint expand_keys (ks : list bytes) (ps : list gen) (skip : nat) (s : bytes) : bytes :=
  match s with
  | [] => []
  | c :: r =>
    match skip with
    | S k => expand_keys ks ps k r
    | O => match longest_key ks s with
           | Some k => patch_text k ps ++ expand_keys ks ps (List.length k - 1) r
           | None => c :: expand_keys ks ps 0 r
           end
    end
  end.

(* the keys of one file's table *)
Definition table_keys (content : bytes) (ps : list gen) : list bytes :=
  find_markers content ++ map (fun p => marker (g_ip p)) ps.

Lemma longest_key_some ks s k : longest_key ks s = Some k ->
  In k ks /\ is_prefix k s = true /\
  forall k', In k' ks -> is_prefix k' s = true -> List.length k' <= List.length k.
Proof.
  revert k. induction ks as [|k0 ks IH]; intros k; cbn [longest_key]; [discriminate|].
  destruct (is_prefix k0 s) eqn:E.
  - destruct (longest_key ks s) as [b|] eqn:Eb.
    + destruct (IH b eq_refl) as [Hin [Hp Hmax]].
      destruct (Nat.ltb_spec (List.length b) (List.length k0)) as [Hlt|Hge]; intros [= <-].
      * split; [left; reflexivity|]. split; [exact E|].
        intros k' [<-|Hk'] Hp'; [lia|]. specialize (Hmax k' Hk' Hp'). lia.
      * split; [right; exact Hin|]. split; [exact Hp|].
        intros k' [<-|Hk'] Hp'; [lia | apply Hmax; assumption].
    + intros [= <-]. split; [left; reflexivity|]. split; [exact E|].
      intros k' [<-|Hk'] Hp'; [lia|]. exfalso.
      clear IH. revert Hk' Hp' Eb. clear. induction ks as [|x ks IH]; cbn [longest_key]; [intros []|].
      intros [<-|Hin] Hp.
      * rewrite Hp. destruct (longest_key ks s); [destruct (_ <? _)|]; discriminate.
      * destruct (is_prefix x s); [destruct (longest_key ks s); [destruct (_ <? _)|]; discriminate|].
        apply IH; assumption.
  - intro H. destruct (IH k H) as [Hin [Hp Hmax]]. split; [right; exact Hin|]. split; [exact Hp|].
    intros k' [<-|Hk'] Hp'; [congruence | apply Hmax; assumption].
Qed.

Lemma longest_key_none ks s : longest_key ks s = None -> forall k, In k ks -> is_prefix k s = false.
Proof.
  induction ks as [|k0 ks IH]; cbn [longest_key]; [intros _ k []|].
  destruct (is_prefix k0 s) eqn:E.
  - destruct (longest_key ks s); [destruct (_ <? _)|]; discriminate.
  - intros H k [<-|Hin]; [exact E | apply IH; assumption].
Qed.

Lemma longest_key_exists ks s k : In k ks -> is_prefix k s = true -> exists b, longest_key ks s = Some b.
Proof.
  intros Hin Hp. destruct (longest_key ks s) as [b|] eqn:E; [eauto|].
  rewrite (longest_key_none _ _ E k Hin) in Hp. discriminate.
Qed.

(* two prefixes of one text with the same length are equal *)
Lemma prefixes_same_length a b s :
  is_prefix a s = true -> is_prefix b s = true -> List.length a = List.length b -> a = b.
Proof.
  intros Ha Hb Hl. apply is_prefix_spec in Ha. apply is_prefix_spec in Hb.
  destruct Ha as [ra ->], Hb as [rb E].
  destruct (app_prefix_split _ _ _ _ E) as [t [[E1 _]|[E1 _]]].
  - rewrite E1, app_length in Hl. assert (t = []) as -> by (destruct t; [reflexivity | cbn in Hl; lia]).
    rewrite app_nil_r in E1. exact E1.
  - rewrite E1, app_length in Hl. assert (t = []) as -> by (destruct t; [reflexivity | cbn in Hl; lia]).
    rewrite app_nil_r in E1. symmetry. exact E1.
Qed.

(* the choice depends on the SET of keys only *)
Lemma longest_key_ext ks ks' s : (forall k, In k ks <-> In k ks') -> longest_key ks s = longest_key ks' s.
Proof.
  intro H. destruct (longest_key ks s) as [a|] eqn:Ea, (longest_key ks' s) as [b|] eqn:Eb; try reflexivity.
  - destruct (longest_key_some _ _ _ Ea) as [Ia [Pa Ma]]. destruct (longest_key_some _ _ _ Eb) as [Ib [Pb Mb]].
    f_equal. apply (prefixes_same_length a b s Pa Pb).
    apply Nat.le_antisymm; [apply Mb; [apply H; exact Ia | exact Pa] | apply Ma; [apply H; exact Ib | exact Pb]].
  - destruct (longest_key_some _ _ _ Ea) as [Ia [Pa _]].
    rewrite (longest_key_none _ _ Eb a (proj1 (H a) Ia)) in Pa. discriminate.
  - destruct (longest_key_some _ _ _ Eb) as [Ib [Pb _]].
    rewrite (longest_key_none _ _ Ea b (proj2 (H b) Ib)) in Pb. discriminate.
Qed.

(* what the replacer picks from the listed table is the longest matching key with its entry *)
Lemma first_match_listed P s :
  first_match (listed_pairs P) s =
  match longest_key (map fst P) s with
  | Some k => match lookup k P with Some v => Some (k, v) | None => None end
  | None => None
  end.
Proof.
  destruct (first_match (listed_pairs P) s) as [[k v]|] eqn:E.
  - pose proof (first_match_In _ _ _ _ E) as [Hin Hp].
    pose proof (listed_longest_first _ _ _ _ E) as Hmax.
    pose proof (first_match_is_lookup _ _ _ _ E) as Hl. rewrite lookup_listed in Hl.
    assert (Hk : In k (map fst P)) by (apply in_map_iff; exists (k, v); split; [reflexivity | apply lookup_In, Hl]).
    destruct (longest_key_exists _ _ _ Hk Hp) as [b Eb]. rewrite Eb.
    destruct (longest_key_some _ _ _ Eb) as [Ib [Pb Mb]].
    assert (b = k) as ->.
    { apply (prefixes_same_length b k s Pb Hp). apply Nat.le_antisymm; [apply Hmax; assumption | apply Mb; assumption]. }
    rewrite Hl. reflexivity.
  - destruct (longest_key (map fst P) s) as [b|] eqn:Eb; [|reflexivity].
    destruct (longest_key_some _ _ _ Eb) as [Ib [Pb _]].
    destruct (lookup b P) as [v|] eqn:El; [|reflexivity]. exfalso.
    assert (Hin : In (b, v) (listed_pairs P)).
    { apply lookup_In. rewrite lookup_listed. exact El. }
    rewrite (first_match_None _ _ E b v Hin) in Pb. discriminate.
Qed.

Lemma replace_listed_is_expand_keys P ks ps :
  (forall k, In k (map fst P) <-> In k ks) ->
  (forall k, In k (map fst P) -> lookup k P = Some (patch_text k ps)) ->
  forall s skip, replace_go (listed_pairs P) skip s = expand_keys ks ps skip s.
Proof.
  intros Hks Hval. induction s as [|c s IH]; intros skip; cbn [replace_go expand_keys]; [reflexivity|].
  destruct skip as [|n]; [|apply IH].
  rewrite first_match_listed, (longest_key_ext _ _ (c :: s) Hks).
  destruct (longest_key ks (c :: s)) as [k|] eqn:E.
  - destruct (longest_key_some _ _ _ E) as [Ik _]. apply Hks in Ik. rewrite (Hval k Ik). rewrite IH. reflexivity.
  - rewrite IH. reflexivity.
Qed.

(* keys and values of one file's table *)
Lemma init_pairs_keys content k : lookup k (init_pairs content) <> None <-> In k (find_markers content).
Proof.
  split; [|apply found_marker_is_key].
  unfold init_pairs. generalize (find_markers content) as ks.
  assert (G : forall ks (acc : list (bytes * bytes)),
              lookup k (fold_left (fun a x => update x [] a) ks acc) <> None -> In k ks \/ lookup k acc <> None).
  { induction ks as [|x ks IH]; intros acc; cbn [fold_left]; [intro H; right; exact H|].
    intro H. destruct (IH _ H) as [Hin|Hl]; [left; right; exact Hin|].
    destruct (list_eq_dec Byte.byte_eq_dec x k) as [->|Hne]; [left; left; reflexivity|].
    rewrite lookup_update_other in Hl by assumption. right. exact Hl. }
  intros ks H. destruct (G ks [] H) as [Hin|Hl]; [exact Hin | cbn in Hl; congruence].
Qed.

Lemma table_lookup content ps k :
  let P := fold_left (fun acc p => add_pair acc (marker (g_ip p)) (g_content p)) ps (init_pairs content) in
  (In k (map fst P) <-> In k (table_keys content ps)) /\
  (In k (map fst P) -> lookup k P = Some (patch_text k ps)).
Proof.
  cbn zeta. set (P := fold_left _ ps (init_pairs content)).
  assert (HP : lookup k P = match lookup k (init_pairs content) with
                            | Some old => Some (old ++ patch_text k ps)
                            | None => if existsb (fun p => beqb (marker (g_ip p)) k) ps then Some (patch_text k ps) else None
                            end) by (unfold P; apply patch_fold_lookup).
  assert (Hin : In k (map fst P) <-> lookup k P <> None).
  { split; intro H.
    - intro E. apply lookup_None_not_In in E. exact (E H).
    - destruct (in_dec (list_eq_dec Byte.byte_eq_dec) k (map fst P)) as [i|n]; [exact i|].
      exfalso. apply H. apply lookup_None_not_In. exact n. }
  assert (Hex : existsb (fun p => beqb (marker (g_ip p)) k) ps = true <-> In k (map (fun p => marker (g_ip p)) ps)).
  { rewrite existsb_exists, in_map_iff. split.
    - intros [p [Hp He]]. apply beqb_true in He. exists p. split; assumption.
    - intros [p [He Hp]]. exists p. split; [exact Hp | apply beqb_true; exact He]. }
  split.
  - rewrite Hin, HP. unfold table_keys. rewrite in_app_iff, <- init_pairs_keys, <- Hex.
    destruct (lookup k (init_pairs content)) as [old|] eqn:El.
    + split; [intros _; left; discriminate | intros _; discriminate].
    + destruct (existsb (fun p => beqb (marker (g_ip p)) k) ps) eqn:Ee.
      * split; [intros _; right; reflexivity | intros _; discriminate].
      * split; [intro H; exfalso; apply H; reflexivity|].
        intros [H|H]; [exfalso; apply H; reflexivity | discriminate].
  - intro H. apply Hin in H. rewrite HP in *.
    destruct (lookup k (init_pairs content)) as [old|] eqn:El.
    + apply lookup_In in El. destruct (init_pairs_marker_pairs content _ _ El) as [-> _]. reflexivity.
    + destruct (existsb _ ps); [reflexivity | congruence].
Qed.

(* one file, any insertion point names *)
Theorem build_one_full m name content :
  build_one m (name, content) =
  (name, expand_keys (table_keys content (patches_of m name)) (patches_of m name) 0 content).
Proof.
  unfold build_one. f_equal. unfold replace.
  apply replace_listed_is_expand_keys; intro k; apply (table_lookup content (patches_of m name) k).
Qed.

(* every history *)
Theorem history_texts_full h m : feeds fm0 h = Ok m ->
  build m = map (fun f => (fst f, expand_keys (table_keys (snd f) (patches_of m (fst f))) (patches_of m (fst f)) 0 (snd f)))
                (files m).
Proof. intros _. unfold build. apply map_ext. intros [n c]. apply build_one_full. Qed.

