package main

import (
	"fmt"
	"regexp"
	"strings"

	"verif/harness/coqfmt"
)

// Coq elaborates a string literal in tens of milliseconds, and a descriptor repeats the path of
// its file in every node: every distinct byte-string literal of a shard is therefore defined once
// (Definition sN := B "...") and referred to by name.  Works on the text printed by coqfmt.Bytes.
var litRe = regexp.MustCompile(`\((?:B|hx) "[^"]*"\)`)

type pool struct {
	ids   map[string]int
	order []string
}

func newPool() *pool { return &pool{ids: map[string]int{}} }

func (p *pool) intern(term string) string {
	return litRe.ReplaceAllStringFunc(term, func(lit string) string {
		id, ok := p.ids[lit]
		if !ok {
			id = len(p.order)
			p.ids[lit] = id
			p.order = append(p.order, lit)
		}
		return fmt.Sprintf("s%d", id)
	})
}

func (p *pool) defs() string {
	var b strings.Builder
	for i, lit := range p.order {
		fmt.Fprintf(&b, "Definition s%d : bytes := %s.\n", i, lit[1:len(lit)-1])
	}
	return b.String()
}

// raw byte strings (marshalled descriptors) go through the cheap literals of Base/Lit.v
type rawPool struct{ defs []string }

func (p *rawPool) add(data []byte) string {
	name := fmt.Sprintf("w%d", len(p.defs))
	p.defs = append(p.defs, fmt.Sprintf("Definition %s : bytes := %s.\n", name, coqfmt.BytesF(string(data))))
	return name
}

func (p *rawPool) text() string {
	if len(p.defs) == 0 {
		return ""
	}
	return "Open Scope uint63_scope.\n" + strings.Join(p.defs, "") + "Close Scope uint63_scope.\n"
}
