(* Idl/ResolvePermFile.v — resolution only looks at a file through a few observations
   (name table, includes, typedef and enum lookups); files that agree on them are
   interchangeable, in particular permuted ones. *)
From Coq Require Import List Bool Arith Lia NArith ZArith Permutation.
From Coq.Strings Require Import Byte.
From Verif Require Import Base.Bytes Idl.Ast Idl.AstUtil Idl.AstFacts Idl.Resolve Idl.ResolveSpec Idl.ResolveTd
     Idl.ResolveLemmas Idl.ResolvePerm.
Import ListNotations.
Local Open Scope resolve_scope.

(* what the pass reads of a file other than its own definitions *)
Definition fobs_eq (g g' : file) : Prop :=
  f_name2cat g = f_name2cat g' /\ f_includes g = f_includes g' /\
  (forall n, find_typedef g n = find_typedef g' n) /\ (forall n, find_enum g n = find_enum g' n) /\
  length (f_typedefs g) = length (f_typedefs g').

Lemma fobs_n2c g g' : fobs_eq g g' -> n2c_of g = n2c_of g'.
Proof. intros (H & _). unfold n2c_of. rewrite H. reflexivity. Qed.

Lemma fobs_refl g : fobs_eq g g.
Proof. unfold fobs_eq. auto. Qed.

Definition dobs (d d' : program) : Prop :=
  Forall2 (fun x y => fst x = fst y /\ fobs_eq (snd x) (snd y)) d d'.

Lemma dobs_lookup d d' k : dobs d d' ->
  match lookup k d, lookup k d' with
  | Some g, Some g' => fobs_eq g g'
  | None, None => True
  | _, _ => False
  end.
Proof.
  induction 1 as [|[k1 g] [k2 g'] l l' (Hk & Hg) _ IH]; cbn [lookup]; [exact I|].
  cbn [fst snd] in *. subst k2. destruct (beqb k k1); [exact Hg | exact IH].
Qed.

Lemma dobs_count d d' : dobs d d' -> prog_typedef_count d = prog_typedef_count d'.
Proof.
  induction 1 as [|x y l l' (_ & (_ & _ & _ & _ & Hl)) _ IH]; cbn [prog_typedef_count fold_right]; [reflexivity|].
  unfold prog_typedef_count in IH. rewrite IH, Hl. reflexivity.
Qed.

Section Congruence.
  Variables d d' : program.
  Hypothesis Hd : dobs d d'.

  Lemma include_target_obs i :
    match include_target d i, include_target d' i with
    | Some g, Some g' => fobs_eq g g' | None, None => True | _, _ => False end.
  Proof. unfold include_target, prog_file. destruct (in_ref i) as [fn|]; [apply dobs_lookup; exact Hd | exact I]. Qed.

  Lemma reference_target_obs g g' r : fobs_eq g g' ->
    match reference_target d g r, reference_target d' g' r with
    | Some h, Some h' => fobs_eq h h' | None, None => True | _, _ => False end.
  Proof.
    intros (_ & Hi & _). unfold reference_target, nth_include. rewrite Hi.
    destruct (ref_index r <? 0)%Z; [exact I|]. destruct (nth_error (f_includes g') (Z.to_nat (ref_index r))); [|exact I].
    apply include_target_obs.
  Qed.

  Lemma find_include_obs ok pre m : forall incs idx,
    find_include d ok pre m incs idx = find_include d' ok pre m incs idx.
  Proof.
    induction incs as [|i incs IH]; intros idx; cbn [find_include]; [reflexivity|]. rewrite IH.
    destruct (beqb (idl_prefix (in_path i)) pre); [|reflexivity].
    pose proof (include_target_obs i) as H.
    destruct (include_target d i) as [g|], (include_target d' i) as [g'|]; try contradiction; [|reflexivity].
    rewrite (fobs_n2c _ _ H). reflexivity.
  Qed.

  Lemma resolve_ty_obs g g' : fobs_eq g g' -> forall t, resolve_ty d g t = resolve_ty d' g' t.
  Proof.
    intros Hg. induction t as [n k v cpp an cat r td IHk IHv] using ty_ind'.
    cbn [resolve_ty]. rewrite (fobs_n2c _ _ Hg). destruct Hg as (_ & -> & _).
    assert (Ek : match k with Some kt => resolve_ty d g kt | None => Error ErrInternal end =
                 match k with Some kt => resolve_ty d' g' kt | None => Error ErrInternal end)
      by (destruct k; [apply IHk|]; reflexivity).
    assert (Ev : match v with Some kt => resolve_ty d g kt | None => Error ErrInternal end =
                 match v with Some kt => resolve_ty d' g' kt | None => Error ErrInternal end)
      by (destruct v; [apply IHv|]; reflexivity).
    rewrite Ek, Ev. destruct (builtin_category n); [reflexivity|].
    destruct (split_type n) as [|a [|m [|? ?]]]; try reflexivity. rewrite find_include_obs. reflexivity.
  Qed.

  Lemma get_enum_obs : forall fuel g g' name, fobs_eq g g' ->
    get_enum fuel d g name = get_enum fuel d' g' name.
  Proof.
    induction fuel as [|k IH]; intros g g' name Hg; cbn [get_enum]; [reflexivity|].
    rewrite (fobs_n2c _ _ Hg). pose proof Hg as (_ & _ & Ht & He & _). rewrite Ht, He.
    destruct (lookup name (n2c_of g')) as [c|]; [|reflexivity]. destruct c; try reflexivity.
    destruct (find_typedef g' name) as [x|]; [|reflexivity].
    assert (E1 : match ty_ref (td_type x) with
                 | Some r => match reference_target d g r with
                             | Some h => e <- get_enum k d h (ref_name r);; Ok match e with Some (en, _) => Some (en, ref_index r) | None => None end
                             | None => Error ErrInternal end
                 | None => Ok None end =
                 match ty_ref (td_type x) with
                 | Some r => match reference_target d' g' r with
                             | Some h => e <- get_enum k d' h (ref_name r);; Ok match e with Some (en, _) => Some (en, ref_index r) | None => None end
                             | None => Error ErrInternal end
                 | None => Ok None end).
    { destruct (ty_ref (td_type x)) as [r|]; [|reflexivity]. pose proof (reference_target_obs g g' r Hg) as H.
      destruct (reference_target d g r) as [h|], (reference_target d' g' r) as [h'|]; try contradiction; [|reflexivity].
      rewrite (IH h h' _ H). reflexivity. }
    rewrite E1. rewrite (IH g g' _ Hg). reflexivity.
  Qed.

  Lemma inc_cands_obs h h' pre :
    (forall idx g g', fobs_eq g g' -> h idx g = h' idx g') ->
    forall incs idx, inc_cands d h pre incs idx = inc_cands d' h' pre incs idx.
  Proof.
    intros Hh. induction incs as [|i incs IH]; intros idx; cbn [inc_cands]; [reflexivity|]. rewrite IH.
    destruct (beqb (idl_prefix (in_path i)) pre); [|reflexivity].
    pose proof (include_target_obs i) as H.
    destruct (include_target d i) as [g|], (include_target d' i) as [g'|]; try contradiction; [|reflexivity].
    rewrite (Hh idx g g' H). reflexivity.
  Qed.

  Lemma alt_cands_obs fuel g g' ss : fobs_eq g g' -> alt_cands fuel d g ss = alt_cands fuel d' g' ss.
  Proof.
    intros Hg. destruct ss as [|a [|b [|c [|? ?]]]]; cbn [alt_cands]; try reflexivity.
    - rewrite (fobs_n2c _ _ Hg). reflexivity.
    - rewrite (get_enum_obs fuel g g' a Hg). pose proof Hg as (_ & -> & _).
      rewrite (inc_cands_obs _ (fun idx g0 => Ok match lookup b (n2c_of g0) with Some CatConstant => [Extra false (Z.of_nat idx) b a] | _ => [] end) a);
        [reflexivity|]. intros idx h h' Hh. rewrite (fobs_n2c _ _ Hh). reflexivity.
    - pose proof Hg as (_ & -> & _). apply inc_cands_obs. intros idx h h' Hh. rewrite (get_enum_obs fuel h h' b Hh). reflexivity.
  Qed.

  Lemma resolve_ident_obs fuel g g' s : fobs_eq g g' -> resolve_ident fuel d g s = resolve_ident fuel d' g' s.
  Proof.
    intros Hg. unfold resolve_ident. destruct (ident_is_bool s); [reflexivity|].
    assert (E : forall sss, all_cands fuel d g sss = all_cands fuel d' g' sss).
    { induction sss as [|ss sss IH]; cbn [all_cands]; [reflexivity|]. rewrite (alt_cands_obs fuel g g' ss Hg), IH. reflexivity. }
    rewrite E. reflexivity.
  Qed.

  Lemma resolve_cv_obs fuel g g' : fobs_eq g g' -> forall c, resolve_cv fuel d g c = resolve_cv fuel d' g' c.
  Proof.
    intros Hg. induction c as [b|z|s|s e|l IHl|l IHl] using const_value_ind'; cbn [resolve_cv]; try reflexivity.
    - rewrite (resolve_ident_obs fuel g g' s Hg). reflexivity.
    - f_equal. induction IHl as [|y l Hy _ IH2]; [reflexivity|]. rewrite Hy, IH2. reflexivity.
    - f_equal. induction IHl as [|[k v] l (Hk & Hv) _ IH2]; [reflexivity|]. cbn [fst snd] in *. rewrite Hk, Hv, IH2. reflexivity.
  Qed.

  Lemma mapM_ext_all {A B} (f1 f2 : A -> result B) l : (forall x, f1 x = f2 x) -> mapM f1 l = mapM f2 l.
  Proof. intros H. apply mapM_ext. intros x _. apply H. Qed.

  Lemma resolve_typedef_obs g g' td : fobs_eq g g' -> resolve_typedef d g td = resolve_typedef d' g' td.
  Proof. intros Hg. unfold resolve_typedef. rewrite (resolve_ty_obs g g' Hg). reflexivity. Qed.

  Lemma resolve_constant_obs fuel g g' c : fobs_eq g g' -> resolve_constant fuel d g c = resolve_constant fuel d' g' c.
  Proof. intros Hg. unfold resolve_constant. rewrite (resolve_ty_obs g g' Hg), (resolve_cv_obs fuel g g' Hg). reflexivity. Qed.

  Lemma resolve_field_obs fuel g g' b fd : fobs_eq g g' -> resolve_field fuel d g b fd = resolve_field fuel d' g' b fd.
  Proof.
    intros Hg. unfold resolve_field. rewrite (resolve_ty_obs g g' Hg).
    destruct (fd_default fd) as [c|]; [rewrite (resolve_cv_obs fuel g g' Hg)|]; reflexivity.
  Qed.

  Lemma resolve_struct_like_obs fuel g g' s : fobs_eq g g' -> resolve_struct_like fuel d g s = resolve_struct_like fuel d' g' s.
  Proof.
    intros Hg. unfold resolve_struct_like.
    rewrite (mapM_ext_all _ _ _ (fun fd => resolve_field_obs fuel g g' (is_union s) fd Hg)). reflexivity.
  Qed.

  Lemma resolve_function_obs fuel g g' fu : fobs_eq g g' -> resolve_function fuel d g fu = resolve_function fuel d' g' fu.
  Proof.
    intros Hg. unfold resolve_function. rewrite (resolve_ty_obs g g' Hg).
    rewrite (mapM_ext_all _ _ (fn_args fu) (fun fd => resolve_field_obs fuel g g' false fd Hg)).
    rewrite (mapM_ext_all _ _ (fn_throws fu) (fun fd => resolve_field_obs fuel g g' false fd Hg)). reflexivity.
  Qed.

  Lemma resolve_service_obs fuel g g' sv : fobs_eq g g' -> resolve_service fuel d g sv = resolve_service fuel d' g' sv.
  Proof.
    intros Hg. unfold resolve_service.
    rewrite (mapM_ext_all _ _ _ (fun fu => resolve_function_obs fuel g g' fu Hg)).
    assert (E : resolve_base d g sv = resolve_base d' g' sv).
    { unfold resolve_base. rewrite (fobs_n2c _ _ Hg). destruct Hg as (_ & -> & _).
      destruct (split_type (sv_extends sv)) as [|a [|m [|? ?]]]; try reflexivity. rewrite find_include_obs. reflexivity. }
    rewrite E. reflexivity.
  Qed.

  Lemma ext_typedef_cat_obs g g' r : fobs_eq g g' -> ext_typedef_cat d g r = ext_typedef_cat d' g' r.
  Proof.
    intros Hg. unfold ext_typedef_cat. pose proof (reference_target_obs g g' r Hg) as H.
    destruct (reference_target d g r) as [h|], (reference_target d' g' r) as [h'|]; try contradiction; [|reflexivity].
    destruct H as (_ & _ & Ht & _). rewrite Ht. reflexivity.
  Qed.

  Lemma te_init_obs g g' td : fobs_eq g g' -> te_init d g td = te_init d' g' td.
  Proof.
    intros Hg. unfold te_init. destruct (is_typedef_cat _); [|reflexivity].
    destruct (ty_ref (td_type td)) as [r|]; [|reflexivity]. rewrite (ext_typedef_cat_obs g g' r Hg). reflexivity.
  Qed.

  Section Fix.
    Variables (g g' : file) (st st' : list tde).
    Hypothesis Hg : fobs_eq g g'.
    Hypothesis Hst : forall a, te_lookup st a = te_lookup st' a.

    Lemma fix_ty_obs : forall t, fix_ty d g st t = fix_ty d' g' st' t.
    Proof.
      induction t as [n k v cpp an cat r td IHk IHv] using ty_ind'. cbn [fix_ty].
      assert (Ek : match k with Some x => y <- fix_ty d g st x;; Ok (Some y) | None => Ok None end =
                   match k with Some x => y <- fix_ty d' g' st' x;; Ok (Some y) | None => Ok None end)
        by (destruct k as [x|]; [rewrite (IHk x eq_refl)|]; reflexivity).
      assert (Ev : match v with Some x => y <- fix_ty d g st x;; Ok (Some y) | None => Ok None end =
                   match v with Some x => y <- fix_ty d' g' st' x;; Ok (Some y) | None => Ok None end)
        by (destruct v as [x|]; [rewrite (IHv x eq_refl)|]; reflexivity).
      rewrite Ek, Ev. destruct (is_typedef_cat cat); [|reflexivity].
      destruct r as [rf|]; [rewrite (ext_typedef_cat_obs g g' rf Hg) | rewrite Hst]; reflexivity.
    Qed.

    Lemma fix_typedef_obs td : fix_typedef d g st td = fix_typedef d' g' st' td.
    Proof. unfold fix_typedef. rewrite fix_ty_obs. reflexivity. Qed.
    Lemma fix_constant_obs c : fix_constant d g st c = fix_constant d' g' st' c.
    Proof. unfold fix_constant. rewrite fix_ty_obs. reflexivity. Qed.
    Lemma fix_field_obs fd : fix_field d g st fd = fix_field d' g' st' fd.
    Proof. unfold fix_field. rewrite fix_ty_obs. reflexivity. Qed.
    Lemma fix_struct_like_obs s : fix_struct_like d g st s = fix_struct_like d' g' st' s.
    Proof. unfold fix_struct_like. rewrite (mapM_ext_all _ _ _ fix_field_obs). reflexivity. Qed.
    Lemma fix_function_obs fu : fix_function d g st fu = fix_function d' g' st' fu.
    Proof.
      unfold fix_function. rewrite fix_ty_obs, (mapM_ext_all _ _ (fn_args fu) fix_field_obs),
        (mapM_ext_all _ _ (fn_throws fu) fix_field_obs). reflexivity.
    Qed.
    Lemma fix_service_obs sv : fix_service d g st sv = fix_service d' g' st' sv.
    Proof. unfold fix_service. rewrite (mapM_ext_all _ _ _ fix_function_obs). reflexivity. Qed.
  End Fix.
End Congruence.

(* ---------------------------------------------------------------- permutation helpers *)

Lemma find_by_not_in {A} (key : A -> bytes) k l : ~ In k (map key l) -> find_by key k l = None.
Proof.
  induction l as [|y l IH]; cbn [find_by map]; [reflexivity|]. intros H.
  destruct (beqb (key y) k) eqn:E; [apply beqb_true in E; exfalso; apply H; left; exact E|].
  apply IH. intros Hin. apply H. right. exact Hin.
Qed.

Lemma find_by_perm {A} (key : A -> bytes) k l l' :
  Permutation l l' -> NoDup (map key l) -> find_by key k l = find_by key k l'.
Proof.
  intros P ND. assert (ND' : NoDup (map key l')) by (eapply Permutation_NoDup; [apply Permutation_map; exact P | exact ND]).
  destruct (find_by key k l) as [x|] eqn:F.
  - destruct (find_by_In _ _ _ _ F) as (Hin & <-). symmetry. apply find_by_NoDup; [exact ND'|]. eapply Permutation_in; eauto.
  - symmetry. apply find_by_not_in. intros Hin. apply find_by_none in F. apply F.
    eapply Permutation_in; [apply Permutation_sym; apply Permutation_map; exact P | exact Hin].
Qed.

Lemma perm_flat_map' {A B} (g : A -> list B) l l' : Permutation l l' -> Permutation (flat_map' g l) (flat_map' g l').
Proof.
  unfold flat_map'. induction 1 as [|x l l' P IH|x y l|l l' l'' P1 IH1 P2 IH2]; cbn [map concat].
  - apply Permutation_refl.
  - apply Permutation_app_head. exact IH.
  - rewrite !app_assoc. apply Permutation_app_tail. apply Permutation_app_comm.
  - eapply Permutation_trans; eauto.
Qed.

Lemma NoDup_app_r {A} (l1 l2 : list A) : NoDup (l1 ++ l2) -> NoDup l2.
Proof. induction l1 as [|x l IH]; cbn [app]; intros H; [exact H|]. inversion H; auto. Qed.
Lemma NoDup_app_l' {A} (l1 l2 : list A) : NoDup (l1 ++ l2) -> NoDup l1.
Proof.
  induction l1 as [|x l IH]; cbn [app]; intros H; [constructor|]. inversion H as [|? ? Hn H']; subst.
  constructor; [intros Hx; apply Hn; apply in_or_app; auto | auto].
Qed.

Lemma struct_likes_perm a b : file_perm a b -> Permutation (struct_likes a) (struct_likes b).
Proof.
  intros (_ & _ & _ & _ & _ & _ & _ & Ps & Pu & Pe & _). unfold struct_likes.
  apply Permutation_app; [exact Ps|]. apply Permutation_app; assumption.
Qed.

Lemma file_def_names_perm a b : file_perm a b -> Permutation (file_def_names a) (file_def_names b).
Proof.
  intros H. pose proof (struct_likes_perm a b H) as Psl.
  destruct H as (_ & _ & _ & _ & Pt & Pc & Pe & Pst & Pun & Pex & Psv & _). unfold file_def_names.
  repeat apply Permutation_app; apply Permutation_map; assumption.
Qed.

Lemma file_marks_perm a b : file_perm a b -> Permutation (file_marks a) (file_marks b).
Proof.
  intros H. pose proof (struct_likes_perm a b H) as Psl.
  destruct H as (_ & _ & _ & _ & Pt & Pc & Pe & Pst & Pun & Pex & Psv & _).
  unfold file_marks, file_types, file_top_types, file_const_values, file_top_const_values, file_fields.
  repeat (apply Permutation_app || apply perm_flat_map' || apply Permutation_map); assumption.
Qed.

Lemma mark_includes_ext m1 m2 : (forall z, In z m1 <-> In z m2) ->
  forall incs idx, mark_includes m1 incs idx = mark_includes m2 incs idx.
Proof.
  intros H. induction incs as [|i incs IH]; intros idx; cbn [mark_includes]; [reflexivity|]. rewrite IH.
  assert (E : existsb (Z.eqb (Z.of_nat idx)) m1 = existsb (Z.eqb (Z.of_nat idx)) m2).
  { destruct (existsb (Z.eqb (Z.of_nat idx)) m1) eqn:E1; symmetry.
    - apply existsb_exists in E1. destruct E1 as (x & Hx & Ex). apply existsb_exists. exists x. split; [apply H; exact Hx | exact Ex].
    - destruct (existsb (Z.eqb (Z.of_nat idx)) m2) eqn:E2; [|reflexivity].
      apply existsb_exists in E2. destruct E2 as (x & Hx & Ex).
      assert (existsb (Z.eqb (Z.of_nat idx)) m1 = true) by (apply existsb_exists; exists x; split; [apply H; exact Hx | exact Ex]).
      congruence. }
  rewrite E. reflexivity.
Qed.

Lemma te_init_alias d g td : te_alias (te_init d g td) = td_alias td.
Proof.
  unfold te_init. destruct (is_typedef_cat _); [|reflexivity]. destruct (ty_ref _); [|reflexivity].
  destruct (ext_typedef_cat _ _ _); reflexivity.
Qed.

(* ---------------------------------------------------------------- one file *)

Lemma perm_step {A B} (f1 f2 : A -> result B) l l' r :
  (forall x, f1 x = f2 x) -> Permutation l l' -> mapM f1 l = Ok r ->
  exists r', mapM f2 l' = Ok r' /\ Permutation r r'.
Proof. intros He P H. rewrite (mapM_ext_all f1 f2 l He) in H. exact (mapM_perm f2 l l' r P H). Qed.

Lemma fobs_of_perm (a b : file) :
  f_name2cat a = f_name2cat b -> f_includes a = f_includes b ->
  Permutation (f_typedefs a) (f_typedefs b) -> Permutation (f_enums a) (f_enums b) ->
  NoDup (map td_alias (f_typedefs a)) -> NoDup (map en_name (f_enums a)) -> fobs_eq a b.
Proof.
  intros H1 H2 Pt Pe Nt Ne. unfold fobs_eq, find_typedef, find_enum. repeat split; auto.
  - intros n. apply find_by_perm; assumption.
  - intros n. apply find_by_perm; assumption.
  - apply Permutation_length. exact Pt.
Qed.

Lemma resolve_file_in_perm d d' f f2 r :
  dobs d d' -> file_perm f f2 -> resolve_file_in d f = Ok r ->
  exists r2, resolve_file_in d' f2 = Ok r2 /\ file_perm r r2 /\
             NoDup (map td_alias (f_typedefs r)) /\ NoDup (map en_name (f_enums r)).
Proof.
  intros Hd HP H. pose proof (file_def_names_perm f f2 HP) as Pdn.
  destruct HP as (Hfn & Hinc & Hcpp & Hns & Ptd & Pco & Pen & Pst & Pun & Pex & Psv & Hn2c).
  unfold resolve_file_in in H. inv_bind H. injection H as <-.
  rename x into n2c, x0 into tds1, x1 into cs1, x2 into ss1, x3 into us1, x4 into es1, x5 into sv1,
         x6 into st, x7 into tds2, x8 into cs2, x9 into ss2, x10 into us2, x11 into es2, x12 into sv2.
  (* names *)
  pose proof (register_perm _ _ _ Pdn E) as E'.
  destruct (register_spec _ _ _ E) as (ND & _ & _). unfold file_def_names in ND. rewrite !map_app, !map_map in ND. cbn [fst] in ND.
  assert (NDt : NoDup (map td_alias (f_typedefs f))) by (apply NoDup_app_l' in ND; exact ND).
  assert (NDe : NoDup (map en_name (f_enums f))).
  { apply NoDup_app_r in ND. apply NoDup_app_r in ND. apply NoDup_app_l' in ND. exact ND. }
  set (f0 := with_name2cat f (Some n2c)) in *. set (f0' := with_name2cat f2 (Some n2c)).
  assert (O0 : fobs_eq f0 f0') by (apply fobs_of_perm; auto).
  (* typedef types *)
  destruct (perm_step _ (resolve_typedef d' f0') _ _ _ (fun td => resolve_typedef_obs d d' Hd f0 f0' td O0) Ptd E0) as (tds1' & E0' & Ptd1).
  assert (Al1 : map td_alias tds1 = map td_alias (f_typedefs f)).
  { eapply Forall2_map_eq; [exact (mapM_Forall2 _ _ _ E0)|]. intros x y Hxy. unfold resolve_typedef in Hxy. inv_bind Hxy. injection Hxy as <-. reflexivity. }
  set (f1 := with_typedefs f0 tds1) in *. set (f1' := with_typedefs f0' tds1').
  assert (O1 : fobs_eq f1 f1') by (apply fobs_of_perm; cbn; auto; rewrite Al1; exact NDt).
  assert (Fu : enum_fuel d f1 = enum_fuel d' f1').
  { unfold enum_fuel. rewrite (dobs_count _ _ Hd). cbn [f1 f1' with_typedefs f_typedefs]. rewrite (Permutation_length Ptd1). reflexivity. }
  rewrite Fu in *.
  destruct (perm_step _ (resolve_constant (enum_fuel d' f1') d' f1') _ _ _ (fun c => resolve_constant_obs d d' Hd _ f1 f1' c O1) Pco E1) as (cs1' & E1' & Pcs1).
  destruct (perm_step _ (resolve_struct_like (enum_fuel d' f1') d' f1') _ _ _ (fun c => resolve_struct_like_obs d d' Hd _ f1 f1' c O1) Pst E2) as (ss1' & E2' & Pss1).
  destruct (perm_step _ (resolve_struct_like (enum_fuel d' f1') d' f1') _ _ _ (fun c => resolve_struct_like_obs d d' Hd _ f1 f1' c O1) Pun E3) as (us1' & E3' & Pus1).
  destruct (perm_step _ (resolve_struct_like (enum_fuel d' f1') d' f1') _ _ _ (fun c => resolve_struct_like_obs d d' Hd _ f1 f1' c O1) Pex E4) as (es1' & E4' & Pes1).
  destruct (perm_step _ (resolve_service (enum_fuel d' f1') d' f1') _ _ _ (fun c => resolve_service_obs d d' Hd _ f1 f1' c O1) Psv E5) as (sv1' & E5' & Psv1).
  (* the fixpoint *)
  assert (Est : exists st', te_fix (S (length tds1')) (map (te_init d' f1') tds1') = Ok st' /\ forall a, te_lookup st a = te_lookup st' a).
  { assert (Em : map (te_init d f1) tds1 = map (te_init d' f1') tds1) by (apply map_ext; intros td; apply (te_init_obs d d' Hd); exact O1).
    rewrite Em in E6. rewrite <- (map_length (te_init d' f1') tds1) in E6.
    assert (NDa : NoDup (map te_alias (map (te_init d' f1') tds1))).
    { rewrite map_map. rewrite (map_ext _ td_alias) by (intros; apply te_init_alias). rewrite Al1. exact NDt. }
    destruct (te_fix_perm _ (map (te_init d' f1') tds1') _ NDa (Permutation_map _ Ptd1) E6) as (st' & Hf & Hl).
    rewrite map_length in Hf. exists st'. split; [exact Hf|]. intros a. symmetry. apply Hl. }
  destruct Est as (st' & E6' & Hst).
  destruct (perm_step _ (fix_typedef d' f1' st') _ _ _ (fix_typedef_obs d d' Hd f1 f1' st st' O1 Hst) Ptd1 E7) as (tds2' & E7' & Ptd2).
  destruct (perm_step _ (fix_constant d' f1' st') _ _ _ (fix_constant_obs d d' Hd f1 f1' st st' O1 Hst) Pcs1 E8) as (cs2' & E8' & Pcs2).
  destruct (perm_step _ (fix_struct_like d' f1' st') _ _ _ (fix_struct_like_obs d d' Hd f1 f1' st st' O1 Hst) Pss1 E9) as (ss2' & E9' & Pss2).
  destruct (perm_step _ (fix_struct_like d' f1' st') _ _ _ (fix_struct_like_obs d d' Hd f1 f1' st st' O1 Hst) Pus1 E10) as (us2' & E10' & Pus2).
  destruct (perm_step _ (fix_struct_like d' f1' st') _ _ _ (fix_struct_like_obs d d' Hd f1 f1' st st' O1 Hst) Pes1 E11) as (es2' & E11' & Pes2).
  destruct (perm_step _ (fix_service d' f1' st') _ _ _ (fix_service_obs d d' Hd f1 f1' st st' O1 Hst) Psv1 E12) as (sv2' & E12' & Psv2).
  (* assemble *)
  unfold resolve_file_in. rewrite E'. cbn [bind]. fold f0'. rewrite E0'. cbn [bind]. fold f1'.
  rewrite E1'. cbn [bind]. rewrite E2'. cbn [bind]. rewrite E3'. cbn [bind]. rewrite E4'. cbn [bind]. rewrite E5'. cbn [bind].
  rewrite E6'. cbn [bind]. rewrite E7'. cbn [bind]. rewrite E8'. cbn [bind]. rewrite E9'. cbn [bind]. rewrite E10'. cbn [bind].
  rewrite E11'. cbn [bind]. rewrite E12'. cbn [bind].
  eexists. split; [reflexivity|].
  set (F := File (f_filename f) (f_includes f) (f_cpp_includes f) (f_namespaces f) tds2 cs2 (f_enums f) ss2 us2 es2 sv2 (Some n2c)).
  set (F' := File (f_filename f2) (f_includes f2) (f_cpp_includes f2) (f_namespaces f2) tds2' cs2' (f_enums f2) ss2' us2' es2' sv2' (Some n2c)).
  assert (PF : file_perm F F') by (unfold file_perm, F, F'; cbn; repeat split; auto).
  split; [|split].
  - unfold file_perm. cbn [with_includes f_filename f_includes f_cpp_includes f_namespaces f_typedefs f_constants f_enums f_structs f_unions f_exceptions f_services f_name2cat F F'].
    repeat split; auto.
    rewrite <- Hinc. apply mark_includes_ext. intros z.
    pose proof (file_marks_perm F F' PF) as PM. split; intros Hz; [eapply Permutation_in; eauto | eapply Permutation_in; [apply Permutation_sym; exact PM | exact Hz]].
  - cbn [with_includes f_typedefs F].
    assert (Al2 : map td_alias tds2 = map td_alias tds1).
    { eapply Forall2_map_eq; [exact (mapM_Forall2 _ _ _ E7)|]. intros x y Hxy. unfold fix_typedef in Hxy. inv_bind Hxy. injection Hxy as <-. reflexivity. }
    rewrite Al2, Al1. exact NDt.
  - cbn [with_includes f_enums F]. exact NDe.
Qed.

(* ---------------------------------------------------------------- the program *)

Definition drel (d d' : program) : Prop :=
  Forall2 (fun x y => fst x = fst y /\ file_perm (snd x) (snd y) /\
                      NoDup (map td_alias (f_typedefs (snd x))) /\ NoDup (map en_name (f_enums (snd x)))) d d'.

Lemma drel_dobs d d' : drel d d' -> dobs d d'.
Proof.
  induction 1 as [|x y l l' (Hk & HP & Nt & Ne) _ IH]; constructor; [|exact IH]. split; [exact Hk|].
  destruct HP as (_ & Hinc & _ & _ & Pt & _ & Pe & _ & _ & _ & _ & Hn). apply fobs_of_perm; auto.
Qed.

Lemma drel_lookup d d' k : drel d d' ->
  match lookup k d, lookup k d' with
  | Some g, Some g' => file_perm g g' | None, None => True | _, _ => False end.
Proof.
  induction 1 as [|[k1 g] [k2 g'] l l' (Hk & HP & _) _ IH]; cbn [lookup]; [exact I|].
  cbn [fst snd] in *. subst k2. destruct (beqb k k1); [exact HP | exact IH].
Qed.

Lemma pperm_lookup p p' k : program_perm p p' ->
  match lookup k p, lookup k p' with
  | Some g, Some g' => file_perm g g' | None, None => True | _, _ => False end.
Proof.
  induction 1 as [|[k1 g] [k2 g'] l l' (Hk & HP) _ IH]; cbn [lookup]; [exact I|].
  cbn [fst snd] in *. subst k2. destruct (beqb k k1); [exact HP | exact IH].
Qed.

Lemma resolve_rec_perm p p' : program_perm p p' -> forall fuel d d' fn d1,
  drel d d' -> resolve_rec fuel p d fn = Ok d1 ->
  exists d1', resolve_rec fuel p' d' fn = Ok d1' /\ drel d1 d1'.
Proof.
  intros HP. induction fuel as [|k IH]; intros d d' fn d1 Hd H; cbn [resolve_rec] in *.
  - pose proof (drel_lookup d d' fn Hd) as L. destruct (lookup fn d), (lookup fn d'); try contradiction; try discriminate.
    injection H as <-. eauto.
  - pose proof (drel_lookup d d' fn Hd) as L. destruct (lookup fn d), (lookup fn d'); try contradiction.
    { injection H as <-. eauto. }
    clear L. pose proof (pperm_lookup p p' fn HP) as L. unfold prog_file in *.
    destruct (lookup fn p) as [f|], (lookup fn p') as [f2|]; try contradiction; try discriminate.
    inv_bind H. rename x into done1.
    pose proof L as (_ & Hinc & _). rewrite <- Hinc.
    assert (Hgo : forall incs a a' a1, drel a a' ->
      (fix go (incs : list include) (d : program) {struct incs} : result program :=
         match incs with
         | [] => Ok d
         | i :: r => match in_ref i with
                     | Some g => d' <- resolve_rec k p d g;; go r d'
                     | None => Error ErrNotParsed
                     end
         end) incs a = Ok a1 ->
      exists a1', (fix go (incs : list include) (d : program) {struct incs} : result program :=
         match incs with
         | [] => Ok d
         | i :: r => match in_ref i with
                     | Some g => d' <- resolve_rec k p' d g;; go r d'
                     | None => Error ErrNotParsed
                     end
         end) incs a' = Ok a1' /\ drel a1 a1').
    { induction incs as [|i incs IHi]; intros a a' a1 Ha Hgo.
      - injection Hgo as <-. eauto.
      - destruct (in_ref i) as [g|]; [|discriminate]. inv_bind Hgo.
        destruct (IH _ _ _ _ Ha E0) as (b' & Hb & Hab). rewrite Hb. cbn [bind]. exact (IHi _ _ _ Hab Hgo). }
    destruct (Hgo _ _ _ _ Hd E) as (done1' & E' & Hd1). rewrite E'. cbn [bind].
    pose proof (drel_lookup done1 done1' fn Hd1) as L1.
    destruct (lookup fn done1), (lookup fn done1'); try contradiction; try discriminate.
    inv_bind H. injection H as <-.
    destruct (resolve_file_in_perm _ _ _ _ _ (drel_dobs _ _ Hd1) L E0) as (r2 & Hr2 & Pr & Nt & Ne).
    rewrite Hr2. cbn [bind]. eexists. split; [reflexivity|]. constructor; [|exact Hd1]. cbn [fst snd]. auto.
Qed.

Lemma file_perm_sym a b : file_perm a b -> file_perm b a.
Proof. unfold file_perm. intros H. decompose [and] H. repeat split; auto using Permutation_sym. Qed.

Lemma program_perm_sym p q : program_perm p q -> program_perm q p.
Proof. induction 1 as [|x y l l' (Hk & HP) _ IH]; constructor; [split; [auto | apply file_perm_sym; exact HP] | exact IH]. Qed.

Lemma map_done_perm done done' : drel done done' -> forall p p', program_perm p p' ->
  program_perm (map (fun e => (fst e, match lookup (fst e) done with Some f' => f' | None => snd e end)) p)
               (map (fun e => (fst e, match lookup (fst e) done' with Some f' => f' | None => snd e end)) p').
Proof.
  intros Hd. induction 1 as [|[k1 g] [k2 g'] a a' (Hk & HPg) _ IH]; cbn [map]; [constructor|].
  cbn [fst snd] in *. subst k2. constructor; [|exact IH]. cbn [fst snd]. split; [reflexivity|].
  pose proof (drel_lookup done done' k1 Hd) as L.
  destruct (lookup k1 done), (lookup k1 done'); try contradiction; [exact L | exact HPg].
Qed.

Lemma resolve_program_perm_ok p p' r :
  program_perm p p' -> resolve_program p = Ok r ->
  exists r', resolve_program p' = Ok r' /\ program_perm r r'.
Proof.
  intros HP H. unfold resolve_program in *.
  destruct HP as [|[mainfn mf] [mainfn' mf'] l l' (Hk & HPm) HPl].
  - injection H as <-. exists []. split; [reflexivity | constructor].
  - cbn [fst] in Hk. subst mainfn'.
    assert (HP : program_perm ((mainfn, mf) :: l) ((mainfn, mf') :: l')) by (constructor; auto).
    set (p := (mainfn, mf) :: l) in *. set (p' := (mainfn, mf') :: l') in *.
    inv_bind H. injection H as <-. rename x into done.
    assert (Hlen : length p = length p') by (eapply Forall2_len; exact HP).
    rewrite Hlen in E. destruct (resolve_rec_perm p p' HP _ [] [] mainfn done (Forall2_nil _) E) as (done' & E' & Hd).
    rewrite E'. cbn [bind]. eexists. split; [reflexivity|].
    exact (map_done_perm done done' Hd p p' HP).
Qed.

(* the outcome of resolution does not depend on the order of the definitions: permuting
   the definitions of any files (per kind: the AST keeps one list per kind) permutes
   the resolved definitions the same way and changes nothing else; and it fails on
   the one exactly when it fails on the other *)
Theorem resolve_perm p p' :
  program_perm p p' ->
  match resolve_program p, resolve_program p' with
  | Ok r, Ok r' => program_perm r r'
  | Error _, Error _ => True
  | _, _ => False
  end.
Proof.
  intros HP. destruct (resolve_program p) as [r|e] eqn:E.
  - destruct (resolve_program_perm_ok p p' r HP E) as (r' & -> & Pr). exact Pr.
  - destruct (resolve_program p') as [r'|e'] eqn:E'; [|exact I].
    destruct (resolve_program_perm_ok p' p r' (program_perm_sym _ _ HP) E') as (r2 & E2 & _). congruence.
Qed.
