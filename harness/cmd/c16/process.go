package main

// Process-level checks of the thorough tier:
//   - the `trimmer` binary with -r / -o / -m / -p on generated trees, its output tree
//     parsed again and compared (per file, per kind, names in order) with what
//     trim.TrimAST leaves in-process for the same program and configuration;
//   - trim.TrimBatchContentWithConfig (the content-map API) likewise;
//   - `thriftgo -g go:trim_idl` on programs meant for the Go backend: exit status 0 and
//     the generated packages compile.

import (
	"bytes"
	"fmt"
	"os"
	"os/exec"
	"path/filepath"
	"strings"

	"github.com/cloudwego/thriftgo/tool/trimmer/trim"

	"verif/harness/rng"
)

func goEnv() []string {
	return append(os.Environ(), "GOFLAGS=-mod=mod", "GOPROXY=off", "GOSUMDB=off", "GOTOOLCHAIN=local")
}

func runIn(dir string, env []string, name string, args ...string) (string, error) {
	cmd := exec.Command(name, args...)
	cmd.Dir = dir
	cmd.Env = env
	var buf bytes.Buffer
	cmd.Stdout, cmd.Stderr = &buf, &buf
	err := cmd.Run()
	return buf.String(), err
}

// inProcess returns the summary TrimAST leaves for the program in dir.
func inProcess(dir string, cfg Config) (sum []string, code int, err error) {
	old, _ := os.Getwd()
	if err := os.Chdir(dir); err != nil {
		return nil, 0, err
	}
	defer os.Chdir(old)
	ast, err := load("main.thrift")
	if err != nil {
		return nil, 0, err
	}
	tb := buildTables(ast, cfg)
	code, _ = runTrim(ast, cfg, tb.anyBad)
	return summary(ast), code, nil
}

func parsedSummary(dir string) ([]string, error) {
	old, _ := os.Getwd()
	if err := os.Chdir(dir); err != nil {
		return nil, err
	}
	defer os.Chdir(old)
	ast, err := load("main.thrift")
	if err != nil {
		return nil, err
	}
	return summary(ast), nil
}

func sameSummary(a, b []string) bool {
	if len(a) != len(b) {
		return false
	}
	for i := range a {
		if a[i] != b[i] {
			return false
		}
	}
	return true
}

func processChecks(r *rng.R, scratch, trimmerBin, thriftgoBin, repo string) []ProcResult {
	var out []ProcResult
	add := func(kind, name string, ok bool, detail string) {
		if len(detail) > 3000 {
			detail = detail[:3000]
		}
		out = append(out, ProcResult{Kind: kind, Name: name, OK: ok, Detail: detail})
	}
	// ---------------- trimmer binary and content-map API
	for i := 0; i < 30; i++ {
		g := &gen{r: r.Fork()}
		p := g.newProgram(g.r.Range(2, 5))
		cfgs := configsFor(g.r, p, 3)
		for ci, cfg := range cfgs {
			// the binary has no flags for these
			if cfg.MatchGoName != nil || cfg.NoComment != nil || len(cfg.PreserveStructs) > 0 || len(cfg.PreservedFiles) > 0 {
				continue
			}
			name := fmt.Sprintf("prog%d/cfg%d %s", i, ci, cfg.label())
			root, _ := os.MkdirTemp(scratch, "bin")
			src := filepath.Join(root, "src")
			if err := writeTree(src, p.texts); err != nil {
				add("trimmer-binary", name, false, err.Error())
				continue
			}
			want, code, err := inProcess(src, cfg)
			if err != nil {
				os.RemoveAll(root)
				continue // rejected by the front end: nothing to compare
			}
			args := []string{"-r", ".", "-o", filepath.Join(root, "out")}
			for _, m := range cfg.Methods {
				args = append(args, "-m", m)
			}
			if cfg.Preserve != nil {
				args = append(args, "-p", fmt.Sprint(*cfg.Preserve))
			}
			args = append(args, "main.thrift")
			log, err := runIn(src, os.Environ(), trimmerBin, args...)
			switch {
			case code != errNone:
				add("trimmer-binary", name, err != nil, "in-process trimming failed, the binary must fail too\n"+log)
			case err != nil:
				add("trimmer-binary", name, false, "exit: "+err.Error()+"\n"+log)
			default:
				got, perr := parsedSummary(filepath.Join(root, "out"))
				if perr != nil {
					add("trimmer-binary", name, false, "output tree does not pass the front end: "+perr.Error())
				} else {
					add("trimmer-binary", name, sameSummary(got, want), "binary:\n"+strings.Join(got, "\n")+"\nin-process:\n"+strings.Join(want, "\n"))
				}
			}
			// content-map API
			if code == errNone {
				arg := trimArg(nil, cfg)
				func() {
					old, _ := os.Getwd()
					os.Chdir(src)
					defer os.Chdir(old)
					defer func() {
						if rec := recover(); rec != nil {
							add("trim-batch-content", name, false, fmt.Sprint("panic: ", rec))
						}
					}()
					res, err := trim.TrimBatchContentWithConfig("main.thrift", p.texts, *arg)
					if err != nil {
						add("trim-batch-content", name, false, err.Error())
						return
					}
					dir2 := filepath.Join(root, "batch")
					if err := writeTree(dir2, res); err != nil {
						add("trim-batch-content", name, false, err.Error())
						return
					}
					got, perr := parsedSummary(dir2)
					if perr != nil {
						add("trim-batch-content", name, false, "output does not pass the front end: "+perr.Error())
						return
					}
					add("trim-batch-content", name, sameSummary(got, want), "api:\n"+strings.Join(got, "\n")+"\nin-process:\n"+strings.Join(want, "\n"))
				}()
			}
			os.RemoveAll(root)
		}
	}
	// ---------------- thriftgo -g go:trim_idl, generated code compiles
	if thriftgoBin == "" {
		return out
	}
	mod := filepath.Join(scratch, "mod")
	os.MkdirAll(mod, 0o755)
	gomod := "module c16gen\n\ngo 1.18\n\nrequire (\n\tgithub.com/apache/thrift v0.13.0\n\tgithub.com/cloudwego/thriftgo v0.0.0\n)\n\nreplace github.com/cloudwego/thriftgo => " + repo + "\n"
	os.WriteFile(filepath.Join(mod, "go.mod"), []byte(gomod), 0o644)
	if sum, err := os.ReadFile(filepath.Join(repo, "go.sum")); err == nil {
		os.WriteFile(filepath.Join(mod, "go.sum"), sum, 0o644)
	}
	for i := 0; i < 12; i++ {
		g := &gen{r: r.Fork(), compileSafe: true}
		p := g.newProgram(g.r.Range(1, 4))
		name := fmt.Sprintf("gen%d", i)
		src := filepath.Join(scratch, "idl", name)
		if err := writeTree(src, p.texts); err != nil {
			continue
		}
		// namespaces keep the packages of different programs apart ("main" would be package main)
		for fn, text := range p.texts {
			base := strings.TrimSuffix(filepath.Base(fn), ".thrift")
			os.WriteFile(filepath.Join(src, filepath.FromSlash(fn)), []byte("namespace go "+name+"."+base+"x\n"+text), 0o644)
		}
		// the untrimmed program first: one the backend rejects, or whose code does not compile, says
		// nothing about trimming
		if log, err := runIn(src, os.Environ(), thriftgoBin, "-r", "-g", "go:package_prefix=c16gen/plain", "-o", filepath.Join(mod, "plain"), "main.thrift"); err != nil {
			add("trim_idl-skipped", name, true, "backend rejects the untrimmed program: "+log)
			continue
		}
		if log, err := runIn(mod, goEnv(), "go", "build", "./plain/"+name+"/..."); err != nil {
			add("trim_idl-skipped", name, true, "code of the untrimmed program does not compile: "+log)
			continue
		}
		log, err := runIn(src, os.Environ(), thriftgoBin, "-r", "-g", "go:trim_idl,package_prefix=c16gen/gen", "-o", filepath.Join(mod, "gen"), "main.thrift")
		if err != nil {
			add("trim_idl-generate", name, false, log)
			continue
		}
		add("trim_idl-generate", name, true, "")
		log, err = runIn(mod, goEnv(), "go", "build", "./gen/"+name+"/...")
		add("trim_idl-compile", name, err == nil, log)
	}
	return out
}
