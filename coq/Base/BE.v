(* Base/BE.v — big-endian integers over Z and two's complement views.
   Shared by every wire-level model (binary protocol, fastgo codec, message framing).

     put_be n z        n bytes, most significant first, of z mod 256^n (any z : Z)
     get_be n bs       unsigned reading of the first n bytes
     get_s  n bs       signed (two's complement) reading of the first n bytes
     wrap bits z       what Go's intN(z) conversion does; wrap8 / wrap16 / wrap32 / wrap64
     to_u / to_s       unsigned <-> signed view of a bits-wide pattern
     in_range n z      0 <= z < 256^n          in_srange n z   -2^(8n-1) <= z < 2^(8n-1)

   Stdlib only; nothing assumed. *)
From Coq Require Import List ZArith NArith Lia Bool Znumtheory.
From Coq.Strings Require Import Byte.
From Verif Require Import Base.Bytes.
Import ListNotations.
Open Scope Z_scope.

Definition byte_of_Z (z : Z) : byte :=
  match Byte.of_N (Z.to_N (z mod 256)) with Some b => b | None => x00 end.
Definition Z_of_byte (b : byte) : Z := Z.of_N (Byte.to_N b).

Lemma Z_of_byte_of_Z z : Z_of_byte (byte_of_Z z) = z mod 256.
Proof.
  unfold Z_of_byte, byte_of_Z.
  assert (H: 0 <= z mod 256 < 256) by (apply Z.mod_pos_bound; lia).
  destruct (Byte.of_N (Z.to_N (z mod 256))) eqn:E.
  - apply Byte.to_of_N in E. rewrite E. lia.
  - apply Byte.of_N_None_iff in E. lia.
Qed.

Lemma Z_of_byte_range b : 0 <= Z_of_byte b < 256.
Proof. unfold Z_of_byte. pose proof (Byte.to_N_bounded b). lia. Qed.

Lemma byte_of_Z_of_byte b : byte_of_Z (Z_of_byte b) = b.
Proof.
  unfold byte_of_Z. rewrite Z.mod_small by apply Z_of_byte_range.
  unfold Z_of_byte. rewrite N2Z.id, Byte.of_to_N. reflexivity.
Qed.

Fixpoint put_be (n : nat) (z : Z) : bytes :=
  match n with O => [] | S k => byte_of_Z (z / 256 ^ Z.of_nat k) :: put_be k z end.
Fixpoint get_be_acc (n : nat) (acc : Z) (bs : bytes) : option (Z * bytes) :=
  match n with
  | O => Some (acc, bs)
  | S k => match bs with [] => None | b :: r => get_be_acc k (acc * 256 + Z_of_byte b) r end
  end.
Definition get_be n bs := get_be_acc n 0 bs.

Lemma pow256_pos n : 0 < 256 ^ Z.of_nat n.
Proof. apply Z.pow_pos_nonneg; lia. Qed.

Lemma div_pow_mod_succ z n :
  (z mod 256 ^ Z.of_nat (S n)) / 256 ^ Z.of_nat n mod 256 = z / 256 ^ Z.of_nat n mod 256.
Proof.
  rewrite Nat2Z.inj_succ, Z.pow_succ_r by lia.
  pose proof (pow256_pos n) as HQ. set (Q := 256 ^ Z.of_nat n) in *.
  rewrite (Z.mul_comm 256 Q). rewrite Z.rem_mul_r by lia.
  rewrite (Z.mul_comm Q), Z.div_add by lia.
  rewrite (Z.div_small (z mod Q)) by (apply Z.mod_pos_bound; lia).
  rewrite Z.add_0_l, Z.mod_mod by lia. reflexivity.
Qed.

Lemma put_be_mod n : forall z, put_be n z = put_be n (z mod 256 ^ Z.of_nat n).
Proof.
  induction n as [|n IH]; intro z; [reflexivity|].
  cbn [put_be]. f_equal.
  - unfold byte_of_Z. rewrite div_pow_mod_succ. reflexivity.
  - rewrite Nat2Z.inj_succ, Z.pow_succ_r by lia.
    pose proof (pow256_pos n) as HQ. set (Q := 256 ^ Z.of_nat n) in *.
    rewrite (IH z), (IH (z mod (256 * Q))). f_equal.
    apply Zmod_div_mod; try lia. exists 256. lia.
Qed.

Lemma get_put_acc n : forall z acc r, 0 <= z < 256 ^ Z.of_nat n ->
  get_be_acc n acc (put_be n z ++ r) = Some (acc * 256 ^ Z.of_nat n + z, r).
Proof.
  induction n as [|n IH]; intros z acc r Hz.
  - cbn in *. f_equal. f_equal. lia.
  - cbn [put_be get_be_acc app]. rewrite Z_of_byte_of_Z.
    rewrite Nat2Z.inj_succ, Z.pow_succ_r in * by lia.
    pose proof (pow256_pos n) as HP. set (P := 256 ^ Z.of_nat n) in *.
    assert (Hq: 0 <= z / P < 256).
    { split. apply Z.div_pos; lia. apply Z.div_lt_upper_bound; lia. }
    rewrite (Z.mod_small (z / P)) by lia.
    rewrite put_be_mod. fold P. rewrite IH by (apply Z.mod_pos_bound; lia).
    f_equal. f_equal. pose proof (Z.div_mod z P). nia.
Qed.

Lemma get_put n z r : 0 <= z < 256 ^ Z.of_nat n -> get_be n (put_be n z ++ r) = Some (z, r).
Proof. intro H. unfold get_be. rewrite get_put_acc by assumption. f_equal. Qed.

Lemma put_be_length n z : length (put_be n z) = n.
Proof. induction n; cbn; congruence. Qed.

(* ---- what get_be does on arbitrary input: consumes exactly n bytes, result in range ---- *)

Lemma get_be_acc_split n : forall acc bs z r,
  get_be_acc n acc bs = Some (z, r) ->
  exists used, bs = used ++ r /\ length used = n /\
    forall r', get_be_acc n acc (used ++ r') = Some (z, r').
Proof.
  induction n as [|n IH]; intros acc bs z r H; cbn in H.
  - injection H as <- <-. exists []. repeat split.
  - destruct bs as [|b bs]; [discriminate|].
    destruct (IH _ _ _ _ H) as (u & -> & Hl & Hu).
    exists (b :: u). cbn. repeat split; [congruence | exact Hu].
Qed.

Lemma get_be_split n bs z r : get_be n bs = Some (z, r) ->
  exists used, bs = used ++ r /\ length used = n /\ forall r', get_be n (used ++ r') = Some (z, r').
Proof. apply get_be_acc_split. Qed.

Lemma get_be_acc_None n : forall acc bs, get_be_acc n acc bs = None <-> (length bs < n)%nat.
Proof.
  induction n as [|n IH]; intros acc bs; cbn.
  - split; [discriminate | lia].
  - destruct bs as [|b bs]; cbn; [split; [lia | reflexivity]|].
    rewrite IH. lia.
Qed.

Lemma get_be_None n bs : get_be n bs = None <-> (length bs < n)%nat.
Proof. apply get_be_acc_None. Qed.

Lemma get_be_acc_range n : forall acc bs z r, 0 <= acc ->
  get_be_acc n acc bs = Some (z, r) -> acc * 256 ^ Z.of_nat n <= z < (acc + 1) * 256 ^ Z.of_nat n.
Proof.
  induction n as [|n IH]; intros acc bs z r Ha H; cbn in H.
  - injection H as <- _. cbn. lia.
  - destruct bs as [|b bs]; [discriminate|].
    pose proof (Z_of_byte_range b) as Hb.
    apply IH in H; [|lia].
    rewrite Nat2Z.inj_succ, Z.pow_succ_r by lia.
    pose proof (pow256_pos n). nia.
Qed.

Lemma get_be_range n bs z r : get_be n bs = Some (z, r) -> 0 <= z < 256 ^ Z.of_nat n.
Proof. intro H. apply get_be_acc_range in H; lia. Qed.

(* reading back what was read: put_be of the value gives the consumed bytes *)
Lemma put_get_acc n : forall acc bs z r,
  get_be_acc n acc bs = Some (z, r) -> 0 <= acc ->
  bs = put_be n (z - acc * 256 ^ Z.of_nat n) ++ r.
Proof.
  induction n as [|n IH]; intros acc bs z r H Ha; cbn in H.
  - injection H as <- <-. reflexivity.
  - destruct bs as [|b bs]; [discriminate|].
    pose proof (Z_of_byte_range b) as Hb.
    assert (Hacc : 0 <= acc * 256 + Z_of_byte b) by lia.
    pose proof (get_be_acc_range _ _ _ _ _ Hacc H) as Hr.
    apply IH in H; [|lia]. cbn [put_be app].
    rewrite Nat2Z.inj_succ, Z.pow_succ_r in * by lia.
    pose proof (pow256_pos n) as HP. set (P := 256 ^ Z.of_nat n) in *.
    f_equal.
    + replace ((z - acc * (256 * P)) / P) with (Z_of_byte b).
      * symmetry. apply byte_of_Z_of_byte.
      * apply Z.div_unique with (r := z - (acc * 256 + Z_of_byte b) * P); [left; nia | nia].
    + rewrite H at 1. f_equal.
      rewrite (put_be_mod n (z - acc * (256 * P))). rewrite (put_be_mod n (z - _ * P)). fold P.
      f_equal. replace (z - acc * (256 * P)) with (z - (acc * 256 + Z_of_byte b) * P + Z_of_byte b * P) by lia.
      rewrite Z.mod_add by lia. reflexivity.
Qed.

Lemma put_get n bs z r : get_be n bs = Some (z, r) -> bs = put_be n z ++ r.
Proof. intro H. apply put_get_acc in H; [|lia]. rewrite H at 1. do 2 f_equal. lia. Qed.

(* ---- two's complement ---- *)

Definition wrap (bits : Z) (z : Z) : Z := (z + 2 ^ (bits - 1)) mod 2 ^ bits - 2 ^ (bits - 1).
Definition wrap8 := wrap 8.
Definition wrap16 := wrap 16.
Definition wrap32 := wrap 32.
Definition wrap64 := wrap 64.

Definition to_u (bits z : Z) : Z := z mod 2 ^ bits.
Definition to_s (bits u : Z) : Z := if u <? 2 ^ (bits - 1) then u else u - 2 ^ bits.

Definition in_range (n : nat) (z : Z) := 0 <= z < 256 ^ Z.of_nat n.
Definition in_srange (n : nat) (z : Z) :=
  - (256 ^ Z.of_nat n / 2) <= z < 256 ^ Z.of_nat n / 2.
Definition in_srangeb (n : nat) (z : Z) : bool :=
  (- (256 ^ Z.of_nat n / 2) <=? z) && (z <? 256 ^ Z.of_nat n / 2).

Lemma in_srangeb_spec n z : in_srangeb n z = true <-> in_srange n z.
Proof. unfold in_srangeb, in_srange. rewrite andb_true_iff, Z.leb_le, Z.ltb_lt. tauto. Qed.

Lemma pow2_split bits : 0 < bits -> 2 ^ bits = 2 * 2 ^ (bits - 1).
Proof. intro H. rewrite <- Z.pow_succ_r by lia. f_equal. lia. Qed.

Lemma wrap_range bits z : 0 < bits -> - 2 ^ (bits - 1) <= wrap bits z < 2 ^ (bits - 1).
Proof.
  intro H. unfold wrap. pose proof (pow2_split bits H).
  assert (0 < 2 ^ (bits - 1)) by (apply Z.pow_pos_nonneg; lia).
  pose proof (Z.mod_pos_bound (z + 2 ^ (bits - 1)) (2 ^ bits)). lia.
Qed.

Lemma wrap_small bits z : 0 < bits -> - 2 ^ (bits - 1) <= z < 2 ^ (bits - 1) -> wrap bits z = z.
Proof.
  intros H Hz. unfold wrap. pose proof (pow2_split bits H).
  rewrite Z.mod_small by lia. lia.
Qed.

Lemma wrap_idem bits z : 0 < bits -> wrap bits (wrap bits z) = wrap bits z.
Proof. intro H. apply wrap_small; [assumption | apply wrap_range; assumption]. Qed.

Lemma wrap_mod bits z : 0 < bits -> wrap bits z mod 2 ^ bits = z mod 2 ^ bits.
Proof.
  intro H. unfold wrap. pose proof (pow2_split bits H).
  assert (0 < 2 ^ (bits - 1)) by (apply Z.pow_pos_nonneg; lia).
  rewrite Zminus_mod, Zmod_mod, <- Zminus_mod. f_equal. lia.
Qed.

Lemma to_s_to_u bits z : 0 < bits -> to_s bits (to_u bits z) = wrap bits z.
Proof.
  intro H. unfold to_s, to_u, wrap. pose proof (pow2_split bits H) as HP.
  assert (HQ : 0 < 2 ^ (bits - 1)) by (apply Z.pow_pos_nonneg; lia).
  set (Q := 2 ^ (bits - 1)) in *. rewrite HP.
  pose proof (Z.mod_pos_bound z (2 * Q) ltac:(lia)) as Hm.
  assert (E : (z + Q) mod (2 * Q) = (z mod (2 * Q) + Q) mod (2 * Q))
    by (rewrite Zplus_mod_idemp_l; reflexivity).
  rewrite E.
  destruct (Z.ltb_spec (z mod (2 * Q)) Q).
  - rewrite (Z.mod_small (z mod (2 * Q) + Q)) by lia. lia.
  - replace (z mod (2 * Q) + Q) with ((z mod (2 * Q) - Q) + 1 * (2 * Q)) by lia.
    rewrite Z.mod_add by lia. rewrite (Z.mod_small (z mod (2 * Q) - Q)) by lia. lia.
Qed.

Lemma to_u_to_s bits u : 0 < bits -> 0 <= u < 2 ^ bits -> to_u bits (to_s bits u) = u.
Proof.
  intros H Hu. unfold to_s, to_u. destruct (Z.ltb_spec u (2 ^ (bits - 1))).
  - apply Z.mod_small. lia.
  - replace (u - 2 ^ bits) with (u + (-1) * 2 ^ bits) by lia.
    rewrite Z.mod_add by lia. apply Z.mod_small. lia.
Qed.

Lemma pow256_bits n : 256 ^ Z.of_nat n = 2 ^ (8 * Z.of_nat n).
Proof. rewrite Z.pow_mul_r by lia. reflexivity. Qed.

Lemma half_pow256 n : (0 < n)%nat -> 256 ^ Z.of_nat n / 2 = 2 ^ (8 * Z.of_nat n - 1).
Proof.
  intro H. rewrite pow256_bits, (pow2_split (8 * Z.of_nat n)) by lia.
  rewrite Z.mul_comm, Z.div_mul by lia. reflexivity.
Qed.

(* signed reading *)
Definition get_s (n : nat) (bs : bytes) : option (Z * bytes) :=
  match get_be n bs with
  | Some (u, r) => Some (to_s (8 * Z.of_nat n) u, r)
  | None => None
  end.

Lemma get_s_put n z r : (0 < n)%nat -> in_srange n z -> get_s n (put_be n z ++ r) = Some (z, r).
Proof.
  intros Hn Hz. unfold get_s, in_srange in *. rewrite half_pow256 in Hz by assumption.
  rewrite put_be_mod.
  rewrite get_put by (apply Z.mod_pos_bound; apply pow256_pos).
  rewrite pow256_bits. fold (to_u (8 * Z.of_nat n) z).
  rewrite to_s_to_u by lia. rewrite wrap_small by lia. reflexivity.
Qed.

Lemma get_s_split n bs z r : get_s n bs = Some (z, r) ->
  exists used, bs = used ++ r /\ length used = n /\ forall r', get_s n (used ++ r') = Some (z, r').
Proof.
  unfold get_s. destruct (get_be n bs) as [[u r0]|] eqn:E; [|discriminate].
  intros [= <- <-]. destruct (get_be_split _ _ _ _ E) as (used & -> & Hl & Hu).
  exists used. repeat split; [assumption|]. intro r'. rewrite Hu. reflexivity.
Qed.

Lemma get_s_None n bs : get_s n bs = None <-> (length bs < n)%nat.
Proof.
  unfold get_s. destruct (get_be n bs) as [[u r0]|] eqn:E.
  - split; [discriminate|]. intro H. apply get_be_None in H. congruence.
  - apply get_be_None in E. tauto.
Qed.

Lemma get_s_range n bs z r : (0 < n)%nat -> get_s n bs = Some (z, r) -> in_srange n z.
Proof.
  intros Hn. unfold get_s. remember (8 * Z.of_nat n) as bits eqn:Hbits.
  destruct (get_be n bs) as [[u r0]|] eqn:E; [|discriminate].
  intros [= <- <-]. apply get_be_range in E. unfold in_srange. rewrite half_pow256 by assumption.
  rewrite pow256_bits in E. rewrite <- Hbits in *. unfold to_s.
  pose proof (pow2_split bits ltac:(lia)).
  assert (0 < 2 ^ (bits - 1)) by (apply Z.pow_pos_nonneg; lia).
  destruct (Z.ltb_spec u (2 ^ (bits - 1))); lia.
Qed.

(* the bytes consumed by a signed read are put_be of the value read *)
Lemma put_get_s n bs z r : (0 < n)%nat -> get_s n bs = Some (z, r) -> bs = put_be n z ++ r.
Proof.
  intros Hn. unfold get_s. remember (8 * Z.of_nat n) as bits eqn:Hbits.
  destruct (get_be n bs) as [[u r0]|] eqn:E; [|discriminate].
  intros [= <- <-]. pose proof (get_be_range _ _ _ _ E) as Hr. apply put_get in E. rewrite E at 1. f_equal.
  rewrite (put_be_mod n (to_s _ _)). rewrite pow256_bits in *. rewrite <- Hbits in *.
  fold (to_u bits (to_s bits u)). rewrite to_u_to_s by lia. reflexivity.
Qed.

(* concrete ranges, convenient for lia *)
Lemma in_srange_1 z : in_srange 1 z <-> -128 <= z < 128.
Proof. unfold in_srange. replace (256 ^ Z.of_nat 1%nat / 2) with 128 by reflexivity. lia. Qed.
Lemma in_srange_2 z : in_srange 2 z <-> -32768 <= z < 32768.
Proof. unfold in_srange. replace (256 ^ Z.of_nat 2%nat / 2) with 32768 by reflexivity. lia. Qed.
Lemma in_srange_4 z : in_srange 4 z <-> -2147483648 <= z < 2147483648.
Proof. unfold in_srange. replace (256 ^ Z.of_nat 4%nat / 2) with 2147483648 by reflexivity. lia. Qed.
Lemma in_srange_8 z : in_srange 8 z <-> -9223372036854775808 <= z < 9223372036854775808.
Proof. unfold in_srange. replace (256 ^ Z.of_nat 8%nat / 2) with 9223372036854775808 by reflexivity. lia. Qed.

Lemma wrap32_in_srange z : in_srange 4 (wrap32 z).
Proof.
  apply in_srange_4. assert (H : 0 < 32) by lia. pose proof (wrap_range 32 z H) as W.
  replace (2 ^ (32 - 1)) with 2147483648 in W by reflexivity. unfold wrap32. lia.
Qed.
Lemma wrap32_small z : in_srange 4 z -> wrap32 z = z.
Proof.
  intro H. destruct (in_srange_4 z) as [F _]. apply F in H. apply wrap_small; [lia|].
  replace (2 ^ (32 - 1)) with 2147483648 by reflexivity. lia.
Qed.
