package main

// The corpus program: hand-written shapes the property text names and the minimised triggers of the
// defects found while building the check. It is compiled and exercised before the random programs.
//
//   - fields declared through typedefs of map / list / set / struct / binary / enum-list types, also
//     from an included file (typedef'd map used to panic the generator, typedef'd list of a fixed-size
//     element and typedef'd container of enums used to emit code that does not compile)
//   - binary map keys (FastRead used to emit code that does not compile)
//   - optional fields with a default of every base type; optional binary with a non-empty default and
//     a nil value (FastAppend used to drop the field, so readers saw the default instead of empty)
//   - struct map keys, containers nested 4 deep, enums inside containers
//   - structs with 5, 8, 9, 12, 15, 16, 17, 24 and 32 required fields of mixed types: every code shape of the
//     required-field bit set (bitset.go GenIfNotSet: one word below / above half, several words, last word
//     full, exactly on a word boundary); the producer deletes EVERY required field of them in turn
//   - Ov / OvIn: a single corrupted type byte sends a 265 byte nested struct through gopkg's Skip as a
//     map<string,i64>; Skip reports 268 bytes and the generated b[off:] panics (recorded finding)

import (
	"fmt"
	"math"

	"verif/harness/schemagen"
	"verif/harness/valgen"
)

func ty(kind string) *schemagen.Type           { return &schemagen.Type{Kind: kind} }
func tyEnum(q string) *schemagen.Type          { return &schemagen.Type{Kind: "enum", Name: q} }
func tyStruct(q string) *schemagen.Type        { return &schemagen.Type{Kind: "struct", Name: q} }
func tyList(e *schemagen.Type) *schemagen.Type { return &schemagen.Type{Kind: "list", Elem: e} }
func tySet(e *schemagen.Type) *schemagen.Type  { return &schemagen.Type{Kind: "set", Elem: e} }
func tyMap(k, v *schemagen.Type) *schemagen.Type {
	return &schemagen.Type{Kind: "map", Key: k, Elem: v}
}
func via(t *schemagen.Type, name string) *schemagen.Type {
	c := *t
	c.Via = name
	return &c
}

func fld(id int, name, req string, t *schemagen.Type, def *schemagen.Lit) *schemagen.Field {
	rt := req
	if req == "default" {
		rt = ""
	}
	return &schemagen.Field{ID: id, Name: name, Req: req, ReqText: rt, Type: t, Default: def}
}

func litInt(i int64) *schemagen.Lit  { return &schemagen.Lit{Kind: "int", Int: i} }
func litStr(s string) *schemagen.Lit { return &schemagen.Lit{Kind: "string", Str: s} }
func litBin(s string) *schemagen.Lit { return &schemagen.Lit{Kind: "binary", Str: s} }
func litBool(b bool) *schemagen.Lit  { return &schemagen.Lit{Kind: "bool", Bool: b} }
func litDbl(f float64) *schemagen.Lit {
	return &schemagen.Lit{Kind: "double", Bits: math.Float64bits(f)}
}

func corpusProgram(key string) *schemagen.Program {
	// file b (included)
	en1 := &schemagen.Enum{File: "b", Name: "En1", Values: []schemagen.EnumValue{{Name: "EN1_A", Value: 1}, {Name: "EN1_B", Value: 5}, {Name: "EN1_C", Value: -3}}}
	in := &schemagen.Struct{File: "b", Name: "In", Kind: "struct", Fields: []*schemagen.Field{
		fld(1, "a", "default", ty("i32"), nil),
		fld(2, "e", "optional", tyEnum("b.En1"), nil),
		fld(3, "r", "required", ty("string"), nil),
	}}
	tdEnL := &schemagen.Typedef{File: "b", Name: "EnL", Type: tyList(tyEnum("b.En1"))}
	tdInM := &schemagen.Typedef{File: "b", Name: "InM", Type: tyMap(ty("string"), tyStruct("b.In"))}
	tdIn2 := &schemagen.Typedef{File: "b", Name: "In2", Type: tyStruct("b.In")}
	tdBinB := &schemagen.Typedef{File: "b", Name: "BinB", Type: ty("binary")}
	fb := &schemagen.File{Name: "b", Namespace: key + ".bpkg", Defs: []*schemagen.Def{
		{Enum: en1}, {Struct: in}, {Typedef: tdEnL}, {Typedef: tdInM}, {Typedef: tdIn2}, {Typedef: tdBinB},
	}}

	// file a (main)
	ea := &schemagen.Enum{File: "a", Name: "Ea", Values: []schemagen.EnumValue{{Name: "EA_X", Value: 0}, {Name: "EA_Y", Value: 2}, {Name: "EA_Z", Value: math.MaxInt32}}}
	k := &schemagen.Struct{File: "a", Name: "K", Kind: "struct", Fields: []*schemagen.Field{
		fld(1, "x", "default", ty("i32"), nil),
		fld(2, "y", "optional", ty("string"), nil),
	}}
	tdIdList := &schemagen.Typedef{File: "a", Name: "IdList", Type: tyList(ty("i64"))}
	tdM1 := &schemagen.Typedef{File: "a", Name: "M1", Type: tyMap(ty("i32"), ty("string"))}
	tdIdList2 := &schemagen.Typedef{File: "a", Name: "IdList2", Type: via(tyList(ty("i64")), "a.IdList")}
	tdES := &schemagen.Typedef{File: "a", Name: "ES", Type: tySet(tyEnum("a.Ea"))}
	tdKK := &schemagen.Typedef{File: "a", Name: "KK", Type: tyStruct("a.K")}
	tdBin := &schemagen.Typedef{File: "a", Name: "Bin", Type: ty("binary")}
	tdMEK := &schemagen.Typedef{File: "a", Name: "MEK", Type: tyMap(tyEnum("a.Ea"), via(tyStruct("a.K"), "a.KK"))}
	u := &schemagen.Struct{File: "a", Name: "U", Kind: "union", Fields: []*schemagen.Field{
		{ID: 1, Name: "a", Req: "optional", Type: ty("i32")},
		{ID: 2, Name: "b", Req: "optional", Type: ty("string")},
		{ID: 3, Name: "k", Req: "optional", Type: tyStruct("a.K")},
		{ID: 4, Name: "l", Req: "optional", Type: via(tyList(ty("i64")), "a.IdList")},
	}}
	tdefs := &schemagen.Struct{File: "a", Name: "Tdefs", Kind: "struct", Fields: []*schemagen.Field{
		fld(1, "m", "default", via(tdM1.Type, "a.M1"), nil),
		fld(2, "l", "default", via(tdIdList.Type, "a.IdList"), nil),
		fld(3, "l2", "optional", via(tyList(ty("i64")), "a.IdList2"), nil),
		fld(4, "es", "required", via(tdES.Type, "a.ES"), nil),
		fld(5, "kk", "default", via(tdKK.Type, "a.KK"), nil),
		fld(6, "iel", "default", via(tdEnL.Type, "b.EnL"), nil),
		fld(7, "ism", "optional", via(tdInM.Type, "b.InM"), nil),
		fld(8, "is2", "optional", via(tdIn2.Type, "b.In2"), nil),
		fld(9, "mek", "default", via(tdMEK.Type, "a.MEK"), nil),
		fld(10, "lm", "default", tyList(via(tdM1.Type, "a.M1")), nil),
		fld(11, "lll", "default", tyList(tyList(via(tyList(ty("i64")), "a.IdList2"))), nil),
		fld(12, "mbb", "default", tyMap(via(ty("binary"), "a.Bin"), via(ty("binary"), "b.BinB")), nil),
		fld(13, "ml", "default", tyMap(ty("string"), via(tdIdList.Type, "a.IdList")), nil),
		fld(14, "sm", "default", tySet(via(tdM1.Type, "a.M1")), nil),
	}}
	defs := &schemagen.Struct{File: "a", Name: "Defs", Kind: "struct", Fields: []*schemagen.Field{
		fld(1, "ob", "optional", ty("binary"), litBin("abc")),
		fld(2, "ob2", "optional", via(ty("binary"), "a.Bin"), litBin("zz")),
		fld(3, "ob3", "optional", ty("binary"), litBin("")),
		fld(4, "os", "optional", ty("string"), litStr("def")),
		fld(5, "od", "optional", ty("double"), litDbl(1.5)),
		fld(6, "obool", "optional", ty("bool"), litBool(true)),
		fld(7, "oe", "optional", tyEnum("a.Ea"), &schemagen.Lit{Kind: "int", Int: 2, Enum: "a.Ea.EA_Y"}),
		fld(8, "oby", "optional", ty("byte"), litInt(-3)),
		fld(9, "oi16", "optional", ty("i16"), litInt(300)),
		fld(10, "oi32", "optional", ty("i32"), litInt(70000)),
		fld(11, "oi64", "optional", ty("i64"), litInt(1<<40)),
		fld(12, "ol", "optional", tyList(ty("i32")), &schemagen.Lit{Kind: "list", List: []*schemagen.Lit{litInt(1), litInt(2)}}),
		fld(13, "om", "optional", tyMap(ty("string"), ty("i64")), &schemagen.Lit{Kind: "map", Map: [][2]*schemagen.Lit{{litStr("k"), litInt(7)}}}),
		fld(14, "ob4", "optional", ty("binary"), nil),
		fld(15, "db", "default", ty("binary"), litBin("dflt")),
		fld(16, "rb", "required", ty("binary"), nil),
		fld(17, "oz", "optional", ty("double"), litDbl(0)),
	}}
	shapes := &schemagen.Struct{File: "a", Name: "Shapes", Kind: "struct", Fields: []*schemagen.Field{
		fld(1, "mbk", "default", tyMap(ty("binary"), ty("i32")), nil),
		fld(2, "mk", "default", tyMap(tyStruct("a.K"), tyList(tyEnum("a.Ea"))), nil),
		fld(3, "deep", "default", tyList(tyMap(ty("i16"), tySet(tyList(ty("double"))))), nil),
		fld(4, "le", "default", tyList(tyEnum("b.En1")), nil),
		fld(5, "me", "default", tyMap(tyEnum("a.Ea"), tyEnum("b.En1")), nil),
		fld(6, "msl", "optional", tyMap(ty("string"), ty("i64")), nil),
		fld(7, "lb", "default", tyList(ty("bool")), nil),
		fld(8, "sby", "default", tySet(ty("byte")), nil),
		fld(9, "un", "optional", tyStruct("a.U"), nil),
		fld(-7, "neg", "optional", ty("i16"), nil),
		fld(32767, "top", "default", ty("bool"), nil),
		fld(2560, "hi", "optional", tyStruct("b.In"), nil),
		fld(11, "lin", "default", tyList(tyStruct("b.In")), nil),
		fld(12, "mdd", "default", tyMap(ty("double"), ty("double")), nil),
	}}
	req := func(name string, n int) *schemagen.Struct {
		s := &schemagen.Struct{File: "a", Name: name, Kind: "struct"}
		kinds := []string{"i32", "bool", "string", "i64", "byte", "double", "i16", "binary"}
		for i := 0; i < n; i++ {
			s.Fields = append(s.Fields, fld(10*(n-i), fmt.Sprintf("r%02d", i), "required", ty(kinds[i%len(kinds)]), nil))
		}
		s.Fields = append(s.Fields, fld(5, "opt", "optional", ty("i32"), nil))
		return s
	}
	ovIn := &schemagen.Struct{File: "a", Name: "OvIn", Kind: "struct", Fields: []*schemagen.Field{
		fld(2560, "s", "default", ty("string"), nil),
	}}
	ov := &schemagen.Struct{File: "a", Name: "Ov", Kind: "struct", Fields: []*schemagen.Field{
		fld(1, "inner", "default", tyStruct("a.OvIn"), nil),
	}}
	small := &schemagen.Struct{File: "a", Name: "Small", Kind: "struct", Fields: []*schemagen.Field{
		fld(1, "a", "default", ty("i32"), nil),
	}}
	fa := &schemagen.File{Name: "a", Namespace: key + ".apkg", Includes: []string{"b"}, Defs: []*schemagen.Def{
		{Enum: ea}, {Struct: k}, {Typedef: tdIdList}, {Typedef: tdM1}, {Typedef: tdIdList2}, {Typedef: tdES},
		{Typedef: tdKK}, {Typedef: tdBin}, {Typedef: tdMEK}, {Struct: u}, {Struct: tdefs}, {Struct: defs}, {Struct: shapes},
		{Struct: req("Req5", 5)}, {Struct: req("Req8", 8)}, {Struct: req("Req9", 9)}, {Struct: req("Req12", 12)}, {Struct: req("Req15", 15)},
		{Struct: req("Req16", 16)}, {Struct: req("Req17", 17)}, {Struct: req("Req24", 24)}, {Struct: req("Req32", 32)}, {Struct: ovIn}, {Struct: ov}, {Struct: small},
	}}
	return &schemagen.Program{Key: key, Files: []*schemagen.File{fa, fb}}
}

// corpusValues: hand-picked values of corpus structs (run in addition to generated ones).
func corpusValues(p *schemagen.Program) map[string][]*valgen.Value {
	out := map[string][]*valgen.Value{}
	// Defs: every optional slot nil / zero (the nil optional binary with a default is the repaired defect),
	// and every slot equal to its default
	defs := p.Struct("a.Defs")
	mk := func(f func(fl *schemagen.Field) *valgen.Value) *valgen.Value {
		var fs []valgen.FieldVal
		for _, fl := range defs.Fields {
			fs = append(fs, valgen.FieldVal{ID: fl.ID, V: f(fl)})
		}
		return valgen.Struct(fs)
	}
	zero := func(fl *schemagen.Field) *valgen.Value {
		switch fl.Type.Kind {
		case "binary", "list", "map", "set":
			if fl.Req == "required" {
				return valgen.Bin([]byte("r"))
			}
			return valgen.Nil()
		case "string":
			return valgen.Str(nil)
		case "double":
			return valgen.Dbl(0)
		case "bool":
			return valgen.Bool(false)
		}
		return valgen.Int(0)
	}
	out["a.Defs"] = append(out["a.Defs"], mk(zero))
	out["a.Defs"] = append(out["a.Defs"], mk(func(fl *schemagen.Field) *valgen.Value {
		if fl.Default != nil {
			return valgen.ValueOfLit(fl.Default)
		}
		if fl.Req == "required" {
			return valgen.Bin([]byte{})
		}
		return valgen.Nil()
	}))
	out["a.Defs"] = append(out["a.Defs"], mk(func(fl *schemagen.Field) *valgen.Value {
		// empty non-nil binaries, NaN and -0 against double defaults
		switch fl.Type.Kind {
		case "binary":
			return valgen.Bin([]byte{})
		case "double":
			if fl.Name == "oz" {
				return valgen.Dbl(0x8000000000000000)
			}
			return valgen.Dbl(0x7ff8000000000000)
		case "list":
			return valgen.List([]*valgen.Value{})
		case "map":
			return valgen.Map([][2]*valgen.Value{})
		case "string":
			return valgen.Str([]byte("def"))
		case "bool":
			return valgen.Bool(true)
		}
		return valgen.ValueOfLit(fl.Default)
	}))
	// Ov: the skip-overrun trigger (see the file comment)
	s := make([]byte, 256)
	s[2] = 0xfa
	out["a.Ov"] = append(out["a.Ov"], valgen.Struct([]valgen.FieldVal{{ID: 1, V: valgen.Struct([]valgen.FieldVal{{ID: 2560, V: valgen.Str(s)}})}}))
	return out
}
