package main

import (
	"encoding/json"
	"fmt"
	"os"
	"os/exec"
	"path/filepath"
	"strings"

	"github.com/cloudwego/thriftgo/parser"

	"verif/harness/coqfmt"
	"verif/harness/gendrv"
	"verif/harness/refldump"
)

// The compiled cases: the real thriftgo binary generates Go code with with_reflection for the
// program (working directory = program root, exactly like the in-process parse, so the Filenames
// agree); the code is compiled together with the generic driver in a scratch module of its own
// (the reflection registry is process-global and keyed by the IDL path: one binary per program),
// and the driver verb c15_dump reports what the generated packages registered.
type compiler struct {
	dir, thriftgo, repo string
	st                  *stats
}

func newCompiler(dir, thriftgo, repo string, st *stats) *compiler {
	os.MkdirAll(dir, 0o755)
	return &compiler{dir: dir, thriftgo: thriftgo, repo: repo, st: st}
}

type drvType struct {
	Kind     string `json:"kind"`
	Name     string `json:"name"`
	HasType  bool   `json:"has_go_type"`
	Own      bool   `json:"own_descriptor"`
	ByGoType bool   `json:"by_go_type"`
	Shared   bool   `json:"go_type_shared"`
	TypeDesc bool   `json:"type_descriptor"`
	Back     bool   `json:"go_type_back"`
	Fields   bool   `json:"fields_ok"`
	Note     string `json:"note,omitempty"`
}

type drvLookup struct {
	Kind  string     `json:"kind"`
	Name  string     `json:"name"`
	Found *[2]string `json:"found"`
}

type drvFile struct {
	Dump    *refldump.File `json:"dump"`
	GoPkg   string         `json:"go_pkg"`
	Types   []drvType      `json:"types"`
	Lookups []drvLookup    `json:"lookups"`
}

type drvOut struct {
	Files []drvFile `json:"files"`
	Panic bool      `json:"panic"`
	Msg   string    `json:"msg"`
}

func goEnv() []string {
	return append(os.Environ(), "GOFLAGS=-mod=mod", "GOPROXY=off", "GOSUMDB=off", "GOTOOLCHAIN=local")
}

func copyTree(src, dst string) error {
	return filepath.Walk(src, func(path string, info os.FileInfo, err error) error {
		if err != nil {
			return err
		}
		rel, _ := filepath.Rel(src, path)
		if info.IsDir() {
			return os.MkdirAll(filepath.Join(dst, rel), 0o755)
		}
		data, err := os.ReadFile(path)
		if err != nil {
			return err
		}
		return os.WriteFile(filepath.Join(dst, rel), data, 0o644)
	})
}

func (c *compiler) run(ctx *progCtx, key, root string) []*Case {
	c.st.Compiled["programs"]++
	mod := filepath.Join(c.dir, key)
	idl := filepath.Join(mod, "idl")
	if err := copyTree(root, idl); err != nil {
		fatal(err)
	}
	outDir := filepath.Join(mod, "gen", key)
	prefix := "drv/gen/" + key
	cmd := exec.Command(c.thriftgo, "-r", "-g", "go:with_reflection,package_prefix="+prefix, "-o", outDir, ctx.mainRel)
	cmd.Dir = idl
	cmd.Env = goEnv()
	if out, err := cmd.CombinedOutput(); err != nil {
		c.st.Compiled["rejected_by_thriftgo"]++
		fmt.Fprintf(os.Stderr, "c15: %s: thriftgo: %v\n%s\n", ctx.name, err, tail(string(out), 600))
		return nil
	}
	if _, err := os.Stat(outDir); err != nil {
		c.st.Compiled["rejected_by_thriftgo"]++
		return nil
	}
	b := gendrv.New(mod, c.thriftgo, c.repo)
	b.Units = []*gendrv.Unit{{Key: key}}
	if err := b.Build(); err != nil {
		// generated code that does not compile is property C01's subject
		c.st.Compiled["generated_code_does_not_compile"]++
		fmt.Fprintf(os.Stderr, "c15: %s: %s\n", ctx.name, tail(err.Error(), 1500))
		return nil
	}
	res, err := b.Run([]gendrv.Cmd{{Verb: "c15_dump", Args: []string{key, prefix}}})
	if err != nil {
		// init() of a generated package panicked (BuildFileDescriptor): an observation
		c.st.Compiled["driver_failed"]++
		c.st.Panics++
		cs := &Case{Kind: "file", Via: "compiled", Program: ctx.name, File: ctx.main.Filename,
			coq: fmt.Sprintf("FileCase 1%%N %s None None true", cb(ctx.main.Filename)), Observed: tail(err.Error(), 1500)}
		return []*Case{cs}
	}
	var out drvOut
	if err := json.Unmarshal(res[0], &out); err != nil {
		fatal("c15: driver output:", err)
	}
	if out.Panic {
		c.st.Compiled["driver_panic"]++
		c.st.Panics++
		cs := &Case{Kind: "file", Via: "compiled", Program: ctx.name, File: ctx.main.Filename,
			coq: fmt.Sprintf("FileCase 1%%N %s None None true", cb(ctx.main.Filename)), Observed: out.Msg}
		return []*Case{cs}
	}
	c.st.Compiled["built"]++
	byName := map[string]*parser.Thrift{}
	for _, t := range ctx.all {
		byName[t.Filename] = t
	}
	var cases []*Case
	seen := map[string]bool{}
	for _, f := range out.Files {
		t := byName[f.Dump.Filepath]
		seen[f.Dump.Filepath] = true
		c.st.Compiled["files"]++
		mk := func(kind, coq string, obs interface{}) *Case {
			cs := &Case{Kind: kind, Via: "compiled", Program: ctx.name, File: f.Dump.Filepath, coq: coq, Observed: obs}
			if t != nil {
				cs.DupBase = dupBasenames(t)
			}
			return cs
		}
		cases = append(cases, mk("file", fmt.Sprintf("FileCase 1%%N %s (Some %s) None true", cb(f.Dump.Filepath), f.Dump.Coq()), f.Dump))
		var qs []string
		for _, l := range f.Lookups {
			var fo *found
			if l.Found != nil {
				fo = &found{l.Found[0], l.Found[1]}
				c.st.LookupsFound++
				if l.Found[0] != f.Dump.Filepath {
					c.st.LookupsAcrossFiles++
				}
			}
			c.st.Lookups++
			qs = append(qs, fmt.Sprintf("(%s, %s, %s)", l.Kind, cb(l.Name), foundCoq(fo)))
		}
		if len(qs) > 0 {
			cases = append(cases, mk("lookup", fmt.Sprintf("LookupCase %s %s", cb(f.Dump.Filepath), coqfmt.List(qs)), f.Lookups))
		}
		for _, ty := range f.Types {
			c.st.Compiled["types"]++
			if ty.Shared {
				c.st.Compiled["typedefs_sharing_a_go_type"]++
			}
			// a typedef is a Go alias: two typedefs of one type are one Go type, which the
			// registry can map to one of them only (model: go_type_bijection's premise)
			by := ty.ByGoType || (ty.Kind == "typedef" && ty.Shared)
			cases = append(cases, mk("typemap", fmt.Sprintf("TypeMapCase %s %s %s %s %s %s", cb(f.Dump.Filepath+":"+ty.Kind+":"+ty.Name),
				coqfmt.Bool(ty.Own && ty.HasType), coqfmt.Bool(by), coqfmt.Bool(ty.Back), coqfmt.Bool(ty.TypeDesc), coqfmt.Bool(ty.Fields)), ty))
		}
	}
	// every file of the program must have registered itself
	for _, t := range ctx.all {
		if !seen[t.Filename] {
			c.st.Compiled["file_not_registered"]++
			cases = append(cases, &Case{Kind: "file", Via: "compiled", Program: ctx.name, File: t.Filename, DupBase: dupBasenames(t),
				coq: fmt.Sprintf("FileCase 1%%N %s None None true", cb(t.Filename)), Observed: "the generated package did not register a descriptor for this file"})
		}
	}
	os.RemoveAll(mod)
	return cases
}

func tail(s string, n int) string {
	if len(s) > n {
		return s[len(s)-n:]
	}
	return s
}

var _ = strings.TrimSpace
