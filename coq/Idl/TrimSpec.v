(* Idl/TrimSpec.v — what trimming is supposed to keep (property C16), stated on a
   resolved program without reference to how the trimmer works.

   [needed c p K n]: node [n] of program [p] is needed under configuration [c] when
   the kept services / methods are [K].  It is the least set that contains
     - the kept services and methods [K]; without a method filter also every service of
       the main file, with every method, and (transitively) their base services;
     - every typedef and every enum of every file, the types of all constants (always
       kept categories);
     - the preserved struct-likes (list of names, @preserve comment, preserved file);
   and is closed under the edges of the property text:
     - method -> the definitions its argument, result and exception types denote,
     - struct / union / exception -> what its field types denote,
     - typedef -> what its target type denotes,
     - a type denotes, besides its own definition, those of its container element and
       key types, and the include it is written through,
     - service -> the include its (kept) base service is written through.
   [roots] / [succs] list these clause by clause; [needed] is their closure.
   [needed_nodes] computes the same set (saturation, [needed_nodes_spec] in
   TrimFacts.v) so that the correspondence check can evaluate the specification on the
   implementation's observed output.

   Nodes are positions in the input program ([Trim.node]); a named type denotes the
   FIRST definition of that name and kind in the file it points into, exactly what the
   semantic pass resolved it to (for struct-likes and enums the name is accepted in
   either spelling, `S` or `inc.S`: [ty_name_ok]; definition names have no dots, so
   only one of the two can ever apply). *)
From Coq Require Import List Bool Arith NArith ZArith.
From Coq.Strings Require Import Byte.
From Verif Require Import Base.Bytes Idl.Ast Idl.AstUtil Idl.Trim.
Import ListNotations.

Section Spec.
  Variable comment_preserves : bytes -> bool.
  Variable c : cfg.
  Variable p : program.

  Definition no_filter : bool := is_nil (c_methods c).

  (* ------------------------------------------------------------ what a type denotes *)

  (* the file a named type of file [fname] points into, with the include it goes through *)
  Definition ty_target_file (fname : bytes) (t : ty) : option (bytes * list node) :=
    match ty_ref t with
    | None => Some (fname, [])
    | Some r =>
      match prog_file p fname with
      | None => None
      | Some f => match include_file p f (ref_index r) with
                  | Some (i, tn) => Some (tn, [NInclude fname i])
                  | None => None
                  end
      end
    end.
  (* the name of the definition inside that file *)
  Definition ty_def_name (t : ty) : bytes :=
    match ty_ref t with Some r => ref_name r | None => ty_name t end.

  (* the definition one type node denotes (not looking into element / key types) *)
  Definition ty_denotes (fname : bytes) (t : ty) : list node :=
    match ty_target_file fname t with
    | None => []
    | Some (bn, via) =>
      via ++
      match prog_file p bn with
      | None => []
      | Some bf =>
        let name := ty_def_name t in
        match ty_is_typedef t with
        | Some _ =>
          match find_index (fun d => beqb (td_alias d) name) (f_typedefs bf) with
          | Some (i, _) => [NTypedef bn i]
          | None => []
          end
        | None =>
          match category_sl_kind (ty_category t) with
          | Some k =>
            match find_index (fun s => ty_name_ok t (sl_name s)) (sl_list k bf) with
            | Some (i, _) => [NStructLike bn k i]
            | None => []
            end
          | None =>
            match ty_category t with
            | CatEnum =>
              match find_index (fun e => ty_name_ok t (en_name e)) (f_enums bf) with
              | Some (i, _) => [NEnum bn i]
              | None => []
              end
            | _ => []
            end
          end
        end
      end
    end.

  (* everything a type mentions: itself, container elements and keys, recursively *)
  Definition ty_nodes (fname : bytes) (t : ty) : list node := flat_map (ty_denotes fname) (ty_subtypes t).
  Definition tys_nodes (fname : bytes) (ts : list ty) : list node := flat_map (ty_nodes fname) ts.

  (* ------------------------------------------------------------ preserved struct-likes *)

  Definition preserved (fname : bytes) (k : sl_kind) (s : struct_like) : bool :=
    negb (c_force c) &&
    (existsb (beqb (if c_go_name c then to_go_name (sl_name s) else sl_name s)) (c_preserved_structs c)
     || (negb (c_no_comment c) && comment_preserves (sl_comments s))
     || (match k with SKStruct => existsb (beqb fname) (c_preserved_files c) | _ => false end)).

  (* ------------------------------------------------------------ roots *)

  Definition all_kinds : list sl_kind := [SKStruct; SKUnion; SKException].

  Definition file_roots (e : bytes * file) : list node :=
    let fname := fst e in
    let f := snd e in
    (* always kept categories *)
    map (fun i => NTypedef fname i) (seq 0 (List.length (f_typedefs f))) ++
    map (fun i => NEnum fname i) (seq 0 (List.length (f_enums f))) ++
    tys_nodes fname (map co_type (f_constants f)) ++
    (* preserved struct-likes *)
    flat_map (fun k => map (fun is => NStructLike fname k (fst is))
                           (filter (fun is => preserved fname k (snd is)) (indexed (sl_list k f)))) all_kinds.

  Definition main_service_roots : list node :=
    match p with
    | [] => []
    | (fname, f) :: _ => map (fun i => NService fname i) (seq 0 (List.length (f_services f)))
    end.

  Definition roots (K : list node) : list node :=
    K ++ (if no_filter then main_service_roots else []) ++ flat_map file_roots p.

  (* ------------------------------------------------------------ edges *)

  (* the base service of a service: node, and the include it is written through *)
  Definition base_of (fname : bytes) (s : service) : option (node * list node) :=
    match sv_extends s with
    | [] => None
    | _ =>
      match prog_file p fname with
      | None => None
      | Some f =>
        match sv_ref s with
        | None =>
          match find_index (fun x => beqb (sv_name x) (sv_extends s)) (f_services f) with
          | Some (i, _) => Some (NService fname i, [])
          | None => None
          end
        | Some r =>
          match include_file p f (ref_index r) with
          | None => None
          | Some (ii, tn) =>
            match prog_file p tn with
            | None => None
            | Some tf =>
              match find_index (fun x => beqb (sv_name x) (ref_name r)) (f_services tf) with
              | Some (i, _) => Some (NService tn i, [NInclude fname ii])
              | None => None
              end
            end
          end
        end
      end
    end.

  Definition succ_struct_like (fname : bytes) (k : sl_kind) (i : nat) : list node :=
    match prog_file p fname with
    | Some f => match nth_error (sl_list k f) i with
                | Some s => tys_nodes fname (map fd_type (sl_fields s))
                | None => []
                end
    | None => []
    end.

  Definition succ_typedef (fname : bytes) (i : nat) : list node :=
    match prog_file p fname with
    | Some f => match nth_error (f_typedefs f) i with
                | Some d => ty_nodes fname (td_type d)
                | None => []
                end
    | None => []
    end.

  Definition function_types (fn : function) : list ty :=
    map fd_type (fn_args fn) ++ map fd_type (fn_throws fn) ++ (if fn_void fn then [] else [fn_type fn]).

  Definition succ_function (fname : bytes) (si j : nat) : list node :=
    match prog_file p fname with
    | Some f => match nth_error (f_services f) si with
                | Some s => match nth_error (sv_functions s) j with
                            | Some fn => tys_nodes fname (function_types fn)
                            | None => []
                            end
                | None => []
                end
    | None => []
    end.

  (* without a filter a kept service keeps all its methods and its base service; with
     a filter the kept services and methods are given ([K]), and a kept service needs
     the include of its base service when that base service is kept too *)
  Definition succ_service (K : list node) (fname : bytes) (si : nat) : list node :=
    match prog_file p fname with
    | Some f =>
      match nth_error (f_services f) si with
      | Some s =>
        if no_filter
        then map (fun j => NFunction fname si j) (seq 0 (List.length (sv_functions s))) ++
             match base_of fname s with Some (b, via) => b :: via | None => [] end
        else match base_of fname s with
             | Some (b, via) => if existsb (node_eqb b) K then via else []
             | None => []
             end
      | None => []
      end
    | None => []
    end.

  Definition succs (K : list node) (n : node) : list node :=
    match n with
    | NStructLike f k i => succ_struct_like f k i
    | NTypedef f i => succ_typedef f i
    | NFunction f s j => succ_function f s j
    | NService f s => succ_service K f s
    | NEnum _ _ => []
    | NInclude _ _ => []
    end.

  (* ------------------------------------------------------------ the relation *)

  Inductive needed (K : list node) : node -> Prop :=
  | needed_root n : In n (roots K) -> needed K n
  | needed_step n m : needed K n -> In m (succs K n) -> needed K m.

  (* an include is also worth keeping when the files behind it hold always-kept
     definitions: constants, typedefs, enums or preserved struct-likes *)
  Definition file_has_kept_part (e : bytes * file) : bool :=
    has_enum_const_typedef (snd e) ||
    existsb (fun k => existsb (fun s => preserved (fst e) k s) (sl_list k (snd e))) all_kinds.

  (* [below F G]: file G is reached from file F through includes (F itself included) *)
  Inductive below : bytes -> bytes -> Prop :=
  | below_refl F : below F F
  | below_step F f inc G H :
      prog_file p F = Some f -> In inc (f_includes f) -> in_ref inc = Some G -> below G H -> below F H.

  Definition include_leads_to_kept_part (fname : bytes) (i : nat) : Prop :=
    exists f tn G gf,
      prog_file p fname = Some f /\ include_file p f (Z.of_nat i) = Some (i, tn) /\
      below tn G /\ prog_file p G = Some gf /\ file_has_kept_part (G, gf) = true.

  Definition include_needed (K : list node) (fname : bytes) (i : nat) : Prop :=
    needed K (NInclude fname i) \/ include_leads_to_kept_part fname i.

  (* the same, computed: the files below [fname] *)
  Fixpoint files_below (fuel : nat) (fname : bytes) (acc : list bytes) : list bytes :=
    if existsb (beqb fname) acc then acc
    else match fuel with
         | O => acc
         | S n =>
           match prog_file p fname with
           | None => acc
           | Some f =>
             fold_left (fun acc inc => match in_ref inc with Some tn => files_below n tn acc | None => acc end)
                       (f_includes f) (fname :: acc)
           end
         end.

  Definition include_leads_to_kept_part_b (fname : bytes) (i : nat) : bool :=
    match prog_file p fname with
    | Some f =>
      match include_file p f (Z.of_nat i) with
      | Some (_, tn) =>
        existsb (fun g => match prog_file p g with Some gf => file_has_kept_part (g, gf) | None => false end)
                (files_below (S (List.length p)) tn [])
      | None => false
      end
    | None => false
    end.

  (* ------------------------------------------------------------ computing the closure *)

  Definition node_mem (n : node) (l : list node) : bool := existsb (node_eqb n) l.

  Fixpoint add_new (l : list node) (acc : list node) : list node :=
    match l with
    | [] => acc
    | x :: r => if node_mem x acc then add_new r acc else add_new r (acc ++ [x])
    end.

  (* one round adds the successors of everything known; stop when nothing is new *)
  Fixpoint saturate (fuel : nat) (succ : node -> list node) (s : list node) : option (list node) :=
    let s' := add_new (flat_map succ s) s in
    if Nat.eqb (List.length s') (List.length s) then Some s
    else match fuel with
         | O => None
         | S n => saturate n succ s'
         end.

  Definition universe_size : nat :=
    fold_right (fun e acc => acc + file_def_count (snd e) + List.length (f_includes (snd e)) +
                             List.length (flat_map sv_functions (f_services (snd e)))) 1 p.

  Definition needed_nodes (K : list node) : option (list node) :=
    saturate universe_size (succs K) (add_new (roots K) []).

  (* ------------------------------------------------------------ well-formed resolved programs *)

  (* what the theorems assume about the input; the parser and the semantic pass
     guarantee it, and the correspondence check tests it on every case *)
  Definition ty_wf (t : ty) : bool :=
    (* a type with element / key types is not "plain" for markType, and neither is a
       type written through an include *)
    (if negb (is_none (ty_key t)) || negb (is_none (ty_value t)) || negb (is_none (ty_ref t))
     then negb (ty_is_plain t) else true).

  Definition include_wf (inc : include) : bool :=
    match in_ref inc with
    | Some tn => match prog_file p tn with Some _ => true | None => false end
    | None => false
    end.

  Definition file_wf (e : bytes * file) : bool :=
    let f := snd e in
    forallb ty_wf (file_types f) &&
    forallb include_wf (f_includes f) &&
    forallb (fun t => match ty_ref t with
                      | Some r => negb (is_none (include_file p f (ref_index r)))
                      | None => true
                      end) (file_types f) &&
    forallb (fun s => match sv_ref s with
                      | Some r => negb (is_none (include_file p f (ref_index r)))
                      | None => true
                      end) (f_services f) &&
    (* `extends` names an existing service *)
    forallb (fun s => is_nil (sv_extends s) || negb (is_none (base_of (fst e) s))) (f_services f).

  Definition wf_program : bool :=
    negb (is_nil p) && forallb file_wf p &&
    (* Filenames are the keys, pairwise different *)
    forallb (fun e => beqb (fst e) (f_filename (snd e))) p &&
    (List.length (nodup (list_eq_dec Byte.byte_eq_dec) (map fst p)) =? List.length p) &&
    (* every file is reached from the main file through includes *)
    forallb (fun e => existsb (beqb (fst e))
                              (files_below (S (List.length p)) (match p with [] => [] | (n, _) :: _ => n end) [])) p.
End Spec.
