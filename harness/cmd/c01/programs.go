package main

import (
	"verif/harness/rng"
)

// corpusPrograms: hand-written programs that stress naming and cross-file references.
func corpusPrograms() []Prog {
	base := `namespace go base
struct Base { 1: string LogID, 2: optional map<string,string> Extra }
enum Color { RED = 1, GREEN = 2 }
typedef i64 UserID
typedef list<Base> BaseList
exception Oops { 1: string msg }
const i32 ANSWER = 42
service BaseSvc { Base Ping(1: Base b) throws (1: Oops o) }
`
	main := `include "base.thrift"
include "sub/base.thrift"
namespace go main_pkg
struct New { 1: i32 new_, 2: string type, 3: base.Base b }
struct NewNew { 1: New n, 2: list<New> ns, 3: map<string, New> m, 4: set<i32> s }
struct Args_ { 1: i32 args, 2: i32 result, 3: i32 p, 4: i32 err, 5: i32 ctx }
struct get_x { 1: optional i32 x, 2: optional i32 get_x, 3: optional i32 GetX, 4: i32 is_set_x, 5: i32 IsSetX }
struct user_url { 1: string user_url, 2: string UserURL, 3: string userUrl }
union U { 1: i32 a, 2: string b, 3: New n }
exception E { 1: string message, 2: i32 Error }
enum Kind { A, B = 5, C }
typedef New NewAlias
typedef base.UserID UID
typedef map<string, list<base.Base>> Deep
const string S = "it's \"quoted\""
const list<i32> L = [1, 2, 3]
const map<string, i32> M = {"a": 1}
const New DEFAULT_NEW = {"new_": 1, "type": "t"}
const Kind K = Kind.B
const base.Color C2 = base.Color.GREEN
service Svc extends base.BaseSvc {
  New func(1: New p, 2: i32 err, 3: i32 ctx, 4: i32 r, 5: i32 _result) throws (1: E e, 2: base.Oops o),
  void type(1: i32 type, 2: i32 range, 3: i32 go),
  oneway void fire(1: UID id),
  Deep deep(1: Deep d, 2: base.Other o),
}
service Client { i32 Client(1: i32 client) }
service Processor { i32 Process(1: i32 processor) }
`
	sub := `namespace go sub.base
struct Other { 1: i32 x = 5, 2: optional double d = 1.5, 3: optional binary bin = "ab", 4: bool flag = true, 5: list<string> ls = ["a"], 6: optional string os = "dflt" }
`
	talias := `namespace go talias
typedef i32 T
struct S { 1: T f, 2: optional T g, 3: list<T> l, 4: map<T, T> m }
`
	throws0 := `namespace go throws0
exception E { 1: string msg }
service S { i64 put() throws (0: E e) }
`
	underA := `namespace go under.types
struct Bucket { 1: double __double, 2: i32 ok }
`
	underB := `include "ua.thrift"
namespace go under.api
const ua.Bucket B = {"__double": 1.0, "ok": 2}
`
	slimDefs := `namespace go slim.defs
struct X { 1: i32 a }
`
	slimBase := `include "sdefs.thrift"
namespace go slim.base
typedef sdefs.X Blob
`
	slimApp := `include "sbase.thrift"
namespace go slim.app
service S { void f(1: sbase.Blob b) }
`
	// field names that land on the reserved method names of a struct-like and on the reserved
	// locals of a method: every one must be renamed by the tables
	builtinMembers := `namespace go builtin.members
struct B { 1: i32 read, 2: i32 write, 3: string string, 4: i32 deep_equal, 5: i32 carrying_unknown_fields, 6: i32 get_read, 7: optional i32 is_set_read, 8: i32 read_field1, 9: i32 write_field_1, 10: i32 field1_deep_equal }
union BU { 1: i32 count_set_fields, 2: i32 read, 3: string string }
exception BE { 1: string error, 2: string message, 3: i32 write }
exception BF { 1: string error }
service Svc {
  B read(1: B read, 2: BU r, 3: i32 _result) throws (1: BE err, 2: BF ctx),
  void put(1: i32 r, 2: i32 _result, 3: i32 p, 4: i32 err, 5: i32 ctx),
  oneway void fire(1: i32 r, 2: i32 p),
}
`
	// finding: InitDefault is emitted by the struct template under a fixed name that no table knows
	fixedMember := `namespace go fixed.member
struct S { 1: i32 init_default, 2: i32 other }
`
	// New<X> is reserved for the constructor of X: "struct NewX" before "struct X" makes the
	// MustReserve of X's constructor fail (thriftgo exits 2); the model must say so too
	reserveFail := `namespace go reserve.failure
struct NewX { 1: i32 a }
struct X { 1: i32 b }
`
	aliasX := `namespace go x.base
struct Failure { 1: string m }
service XBase { void ping() }
`
	aliasY := `namespace go y.base
exception Failure { 1: string m }
service YBase { i32 get(1: i32 k) throws (1: Failure f) }
`
	aliasMain := `include "xb.thrift"
include "yb.thrift"
namespace go alias.main
struct Holder { 1: xb.Failure a, 2: yb.Failure b }
service Derived extends yb.YBase { xb.Failure more(1: yb.Failure f) }
service Derived2 extends xb.XBase { void more2() }
`
	_ = aliasMain
	return []Prog{
		{Name: "corpus-extends-through-renamed-import-alias", Files: map[string]string{"am.thrift": aliasMain, "xb.thrift": aliasX, "yb.thrift": aliasY}, Main: "am.thrift"},
		{Name: "corpus-reserve-failure", Files: map[string]string{"rf.thrift": reserveFail}, Main: "rf.thrift"},
		{Name: "corpus-builtin-member-names", Files: map[string]string{"bm.thrift": builtinMembers}, Main: "bm.thrift"},
		{Name: "corpus-field-init-default", Files: map[string]string{"fm.thrift": fixedMember}, Main: "fm.thrift"},
		{Name: "corpus-leading-underscore", Files: map[string]string{"ub.thrift": underB, "ua.thrift": underA}, Main: "ub.thrift"},
		{Name: "corpus-slim-typedef-chain", Files: map[string]string{"sapp.thrift": slimApp, "sbase.thrift": slimBase, "sdefs.thrift": slimDefs}, Main: "sapp.thrift"},
		{Name: "corpus-throws-id-0", Files: map[string]string{"t0.thrift": throws0}, Main: "t0.thrift"},
		{Name: "corpus-typedef-of-base", Files: map[string]string{"t.thrift": talias}, Main: "t.thrift"},
		{Name: "corpus-naming", Files: map[string]string{"main.thrift": main, "base.thrift": base, "sub/base.thrift": sub}, Main: "main.thrift"},
	}
}

// generatedPrograms is filled in by gen_idlgen.go when the shared generator is available.
var generatedPrograms = func(r *rng.R, tier string) []Prog { return nil }
