package resgen

import (
	"fmt"
	"strings"

	"verif/harness/idlast"
	"verif/harness/rng"
)

// Error classes of semantic.ResolveSymbols (= Idl.Resolve.resolve_error_code).
const (
	ClassOK              = 0
	ClassNotParsed       = 1
	ClassDupName         = 2
	ClassUndefinedType   = 3
	ClassNotAType        = 4
	ClassInvalidTypeName = 5
	ClassTypedefCycle    = 6
	ClassUndefinedValue  = 7
	ClassAmbiguousValue  = 8
	ClassBaseService     = 9
	ClassOther           = 10
)

// Mutation is a program that breaks resolution in exactly one way.
type Mutation struct {
	Input idlast.Program // parse-level program to render
	Class int            // the error class resolution must report
	What  string
}

func named(n string) *idlast.Type { return &idlast.Type{Name: idlast.B(n)} }

// place puts a (broken) type at a random position of the file: typedef, constant,
// struct / union / exception field, nested in a container, function result, argument,
// throws.
func place(r *rng.R, ast *idlast.File, t *idlast.Type) string {
	if r.Chance(1, 3) {
		switch r.Intn(3) {
		case 0:
			t = &idlast.Type{Name: "list", ValueType: t}
		case 1:
			t = &idlast.Type{Name: "map", KeyType: named("string"), ValueType: t}
		default:
			t = &idlast.Type{Name: "map", KeyType: t, ValueType: named("i32")}
		}
	}
	fd := &idlast.Field{ID: 1, Name: "mut", Type: t}
	switch r.Intn(8) {
	case 0:
		ast.Typedefs = append(ast.Typedefs, &idlast.Typedef{Type: t, Alias: "MutTd"})
		return "typedef"
	case 1:
		ast.Constants = append(ast.Constants, &idlast.Constant{Name: "MutC", Type: t, Value: &idlast.ConstValue{Kind: idlast.ConstInt}})
		return "constant"
	case 2:
		ast.Structs = append(ast.Structs, &idlast.StructLike{Category: idlast.SKStruct, Name: "MutS", Fields: []*idlast.Field{fd}})
		return "struct field"
	case 3:
		ast.Unions = append(ast.Unions, &idlast.StructLike{Category: idlast.SKUnion, Name: "MutU", Fields: []*idlast.Field{fd}})
		return "union field"
	case 4:
		ast.Exceptions = append(ast.Exceptions, &idlast.StructLike{Category: idlast.SKException, Name: "MutE", Fields: []*idlast.Field{fd}})
		return "exception field"
	case 5:
		ast.Services = append(ast.Services, &idlast.Service{Name: "MutSv", Functions: []*idlast.Function{{Name: "f", FunctionType: t, Arguments: []*idlast.Field{}, Throws: []*idlast.Field{}}}})
		return "function result"
	case 6:
		ast.Services = append(ast.Services, &idlast.Service{Name: "MutSv", Functions: []*idlast.Function{{Name: "f", Void: true, FunctionType: named("void"), Arguments: []*idlast.Field{fd}, Throws: []*idlast.Field{}}}})
		return "argument"
	default:
		fd.Requiredness = idlast.ReqOptional
		ast.Services = append(ast.Services, &idlast.Service{Name: "MutSv", Functions: []*idlast.Function{{Name: "f", Void: true, FunctionType: named("void"), Arguments: []*idlast.Field{}, Throws: []*idlast.Field{fd}}}})
		return "throws"
	}
}

// placeValue puts a (broken) identifier at a random value position.
func placeValue(r *rng.R, ast *idlast.File, id string) string {
	v := &idlast.ConstValue{Kind: idlast.ConstIdentifier, Identifier: idlast.B(id)}
	t := named("i32")
	if r.Chance(1, 3) {
		if r.Bool() {
			v = &idlast.ConstValue{Kind: idlast.ConstList, List: []*idlast.ConstValue{{Kind: idlast.ConstInt, Int: 1}, v}}
			t = &idlast.Type{Name: "list", ValueType: named("i32")}
		} else {
			e := idlast.MapEntry{Key: &idlast.ConstValue{Kind: idlast.ConstLiteral, Literal: "k"}, Value: v}
			if r.Bool() {
				e = idlast.MapEntry{Key: v, Value: &idlast.ConstValue{Kind: idlast.ConstInt, Int: 2}}
			}
			v = &idlast.ConstValue{Kind: idlast.ConstMap, Map: []idlast.MapEntry{e}}
			t = &idlast.Type{Name: "map", KeyType: named("string"), ValueType: named("i32")}
		}
	}
	fd := &idlast.Field{ID: 1, Name: "mut", Type: t, Default: v}
	switch r.Intn(4) {
	case 0:
		ast.Constants = append(ast.Constants, &idlast.Constant{Name: "MutC", Type: t, Value: v})
		return "constant value"
	case 1:
		ast.Structs = append(ast.Structs, &idlast.StructLike{Category: idlast.SKStruct, Name: "MutS", Fields: []*idlast.Field{fd}})
		return "field default"
	case 2:
		ast.Services = append(ast.Services, &idlast.Service{Name: "MutSv", Functions: []*idlast.Function{{Name: "f", Void: true, FunctionType: named("void"), Arguments: []*idlast.Field{fd}, Throws: []*idlast.Field{}}}})
		return "argument default"
	default:
		ast.Exceptions = append(ast.Exceptions, &idlast.StructLike{Category: idlast.SKException, Name: "MutE", Fields: []*idlast.Field{fd}})
		return "exception field default"
	}
}

func pickSym(r *rng.R, syms []*Sym, want func(*Sym) bool) *Sym {
	var c []*Sym
	for _, s := range syms {
		if want(s) {
			c = append(c, s)
		}
	}
	if len(c) == 0 {
		return nil
	}
	return rng.Pick(r, c)
}

// Mutate breaks the program in one way; nil when the drawn mutation does not apply.
func (p *Program) Mutate(r *rng.R) *Mutation {
	q := p.Input(r)
	fi := r.Intn(len(p.Files))
	f := p.Files[fi]
	ast := q[fi].File
	in := fmt.Sprintf(" in %s", f.Path)
	var inc *File
	incIdx := -1
	if len(f.Incs) > 0 {
		incIdx = r.Intn(len(f.Incs))
		inc = f.Incs[incIdx]
	}
	switch r.Intn(12) {
	case 0: // undefined local type
		return &Mutation{q, ClassUndefinedType, "undefined local type as " + place(r, ast, named("Nope")) + in}
	case 1: // undefined qualified type
		n := "nopfx.Foo"
		if inc != nil && r.Chance(2, 3) {
			n = inc.Prefix + ".Nope"
			if r.Bool() {
				// a name the include defines, but not as a type
				if s := pickSym(r, inc.Syms, func(s *Sym) bool { return !s.Kind.isType() }); s != nil {
					if _, t := f.qual(inc.Prefix, s.Name, Kind.isType); t == nil {
						n = inc.Prefix + "." + s.Name
					}
				}
			}
		}
		return &Mutation{q, ClassUndefinedType, "undefined qualified type " + n + " as " + place(r, ast, named(n)) + in}
	case 2: // a local constant or service used as a type
		s := pickSym(r, f.Syms, func(s *Sym) bool { return !s.Kind.isType() })
		if s == nil {
			return nil
		}
		return &Mutation{q, ClassNotAType, "non-type symbol " + s.Name + " as " + place(r, ast, named(s.Name)) + in}
	case 3: // typedef cycle of length 1..4, possibly with a chain leading into it
		n := r.Range(1, 4)
		for i := 0; i < n; i++ {
			ast.Typedefs = append(ast.Typedefs, &idlast.Typedef{Type: named(fmt.Sprintf("Cy%d", (i+1)%n)), Alias: idlast.B(fmt.Sprintf("Cy%d", i))})
		}
		if r.Bool() {
			ast.Typedefs = append(ast.Typedefs, &idlast.Typedef{Type: named("Cy0"), Alias: "IntoCy"})
			if r.Bool() {
				ast.Structs = append(ast.Structs, &idlast.StructLike{Category: idlast.SKStruct, Name: "MutS", Fields: []*idlast.Field{{ID: 1, Name: "a", Type: &idlast.Type{Name: "list", ValueType: named("IntoCy")}}}})
			}
		}
		shuffle(r, len(ast.Typedefs), func(i, j int) { ast.Typedefs[i], ast.Typedefs[j] = ast.Typedefs[j], ast.Typedefs[i] })
		return &Mutation{q, ClassTypedefCycle, fmt.Sprintf("typedef cycle of length %d%s", n, in)}
	case 4: // undefined value
		ids := []string{"Nope", "Nope.A", "a.b.c.d"}
		if inc != nil {
			ids = append(ids, inc.Prefix+".Nope", inc.Prefix+".Nope.A")
			if e := pickSym(r, inc.Syms, func(s *Sym) bool { return s.Kind == KEnum }); e != nil {
				ids = append(ids, inc.Prefix+"."+e.Name+".Nope")
			}
		}
		if e := pickSym(r, f.Syms, func(s *Sym) bool { return s.Kind == KEnum }); e != nil {
			ids = append(ids, e.Name+".Nope", e.Name)
		}
		if s := pickSym(r, f.Syms, func(s *Sym) bool { return s.Kind == KStruct }); s != nil {
			ids = append(ids, s.Name)
		}
		id := rng.Pick(r, ids)
		if f.Explanations(id) != 0 {
			return nil
		}
		return &Mutation{q, ClassUndefinedValue, "undefined value " + id + " as " + placeValue(r, ast, id) + in}
	case 5: // ambiguous: a local enum (or typedef of one) named like an include prefix
		if inc == nil || f.byName[inc.Prefix] != nil || strings.Contains(inc.Prefix, ".") {
			return nil
		}
		k := pickSym(r, inc.Syms, func(s *Sym) bool { return s.Kind == KConst })
		if k == nil {
			return nil
		}
		if r.Bool() {
			ast.Enums = append(ast.Enums, &idlast.Enum{Name: idlast.B(inc.Prefix), Values: []*idlast.EnumValue{{Name: idlast.B(k.Name)}}})
		} else {
			ast.Enums = append(ast.Enums, &idlast.Enum{Name: "MutEn", Values: []*idlast.EnumValue{{Name: "Zz"}, {Name: idlast.B(k.Name), Value: 1}}})
			ast.Typedefs = append(ast.Typedefs, &idlast.Typedef{Type: named("MutEn"), Alias: idlast.B(inc.Prefix)})
		}
		id := inc.Prefix + "." + k.Name
		return &Mutation{q, ClassAmbiguousValue, "ambiguous " + id + " (enum value / include constant) as " + placeValue(r, ast, id) + in}
	case 6, 7: // ambiguous: two includes with one prefix explain the identifier
		if inc == nil {
			return nil
		}
		nf := NewFile("dup/" + inc.Prefix + ".thrift")
		var id string
		if k := pickSym(r, inc.Syms, func(s *Sym) bool { return s.Kind == KConst }); k != nil && r.Bool() {
			nf.Constants = append(nf.Constants, &idlast.Constant{Name: idlast.B(k.Name), Type: named("i32"), Value: &idlast.ConstValue{Kind: idlast.ConstInt, Int: 7}})
			id = inc.Prefix + "." + k.Name
		} else if e := pickSym(r, inc.Syms, func(s *Sym) bool { return s.Enum != nil && (s.Kind == KEnum || s.Kind == KTypedef) }); e != nil {
			v := rng.Pick(r, e.Enum.Values)
			nf.Enums = append(nf.Enums, &idlast.Enum{Name: idlast.B(e.Name), Values: []*idlast.EnumValue{{Name: idlast.B(v)}}})
			id = inc.Prefix + "." + e.Name + "." + v
		} else {
			return nil
		}
		if f.Explanations(id) != 1 {
			return nil
		}
		ref := nf.Filename
		newInc := &idlast.Include{Path: nf.Filename, Ref: &ref}
		if r.Bool() {
			ast.Includes = append(ast.Includes, newInc)
		} else {
			ast.Includes = append([]*idlast.Include{newInc}, ast.Includes...)
		}
		q = append(q, idlast.ProgramEntry{Filename: nf.Filename, File: nf})
		return &Mutation{q, ClassAmbiguousValue, "ambiguous " + id + " (two includes with prefix " + inc.Prefix + ") as " + placeValue(r, ast, id) + in}
	case 8, 9: // unknown base service
		bad := []string{"Nope"}
		if s := pickSym(r, f.Syms, func(s *Sym) bool { return s.Kind != KService }); s != nil {
			bad = append(bad, s.Name)
		}
		if inc != nil {
			bad = append(bad, inc.Prefix+".Nope")
			if s := pickSym(r, inc.Syms, func(s *Sym) bool { return s.Kind != KService }); s != nil {
				if _, t := f.qual(inc.Prefix, s.Name, func(k Kind) bool { return k == KService }); t == nil {
					bad = append(bad, inc.Prefix+"."+s.Name)
				}
			}
		}
		b := rng.Pick(r, bad)
		ast.Services = append(ast.Services, &idlast.Service{Name: "MutSv", Extends: idlast.B(b), Functions: []*idlast.Function{}})
		return &Mutation{q, ClassBaseService, "unknown base service " + b + in}
	default: // an enum named like another global of the file (CheckGlobals does not look at enums)
		s := pickSym(r, f.Syms, func(s *Sym) bool { return true })
		if s == nil {
			return nil
		}
		ast.Enums = append(ast.Enums, &idlast.Enum{Name: idlast.B(s.Name), Values: []*idlast.EnumValue{{Name: "Q"}}})
		return &Mutation{q, ClassDupName, "enum named like the global " + s.Name + in}
	}
}
