(* Props/C10.v — property C10: the fastgo codec agrees with the standard codec and BLength is exact.
   Statements only; proofs are in Wire/FastFacts.v.

   Model: Wire/Fast.v (blength, fast_append, fast_read: three separate functions that follow
   generator/fastgo/gen_blength.go, gen_fastwrite.go and gen_fastread.go; tied to the compiled output of
   `thriftgo -g fastgo` by the correspondence of Corr/C10.v on every run), Wire/Std.v (the standard
   generated codec, property C02), Wire/Codec.v (binary protocol), Wire/GenTables.v and
   Wire/FastTables.v (the three tables of generator/fastgo/consts.go, regenerated from /repo on every
   run: wire_size, wire_type and elem_const go through them, so a changed entry breaks these proofs). *)
From Coq Require Import List ZArith Bool Lia.
From Verif Require Import Base.Bytes Base.BE Wire.TType Wire.WVal Wire.Codec Wire.CodecFacts
  Wire.Schema Wire.Value Wire.Std Wire.StdFacts Wire.Fast Wire.FastFacts.
Import ListNotations.
Open Scope Z_scope.

(* ---- the tables of consts.go say what Thrift prescribes ---- *)

Theorem C10_wire_type_spec : forall e t, wire_type e t = code (spec_ttype t).
Proof. exact wire_type_spec. Qed.
Print Assumptions C10_wire_type_spec.

Theorem C10_elem_const_spec : forall e t, elem_const e t = code (spec_ttype t).
Proof. exact elem_const_spec. Qed.
Print Assumptions C10_elem_const_spec.

(* ---- BLength is exact: every schema, every struct-like, EVERY value (no typing premise: also unions
        with any number of members set, sets with duplicates, nil pointers anywhere) ---- *)

Theorem C10_blength_exact : forall e s v, blength e s v = Z.of_nat (length (fast_append e s v)).
Proof. exact blength_exact. Qed.
Print Assumptions C10_blength_exact.

(* the same at every type (field payloads, elements, keys) *)
Theorem C10_blength_exact_any_type : forall e v t, bl_val e t v = Z.of_nat (length (fa_val e t v)).
Proof. exact bl_val_exact. Qed.
Print Assumptions C10_blength_exact_any_type.

(* ---- FastAppend writes the binary-protocol encoding of what the standard Write emits, with the
        fields of every struct (at every level) in ascending id order ---- *)

Theorem C10_fast_append_is_std : forall e s v w,
  to_wire e s v = Ok w -> fast_append e s v = enc (sortw w).
Proof. exact fast_append_is_std. Qed.
Print Assumptions C10_fast_append_is_std.

Theorem C10_fast_append_is_std_any_type : forall e v t w,
  to_w e t v = Ok w -> fa_val e t v = enc (sortw w).
Proof. exact fa_val_is_std. Qed.
Print Assumptions C10_fast_append_is_std_any_type.
