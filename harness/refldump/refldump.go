// Package refldump is the Go-side mirror of the descriptor records of /verif/coq/Idl/Reflect.v
// (property C15): a real *thrift_reflection.FileDescriptor is copied field by field into plain
// structs (From*), which print as Coq terms (Coq()) and as stable JSON (encoding/json; the
// compiled driver gendrv/driver/c15_reflect.go writes the same JSON shape).
//
// Go maps are dumped as entry lists sorted by key; the pointer-keyed value_map of a
// ConstValueDescriptor as entry pairs sorted by their JSON text.  Optional containers keep the
// difference between nil and empty (Has*), required ones do not (the wire format cannot tell).
package refldump

import (
	"encoding/json"
	"math"
	"sort"
	"strings"

	tr "github.com/cloudwego/thriftgo/thrift_reflection"

	"verif/harness/coqfmt"
)

type KV struct {
	K string `json:"k"`
	V string `json:"v"`
}

type Anno struct {
	K string   `json:"k"`
	V []string `json:"v"`
}

// Extra: nil map = Has false
type Extra struct {
	Has     bool `json:"has"`
	Entries []KV `json:"entries,omitempty"`
}

type Type struct {
	Filepath string `json:"filepath"`
	Name     string `json:"name"`
	Key      *Type  `json:"key,omitempty"`
	Value    *Type  `json:"value,omitempty"`
	Extra    Extra  `json:"extra"`
}

type CVPair struct {
	K *CV `json:"k"`
	V *CV `json:"v"`
}

type CV struct {
	Type       int64    `json:"type"`
	DoubleBits uint64   `json:"double_bits"`
	Int        int64    `json:"int"`
	String     string   `json:"string"`
	Bool       bool     `json:"bool"`
	HasList    bool     `json:"has_list"`
	List       []*CV    `json:"list,omitempty"`
	HasMap     bool     `json:"has_map"`
	Map        []CVPair `json:"map,omitempty"`
	Identifier string   `json:"identifier"`
	Extra      Extra    `json:"extra"`
}

type Const struct {
	Filepath string `json:"filepath"`
	Name     string `json:"name"`
	Type     *Type  `json:"type"`
	Value    *CV    `json:"value"`
	Annos    []Anno `json:"annotations"`
	Comments string `json:"comments"`
	Extra    Extra  `json:"extra"`
}

type Typedef struct {
	Filepath string `json:"filepath"`
	Type     *Type  `json:"type"`
	Alias    string `json:"alias"`
	Annos    []Anno `json:"annotations"`
	Comments string `json:"comments"`
	Extra    Extra  `json:"extra"`
}

type EnumValue struct {
	Filepath string `json:"filepath"`
	Name     string `json:"name"`
	Value    int64  `json:"value"`
	Annos    []Anno `json:"annotations"`
	Comments string `json:"comments"`
	Extra    Extra  `json:"extra"`
}

type Enum struct {
	Filepath string       `json:"filepath"`
	Name     string       `json:"name"`
	Values   []*EnumValue `json:"values"`
	Annos    []Anno       `json:"annotations"`
	Comments string       `json:"comments"`
	Extra    Extra        `json:"extra"`
}

type Field struct {
	Filepath     string `json:"filepath"`
	Name         string `json:"name"`
	Type         *Type  `json:"type"`
	Requiredness string `json:"requiredness"`
	ID           int32  `json:"id"`
	Default      *CV    `json:"default,omitempty"`
	Annos        []Anno `json:"annotations"`
	Comments     string `json:"comments"`
	Extra        Extra  `json:"extra"`
}

type Struct struct {
	Filepath string   `json:"filepath"`
	Name     string   `json:"name"`
	Fields   []*Field `json:"fields"`
	Annos    []Anno   `json:"annotations"`
	Comments string   `json:"comments"`
	Extra    Extra    `json:"extra"`
}

type Method struct {
	Filepath string   `json:"filepath"`
	Name     string   `json:"name"`
	Response *Type    `json:"response,omitempty"`
	Args     []*Field `json:"args"`
	Annos    []Anno   `json:"annotations"`
	Comments string   `json:"comments"`
	Throws   []*Field `json:"throws"`
	Oneway   bool     `json:"oneway"`
	Extra    Extra    `json:"extra"`
}

type Service struct {
	Filepath string    `json:"filepath"`
	Name     string    `json:"name"`
	Methods  []*Method `json:"methods"`
	Annos    []Anno    `json:"annotations"`
	Comments string    `json:"comments"`
	Extra    Extra     `json:"extra"`
	Base     string    `json:"base"`
}

type File struct {
	Filepath   string     `json:"filepath"`
	Includes   []KV       `json:"includes"`
	Namespaces []KV       `json:"namespaces"`
	Services   []*Service `json:"services"`
	Structs    []*Struct  `json:"structs"`
	Exceptions []*Struct  `json:"exceptions"`
	Enums      []*Enum    `json:"enums"`
	Typedefs   []*Typedef `json:"typedefs"`
	Unions     []*Struct  `json:"unions"`
	Consts     []*Const   `json:"consts"`
	Extra      Extra      `json:"extra"`
}

// ---------------------------------------------------------------- from the real descriptors

func strMap(m map[string]string) []KV {
	out := make([]KV, 0, len(m))
	for k, v := range m {
		out = append(out, KV{k, v})
	}
	sort.Slice(out, func(i, j int) bool { return out[i].K < out[j].K })
	return out
}

func extra(m map[string]string) Extra {
	if m == nil {
		return Extra{}
	}
	return Extra{Has: true, Entries: strMap(m)}
}

func annos(m map[string][]string) []Anno {
	out := make([]Anno, 0, len(m))
	for k, v := range m {
		out = append(out, Anno{k, append([]string{}, v...)})
	}
	sort.Slice(out, func(i, j int) bool { return out[i].K < out[j].K })
	return out
}

func FromType(t *tr.TypeDescriptor) *Type {
	if t == nil {
		return nil
	}
	return &Type{Filepath: t.Filepath, Name: t.Name, Key: FromType(t.KeyType), Value: FromType(t.ValueType), Extra: extra(t.Extra)}
}

func FromCV(c *tr.ConstValueDescriptor) *CV {
	if c == nil {
		return nil
	}
	out := &CV{Type: int64(c.Type), DoubleBits: math.Float64bits(c.ValueDouble), Int: c.ValueInt, String: c.ValueString,
		Bool: c.ValueBool, Identifier: c.ValueIdentifier, Extra: extra(c.Extra)}
	if c.ValueList != nil {
		out.HasList = true
		for _, x := range c.ValueList {
			out.List = append(out.List, FromCV(x))
		}
	}
	if c.ValueMap != nil {
		out.HasMap = true
		type keyed struct {
			text string
			p    CVPair
		}
		var ks []keyed
		for k, v := range c.ValueMap {
			p := CVPair{FromCV(k), FromCV(v)}
			b, _ := json.Marshal(p)
			ks = append(ks, keyed{string(b), p})
		}
		sort.Slice(ks, func(i, j int) bool { return ks[i].text < ks[j].text })
		for _, k := range ks {
			out.Map = append(out.Map, k.p)
		}
	}
	return out
}

func FromField(f *tr.FieldDescriptor) *Field {
	return &Field{Filepath: f.Filepath, Name: f.Name, Type: FromType(f.Type), Requiredness: f.Requiredness, ID: f.ID,
		Default: FromCV(f.DefaultValue), Annos: annos(f.Annotations), Comments: f.Comments, Extra: extra(f.Extra)}
}

func fields(fs []*tr.FieldDescriptor) []*Field {
	out := make([]*Field, 0, len(fs))
	for _, f := range fs {
		out = append(out, FromField(f))
	}
	return out
}

func FromStruct(s *tr.StructDescriptor) *Struct {
	return &Struct{Filepath: s.Filepath, Name: s.Name, Fields: fields(s.Fields), Annos: annos(s.Annotations),
		Comments: s.Comments, Extra: extra(s.Extra)}
}

func structs(ss []*tr.StructDescriptor) []*Struct {
	out := make([]*Struct, 0, len(ss))
	for _, s := range ss {
		out = append(out, FromStruct(s))
	}
	return out
}

func FromEnum(e *tr.EnumDescriptor) *Enum {
	out := &Enum{Filepath: e.Filepath, Name: e.Name, Values: []*EnumValue{}, Annos: annos(e.Annotations), Comments: e.Comments, Extra: extra(e.Extra)}
	for _, v := range e.Values {
		out.Values = append(out.Values, &EnumValue{Filepath: v.Filepath, Name: v.Name, Value: v.Value, Annos: annos(v.Annotations),
			Comments: v.Comments, Extra: extra(v.Extra)})
	}
	return out
}

func FromTypedef(t *tr.TypedefDescriptor) *Typedef {
	return &Typedef{Filepath: t.Filepath, Type: FromType(t.Type), Alias: t.Alias, Annos: annos(t.Annotations),
		Comments: t.Comments, Extra: extra(t.Extra)}
}

func FromMethod(m *tr.MethodDescriptor) *Method {
	return &Method{Filepath: m.Filepath, Name: m.Name, Response: FromType(m.Response), Args: fields(m.Args),
		Annos: annos(m.Annotations), Comments: m.Comments, Throws: fields(m.ThrowExceptions), Oneway: m.IsOneway, Extra: extra(m.Extra)}
}

func FromService(s *tr.ServiceDescriptor) *Service {
	out := &Service{Filepath: s.Filepath, Name: s.Name, Methods: []*Method{}, Annos: annos(s.Annotations), Comments: s.Comments,
		Extra: extra(s.Extra), Base: s.Base}
	for _, m := range s.Methods {
		out.Methods = append(out.Methods, FromMethod(m))
	}
	return out
}

func FromConst(c *tr.ConstDescriptor) *Const {
	return &Const{Filepath: c.Filepath, Name: c.Name, Type: FromType(c.Type), Value: FromCV(c.Value), Annos: annos(c.Annotations),
		Comments: c.Comments, Extra: extra(c.Extra)}
}

func FromFile(f *tr.FileDescriptor) *File {
	out := &File{Filepath: f.Filepath, Includes: strMap(f.Includes), Namespaces: strMap(f.Namespaces),
		Services: []*Service{}, Structs: structs(f.Structs), Exceptions: structs(f.Exceptions), Enums: []*Enum{},
		Typedefs: []*Typedef{}, Unions: structs(f.Unions), Consts: []*Const{}, Extra: extra(f.Extra)}
	for _, s := range f.Services {
		out.Services = append(out.Services, FromService(s))
	}
	for _, e := range f.Enums {
		out.Enums = append(out.Enums, FromEnum(e))
	}
	for _, t := range f.Typedefs {
		out.Typedefs = append(out.Typedefs, FromTypedef(t))
	}
	for _, c := range f.Consts {
		out.Consts = append(out.Consts, FromConst(c))
	}
	return out
}

// JSON is the canonical text of a dump (used to compare two descriptors up to map order).
func (f *File) JSON() string {
	b, err := json.Marshal(f)
	if err != nil {
		panic(err)
	}
	return string(b)
}

// ---------------------------------------------------------------- Coq terms (Idl/Reflect.v)

func cb(s string) string { return coqfmt.Bytes(s) }

func list[T any](xs []T, f func(T) string) string {
	items := make([]string, len(xs))
	for i, x := range xs {
		items[i] = f(x)
	}
	return coqfmt.List(items)
}

func (e Extra) Coq() string {
	if !e.Has {
		return "None"
	}
	return "(Some " + list(e.Entries, func(kv KV) string { return "(" + cb(kv.K) + ", " + cb(kv.V) + ")" }) + ")"
}

func kvs(m []KV) string {
	return list(m, func(kv KV) string { return "(" + cb(kv.K) + ", " + cb(kv.V) + ")" })
}

func annosCoq(a []Anno) string {
	return list(a, func(x Anno) string { return "(" + cb(x.K) + ", " + list(x.V, cb) + ")" })
}

func optType(t *Type) string {
	if t == nil {
		return "None"
	}
	return "(Some " + t.Coq() + ")"
}

func (t *Type) Coq() string {
	return "(TDesc " + cb(t.Filepath) + " " + cb(t.Name) + " " + optType(t.Key) + " " + optType(t.Value) + " " + t.Extra.Coq() + ")"
}

func (c *CV) Coq() string {
	l := "None"
	if c.HasList {
		l = "(Some " + list(c.List, (*CV).Coq) + ")"
	}
	m := "None"
	if c.HasMap {
		m = "(Some " + list(c.Map, func(p CVPair) string { return "(" + p.K.Coq() + ", " + p.V.Coq() + ")" }) + ")"
	}
	return "(CVD " + coqfmt.Z(c.Type) + " " + zu(c.DoubleBits) + " " + coqfmt.Z(c.Int) + " " + cb(c.String) + " " +
		coqfmt.Bool(c.Bool) + " " + l + " " + m + " " + cb(c.Identifier) + " " + c.Extra.Coq() + ")"
}

// an unsigned 64-bit pattern as a Z term
func zu(v uint64) string {
	if v < 1<<63 {
		return coqfmt.Z(int64(v))
	}
	return "(" + coqfmt.Z(int64(v>>32)) + " * 4294967296 + " + coqfmt.Z(int64(v&0xffffffff)) + ")%Z"
}

func optCV(c *CV) string {
	if c == nil {
		return "None"
	}
	return "(Some " + c.Coq() + ")"
}

func (f *Field) Coq() string {
	return "(FieldD " + cb(f.Filepath) + " " + cb(f.Name) + " " + f.Type.Coq() + " " + cb(f.Requiredness) + " " +
		coqfmt.Z(int64(f.ID)) + " " + optCV(f.Default) + " " + annosCoq(f.Annos) + " " + cb(f.Comments) + " " + f.Extra.Coq() + ")"
}

func (s *Struct) Coq() string {
	return "(StructD " + cb(s.Filepath) + " " + cb(s.Name) + " " + list(s.Fields, (*Field).Coq) + " " + annosCoq(s.Annos) + " " +
		cb(s.Comments) + " " + s.Extra.Coq() + ")"
}

func (v *EnumValue) Coq() string {
	return "(EnumValueD " + cb(v.Filepath) + " " + cb(v.Name) + " " + coqfmt.Z(v.Value) + " " + annosCoq(v.Annos) + " " +
		cb(v.Comments) + " " + v.Extra.Coq() + ")"
}

func (e *Enum) Coq() string {
	return "(EnumD " + cb(e.Filepath) + " " + cb(e.Name) + " " + list(e.Values, (*EnumValue).Coq) + " " + annosCoq(e.Annos) + " " +
		cb(e.Comments) + " " + e.Extra.Coq() + ")"
}

func (t *Typedef) Coq() string {
	return "(TypedefD " + cb(t.Filepath) + " " + t.Type.Coq() + " " + cb(t.Alias) + " " + annosCoq(t.Annos) + " " + cb(t.Comments) +
		" " + t.Extra.Coq() + ")"
}

func (m *Method) Coq() string {
	return "(MethodD " + cb(m.Filepath) + " " + cb(m.Name) + " " + optType(m.Response) + " " + list(m.Args, (*Field).Coq) + " " +
		annosCoq(m.Annos) + " " + cb(m.Comments) + " " + list(m.Throws, (*Field).Coq) + " " + coqfmt.Bool(m.Oneway) + " " + m.Extra.Coq() + ")"
}

func (s *Service) Coq() string {
	return "(ServiceD " + cb(s.Filepath) + " " + cb(s.Name) + " " + list(s.Methods, (*Method).Coq) + " " + annosCoq(s.Annos) + " " +
		cb(s.Comments) + " " + s.Extra.Coq() + " " + cb(s.Base) + ")"
}

func (c *Const) Coq() string {
	return "(ConstD " + cb(c.Filepath) + " " + cb(c.Name) + " " + c.Type.Coq() + " " + c.Value.Coq() + " " + annosCoq(c.Annos) + " " +
		cb(c.Comments) + " " + c.Extra.Coq() + ")"
}

// Coq prints the term of type Idl.Reflect.fdesc (with outer parentheses).
func (f *File) Coq() string {
	parts := []string{
		"(FileD " + cb(f.Filepath), kvs(f.Includes), kvs(f.Namespaces),
		list(f.Services, (*Service).Coq), list(f.Structs, (*Struct).Coq), list(f.Exceptions, (*Struct).Coq),
		list(f.Enums, (*Enum).Coq), list(f.Typedefs, (*Typedef).Coq), list(f.Unions, (*Struct).Coq),
		list(f.Consts, (*Const).Coq), f.Extra.Coq() + ")",
	}
	return strings.Join(parts, "\n  ")
}
