package main

// A generator of multi-file IDL programs aimed at the trimmer: services whose
// methods reach types only through typedefs, container elements and keys, included
// files and base services; definitions nothing refers to at every position;
// diamond includes; recursive structs; @preserve comments (matching and
// near-miss spellings); constants, typedefs and enums in files nothing else needs.
// The programs are valid for parser + semantic checker + resolver; with
// compileSafe they are also meant to go through the Go backend.

import (
	"fmt"
	"sort"
	"strings"

	"verif/harness/rng"
)

type gType struct {
	base string // "i32", ... or "" for named / container
	cont string // "list" "set" "map"
	key  *gType
	val  *gType
	name string // written name: "S0" or "a.S0"
}

func (t *gType) String() string {
	switch {
	case t.base != "":
		return t.base
	case t.cont == "map":
		return "map<" + t.key.String() + ", " + t.val.String() + ">"
	case t.cont != "":
		return t.cont + "<" + t.val.String() + ">"
	}
	return t.name
}

type gSym struct {
	kind string // struct union exception enum typedef const service
	name string
	file *gFile
	// for typedefs: is the target usable as a map key / what it denotes
	keyable bool
	isExc   bool
	values  []string // enum value names
	hasI32  bool     // struct with a field `1: i32 n`
}

type gFunc struct{ name string }

type gService struct {
	name    string
	extends string
	funcs   []string
	text    string
}

type gFile struct {
	structOnly bool   // only struct-likes (and services): nothing in it keeps an include by itself
	name       string // root-relative slash path
	prefix     string
	includes   []*gFile
	incPaths   []string
	syms       []*gSym
	services   []*gService
	body       []string // definitions in order
}

type gProgram struct {
	files       []*gFile // files[0] is the main file
	texts       map[string]string
	structNames []string // all struct-like names (for preserved-struct lists)
	stats       map[string]int
}

type gen struct {
	r           *rng.R
	compileSafe bool
	p           *gProgram
	fnCounter   int
}

var baseTypes = []string{"bool", "byte", "i16", "i32", "i64", "double", "string", "binary"}
var keyBaseTypes = []string{"i32", "i64", "string", "i16"}
var funcNames = []string{"get", "getAll", "get_user", "put", "foo", "fooBar", "foo_bar", "bar", "ping", "list_items", "Get", "f", "g", "h"}

var preserveComments = []string{
	"// @preserve", "# @preserve", "//@preserve", "//   @Preserve   ", "# @PRESERVE",
	"// keep this\n// @preserve", "/* block */\n// @preserve",
}
var nearMissComments = []string{
	"// @preserved", "// preserve", "// @preserve me", "/* @preserve */", "// x @preserve", "// @ preserve",
}

func (g *gen) visible(f *gFile, want func(*gSym) bool) []struct {
	s    *gSym
	name string
} {
	var out []struct {
		s    *gSym
		name string
	}
	for _, s := range f.syms {
		if want(s) {
			out = append(out, struct {
				s    *gSym
				name string
			}{s, s.name})
		}
	}
	for _, inc := range f.includes {
		for _, s := range inc.syms {
			if want(s) {
				out = append(out, struct {
					s    *gSym
					name string
				}{s, inc.prefix + "." + s.name})
			}
		}
	}
	return out
}

func isTypeSym(s *gSym) bool {
	switch s.kind {
	case "struct", "union", "enum", "typedef":
		return true
	case "exception":
		return true
	}
	return false
}

// genType: a random type for a field of file f. depth limits nesting.
func (g *gen) genType(f *gFile, depth int, allowExc bool) *gType {
	r := g.r
	// definitions of a shared struct-only file are used from every file that includes it
	if r.Chance(1, 3) {
		var shared []string
		for _, inc := range f.includes {
			if !inc.structOnly {
				continue
			}
			for _, s := range inc.syms {
				if s.kind == "struct" || s.kind == "union" || (allowExc && s.kind == "exception") {
					shared = append(shared, inc.prefix+"."+s.name)
				}
			}
		}
		if len(shared) > 0 {
			t := &gType{name: rng.Pick(r, shared)}
			switch r.Intn(4) {
			case 0:
				if depth > 0 {
					return &gType{cont: "list", val: t}
				}
			case 1:
				if depth > 0 {
					return &gType{cont: "map", key: &gType{base: "string"}, val: t}
				}
			}
			return t
		}
	}
	named := g.visible(f, func(s *gSym) bool {
		if !isTypeSym(s) {
			return false
		}
		if (s.kind == "exception" || s.isExc) && !allowExc {
			return false
		}
		return true
	})
	switch k := r.Intn(10); {
	case k < 2 || (len(named) == 0 && k < 6):
		return &gType{base: rng.Pick(r, baseTypes)}
	case k < 6:
		n := rng.Pick(r, named)
		return &gType{name: n.name}
	default:
		if depth <= 0 {
			if len(named) > 0 {
				return &gType{name: rng.Pick(r, named).name}
			}
			return &gType{base: "i32"}
		}
		switch r.Intn(3) {
		case 0:
			return &gType{cont: "list", val: g.genType(f, depth-1, false)}
		case 1:
			return &gType{cont: "set", val: g.genKeyType(f)}
		default:
			return &gType{cont: "map", key: g.genKeyType(f), val: g.genType(f, depth-1, false)}
		}
	}
}

// genKeyType: map keys and set elements.
func (g *gen) genKeyType(f *gFile) *gType {
	r := g.r
	keyable := g.visible(f, func(s *gSym) bool {
		if s.kind == "enum" {
			return true
		}
		if s.kind == "typedef" && s.keyable {
			return true
		}
		if !g.compileSafe && (s.kind == "struct" || s.kind == "union") {
			return true
		}
		return false
	})
	if len(keyable) > 0 && r.Chance(3, 5) {
		return &gType{name: rng.Pick(r, keyable).name}
	}
	return &gType{base: rng.Pick(r, keyBaseTypes)}
}

func (g *gen) comment(preserveChance int) string {
	r := g.r
	switch {
	case r.Chance(preserveChance, 100):
		g.p.stats["preserve_comments"]++
		return rng.Pick(r, preserveComments) + "\n"
	case r.Chance(8, 100):
		g.p.stats["near_miss_comments"]++
		return rng.Pick(r, nearMissComments) + "\n"
	case r.Chance(10, 100):
		return "// plain comment\n"
	}
	return ""
}

func (g *gen) fields(f *gFile, n int, kind string) (string, bool) {
	var b strings.Builder
	hasI32 := false
	id := 1
	for i := 0; i < n; i++ {
		t := g.genType(f, 2, false)
		req := ""
		if kind != "union" {
			switch g.r.Intn(4) {
			case 0:
				req = "optional "
			case 1:
				if !g.compileSafe || t.base != "" {
					// required fields of struct types make struct constants `{}` invalid for some backends
					req = "required "
				}
			}
		}
		if i == 0 && g.r.Chance(1, 2) {
			t = &gType{base: "i32"}
			hasI32 = true
			req = ""
			fmt.Fprintf(&b, "  %d: i32 n\n", id)
		} else {
			fmt.Fprintf(&b, "  %d: %s%s f%d\n", id, req, t.String(), i)
		}
		id += 1 + g.r.Intn(2)
	}
	return b.String(), hasI32
}

func (g *gen) newProgram(nfiles int) *gProgram {
	r := g.r
	p := &gProgram{texts: map[string]string{}, stats: map[string]int{}}
	g.p = p
	names := []string{"main.thrift", "a.thrift", "b.thrift", "sub/c.thrift", "d.thrift", "sub/e.thrift"}
	for i := 0; i < nfiles; i++ {
		n := names[i]
		base := n[strings.LastIndex(n, "/")+1:]
		p.files = append(p.files, &gFile{name: n, prefix: strings.TrimSuffix(base, ".thrift")})
	}
	// often the last file is a shared "common" file with struct-likes only, included by most others
	if nfiles >= 3 && r.Chance(1, 2) {
		p.files[nfiles-1].structOnly = true
		p.stats["shared_struct_only_file"]++
	}
	// include DAG: file i includes some files j > i; make the others reachable
	for i := 0; i < nfiles; i++ {
		f := p.files[i]
		for j := i + 1; j < nfiles; j++ {
			if r.Chance(1, 2) || (p.files[j].structOnly && r.Chance(2, 3)) {
				f.includes = append(f.includes, p.files[j])
			}
		}
		if r.Chance(1, 3) {
			// reversed include order stresses the renumbering
			for a, b := 0, len(f.includes)-1; a < b; a, b = a+1, b-1 {
				f.includes[a], f.includes[b] = f.includes[b], f.includes[a]
			}
		}
	}
	for j := 1; j < nfiles; j++ {
		reach := false
		for i := 0; i < j; i++ {
			for _, inc := range p.files[i].includes {
				if inc == p.files[j] {
					reach = true
				}
			}
		}
		if !reach {
			k := r.Intn(j)
			p.files[k].includes = append(p.files[k].includes, p.files[j])
		}
	}
	// generate bottom-up so that included symbols exist
	for i := nfiles - 1; i >= 0; i-- {
		g.genFile(p.files[i], i == 0)
	}
	for _, f := range p.files {
		var b strings.Builder
		for _, inc := range f.includes {
			// path as written: relative to the root (the parser looks relative to cwd first)
			fmt.Fprintf(&b, "include \"%s\"\n", inc.name)
		}
		b.WriteString("\n")
		for _, d := range f.body {
			b.WriteString(d)
			b.WriteString("\n")
		}
		p.texts[f.name] = b.String()
	}
	sort.Strings(p.structNames)
	return p
}

func (g *gen) genFile(f *gFile, isMain bool) {
	r := g.r
	p := g.p
	size := r.Range(0, 6)
	if isMain {
		size = r.Range(1, 6)
	}
	if !isMain && r.Chance(1, 6) {
		// a file with nothing but one kind of definition
		size = 0
	}
	nEnum, nStruct, nUnion, nExc, nTypedef, nConst := 0, 0, 0, 0, 0, 0
	for i := 0; i < size; i++ {
		switch r.Intn(10) {
		case 0:
			nEnum++
		case 1, 2, 3, 4:
			nStruct++
		case 5:
			nUnion++
		case 6:
			nExc++
		case 7, 8:
			nTypedef++
		default:
			nConst++
		}
	}
	if f.structOnly {
		nStruct += nEnum + nTypedef + nConst + 1
		nEnum, nTypedef, nConst = 0, 0, 0
	} else if size == 0 && !isMain {
		switch r.Intn(5) {
		case 0:
			nEnum = 1
		case 1:
			nConst = 1
		case 2:
			nTypedef = 1
		case 3:
			nStruct = 1
		}
	}
	add := func(kind, name string) *gSym {
		s := &gSym{kind: kind, name: name, file: f}
		f.syms = append(f.syms, s)
		return s
	}
	// enums first (keyable, usable everywhere)
	for i := 0; i < nEnum; i++ {
		s := add("enum", fmt.Sprintf("E%d", i))
		s.values = []string{"A", "B"}
		f.body = append(f.body, fmt.Sprintf("%senum %s {\n  A = 1\n  B = 2\n}\n", g.comment(0), s.name))
		p.stats["enums"]++
	}
	// declare struct-like names first so that fields may refer forward / recursively
	var sls []*gSym
	for i := 0; i < nStruct; i++ {
		sls = append(sls, add("struct", fmt.Sprintf("S%d", i)))
	}
	for i := 0; i < nUnion; i++ {
		sls = append(sls, add("union", fmt.Sprintf("U%d", i)))
	}
	for i := 0; i < nExc; i++ {
		sls = append(sls, add("exception", fmt.Sprintf("X%d", i)))
	}
	if r.Chance(1, 5) && nStruct > 0 {
		// a snake_case struct for match_go_name
		sls = append(sls, add("struct", "user_info"))
	}
	// typedefs: targets among what exists so far (no typedef cycles)
	for i := 0; i < nTypedef; i++ {
		var t *gType
		keyable, isExc := false, false
		cands := g.visible(f, isTypeSym)
		switch k := r.Intn(6); {
		case k == 0 || len(cands) == 0:
			t = &gType{base: rng.Pick(r, keyBaseTypes)}
			keyable = true
		case k == 1:
			t = &gType{cont: "list", val: g.genType(f, 1, false)}
		case k == 2:
			t = &gType{cont: "map", key: g.genKeyType(f), val: g.genType(f, 1, false)}
		default:
			c := rng.Pick(r, cands)
			t = &gType{name: c.name}
			keyable = c.s.kind == "enum" || (c.s.kind == "typedef" && c.s.keyable)
			isExc = c.s.kind == "exception" || c.s.isExc
		}
		s := add("typedef", fmt.Sprintf("T%d", i))
		s.keyable, s.isExc = keyable, isExc
		f.body = append(f.body, fmt.Sprintf("typedef %s %s\n", t.String(), s.name))
		p.stats["typedefs"]++
	}
	for _, s := range sls {
		n := r.Range(0, 4)
		body, hasI32 := g.fields(f, n, s.kind)
		s.hasI32 = hasI32
		f.body = append(f.body, fmt.Sprintf("%s%s %s {\n%s}\n", g.comment(12), s.kind, s.name, body))
		p.structNames = append(p.structNames, s.name)
		p.stats[s.kind+"s"]++
	}
	// constants
	for i := 0; i < nConst; i++ {
		name := fmt.Sprintf("C%d", i)
		enums := g.visible(f, func(s *gSym) bool { return s.kind == "enum" })
		structs := g.visible(f, func(s *gSym) bool { return s.kind == "struct" })
		consts := g.visible(f, func(s *gSym) bool { return s.kind == "const" })
		switch k := r.Intn(6); {
		case k == 0 && len(enums) > 0:
			e := rng.Pick(r, enums)
			f.body = append(f.body, fmt.Sprintf("const %s %s = %s.%s\n", e.name, name, e.name, rng.Pick(r, e.s.values)))
			add("enumconst", name)
		case k == 1 && len(structs) > 0:
			s := rng.Pick(r, structs)
			val := "{}"
			if s.s.hasI32 {
				val = "{\"n\": 7}"
			}
			f.body = append(f.body, fmt.Sprintf("const %s %s = %s\n", s.name, name, val))
			add("structconst", name)
		case k == 2 && len(structs) > 0:
			s := rng.Pick(r, structs)
			f.body = append(f.body, fmt.Sprintf("const list<%s> %s = []\n", s.name, name))
			add("structconst", name)
		case k == 3 && len(consts) > 0:
			c := rng.Pick(r, consts)
			f.body = append(f.body, fmt.Sprintf("const i32 %s = %s\n", name, c.name))
			add("const", name)
		default:
			f.body = append(f.body, fmt.Sprintf("const i32 %s = %d\n", name, r.Intn(100)))
			add("const", name)
		}
		p.stats["constants"]++
	}
	// services
	nSvc := 0
	if isMain {
		nSvc = r.Range(1, 3)
		if r.Chance(1, 12) {
			nSvc = 0
		}
	} else if r.Chance(1, 2) {
		nSvc = r.Range(1, 2)
	}
	for i := 0; i < nSvc; i++ {
		sv := &gService{name: fmt.Sprintf("Svc%d", i)}
		if !isMain {
			sv.name = fmt.Sprintf("Base%d", i)
		}
		// extends: an earlier service of this file or a service of an included file
		var bases []string
		for _, o := range f.services {
			bases = append(bases, o.name)
		}
		for _, inc := range f.includes {
			for _, o := range inc.services {
				bases = append(bases, inc.prefix+"."+o.name)
			}
		}
		if len(bases) > 0 && r.Chance(1, 2) {
			sv.extends = rng.Pick(r, bases)
			p.stats["extends"]++
		}
		nf := r.Range(0, 4)
		used := map[string]bool{}
		var b strings.Builder
		fmt.Fprintf(&b, "service %s", sv.name)
		if sv.extends != "" {
			fmt.Fprintf(&b, " extends %s", sv.extends)
		}
		b.WriteString(" {\n")
		for k := 0; k < nf; k++ {
			fn := rng.Pick(r, funcNames)
			if g.compileSafe {
				// the Go backend exports get / Get under one name and embeds base services:
				// keep method names distinct across the whole program
				g.fnCounter++
				fn = fmt.Sprintf("m%d", g.fnCounter)
			}
			if used[fn] {
				continue
			}
			used[fn] = true
			sv.funcs = append(sv.funcs, fn)
			ret := "void"
			oneway := ""
			if r.Chance(3, 4) {
				ret = g.genType(f, 2, false).String()
			} else if r.Chance(1, 4) {
				oneway = "oneway "
			}
			var args []string
			for a, na := 0, r.Range(0, 2); a < na; a++ {
				args = append(args, fmt.Sprintf("%d: %s a%d", a+1, g.genType(f, 2, false).String(), a))
			}
			throws := ""
			if oneway == "" {
				excs := g.visible(f, func(s *gSym) bool {
					return s.kind == "exception" || (!g.compileSafe && s.kind == "typedef" && s.isExc)
				})
				if len(excs) > 0 && r.Chance(1, 2) {
					var ts []string
					seen := map[string]bool{}
					for e, ne := 0, r.Range(1, 2); e < ne; e++ {
						x := rng.Pick(r, excs)
						if seen[x.name] {
							continue
						}
						seen[x.name] = true
						ts = append(ts, fmt.Sprintf("%d: %s e%d", e+1, x.name, e))
					}
					throws = " throws (" + strings.Join(ts, ", ") + ")"
					p.stats["throws"]++
				}
			}
			fmt.Fprintf(&b, "  %s%s %s(%s)%s\n", oneway, ret, fn, strings.Join(args, ", "), throws)
			p.stats["functions"]++
		}
		b.WriteString("}\n")
		sv.text = b.String()
		f.services = append(f.services, sv)
		f.body = append(f.body, sv.text)
		add("service", sv.name)
		p.stats["services"]++
	}
}
