package main

import (
	"fmt"
	"sort"

	"verif/harness/idlast"
	"verif/harness/idlgen"
	"verif/harness/rng"
)

// The rendered stream: idlgen programs, every file rendered under several random layouts
// (plus the canonical one), parsed file by file with parser.ParseString.  The intended
// AST of a file is the generator's model with Include.Ref blanked (ParseString does not
// follow includes).

func intendedFile(f *idlast.File) *idlast.File {
	c := *f
	c.Includes = make([]*idlast.Include, len(f.Includes))
	for i, inc := range f.Includes {
		x := *inc
		x.Ref = nil
		c.Includes[i] = &x
	}
	return &c
}

func init() {
	renderedStream = func(p *producer, r *rng.R, tier string) {
		type plan struct {
			sub      string
			opt      idlgen.Options
			programs int
		}
		layouts := 2
		plans := []plan{
			{"rendered-syntactic", idlgen.Options{Envelope: idlgen.Syntactic, MaxFiles: 3, Size: 5}, 7},
			{"rendered-valid", idlgen.Options{Envelope: idlgen.Valid, MaxFiles: 3, Size: 5}, 4},
			{"rendered-req-prefixed", idlgen.Options{Envelope: idlgen.Syntactic, MaxFiles: 2, Size: 4, ReqPrefixedTypeNames: true}, 2},
		}
		if tier == "thorough" {
			layouts = 3
			plans = []plan{
				{"rendered-syntactic", idlgen.Options{Envelope: idlgen.Syntactic, MaxFiles: 4, Size: 8}, 150},
				{"rendered-valid", idlgen.Options{Envelope: idlgen.Valid, MaxFiles: 4, Size: 8}, 80},
				{"rendered-syntactic-large", idlgen.Options{Envelope: idlgen.Syntactic, MaxFiles: 8, Size: 14}, 5},
				{"rendered-req-prefixed", idlgen.Options{Envelope: idlgen.Syntactic, MaxFiles: 3, Size: 6, ReqPrefixedTypeNames: true}, 8},
			}
		}
		p.st.LayoutsPerFile = layouts + 1
		for _, pl := range plans {
			for i := 0; i < pl.programs; i++ {
				seed := r.U64()
				pr := rng.New(seed)
				prog := idlgen.Generate(pr, pl.opt)
				p.st.RenderedPrograms++
				for k, v := range prog.Stats() {
					p.st.Gen[k] += v
				}
				// layouts: canonical first, then random ones (the same layout value for all files of the program)
				names := []string{"canonical"}
				ls := []*idlgen.Layout{nil}
				for k := 0; k < layouts; k++ {
					l := idlgen.RandomLayout(pr.Fork())
					ls = append(ls, l)
					names = append(names, fmt.Sprintf("random-%d", k))
				}
				texts := make([]map[string]string, len(ls))
				for k, l := range ls {
					texts[k] = prog.Render(l)
				}
				var files []string
				for _, e := range prog.AST() {
					files = append(files, string(e.Filename))
				}
				sort.Strings(files)
				for _, fn := range files {
					f := prog.AST().Lookup(fn)
					var srcs []string
					for k := range ls {
						srcs = append(srcs, texts[k][fn])
					}
					p.st.RenderedFiles++
					p.addDoc("rendered", pl.sub, kindRendered, fn, intendedFile(f), seed, names, srcs)
				}
			}
		}
	}
}
