(* Gen/ScopeFacts.v — proofs about the model of the Go backend's name tables (Gen/Scope.v).
   Everything is an instance of the facts proved about pkg/namespace in Gen/NamespaceFacts.v
   (ns_owner_stable, add_loop_free), applied to the operation sequence that the model of
   scope_internal.go produces; the sequence is linked to [run_ops] by [ns_of_table_after]. *)
From Coq Require Import List Arith Bool ZArith NArith Lia.
From Coq.Strings Require Import Byte.
From Verif Require Import Base.Bytes Gen.Namespace Gen.NamespaceFacts Gen.NamespaceTotal Idl.Ast Idl.AstUtil Gen.Scope.
Import ListNotations.

(* ------------------------------------------------------------------ run_ops over appended sequences *)
Lemma run_ops_app rn : forall a b s,
  fst (run_ops rn s (a ++ b)) = fst (run_ops rn (fst (run_ops rn s a)) b).
Proof.
  induction a as [|o a IH]; intros b s; cbn [run_ops app].
  - reflexivity.
  - destruct (step rn s o) as [s1 v] eqn:E1.
    specialize (IH b s1).
    destruct (run_ops rn s1 (a ++ b)) as [s2 vs] eqn:E2.
    destruct (run_ops rn s1 a) as [s3 vs3] eqn:E3.
    cbn [fst] in *. destruct (run_ops rn s3 b) as [s4 vs4] eqn:E4. cbn [fst] in *. exact IH.
Qed.

Lemma run_ops_one rn s o : fst (run_ops rn s [o]) = fst (step rn s o).
Proof. cbn [run_ops]. destruct (step rn s o). reflexivity. Qed.

Definition chron (tr : list entry) : list (table * op) := map (fun e => (e_table e, e_op e)) (rev tr).

Lemma ops_of_app t a b : ops_of t (a ++ b) = ops_of t a ++ ops_of t b.
Proof. unfold ops_of. rewrite filter_app, map_app. reflexivity. Qed.

(* the table the model consults is the table that run_ops builds from the recorded operations *)
Lemma ns_of_table_after t tr : ns_of t tr = table_after t (chron tr).
Proof.
  unfold table_after, chron. induction tr as [|e r IH]; cbn [ns_of rev].
  - reflexivity.
  - rewrite map_app, ops_of_app, run_ops_app. rewrite <- IH. cbn [map app].
    unfold ops_of at 1. cbn [filter fst]. destruct (table_eqb (e_table e) t).
    + cbn [map snd]. apply eq_sym, run_ops_one.
    + reflexivity.
Qed.

(* operations recorded later only extend the sequence of every table *)
Lemma ns_of_app t newer older :
  ns_of t (newer ++ older) =
  fst (run_ops underscore_suffix (ns_of t older) (ops_of t (chron newer))).
Proof.
  rewrite (ns_of_table_after t (newer ++ older)), (ns_of_table_after t older).
  unfold table_after, chron. rewrite rev_app_distr, map_app, ops_of_app, run_ops_app. reflexivity.
Qed.

(* instance of ns_owner_stable: a name owned in a table stays owned by the same id *)
Lemma owners_grow t newer older : owners_kept (ns_of t older) (ns_of t (newer ++ older)).
Proof.
  rewrite ns_of_app.
  destruct (run_ops underscore_suffix (ns_of t older) (ops_of t (chron newer))) as [s' vs] eqn:E.
  cbn [fst]. eapply ns_owner_stable. exact E.
Qed.

(* ------------------------------------------------------------------ well-formed traces *)
(* [entry_ok older e]: the recorded name is what the operation returned on the table as it was *)
Definition entry_ok (older : list entry) (e : entry) : Prop :=
  match e_op e with
  | OAdd name id => exists s', add underscore_suffix (ns_of (e_table e) older) name id = Some (s', e_name e)
  | OReserve name id => lookup name (name2id (ns_of (e_table e) older)) = None /\ e_name e = name
  | _ => False
  end.

(* parameters and throws: the PREFERRED name handed to Add is not a Go keyword *)
Definition good_entry (e : entry) : Prop :=
  match e_kind e with
  | KParam | KThrow => match e_op e with OAdd name _ => is_keyword name = false | _ => False end
  | _ => True
  end.

Fixpoint trace_ok (tr : list entry) : Prop :=
  match tr with
  | [] => True
  | e :: older => entry_ok older e /\ good_entry e /\ trace_ok older
  end.

Lemma trace_ok_app a b : trace_ok (a ++ b) -> trace_ok b.
Proof. induction a as [|e a IH]; cbn [app trace_ok]; [tauto | intros (_ & _ & H); auto]. Qed.

(* ------------------------------------------------------------------ every program preserves them *)
Definition pres {A} (m : M A) : Prop :=
  forall tr a tr', trace_ok tr -> m tr = SOk (a, tr') -> trace_ok tr'.

Lemma pres_ret {A} (a : A) : pres (ret a).
Proof. intros tr x tr' H [= _ <-]. exact H. Qed.

Lemma pres_bind {A B} (m : M A) (f : A -> M B) : pres m -> (forall a, pres (f a)) -> pres (bind m f).
Proof.
  intros Hm Hf tr b tr' H. unfold bind. destruct (m tr) as [[a tr1]|e] eqn:E; [|discriminate].
  intro E2. eapply Hf; [eapply Hm; eassumption | exact E2].
Qed.

Lemma pres_seq {A} (m : M unit) (k : M A) : pres m -> pres k -> pres (seq m k).
Proof. intros Hm Hk. apply pres_bind; [exact Hm | intros _; exact Hk]. Qed.

Lemma pres_when b m : pres m -> pres (when b m).
Proof. destruct b; cbn [when]; [auto | intros _; apply pres_ret]. Qed.

Lemma pres_for_idx {A} (f : nat -> A -> M unit) : (forall i x, pres (f i x)) -> forall l i, pres (for_idx f i l).
Proof.
  intros Hf. induction l as [|x l IH]; intros i; cbn [for_idx].
  - apply pres_ret.
  - apply pres_seq; [apply Hf | apply IH].
Qed.

Lemma pres_for_each {A} (f : A -> M unit) l : (forall x, pres (f x)) -> pres (for_each f l).
Proof. intros Hf. unfold for_each. apply pres_for_idx. intros _ x. apply Hf. Qed.

Lemma pres_add t ow k name id :
  (forall r, good_entry (Entry t ow k (OAdd name id) r)) -> pres (m_add t ow k name id).
Proof.
  intros Hg tr a tr' H. unfold m_add.
  destruct (add underscore_suffix (ns_of t tr) name id) as [[s' r]|] eqn:E; [|discriminate].
  intros [= <- <-]. cbn [trace_ok]. split; [|split; [apply Hg | exact H]].
  unfold entry_ok. cbn [e_op e_table e_name]. exists s'. exact E.
Qed.

Lemma pres_add_ t k name id :
  (forall r, good_entry (Entry t t k (OAdd name id) r)) -> pres (m_add_ t k name id).
Proof. intros Hg. unfold m_add_. apply pres_bind; [apply pres_add; exact Hg | intros _; apply pres_ret]. Qed.

Lemma pres_reserve t ow k name id :
  good_entry (Entry t ow k (OReserve name id) name) -> pres (m_reserve t ow k name id).
Proof.
  intros Hg tr a tr' H. unfold m_reserve, reserve.
  destruct (lookup name (name2id (ns_of t tr))) eqn:E; cbn [snd]; [discriminate|].
  intros [= _ <-]. cbn [trace_ok]. split; [|split; [exact Hg | exact H]].
  unfold entry_ok. cbn [e_op e_table e_name]. split; [exact E | reflexivity].
Qed.

(* ------------------------------------------------------------------ keywords *)
Lemma keyword_shape k : is_keyword k = true -> hd x00 k <> x5f /\ last k x00 <> x5f.
Proof.
  unfold is_keyword. rewrite existsb_exists. intros (w & Hin & Hw). apply beqb_true in Hw. subst w.
  revert k Hin.
  assert (F : Forall (fun k => hd x00 k <> x5f /\ last k x00 <> x5f) go_keywords).
  { unfold go_keywords. repeat constructor; vm_compute; discriminate. }
  intros k Hin. rewrite Forall_forall in F. apply F. exact Hin.
Qed.

Lemma not_keyword_underscore_head n : is_keyword (x5f :: n) = false.
Proof.
  destruct (is_keyword (x5f :: n)) eqn:E; [|reflexivity].
  apply keyword_shape in E. destruct E as [E _]. cbn in E. congruence.
Qed.

Lemma last_app_repeat n c : last (n ++ repeat x5f (S c)) x00 = x5f.
Proof.
  replace (repeat x5f (S c)) with (repeat x5f c ++ [x5f]).
  - rewrite app_assoc. apply last_last.
  - clear. induction c as [|c IH]; cbn [repeat app]; [reflexivity|]. f_equal. exact IH.
Qed.

Lemma not_keyword_underscore_tail n c : is_keyword (n ++ repeat x5f (S c)) = false.
Proof.
  destruct (is_keyword (n ++ repeat x5f (S c))) eqn:E; [|reflexivity].
  apply keyword_shape in E. destruct E as [_ E]. rewrite last_app_repeat in E. congruence.
Qed.

Section WithStyle.
Variable identify : bytes -> bytes.
Variable lower_first : bytes -> bytes.

Lemma param_name_not_keyword ft raw : is_keyword (param_name identify lower_first ft raw) = false.
Proof.
  unfold param_name. destruct (is_keyword (lower_first (s_identify identify ft raw))) eqn:E.
  - apply not_keyword_underscore_head.
  - exact E.
Qed.

Ltac trivial_good := intros; exact I.

Lemma pres_build_struct_like ft t vname cat fields nn :
  pres (build_struct_like identify ft t vname cat fields nn).
Proof.
  unfold build_struct_like.
  apply pres_bind; [apply pres_add; trivial_good | intros sn].
  apply pres_seq; [apply pres_reserve; exact I|].
  apply pres_seq; [apply pres_reserve; exact I|].
  apply pres_seq; [apply pres_for_each; intros fn; apply pres_reserve; exact I|].
  apply pres_seq.
  - apply pres_for_each. intros f.
    apply pres_seq; [apply pres_add_; trivial_good|].
    apply pres_seq; [apply pres_when, pres_add_; trivial_good|].
    apply pres_seq; [apply pres_when, pres_add_; trivial_good|].
    apply pres_seq; [apply pres_add_; trivial_good|].
    apply pres_seq; [apply pres_add_; trivial_good|].
    apply pres_when, pres_add_; trivial_good.
  - apply pres_for_each. intros f. apply pres_add_; trivial_good.
Qed.

Lemma pres_build_function ft t v : pres (build_function identify lower_first ft t v).
Proof.
  unfold build_function.
  apply pres_seq; [apply pres_reserve; exact I|].
  apply pres_seq; [apply pres_reserve; exact I|].
  apply pres_seq; [apply pres_reserve; exact I|].
  apply pres_seq; [apply pres_when, pres_seq; apply pres_reserve; exact I|].
  apply pres_seq; apply pres_for_each; intros a; apply pres_add_; intros r;
    unfold good_entry; cbn [e_kind e_op]; apply param_name_not_keyword.
Qed.

Lemma pres_build_service ft i v : pres (build_service identify lower_first ft i v).
Proof.
  unfold build_service.
  apply pres_bind; [apply pres_add; trivial_good | intros sn].
  apply pres_seq.
  { apply pres_for_idx. intros j f. apply pres_bind; [apply pres_add; trivial_good | intros _; apply pres_ret]. }
  apply pres_seq.
  { apply pres_for_idx. intros j f.
    apply pres_seq; [apply pres_build_struct_like|].
    apply pres_seq; [apply pres_when, pres_build_struct_like | apply pres_build_function]. }
  apply pres_seq; apply pres_reserve; exact I.
Qed.

Lemma pres_install_names ft f : pres (install_names identify lower_first ft f).
Proof.
  unfold install_names.
  apply pres_seq; [apply pres_for_idx; intros i v; apply pres_build_service|].
  apply pres_seq; [apply pres_for_idx; intros k v; apply pres_build_struct_like|].
  apply pres_seq.
  { apply pres_for_idx. intros k e. unfold build_enum.
    apply pres_bind; [apply pres_add; trivial_good | intros en].
    apply pres_for_each. intros v. apply pres_add_; trivial_good. }
  apply pres_seq.
  { apply pres_for_each. intros t. unfold build_typedef.
    apply pres_bind; [apply pres_add; trivial_good | intros tn].
    apply pres_when, pres_reserve. exact I. }
  apply pres_for_each. intros c. unfold build_constant. apply pres_add_; trivial_good.
Qed.

Lemma scope_run_ok ft f es :
  scope_run identify lower_first ft f = SOk es -> trace_ok (rev es).
Proof.
  unfold scope_run. destruct (install_names identify lower_first ft f []) as [[u tr]|e] eqn:E; [|discriminate].
  intros [= <-]. rewrite rev_involutive. eapply pres_install_names; [|exact E]. exact I.
Qed.
End WithStyle.

(* ------------------------------------------------------------------ the only error is a reserve failure *)
Definition nofuel {A} (m : M A) : Prop := forall tr, m tr <> SErr EFuel.

Lemma nofuel_ret {A} (a : A) : nofuel (ret a).
Proof. intros tr. discriminate. Qed.
Lemma nofuel_bind {A B} (m : M A) (f : A -> M B) : nofuel m -> (forall a, nofuel (f a)) -> nofuel (bind m f).
Proof.
  intros Hm Hf tr. unfold bind. destruct (m tr) as [[a tr1]|e] eqn:E; [apply Hf|].
  intros [= ->]. exact (Hm tr E).
Qed.
Lemma nofuel_seq {A} (m : M unit) (k : M A) : nofuel m -> nofuel k -> nofuel (seq m k).
Proof. intros Hm Hk. apply nofuel_bind; [exact Hm | intros _; exact Hk]. Qed.
Lemma nofuel_when b m : nofuel m -> nofuel (when b m).
Proof. destruct b; cbn [when]; [auto | intros _; apply nofuel_ret]. Qed.
Lemma nofuel_for_idx {A} (f : nat -> A -> M unit) : (forall i x, nofuel (f i x)) -> forall l i, nofuel (for_idx f i l).
Proof.
  intros Hf. induction l as [|x l IH]; intros i; cbn [for_idx]; [apply nofuel_ret | apply nofuel_seq; [apply Hf | apply IH]].
Qed.
Lemma nofuel_for_each {A} (f : A -> M unit) l : (forall x, nofuel (f x)) -> nofuel (for_each f l).
Proof. intros Hf. unfold for_each. apply nofuel_for_idx. intros _ x. apply Hf. Qed.
Lemma nofuel_add t ow k name id : nofuel (m_add t ow k name id).
Proof.
  intros tr. unfold m_add. pose proof (add_underscore_total (ns_of t tr) name id) as H.
  destruct (add underscore_suffix (ns_of t tr) name id) as [[s' r]|]; [discriminate | contradiction].
Qed.
Lemma nofuel_add_ t k name id : nofuel (m_add_ t k name id).
Proof. unfold m_add_. apply nofuel_bind; [apply nofuel_add | intros _; apply nofuel_ret]. Qed.
Lemma nofuel_reserve t ow k name id : nofuel (m_reserve t ow k name id).
Proof. intros tr. unfold m_reserve. destruct (snd (reserve (ns_of t tr) name id)); discriminate. Qed.

Section NoFuel.
Variable identify : bytes -> bytes.
Variable lower_first : bytes -> bytes.

Ltac nf := repeat first
  [ apply nofuel_ret | apply nofuel_add | apply nofuel_add_ | apply nofuel_reserve
  | apply nofuel_when | apply nofuel_seq | apply nofuel_for_each; intros ? | apply nofuel_for_idx; intros ? ?
  | apply nofuel_bind; [|intros ?] ].

Lemma nofuel_build_struct_like ft t vname cat fields nn :
  nofuel (build_struct_like identify ft t vname cat fields nn).
Proof. unfold build_struct_like. nf. Qed.

Lemma nofuel_build_function ft t v : nofuel (build_function identify lower_first ft t v).
Proof. unfold build_function. nf. Qed.

Lemma nofuel_install_names ft f : nofuel (install_names identify lower_first ft f).
Proof.
  unfold install_names, build_service, build_enum, build_typedef, build_constant.
  nf; try apply nofuel_build_struct_like; try apply nofuel_build_function.
Qed.

(* the model rejects a file for one reason only: a MustReserve found its name occupied *)
Theorem scope_error_is_reserve_failure ft f e :
  scope_run identify lower_first ft f = SErr e -> e = EReserve.
Proof.
  unfold scope_run. destruct (install_names identify lower_first ft f []) as [[u tr]|e'] eqn:E; [discriminate|].
  intros [= <-]. destruct e'; [reflexivity|]. exfalso. exact (nofuel_install_names ft f [] E).
Qed.
End NoFuel.

(* ------------------------------------------------------------------ consequences for well-formed traces *)
(* right after an operation its name is owned by its id *)

Lemma table_eqb_refl t : table_eqb t t = true.
Proof. destruct t; cbn [table_eqb]; rewrite ?Nat.eqb_refl, ?Bool.eqb_reflx; reflexivity. Qed.

Lemma table_eqb_eq a b : table_eqb a b = true -> a = b.
Proof.
  destruct a, b; cbn [table_eqb]; try discriminate; intro H;
    repeat match goal with
           | H : _ && _ = true |- _ => apply andb_prop in H; destruct H
           | H : Nat.eqb _ _ = true |- _ => apply Nat.eqb_eq in H; subst
           | H : Bool.eqb _ _ = true |- _ => apply Bool.eqb_prop in H; subst
           end; reflexivity.
Qed.

Lemma owner_after older e :
  entry_ok older e -> lookup (e_name e) (name2id (ns_of (e_table e) (e :: older))) = Some (e_id e).
Proof.
  unfold entry_ok, e_id. cbn [ns_of]. rewrite table_eqb_refl.
  destruct (e_op e) as [name id|name id|id|name]; cbn [op_id step]; try contradiction.
  - intros (s' & E). rewrite E. cbn [fst].
    unfold add in E. destruct (add_loop _ _ _ name id name 0) as [res|]; [|discriminate].
    injection E as <- <-. cbn [name2id ns_set]. apply lookup_update_same.
  - intros (E & ->). unfold reserve. rewrite E. cbn [fst name2id ns_set]. apply lookup_update_same.
Qed.

(* two operations on one table that ended with the same name: they were made for the same id,
   and the later one is an Add (a MustReserve never lands on a name that is already there) *)
Theorem same_name_same_id newer e2 mid e1 older :
  trace_ok (newer ++ e2 :: mid ++ e1 :: older) ->
  e_table e1 = e_table e2 -> e_name e1 = e_name e2 ->
  e_id e1 = e_id e2 /\ is_add (e_op e2) = true.
Proof.
  intros Hok Ht Hn.
  apply trace_ok_app in Hok. cbn [trace_ok] in Hok. destruct Hok as (H2 & _ & Hrest).
  pose proof (trace_ok_app mid (e1 :: older) Hrest) as H1. cbn [trace_ok] in H1. destruct H1 as (H1 & _ & _).
  apply owner_after in H1.
  pose proof (owners_grow (e_table e1) mid (e1 :: older) _ _ H1) as Hown.
  rewrite Ht, Hn in Hown.
  unfold entry_ok in H2. unfold e_id at 2.
  destruct (e_op e2) as [name id|name id|id|name]; cbn [op_id is_add]; try contradiction.
  - destruct H2 as (s' & E). unfold add in E.
    destruct (add_loop underscore_suffix _ _ name id name 0) as [res|] eqn:EL; [|discriminate].
    injection E as _ Eres. apply add_loop_free in EL. rewrite Eres, Hown in EL.
    destruct EL as [EL|EL]; [discriminate|]. injection EL as <-. split; reflexivity.
  - destruct H2 as (E & En). rewrite En in Hown. rewrite Hown in E. discriminate.
Qed.

(* the name Add returns is the preferred name followed by underscores *)
Lemma add_loop_shape fuel : forall s name id res cnt r,
  add_loop underscore_suffix fuel s name id res cnt = Some r ->
  r = res \/ exists c, r = name ++ repeat x5f (S c).
Proof.
  induction fuel as [|f IH]; intros s name id res cnt r; cbn [add_loop].
  - destruct (lookup res (name2id s)) as [cur|]; [destruct (beqb cur id)|]; try discriminate; intros [= <-]; left; reflexivity.
  - destruct (lookup res (name2id s)) as [cur|]; [destruct (beqb cur id)|]; try (intros [= <-]; left; reflexivity).
    intro E. apply IH in E. destruct E as [->|E]; [right; exists cnt; reflexivity | right; exact E].
Qed.

Lemma entry_param_not_keyword older e :
  entry_ok older e -> good_entry e ->
  (kind_eqb (e_kind e) KParam || kind_eqb (e_kind e) KThrow) = true -> is_keyword (e_name e) = false.
Proof.
  unfold entry_ok, good_entry. intros Hok Hg Hk.
  destruct (e_kind e); try discriminate Hk;
    (destruct (e_op e) as [name id| | |]; try contradiction;
     destruct Hok as (s' & E); unfold add in E;
     destruct (add_loop underscore_suffix _ _ name id name 0) as [res|] eqn:EL; [|discriminate];
     injection E as _ <-; apply add_loop_shape in EL; destruct EL as [->|(c & ->)];
     [exact Hg | apply not_keyword_underscore_tail]).
Qed.

(* ------------------------------------------------------------------ chronological statements *)
Lemma filter_split {A} (p : A -> bool) : forall l a x c,
  filter p l = a ++ x :: c -> exists a' c', l = a' ++ x :: c' /\ filter p a' = a /\ filter p c' = c.
Proof.
  induction l as [|y l IH]; intros a x c; cbn [filter].
  - destruct a; discriminate.
  - destruct (p y) eqn:Ey.
    + destruct a as [|a0 a]; cbn [app].
      * intros [= <- <-]. exists [], l. cbn [app filter]. auto.
      * intros [= <- E]. apply IH in E. destruct E as (a' & c' & -> & <- & <-).
        exists (y :: a'), c'. cbn [app filter]. rewrite Ey. auto.
    + intro E. apply IH in E. destruct E as (a' & c' & -> & <- & <-).
      exists (y :: a'), c'. cbn [app filter]. rewrite Ey. auto.
Qed.

Lemma rev_split5 {A} (a : list A) e1 b e2 c :
  rev (a ++ e1 :: b ++ e2 :: c) = rev c ++ e2 :: rev b ++ e1 :: rev a.
Proof.
  rewrite rev_app_distr. cbn [rev]. rewrite rev_app_distr. cbn [rev].
  repeat rewrite <- app_assoc. cbn [app]. reflexivity.
Qed.

(* pairwise statement lifted to NoDup *)
Lemma nodup_names (l : list entry) :
  (forall a e1 b e2 c, l = a ++ e1 :: b ++ e2 :: c -> e_name e1 = e_name e2 -> e_id e1 = e_id e2) ->
  NoDup (map e_id l) -> NoDup (map e_name l).
Proof.
  induction l as [|e l IH]; intros Hp Hn; cbn [map]; [constructor|].
  cbn [map] in Hn. inversion Hn as [|x xs Hnotin Hn']; subst.
  constructor.
  - intro Hin. apply in_map_iff in Hin. destruct Hin as (e2 & En & Hin).
    apply in_split in Hin. destruct Hin as (b & c & ->).
    apply Hnotin. rewrite (Hp [] e b e2 c eq_refl (eq_sym En)).
    apply in_map, in_or_app. right. left. reflexivity.
  - apply IH; [|exact Hn']. intros a e1 b e2 c -> En. apply (Hp (e :: a) e1 b e2 c eq_refl En).
Qed.

Section Theorems.
Variable identify : bytes -> bytes.
Variable lower_first : bytes -> bytes.

(* general form, no side condition *)
Theorem table_same_name ft f es a e1 b e2 c :
  scope_run identify lower_first ft f = SOk es ->
  es = a ++ e1 :: b ++ e2 :: c ->
  e_table e1 = e_table e2 -> e_name e1 = e_name e2 ->
  e_id e1 = e_id e2 /\ is_add (e_op e2) = true.
Proof.
  intros Hr -> Ht Hn. apply scope_run_ok in Hr. rewrite rev_split5 in Hr.
  eapply same_name_same_id; eassumption.
Qed.

(* for every table: distinct ids give distinct names *)
Theorem table_distinct ft f es t :
  scope_run identify lower_first ft f = SOk es ->
  NoDup (map e_id (entries_of t es)) -> NoDup (map e_name (entries_of t es)).
Proof.
  intros Hr. apply nodup_names. intros a e1 b e2 c Hl En. unfold entries_of in Hl.
  pose proof Hl as Hl0.
  apply filter_split in Hl. destruct Hl as (a' & c' & -> & Ha & Hc).
  assert (T1 : table_eqb (e_table e1) t = true).
  { assert (Hin : In e1 (filter (fun e => table_eqb (e_table e) t) (a' ++ e1 :: c'))) by (rewrite Hl0; apply in_or_app; right; left; reflexivity).
    apply filter_In in Hin. apply Hin. }
  assert (T2 : table_eqb (e_table e2) t = true).
  { assert (Hin : In e2 (filter (fun e => table_eqb (e_table e) t) (a' ++ e1 :: c'))) by (rewrite Hl0; apply in_or_app; right; right; apply in_or_app; right; left; reflexivity).
    apply filter_In in Hin. apply Hin. }
  apply filter_split in Hc. destruct Hc as (b' & c'' & -> & Hb & Hc').
  apply table_eqb_eq in T1, T2.
  eapply (table_same_name ft f _ a' e1 b' e2 c'' Hr eq_refl); [congruence | exact En].
Qed.

Theorem globals_distinct ft f es :
  scope_run identify lower_first ft f = SOk es ->
  NoDup (map e_id (entries_of TGlobals es)) -> NoDup (map e_name (entries_of TGlobals es)).
Proof. intros; eapply table_distinct; eassumption. Qed.

Theorem struct_members_distinct ft f es t :
  scope_run identify lower_first ft f = SOk es ->
  (exists k, t = TStruct k) \/ (exists i j r, t = TSynth i j r) ->
  NoDup (map e_id (entries_of t es)) -> NoDup (map e_name (entries_of t es)).
Proof. intros Hr _. eapply table_distinct. exact Hr. Qed.

Theorem params_distinct_and_not_keywords ft f es i j :
  scope_run identify lower_first ft f = SOk es ->
  (NoDup (map e_id (entries_of (TFunction i j) es)) -> NoDup (map e_name (entries_of (TFunction i j) es))) /\
  (forall e, In e es -> (kind_eqb (e_kind e) KParam || kind_eqb (e_kind e) KThrow) = true -> is_keyword (e_name e) = false).
Proof.
  intros Hr. split; [eapply table_distinct; exact Hr|].
  intros e Hin Hk. apply scope_run_ok in Hr. apply in_rev in Hin.
  apply in_split in Hin. destruct Hin as (newer & older & E). rewrite E in Hr.
  apply trace_ok_app in Hr. cbn [trace_ok] in Hr. destruct Hr as (Hok & Hg & _).
  eapply entry_param_not_keyword; eassumption.
Qed.

(* a MustReserve never lands on a name recorded earlier in its table *)
Theorem reserved_name_fresh ft f es a e1 b e2 c :
  scope_run identify lower_first ft f = SOk es ->
  es = a ++ e1 :: b ++ e2 :: c -> e_table e1 = e_table e2 ->
  is_add (e_op e2) = false -> e_name e1 <> e_name e2.
Proof.
  intros Hr He Ht Hadd Hn. destruct (table_same_name ft f es a e1 b e2 c Hr He Ht Hn) as [_ H]. congruence.
Qed.

(* MustReserve on an occupied name is an error, errors are never swallowed, so an accepted file
   has found every reserved name free *)
Theorem reserve_fails_iff t ow k name id tr :
  m_reserve t ow k name id tr = SErr EReserve <-> lookup name (name2id (ns_of t tr)) <> None.
Proof.
  unfold m_reserve, reserve. destruct (lookup name (name2id (ns_of t tr))); cbn [snd]; split; intro H; try congruence.
Qed.

Theorem error_propagates {A B} (m : M A) (g : A -> M B) tr e : m tr = SErr e -> bind m g tr = SErr e.
Proof. unfold bind. intros ->. reflexivity. Qed.

Theorem reserve_failure_is_error ft f es a e c name id :
  scope_run identify lower_first ft f = SOk es ->
  es = a ++ e :: c -> e_op e = OReserve name id ->
  lookup name (name2id (table_after (e_table e) (map (fun x => (e_table x, e_op x)) a))) = None /\ e_name e = name.
Proof.
  intros Hr -> Hop. apply scope_run_ok in Hr. rewrite rev_app_distr in Hr. cbn [rev] in Hr.
  rewrite <- app_assoc in Hr. apply trace_ok_app in Hr. cbn [app trace_ok] in Hr. destruct Hr as (Hok & _ & _).
  unfold entry_ok in Hok. rewrite Hop in Hok. rewrite ns_of_table_after in Hok.
  unfold chron in Hok. rewrite rev_involutive in Hok. exact Hok.
Qed.
End Theorems.
