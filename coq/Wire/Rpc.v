(* Wire/Rpc.v — one RPC call through the generated client and the generated processor
   (generator/golang/templates/client.go, processor.go, scope.go buildSynthesized), on top of
   the standard codec of Wire/Std.v.

     msg_begin / read_msg_begin   TBinaryProtocol.WriteMessageBegin (strict form) / ReadMessageBegin
                                  (strict form accepted, old form accepted too: strictRead = false),
                                  as NewTBinaryProtocolTransport / NewTBinaryProtocolFactoryDefault
     app_exc / read_app_exc       TApplicationException.Write / Read
     function, service            a service = list of functions, optional base service (by
                                  qualified name, so a base in an included file is the same thing)
     method_table                 what NewXProcessor builds: own functions ++ table of the base
                                  (own entries win), fuel = length of the extends chain
     args_schema / result_schema  buildSynthesized: <fn>_args with the arguments and their IDL ids,
                                  <fn>_result = success (id 0, optional) ++ throws (optional)
     client_send / client_recv    generated client method + TStandardClient.Call / Send / Recv
     process                      generated XProcessor.Process + xProcessorFn.Process
     run_calls                    a list of calls on one connection (one client, one processor)

   apache/thrift v0.13.0 (TStandardClient, TApplicationException, TBinaryProtocol message
   framing) is modelled from its source and trusted, not verified.  TStandardClient.Send writes
   message type CALL also for oneway methods; the generated processor ignores the message type.
   No proofs in this file. *)
From Coq Require Import List ZArith Bool Lia.
From Coq.Strings Require Import Byte.
From Verif Require Import Base.Bytes Base.BE Wire.TType Wire.WVal Wire.Codec Wire.Schema Wire.Value Wire.Std.
Import ListNotations.
Open Scope Z_scope.

(* ---- constants of lib/go/thrift (messagetype.go, application_exception.go, binary_protocol.go) ---- *)

Definition M_CALL : Z := 1.
Definition M_REPLY : Z := 2.
Definition M_EXCEPTION : Z := 3.
Definition M_ONEWAY : Z := 4.

Definition UNKNOWN_METHOD : Z := 1.
Definition INVALID_MESSAGE_TYPE : Z := 2.
Definition WRONG_METHOD_NAME : Z := 3.
Definition BAD_SEQUENCE_ID : Z := 4.
Definition INTERNAL_ERROR : Z := 6.
Definition PROTOCOL_ERROR : Z := 7.

Definition VERSION_1 : Z := 2147549184.          (* 0x80010000 *)

(* ---- message framing ---- *)

(* strictWrite: i32 (VERSION_1 | type), string name, i32 seqid; for 0 <= ty < 65536 "|" is "+" *)
Definition msg_begin (name : bytes) (ty seq : Z) : bytes :=
  put_be 4 (VERSION_1 + ty) ++ put_be 4 (Z.of_nat (length name)) ++ name ++ put_be 4 seq.

Definition take (n : nat) (bs : bytes) : option (bytes * bytes) :=
  if (length bs <? n)%nat then None else Some (firstn n bs, skipn n bs).

(* (name, message type, seqid, rest); None = the Go function returns an error *)
Definition read_msg_begin (bs : bytes) : option (bytes * Z * Z * bytes) :=
  match get_s 4 bs with
  | None => None
  | Some (size, r) =>
    if size <? 0 then
      let u := size mod 4294967296 in
      if negb (u / 65536 * 65536 =? VERSION_1) then None            (* BAD_VERSION *)
      else
        match get_count r with                                       (* ReadString *)
        | None => None
        | Some (n, r1) =>
          match take n r1 with
          | None => None
          | Some (name, r2) =>
            match get_s 4 r2 with
            | None => None
            | Some (seq, r3) => Some (name, u mod 256, seq, r3)
            end
          end
        end
    else                                                             (* old form, strictRead = false *)
      match take (Z.to_nat size) r with
      | None => None
      | Some (name, r1) =>
        match get_s 1 r1 with
        | None => None
        | Some (ty, r2) =>
          match get_s 4 r2 with
          | None => None
          | Some (seq, r3) => Some (name, ty, seq, r3)
          end
        end
      end
  end.

(* ---- TApplicationException ---- *)

(* Write: field 1 (message) when Error() is non-empty — every message the templates build has a
   non-empty literal prefix — then field 2 (type) *)
Definition app_exc (msg : bytes) (tid : Z) : wval :=
  WStruct [(T_STRING, 1, WStr msg); (T_I32, 2, WI32 tid)].

(* Read: id 1 of type STRING -> message, id 2 of type I32 -> type, anything else skipped *)
Definition app_exc_step (acc : bytes * Z) (wf : ttype * Z * wval) : bytes * Z :=
  match wf with
  | (_, 1, WStr s) => (s, snd acc)
  | (_, 2, WI32 z) => (fst acc, z)
  | _ => acc
  end.
Definition read_app_exc (bs : bytes) : option (bytes * Z * bytes) :=
  match dec_struct bs with
  | Some (WStruct fs, rest) => let r := fold_left app_exc_step fs ([], 0) in Some (fst r, snd r, rest)
  | _ => None
  end.

Definition exc_reply (name : bytes) (seq : Z) (msg : bytes) (tid : Z) : bytes :=
  msg_begin name M_EXCEPTION seq ++ enc (app_exc msg tid).

(* ---- services ---- *)

Record function := mkfun {
  fn_name : bytes;                  (* exactly as written in the IDL *)
  fn_oneway : bool;
  fn_ret : option ty;               (* None = void *)
  fn_args : list field;
  fn_throws : list field
}.

Record service := mksvc {
  sv_name : bytes;                  (* qualified "file.Service" *)
  sv_extends : option bytes;        (* qualified name of the base service *)
  sv_funs : list function
}.

Fixpoint find_service (ss : list service) (n : bytes) : option service :=
  match ss with [] => None | s :: r => if beqb n (sv_name s) then Some s else find_service r n end.

(* a method = the service that declares it (its synthesized structs carry that name) + the function *)
Definition method := (bytes * function)%type.

Definition own_methods (s : service) : list method := map (fun f => (sv_name s, f)) (sv_funs s).

(* NewXProcessor: the base processor's map first, then AddToProcessorMap for the own functions;
   a lookup therefore sees the own entry first *)
Fixpoint method_table (fuel : nat) (ss : list service) (n : bytes) : option (list method) :=
  match fuel with
  | O => None
  | S k =>
    match find_service ss n with
    | None => None
    | Some s =>
      match sv_extends s with
      | None => Some (own_methods s)
      | Some b => match method_table k ss b with
                  | Some t => Some (own_methods s ++ t)
                  | None => None end
      end
    end
  end.

Fixpoint find_method (tbl : list method) (name : bytes) : option method :=
  match tbl with
  | [] => None
  | m :: r => if beqb name (fn_name (snd m)) then Some m else find_method r name
  end.

(* ---- synthesized argument / result structs ---- *)

Definition name_sep : bytes := [x3a].                              (* ":" *)
Definition suffix_args : bytes := [x5f; x61; x72; x67; x73].       (* "_args" *)
Definition suffix_result : bytes := [x5f; x72; x65; x73; x75; x6c; x74].   (* "_result" *)
Definition name_success : bytes := [x73; x75; x63; x63; x65; x73; x73].    (* "success" *)

Definition args_name (m : method) : bytes := fst m ++ name_sep ++ fn_name (snd m) ++ suffix_args.
Definition result_name (m : method) : bytes := fst m ++ name_sep ++ fn_name (snd m) ++ suffix_result.

Definition success_field (t : ty) : field := mkfield 0 name_success Optional t None false.

Definition result_fields (f : function) : list field :=
  match fn_ret f with Some t => [success_field t] | None => [] end ++ fn_throws f.

Definition args_schema (m : method) : sschema := mkstruct (args_name m) KStruct (fn_args (snd m)).
Definition result_schema (m : method) : sschema := mkstruct (result_name m) KStruct (result_fields (snd m)).

Definition synth_of (s : service) : list sschema :=
  flat_map (fun f => [args_schema (sv_name s, f); result_schema (sv_name s, f)]) (sv_funs s).

(* the user's env plus every synthesized struct *)
Definition rpc_env (e : env) (ss : list service) : env :=
  mkenv (structs e ++ flat_map synth_of ss) (enums e).

(* ---- what accepted IDL guarantees (semantic/checker.go, with FixWarnings as the CLI sets it):
        arguments are never optional, throws fields are optional struct-likes, oneway functions
        are void and throw nothing; plus size limits of the wire format ---- *)

Fixpoint nodup_names (l : list bytes) : bool :=
  match l with [] => true | x :: r => negb (existsb (beqb x) r) && nodup_names r end.

Definition fun_ok (f : function) : bool :=
  len_ok (fn_name f) &&
  forallb (fun a => negb (is_optional a)) (fn_args f) &&
  forallb (fun t => is_optional t && negb (has_default t) && is_structlike (f_ty t)) (fn_throws f) &&
  (if fn_oneway f
   then match fn_ret f, fn_throws f with None, [] => true | _, _ => false end
   else true).

Definition rpc_wf (e : env) (ss : list service) : bool :=
  wf_env (rpc_env e ss) &&
  nodup_names (map s_name (structs (rpc_env e ss))) &&
  forallb (fun s => forallb fun_ok (sv_funs s)) ss.

(* ---- handler ---- *)

Inductive outcome :=
| Ret (v : value)                  (* return v, nil *)
| Void                             (* return nil (void function) *)
| Throw (n : bytes) (v : value)    (* return a non-nil pointer to exception struct n as the error *)
| OtherError (text : bytes).       (* return any other error; text = err.Error() *)

Definition handler := method -> list value -> outcome.

Definition ty_is_ref (n : bytes) (t : ty) : bool :=
  match t with TRef n' => beqb n n' | _ => false end.
(* the type switch of the processor: cases in throws order, first matching type *)
Definition find_throw (n : bytes) (throws : list field) : option field :=
  find (fun t => ty_is_ref n (f_ty t)) throws.

(* result := XResult{} with at most one field assigned *)
Definition result_value (f : function) (set : option (Z * value)) : value :=
  VStruct (map (fun g => (f_id g,
                          match set with
                          | Some (id, slot) => if f_id g =? id then slot else zero_slot g
                          | None => zero_slot g end)) (result_fields f)).

(* result.Success = &retval for pointer-represented base types, = retval otherwise *)
Definition success_slot (t : ty) (v : value) : value :=
  if base_ptr (success_field t) then VSome v else v.

(* ---- client ---- *)

Definition next_seq (st : Z) : Z := wrap32 (st + 1).               (* p.seqId++ on an int32 *)

(* var _args XArgs; _args.F = f for every argument *)
Definition args_value (f : function) (args : list value) : value :=
  VStruct (combine (map f_id (fn_args f)) args).

(* client state = last sequence id used; result: the id of this call and the bytes flushed *)
Definition client_send (E : env) (m : method) (st : Z) (args : list value) : result (Z * bytes) :=
  let seq := next_seq st in
  bind (write_bytes E (args_schema m) (args_value (snd m) args))
       (fun body => Ok (seq, msg_begin (fn_name (snd m)) M_CALL seq ++ body)).

(* what the caller of the generated client method gets *)
Inductive creply :=
| CRet (v : value)                 (* r, nil *)
| CVoid                            (* nil from a void method *)
| CExc (n : bytes) (v : value)     (* declared exception: non-nil pointer to struct n *)
| CAppExc (tid : Z)                (* thrift.TApplicationException with this type id *)
| CFail                            (* any other error (transport, protocol) *)
| COneway.                         (* oneway: nil without reading anything *)

Definition slot_of (id : Z) (fs : list (Z * value)) : value :=
  match find (fun p => fst p =? id) fs with Some p => snd p | None => VNil end.

(* switch { case _result.E1 != nil: ... } in throws order *)
Fixpoint first_exc (throws : list field) (fs : list (Z * value)) : option (field * value) :=
  match throws with
  | [] => None
  | t :: r => let v := slot_of (f_id t) fs in
              if is_nil v then first_exc r fs else Some (t, v)
  end.

Definition exc_name (t : field) : bytes := match f_ty t with TRef n => n | _ => [] end.

Definition client_pick (f : function) (fs : list (Z * value)) : creply :=
  match first_exc (fn_throws f) fs with
  | Some (t, v) => CExc (exc_name t) v
  | None => match fn_ret f with
            | Some t => CRet (getter (success_field t) (slot_of 0 fs))     (* _result.GetSuccess() *)
            | None => CVoid end
  end.

(* TStandardClient.Recv after Send with sequence id seq; reply = the bytes the server flushed *)
Definition client_recv (E : env) (m : method) (seq : Z) (reply : option bytes) : creply :=
  if fn_oneway (snd m) then COneway else
  match reply with
  | None => CFail
  | Some bs =>
    match read_msg_begin bs with
    | None => CFail
    | Some (name, ty, rseq, body) =>
      if negb (beqb (fn_name (snd m)) name) then CAppExc WRONG_METHOD_NAME
      else if negb (seq =? rseq) then CAppExc BAD_SEQUENCE_ID
      else if ty =? M_EXCEPTION then
        match read_app_exc body with Some (_, tid, _) => CAppExc tid | None => CFail end
      else if negb (ty =? M_REPLY) then CAppExc INVALID_MESSAGE_TYPE
      else
        match read_bytes E (result_schema m) (zero_struct E (result_schema m)) body with
        | Ok (VStruct fs) => client_pick (snd m) fs
        | _ => CFail
        end
    end
  end.

(* ---- processor ---- *)

Definition msg_unknown (name : bytes) : bytes :=
  (* "Unknown function " *)
  [x55;x6e;x6b;x6e;x6f;x77;x6e;x20;x66;x75;x6e;x63;x74;x69;x6f;x6e;x20] ++ name.
Definition msg_internal (name text : bytes) : bytes :=
  (* "Internal error processing " name ": " text *)
  [x49;x6e;x74;x65;x72;x6e;x61;x6c;x20;x65;x72;x72;x6f;x72;x20;x70;x72;x6f;x63;x65;x73;x73;x69;x6e;x67;x20]
  ++ name ++ [x3a; x20] ++ text.
(* the text of a Go error the model does not follow (err.Error() of a read error or of an
   exception object); the correspondence never compares message texts *)
Definition msg_opaque : bytes := [x3f].

Definition log_entry := (method * list value)%type.

Section Process.
  Variable E : env.
  Variable tbl : list method.
  Variable h : handler.

  Definition reply_with (m : method) (seq : Z) (rv : value) : option bytes :=
    match write_bytes E (result_schema m) rv with
    | Ok b => Some (msg_begin (fn_name (snd m)) M_REPLY seq ++ b)
    | Err _ => None                         (* Go: a partly written reply; outside every domain here *)
    end.

  Definition internal_error (m : method) (seq : Z) (text : bytes) : option bytes :=
    Some (exc_reply (fn_name (snd m)) seq (msg_internal (fn_name (snd m)) text) INTERNAL_ERROR).

  (* the reply a non-oneway processor function writes for a handler outcome *)
  Definition reply_of (m : method) (seq : Z) (oc : outcome) : option bytes :=
    let f := snd m in
    match oc with
    | Ret v => match fn_ret f with
               | Some t => reply_with m seq (result_value f (Some (0, success_slot t v)))
               | None => reply_with m seq (result_value f None) end
    | Void => reply_with m seq (result_value f None)
    | Throw n v => match find_throw n (fn_throws f) with
                   | Some t => reply_with m seq (result_value f (Some (f_id t, v)))
                   | None => internal_error m seq msg_opaque end
    | OtherError text => internal_error m seq text
    end.

  (* bytes of one request -> (bytes flushed back, handler calls made) *)
  Definition process (bs : bytes) : option bytes * list log_entry :=
    match read_msg_begin bs with
    | None => (None, [])
    | Some (name, _, seq, body) =>
      match find_method tbl name with
      | None => (Some (exc_reply name seq (msg_unknown name) UNKNOWN_METHOD), [])
      | Some m =>
        match read_bytes E (args_schema m) (zero_struct E (args_schema m)) body with
        | Ok (VStruct fs) =>
            let args := map snd fs in
            if fn_oneway (snd m) then (None, [(m, args)])
            else (reply_of m seq (h m args), [(m, args)])
        | Ok _ => (None, [])
        | Err _ =>
            (if fn_oneway (snd m) then None
             else Some (exc_reply (fn_name (snd m)) seq msg_opaque PROTOCOL_ERROR), [])
        end
      end
    end.
End Process.

(* ---- the specification side: what a call must deliver ---- *)

(* the arguments after the trip: nil containers arrive empty, nil structs as NewX(), enums
   truncated to 32 bits ... (Std.norm) *)
Definition norm_args (E : env) (f : function) (args : list value) : list value :=
  map (fun p => norm E (f_ty (fst p)) (snd p)) (combine (fn_args f) args).

(* a returned nil pointer / slice / map stays nil (success is optional: not written) *)
Definition ret_view (E : env) (t : ty) (v : value) : value := if is_nil v then VNil else norm E t v.

Definition image (E : env) (f : function) (oc : outcome) : creply :=
  match oc with
  | Ret v => match fn_ret f with Some t => CRet (ret_view E t v) | None => CVoid end
  | Void => CVoid
  | Throw n v => match find_throw n (fn_throws f) with
                 | Some _ => CExc n (norm E (TRef n) v)
                 | None => CAppExc INTERNAL_ERROR end
  | OtherError _ => CAppExc INTERNAL_ERROR
  end.

(* well-typed inputs *)
Definition wt_args (E : env) (m : method) (args : list value) : bool :=
  wt E (args_schema m) (args_value (snd m) args).

Definition is_struct_val (v : value) : bool := match v with VStruct _ => true | _ => false end.

(* the exception message built from the method name and the error text stays below 2^31 bytes *)
Definition msg_fits (f : function) (text : bytes) : bool :=
  Z.of_nat (length (fn_name f)) + Z.of_nat (length text) <? 2147483000.

Definition outcome_ok (E : env) (f : function) (oc : outcome) : bool :=
  match oc with
  | Ret v => match fn_ret f with
             | Some t => if base_ptr (success_field t) then wt_val E false t v
                         else is_nil v || wt_val E false t v
             | None => false end
  | Void => match fn_ret f with None => true | Some _ => false end
  | Throw n v => match find_throw n (fn_throws f) with
                 | Some _ => is_struct_val v && wt_val E false (TRef n) v
                 | None => msg_fits f msg_opaque end
  | OtherError text => msg_fits f text
  end.

(* ---- sequences of calls on one connection ---- *)

Record call := mkcall { c_m : method; c_args : list value }.

Record call_obs := mkobs {
  o_seq : Z;                        (* sequence id used *)
  o_req : bytes;                    (* bytes the client flushed *)
  o_reply : option bytes;           (* bytes the processor flushed (None = nothing) *)
  o_log : list log_entry;           (* handler invocations *)
  o_got : creply                    (* what the caller got *)
}.

(* hs k = the handler's behaviour during call number k; st = last sequence id used *)
Fixpoint run_calls (E : env) (tbl : list method) (hs : nat -> handler) (k : nat) (st : Z)
                   (cs : list call) : list call_obs :=
  match cs with
  | [] => []
  | c :: r =>
    match client_send E (c_m c) st (c_args c) with
    | Err _ => []                   (* Write failed half way: the connection is unusable *)
    | Ok (seq, req) =>
        let pr := process E tbl (hs k) req in
        mkobs seq req (fst pr) (snd pr) (client_recv E (c_m c) seq (fst pr))
        :: run_calls E tbl hs (S k) seq r
    end
  end.

(* the ids a client in state st uses for its next n calls *)
Fixpoint seqs (st : Z) (n : nat) : list Z :=
  match n with O => [] | S k => next_seq st :: seqs (next_seq st) k end.

(* ---- what a sequence of calls must show (specification side) ---- *)

Definition call_ok (E : env) (tbl : list method) (hs : nat -> handler) (k : nat) (c : call) : Prop :=
  find_method tbl (fn_name (snd (c_m c))) = Some (c_m c) /\
  wt_args E (c_m c) (c_args c) = true /\
  (fn_oneway (snd (c_m c)) = false ->
   outcome_ok E (snd (c_m c)) (hs k (c_m c) (norm_args E (snd (c_m c)) (c_args c))) = true).

Fixpoint calls_ok (E : env) (tbl : list method) (hs : nat -> handler) (k : nat) (cs : list call) : Prop :=
  match cs with
  | [] => True
  | c :: r => call_ok E tbl hs k c /\ calls_ok E tbl hs (S k) r
  end.

(* per call: (sequence id, what the caller gets, handler invocations) *)
Fixpoint expected (E : env) (hs : nat -> handler) (k : nat) (st : Z) (cs : list call)
  : list (Z * creply * list log_entry) :=
  match cs with
  | [] => []
  | c :: r =>
      let m := c_m c in
      let args := norm_args E (snd m) (c_args c) in
      (next_seq st, (if fn_oneway (snd m) then COneway else image E (snd m) (hs k m args)), [(m, args)])
      :: expected E hs (S k) (next_seq st) r
  end.

Definition view (o : call_obs) : Z * creply * list log_entry := (o_seq o, o_got o, o_log o).

(* headers of the fields a result struct puts on the wire *)
Definition result_hdrs (f : function) (set : option (Z * value)) : list (ttype * Z) :=
  cat_somes (map (fun g =>
                    let slot := match set with
                                | Some (id, s) => if f_id g =? id then s else zero_slot g
                                | None => zero_slot g end in
                    if present g slot then Some (spec_ttype (f_ty g), f_id g) else None)
                 (result_fields f)).

(* ---- streaming functions: generator/golang/backend.go removeStreamingFunctions +
        streaming.ParseStreaming.  Without the option thrift_streaming every function of a service
        of the MAIN file whose annotations contain the key "streaming.mode" is taken out of the
        service before any code is generated: recognised modes (client / server / bidirectional /
        unary, exactly one argument) with the warning "skip streaming function", everything else
        (unknown value, several values, argument count <> 1) with "failed to parse streaming" ---- *)

Record function_src := mkfsrc {
  fs_fn : function;
  fs_stream : option (list bytes)       (* the values of the annotation streaming.mode, if present *)
}.

Record service_src := mksrc {
  ss_name : bytes;
  ss_extends : option bytes;
  ss_main : bool;                       (* declared in the file given on the command line *)
  ss_funs : list function_src
}.

Definition mode_client : bytes := [x63;x6c;x69;x65;x6e;x74].
Definition mode_server : bytes := [x73;x65;x72;x76;x65;x72].
Definition mode_bidirectional : bytes := [x62;x69;x64;x69;x72;x65;x63;x74;x69;x6f;x6e;x61;x6c].
Definition mode_unary : bytes := [x75;x6e;x61;x72;x79].
Definition mode_ok (v : bytes) : bool :=
  beqb v mode_client || beqb v mode_server || beqb v mode_bidirectional || beqb v mode_unary.

Inductive parsed_streaming := PNot | PStreaming | PError.

Definition parse_streaming (f : function_src) : parsed_streaming :=
  match fs_stream f with
  | None => PNot
  | Some [v] => if mode_ok v
                then (if (length (fn_args (fs_fn f)) =? 1)%nat then PStreaming else PError)
                else PError
  | Some _ => PError
  end.

Definition keeps (f : function_src) : bool :=
  match parse_streaming f with PNot => true | _ => false end.

Definition remove_streaming (l : list function_src) : list function := map fs_fn (filter keeps l).

(* the service the templates see *)
Definition effective (s : service_src) : service :=
  mksvc (ss_name s) (ss_extends s)
        (if ss_main s then remove_streaming (ss_funs s) else map fs_fn (ss_funs s)).
