// Package idlast is the Go-side mirror of /verif/coq/Idl/Ast.v: the IDL abstract
// syntax tree shared by every IDL-side property check.
//
// The shapes, field order and constructor names follow Idl/Ast.v exactly, so that
//   - astdump.FromParser turns a real *parser.Thrift into these structs (bridge from
//     the implementation),
//   - idlgen builds them directly (the INTENDED AST of a generated program),
//   - (*File).Coq() / (Program).Coq() print the Coq term of type Idl.Ast.file /
//     Idl.Ast.program, and encoding/json gives the stable form used in replay files.
//
// Strings are Go strings holding raw bytes (not necessarily UTF-8); JSON encodes them
// through the B type below so that arbitrary bytes survive.
package idlast

import (
	"encoding/hex"
	"encoding/json"
	"fmt"
	"strings"
	"unicode/utf8"

	"verif/harness/coqfmt"
)

// B is a byte string. In JSON it is a plain string when it is valid UTF-8 without
// control characters, and {"hex":"…"} otherwise.
type B string

func (b B) MarshalJSON() ([]byte, error) {
	s := string(b)
	ok := utf8.ValidString(s)
	if ok {
		for i := 0; i < len(s); i++ {
			if s[i] < 0x20 && s[i] != '\n' && s[i] != '\t' {
				ok = false
				break
			}
		}
	}
	if ok {
		return json.Marshal(s)
	}
	return json.Marshal(map[string]string{"hex": hex.EncodeToString([]byte(s))})
}

func (b *B) UnmarshalJSON(data []byte) error {
	var s string
	if err := json.Unmarshal(data, &s); err == nil {
		*b = B(s)
		return nil
	}
	var m map[string]string
	if err := json.Unmarshal(data, &m); err != nil {
		return err
	}
	raw, err := hex.DecodeString(m["hex"])
	if err != nil {
		return err
	}
	*b = B(raw)
	return nil
}

// Category mirrors parser.Category (numeric values identical).
type Category int

const (
	CatConstant Category = iota
	CatBool
	CatByte
	CatI16
	CatI32
	CatI64
	CatDouble
	CatString
	CatBinary
	CatMap
	CatList
	CatSet
	CatEnum
	CatStruct
	CatUnion
	CatException
	CatTypedef
	CatService
)

var categoryNames = []string{"CatConstant", "CatBool", "CatByte", "CatI16", "CatI32", "CatI64", "CatDouble",
	"CatString", "CatBinary", "CatMap", "CatList", "CatSet", "CatEnum", "CatStruct", "CatUnion", "CatException",
	"CatTypedef", "CatService"}

func (c Category) Coq() string {
	if c < 0 || int(c) >= len(categoryNames) {
		panic(fmt.Sprintf("idlast: category %d has no Coq constructor", int(c)))
	}
	return categoryNames[c]
}
func (c Category) String() string { return c.Coq() }

// Requiredness mirrors parser.FieldType.
type Requiredness int

const (
	ReqDefault Requiredness = iota
	ReqRequired
	ReqOptional
)

func (r Requiredness) Coq() string {
	switch r {
	case ReqDefault:
		return "ReqDefault"
	case ReqRequired:
		return "ReqRequired"
	case ReqOptional:
		return "ReqOptional"
	}
	panic(fmt.Sprintf("idlast: requiredness %d has no Coq constructor", int(r)))
}

// SLKind mirrors StructLike.Category ("struct" / "union" / "exception").
type SLKind int

const (
	SKStruct SLKind = iota
	SKUnion
	SKException
)

func (k SLKind) Coq() string     { return [...]string{"SKStruct", "SKUnion", "SKException"}[k] }
func (k SLKind) Keyword() string { return [...]string{"struct", "union", "exception"}[k] }

type Reference struct {
	Name  B     `json:"name"`
	Index int32 `json:"index"`
}

type Annotation struct {
	Key    B   `json:"key"`
	Values []B `json:"values"`
}

type Annotations []Annotation

type Type struct {
	Name        B           `json:"name"`
	KeyType     *Type       `json:"key,omitempty"`
	ValueType   *Type       `json:"value,omitempty"`
	CppType     B           `json:"cpp,omitempty"`
	Annotations Annotations `json:"annos,omitempty"`
	// resolution info (semantic pass)
	Category  Category   `json:"category"`
	Reference *Reference `json:"ref,omitempty"`
	IsTypedef *bool      `json:"is_typedef,omitempty"`
}

type ConstExtra struct {
	IsEnum bool  `json:"is_enum"`
	Index  int32 `json:"index"`
	Name   B     `json:"name"`
	Sel    B     `json:"sel"`
}

// ConstKind mirrors parser.ConstType.
type ConstKind int

const (
	ConstDouble ConstKind = iota
	ConstInt
	ConstLiteral
	ConstIdentifier
	ConstList
	ConstMap
)

type MapEntry struct {
	Key   *ConstValue `json:"k"`
	Value *ConstValue `json:"v"`
}

// ConstValue: exactly one of the payload fields is meaningful, chosen by Kind.
type ConstValue struct {
	Kind       ConstKind     `json:"kind"`
	DoubleBits uint64        `json:"double_bits,string,omitempty"` // IEEE-754 binary64 pattern
	Int        int64         `json:"int,omitempty"`
	Literal    B             `json:"literal,omitempty"`
	Identifier B             `json:"ident,omitempty"`
	List       []*ConstValue `json:"list,omitempty"`
	Map        []MapEntry    `json:"map,omitempty"`
	Extra      *ConstExtra   `json:"extra,omitempty"` // resolution info; identifiers only
}

type Namespace struct {
	Language    B           `json:"language"`
	Name        B           `json:"name"`
	Annotations Annotations `json:"annos,omitempty"`
}

type Typedef struct {
	Type        *Type       `json:"type"`
	Alias       B           `json:"alias"`
	Annotations Annotations `json:"annos,omitempty"`
	Comments    B           `json:"comments,omitempty"`
}

type EnumValue struct {
	Name        B           `json:"name"`
	Value       int64       `json:"value"`
	Annotations Annotations `json:"annos,omitempty"`
	Comments    B           `json:"comments,omitempty"`
}

type Enum struct {
	Name        B            `json:"name"`
	Values      []*EnumValue `json:"values"`
	Annotations Annotations  `json:"annos,omitempty"`
	Comments    B            `json:"comments,omitempty"`
}

type Constant struct {
	Name        B           `json:"name"`
	Type        *Type       `json:"type"`
	Value       *ConstValue `json:"value"`
	Annotations Annotations `json:"annos,omitempty"`
	Comments    B           `json:"comments,omitempty"`
}

type Field struct {
	ID           int32        `json:"id"`
	Name         B            `json:"name"`
	Requiredness Requiredness `json:"req"`
	Type         *Type        `json:"type"`
	Default      *ConstValue  `json:"default,omitempty"`
	Annotations  Annotations  `json:"annos,omitempty"`
	Comments     B            `json:"comments,omitempty"`
}

type StructLike struct {
	Category    SLKind      `json:"category"`
	Name        B           `json:"name"`
	Fields      []*Field    `json:"fields"`
	Annotations Annotations `json:"annos,omitempty"`
	Comments    B           `json:"comments,omitempty"`
}

type Function struct {
	Name         B           `json:"name"`
	Oneway       bool        `json:"oneway"`
	Void         bool        `json:"void"`
	FunctionType *Type       `json:"type"`
	Arguments    []*Field    `json:"args"`
	Throws       []*Field    `json:"throws"`
	Annotations  Annotations `json:"annos,omitempty"`
	Comments     B           `json:"comments,omitempty"`
}

type Service struct {
	Name        B           `json:"name"`
	Extends     B           `json:"extends,omitempty"`
	Functions   []*Function `json:"functions"`
	Annotations Annotations `json:"annos,omitempty"`
	Reference   *Reference  `json:"ref,omitempty"` // resolution info
	Comments    B           `json:"comments,omitempty"`
}

type Include struct {
	Path B     `json:"path"`
	Ref  *B    `json:"ref,omitempty"`  // Filename of the parsed include (key of Program)
	Used *bool `json:"used,omitempty"` // resolution info
}

type NameCat struct {
	Name     B        `json:"name"`
	Category Category `json:"category"`
}

type File struct {
	Filename    B             `json:"filename"`
	Includes    []*Include    `json:"includes"`
	CppIncludes []B           `json:"cpp_includes"`
	Namespaces  []*Namespace  `json:"namespaces"`
	Typedefs    []*Typedef    `json:"typedefs"`
	Constants   []*Constant   `json:"constants"`
	Enums       []*Enum       `json:"enums"`
	Structs     []*StructLike `json:"structs"`
	Unions      []*StructLike `json:"unions"`
	Exceptions  []*StructLike `json:"exceptions"`
	Services    []*Service    `json:"services"`
	// resolution info: Name2Category sorted by name; HasName2Cat=false is the nil map
	HasName2Cat bool      `json:"has_name2cat"`
	Name2Cat    []NameCat `json:"name2cat,omitempty"`
}

// Program: Filename -> file, main file first, the others in the order the recursive
// parser first reaches them.
type ProgramEntry struct {
	Filename B     `json:"filename"`
	File     *File `json:"file"`
}
type Program []ProgramEntry

func (p Program) Main() *File {
	if len(p) == 0 {
		return nil
	}
	return p[0].File
}

func (p Program) Lookup(filename string) *File {
	for _, e := range p {
		if string(e.Filename) == filename {
			return e.File
		}
	}
	return nil
}

// ---------------------------------------------------------------- Coq printing

func cb(s B) string { return coqfmt.Bytes(string(s)) }

func coqList[T any](xs []T, f func(T) string) string {
	items := make([]string, len(xs))
	for i, x := range xs {
		items[i] = f(x)
	}
	return coqfmt.List(items)
}

func optBool(b *bool) string {
	if b == nil {
		return "None"
	}
	return "(Some " + coqfmt.Bool(*b) + ")"
}

func (r *Reference) Coq() string {
	if r == nil {
		return "None"
	}
	return fmt.Sprintf("(Some (Ref %s %s))", cb(r.Name), coqfmt.Z(int64(r.Index)))
}

func (a Annotation) Coq() string {
	return fmt.Sprintf("Anno %s %s", cb(a.Key), coqList(a.Values, cb))
}

func (as Annotations) Coq() string {
	return coqList(as, func(a Annotation) string { return a.Coq() })
}

func optType(t *Type) string {
	if t == nil {
		return "None"
	}
	return "(Some (" + t.Coq() + "))"
}

// Coq prints `Ty name key value cpp annos category ref is_typedef` (no outer parentheses);
// a plain unresolved named type is printed with the abbreviation `ty_named name` of Idl/Ast.v.
func (t *Type) Coq() string {
	if t == nil {
		panic("idlast: nil Type where Idl.Ast requires one")
	}
	if t.KeyType == nil && t.ValueType == nil && t.CppType == "" && len(t.Annotations) == 0 &&
		t.Category == CatConstant && t.Reference == nil && t.IsTypedef == nil {
		return "ty_named " + cb(t.Name) // = Ty name None None [] [] CatConstant None None (shorter to elaborate)
	}
	return fmt.Sprintf("Ty %s %s %s %s %s %s %s %s", cb(t.Name), optType(t.KeyType), optType(t.ValueType),
		cb(t.CppType), t.Annotations.Coq(), t.Category.Coq(), t.Reference.Coq(), optBool(t.IsTypedef))
}

func (e *ConstExtra) Coq() string {
	if e == nil {
		return "None"
	}
	return fmt.Sprintf("(Some (Extra %s %s %s %s))", coqfmt.Bool(e.IsEnum), coqfmt.Z(int64(e.Index)), cb(e.Name), cb(e.Sel))
}

func (c *ConstValue) Coq() string {
	if c == nil {
		panic("idlast: nil ConstValue where Idl.Ast requires one")
	}
	switch c.Kind {
	case ConstDouble:
		return "CDouble " + coqfmt.N(c.DoubleBits)
	case ConstInt:
		return "CInt " + coqfmt.Z(c.Int)
	case ConstLiteral:
		return "CLiteral " + cb(c.Literal)
	case ConstIdentifier:
		return "CIdent " + cb(c.Identifier) + " " + c.Extra.Coq()
	case ConstList:
		return "CList " + coqList(c.List, func(x *ConstValue) string { return x.Coq() })
	case ConstMap:
		return "CMap " + coqList(c.Map, func(e MapEntry) string { return "(" + e.Key.Coq() + ", " + e.Value.Coq() + ")" })
	}
	panic(fmt.Sprintf("idlast: const kind %d", int(c.Kind)))
}

func optConst(c *ConstValue) string {
	if c == nil {
		return "None"
	}
	return "(Some (" + c.Coq() + "))"
}

func (n *Namespace) Coq() string {
	return fmt.Sprintf("Namespace %s %s %s", cb(n.Language), cb(n.Name), n.Annotations.Coq())
}

func (t *Typedef) Coq() string {
	return fmt.Sprintf("Typedef (%s) %s %s %s", t.Type.Coq(), cb(t.Alias), t.Annotations.Coq(), cb(t.Comments))
}

func (v *EnumValue) Coq() string {
	return fmt.Sprintf("EnumValue %s %s %s %s", cb(v.Name), coqfmt.Z(v.Value), v.Annotations.Coq(), cb(v.Comments))
}

func (e *Enum) Coq() string {
	return fmt.Sprintf("Enum %s %s %s %s", cb(e.Name), coqList(e.Values, (*EnumValue).Coq), e.Annotations.Coq(), cb(e.Comments))
}

func (c *Constant) Coq() string {
	return fmt.Sprintf("Constant %s (%s) (%s) %s %s", cb(c.Name), c.Type.Coq(), c.Value.Coq(), c.Annotations.Coq(), cb(c.Comments))
}

func (f *Field) Coq() string {
	return fmt.Sprintf("Field %s %s %s (%s) %s %s %s", coqfmt.Z(int64(f.ID)), cb(f.Name), f.Requiredness.Coq(),
		f.Type.Coq(), optConst(f.Default), f.Annotations.Coq(), cb(f.Comments))
}

func (s *StructLike) Coq() string {
	return fmt.Sprintf("StructLike %s %s %s %s %s", s.Category.Coq(), cb(s.Name), coqList(s.Fields, (*Field).Coq),
		s.Annotations.Coq(), cb(s.Comments))
}

func (f *Function) Coq() string {
	return fmt.Sprintf("Function %s %s %s (%s) %s %s %s %s", cb(f.Name), coqfmt.Bool(f.Oneway), coqfmt.Bool(f.Void),
		f.FunctionType.Coq(), coqList(f.Arguments, (*Field).Coq), coqList(f.Throws, (*Field).Coq),
		f.Annotations.Coq(), cb(f.Comments))
}

func (s *Service) Coq() string {
	return fmt.Sprintf("Service %s %s %s %s %s %s", cb(s.Name), cb(s.Extends), coqList(s.Functions, (*Function).Coq),
		s.Annotations.Coq(), s.Reference.Coq(), cb(s.Comments))
}

func (i *Include) Coq() string {
	ref := "None"
	if i.Ref != nil {
		ref = "(Some " + cb(*i.Ref) + ")"
	}
	return fmt.Sprintf("Include %s %s %s", cb(i.Path), ref, optBool(i.Used))
}

// Coq prints the term of type Idl.Ast.file (with outer parentheses).
func (f *File) Coq() string {
	n2c := "None"
	if f.HasName2Cat {
		n2c = "(Some " + coqList(f.Name2Cat, func(x NameCat) string { return "(" + cb(x.Name) + ", " + x.Category.Coq() + ")" }) + ")"
	}
	parts := []string{
		"(File " + cb(f.Filename),
		coqList(f.Includes, (*Include).Coq),
		coqList(f.CppIncludes, cb),
		coqList(f.Namespaces, (*Namespace).Coq),
		coqList(f.Typedefs, (*Typedef).Coq),
		coqList(f.Constants, (*Constant).Coq),
		coqList(f.Enums, (*Enum).Coq),
		coqList(f.Structs, (*StructLike).Coq),
		coqList(f.Unions, (*StructLike).Coq),
		coqList(f.Exceptions, (*StructLike).Coq),
		coqList(f.Services, (*Service).Coq),
		n2c + ")",
	}
	return strings.Join(parts, "\n  ")
}

// Coq prints the term of type Idl.Ast.program.
func (p Program) Coq() string {
	return coqList(p, func(e ProgramEntry) string { return "(" + cb(e.Filename) + ", " + e.File.Coq() + ")" })
}

// JSON is the stable serialisation used in replay files.
func (f *File) JSON() []byte {
	b, err := json.Marshal(f)
	if err != nil {
		panic(err)
	}
	return b
}

func (p Program) JSON() []byte {
	b, err := json.Marshal(p)
	if err != nil {
		panic(err)
	}
	return b
}
