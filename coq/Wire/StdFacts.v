(* Wire/StdFacts.v — facts about the standard generated codec (Wire/Std.v).

     ttype_of_spec         the regenerated table gives the wire types Thrift prescribes
     value_ind2            induction principle for the nested inductive [value]
     to_from               wt_val e key t v -> to_w e t v = Ok w /\ from_w e t w = Ok (norm e t v)
     write_read            the same for a struct-like at top level, with NewX() as start object
     to_w_wf               what Write emits is a well-formed wire value of the prescribed wire type
     write_read_bytes      byte-level corollary through enc / dec_struct
     ...                                                                                         *)
From Coq Require Import List ZArith Bool Lia Permutation.
From Coq.Strings Require Import Byte.
From Verif Require Import Base.Bytes Base.BE Wire.TType Wire.WVal Wire.Codec Wire.CodecFacts
  Wire.Schema Wire.Value Wire.GenTables Wire.Std.
Import ListNotations.
Open Scope Z_scope.

(* ------------------------------------------------------------------ the table *)

Lemma ttype_of_cat_spec :
  forallb (fun c => ttype_eqb (ttype_of_cat c)
     (match c with
      | Cat_Bool => T_BOOL | Cat_Byte => T_BYTE | Cat_I16 => T_I16 | Cat_I32 => T_I32 | Cat_I64 => T_I64
      | Cat_Double => T_DOUBLE | Cat_String | Cat_Binary => T_STRING | Cat_Enum => T_I32
      | Cat_Struct | Cat_Union | Cat_Exception => T_STRUCT
      | Cat_List => T_LIST | Cat_Set => T_SET | Cat_Map => T_MAP end)) all_categories = true.
Proof. vm_compute. reflexivity. Qed.

Theorem ttype_of_spec e t : ttype_of e t = spec_ttype t.
Proof.
  pose proof ttype_of_cat_spec as H. rewrite forallb_forall in H.
  unfold ttype_of.
  assert (A : forall c, In c all_categories) by (intro c; destruct c; cbn; tauto).
  destruct t; cbn [category_of spec_ttype];
    try (match goal with |- ttype_of_cat ?c = _ => specialize (H c (A c)); apply ttype_eqb_eq in H; exact H end).
  destruct (find_struct e name) as [s|]; [destruct (s_kind s)|];
    match goal with |- ttype_of_cat ?c = _ => specialize (H c (A c)); apply ttype_eqb_eq in H; exact H end.
Qed.

(* ------------------------------------------------------------------ induction on values *)

Section ValueInd.
  Variable P : value -> Prop.
  Hypothesis HBool : forall b, P (VBool b).
  Hypothesis HInt : forall z, P (VInt z).
  Hypothesis HDbl : forall b, P (VDbl b).
  Hypothesis HStr : forall s, P (VStr s).
  Hypothesis HBin : forall s, P (VBin s).
  Hypothesis HList : forall l, Forall P l -> P (VList l).
  Hypothesis HMap : forall kvs, Forall (fun kv => P (fst kv) /\ P (snd kv)) kvs -> P (VMap kvs).
  Hypothesis HStruct : forall fs, Forall (fun p => P (snd p)) fs -> P (VStruct fs).
  Hypothesis HNil : P VNil.
  Hypothesis HSome : forall v, P v -> P (VSome v).

  Fixpoint value_ind2 (v : value) : P v :=
    match v with
    | VBool b => HBool b | VInt z => HInt z | VDbl b => HDbl b | VStr s => HStr s | VBin s => HBin s
    | VList l => HList l ((fix go (l : list value) : Forall P l :=
                             match l with [] => Forall_nil P | x :: r => Forall_cons x (value_ind2 x) (go r) end) l)
    | VMap kvs => HMap kvs ((fix go (l : list (value*value)) : Forall (fun kv => P (fst kv) /\ P (snd kv)) l :=
                             match l with
                             | [] => Forall_nil _
                             | kv :: r => Forall_cons kv (conj (value_ind2 (fst kv)) (value_ind2 (snd kv))) (go r) end) kvs)
    | VStruct fs => HStruct fs ((fix go (l : list (Z*value)) : Forall (fun p => P (snd p)) l :=
                             match l with [] => Forall_nil _ | p :: r => Forall_cons p (value_ind2 (snd p)) (go r) end) fs)
    | VNil => HNil
    | VSome x => HSome x (value_ind2 x)
    end.
End ValueInd.

(* ------------------------------------------------------------------ small facts *)

Lemma bind_ok {A B} (r : result A) (f : A -> result B) b :
  bind r f = Ok b <-> exists a, r = Ok a /\ f a = Ok b.
Proof.
  destruct r as [a|e]; cbn; split.
  - intro H. exists a. auto.
  - intros (a' & [= <-] & H). exact H.
  - discriminate.
  - intros (a' & H & _). discriminate.
Qed.

Lemma mapM_ok {A B C} (f : A -> result B) (g : B -> result C) (h : A -> C) (l : list A) :
  Forall (fun x => exists w, f x = Ok w /\ g w = Ok (h x)) l ->
  exists ws, mapM f l = Ok ws /\ mapM g ws = Ok (map h l).
Proof.
  induction l as [|x l IH]; intro H.
  - exists []. split; reflexivity.
  - inversion H as [|? ? (w & Hf & Hg) Hl]; subst. destruct (IH Hl) as (ws & Hm & Hm2).
    exists (w :: ws). cbn. rewrite Hf, Hm, Hg, Hm2. split; reflexivity.
Qed.

Lemma forallb_Forall {A} (p : A -> bool) l : forallb p l = true <-> Forall (fun x => p x = true) l.
Proof. rewrite forallb_forall, Forall_forall. tauto. Qed.

Lemma Forall_and_impl {A} (P Q R : A -> Prop) l :
  Forall P l -> Forall Q l -> (forall x, P x -> Q x -> R x) -> Forall R l.
Proof.
  intros HP HQ H. rewrite Forall_forall in *. intros x Hx. apply H; auto.
Qed.

Lemma list_eqbZ_eq a b : list_eqbZ a b = true <-> a = b.
Proof.
  revert b; induction a as [|x a IH]; intros [|y b]; cbn; split; try discriminate; try reflexivity.
  - rewrite andb_true_iff, Z.eqb_eq, IH. intros [-> ->]. reflexivity.
  - intros [= -> ->]. rewrite Z.eqb_refl. cbn. apply IH. reflexivity.
Qed.

Lemma nodupZ_NoDup l : nodupZ l = true <-> NoDup l.
Proof.
  induction l as [|x l IH]; cbn.
  - split; [constructor | reflexivity].
  - rewrite andb_true_iff, negb_true_iff, IH. split.
    + intros [Hx Hl]. constructor; [|assumption]. intro Hin.
      assert (existsb (Z.eqb x) l = true) by (apply existsb_exists; exists x; split; [assumption | apply Z.eqb_refl]).
      congruence.
    + intro H. inversion H as [|? ? Hx Hl]; subst. split; [|assumption].
      destruct (existsb (Z.eqb x) l) eqn:E; [|reflexivity].
      apply existsb_exists in E. destruct E as (y & Hy & Hxy). apply Z.eqb_eq in Hxy. subst. contradiction.
Qed.

Lemma find_field_In id l f : find_field id l = Some f -> In f l /\ f_id f = id.
Proof.
  induction l as [|g l IH]; cbn; [discriminate|].
  destruct (Z.eqb_spec id (f_id g)).
  - intros [= <-]. auto.
  - intro H. destruct (IH H). auto.
Qed.

Lemma find_field_app_skip id l1 l2 :
  ~ In id (map f_id l1) -> find_field id (l1 ++ l2) = find_field id l2.
Proof.
  induction l1 as [|g l1 IH]; cbn; [reflexivity|]. intro H.
  destruct (Z.eqb_spec id (f_id g)); [exfalso; apply H; auto|]. apply IH. tauto.
Qed.

Lemma find_field_head f l : find_field (f_id f) (f :: l) = Some f.
Proof. cbn. rewrite Z.eqb_refl. reflexivity. Qed.

Lemma set_field_notin id v fs : ~ In id (map fst fs) -> set_field id v fs = fs.
Proof.
  induction fs as [|[i x] fs IH]; cbn; [reflexivity|]. intro H.
  destruct (Z.eqb_spec i id); [exfalso; apply H; auto|]. f_equal. apply IH. tauto.
Qed.

Lemma set_field_app id v a b : set_field id v (a ++ b) = set_field id v a ++ set_field id v b.
Proof. unfold set_field. apply map_app. Qed.

Lemma first_missing_none fields seen :
  (forall f, In f fields -> is_required f = true -> In (f_id f) seen) -> first_missing fields seen = None.
Proof.
  intro H. unfold first_missing.
  replace (filter _ fields) with (@nil field); [reflexivity|].
  symmetry. induction fields as [|f l IH]; [reflexivity|]. cbn [filter].
  destruct (is_required f) eqn:Er; cbn [andb].
  - assert (Hin : In (f_id f) seen) by (apply H; [left; reflexivity | assumption]).
    assert (E : existsb (Z.eqb (f_id f)) seen = true)
      by (apply existsb_exists; exists (f_id f); split; [assumption | apply Z.eqb_refl]).
    rewrite E. cbn. apply IH. intros g Hg. apply H. right. assumption.
  - apply IH. intros g Hg. apply H. right. assumption.
Qed.

Lemma wf_env_struct e n s : wf_env e = true -> find_struct e n = Some s -> wf_struct s = true.
Proof.
  unfold wf_env, find_struct. intro H. rewrite forallb_forall in H.
  induction (structs e) as [|s' l IH]; cbn; [discriminate|].
  destruct (beqb n (s_name s')).
  - intros [= <-]. apply H. left. reflexivity.
  - apply IH. intros x Hx. apply H. right. assumption.
Qed.

Lemma wf_struct_nodup s : wf_struct s = true -> NoDup (map f_id (s_fields s)).
Proof. unfold wf_struct. rewrite !andb_true_iff. intros [[H _] _]. apply nodupZ_NoDup. assumption. Qed.

Lemma wf_struct_ids s f : wf_struct s = true -> In f (s_fields s) -> in_srange 2 (f_id f).
Proof.
  unfold wf_struct. rewrite !andb_true_iff. intros [[_ H] _] Hin. rewrite forallb_forall in H.
  specialize (H f Hin). apply in_srange_2. lia.
Qed.

(* ------------------------------------------------------------------ named versions of the inline lambdas *)

Definition wfield_fn (e : env) (s : sschema) (p : Z * value) : result (option wfield) :=
  match find_field (fst p) (s_fields s) with
  | None => Err EBadValue
  | Some f =>
      if present f (snd p) then
        if base_ptr f then
          match snd p with
          | VSome x => bind (to_w e (f_ty f) x) (fun x => Ok (Some (ttype_of e (f_ty f), f_id f, x)))
          | _ => Err EBadValue end
        else bind (to_w e (f_ty f) (snd p)) (fun x => Ok (Some (ttype_of e (f_ty f), f_id f, x)))
      else Ok None
  end.

Definition norm_fn (e : env) (s : sschema) (p : Z * value) : Z * value :=
  match find_field (fst p) (s_fields s) with
  | Some f =>
      if present f (snd p) then
        (fst p, if base_ptr f then match snd p with VSome x => VSome (norm e (f_ty f) x) | o => o end
                else norm e (f_ty f) (snd p))
      else (fst p, init_slot f)
  | None => p end.

Definition slot_ok (e : env) (s : sschema) (p : Z * value) : bool :=
  match find_field (fst p) (s_fields s) with
  | Some f =>
      if base_ptr f then
        match snd p with
        | VNil => true
        | VSome x => wt_val e false (f_ty f) x
        | _ => false end
      else if is_optional f && is_nil (snd p) then
        negb (is_base (f_ty f)) || is_binary (f_ty f)
      else wt_val e false (f_ty f) (snd p)
  | None => false end.

Lemma to_w_struct e n fs :
  to_w e (TRef n) (VStruct fs) =
  match find_struct e n with
  | Some s =>
      let c := count_set (s_fields s) fs in
      if is_union s && negb (c =? 1)%nat then Err (EUnionCount c) else
      bind (mapM (wfield_fn e s) fs) (fun ofs => Ok (WStruct (cat_somes ofs)))
  | None => Err EUnknownStruct end.
Proof. reflexivity. Qed.

Lemma from_w_struct e n wfs :
  from_w e (TRef n) (WStruct wfs) =
  match find_struct e n with
  | Some s => bind (foldM (read_step e s) wfs (new_fields s, [])) (finish_read s)
  | None => Err EUnknownStruct end.
Proof. reflexivity. Qed.

Lemma norm_struct_eq e n fs :
  norm e (TRef n) (VStruct fs) =
  match find_struct e n with
  | Some s => VStruct (map (norm_fn e s) fs)
  | None => VStruct fs end.
Proof. reflexivity. Qed.

Lemma wt_struct_eq e key n fs :
  wt_val e key (TRef n) (VStruct fs) =
  match find_struct e n with
  | Some s =>
      list_eqbZ (map fst fs) (map f_id (s_fields s)) && forallb (slot_ok e s) fs &&
      (if is_union s then (count_set (s_fields s) fs =? 1)%nat else true)
  | None => false end.
Proof. reflexivity. Qed.

Lemma norm_fn_fst e s p : fst (norm_fn e s p) = fst p.
Proof.
  unfold norm_fn. destruct (find_field (fst p) (s_fields s)); [|reflexivity].
  destruct (present f (snd p)); reflexivity.
Qed.

(* ------------------------------------------------------------------ the round trip *)

Section RoundTrip.
  Variable e : env.
  Hypothesis Henv : wf_env e = true.

  Definition Q (v : value) : Prop := forall t key, wt_val e key t v = true ->
    exists w, to_w e t v = Ok w /\ from_w e t w = Ok (norm e t v).

  (* what one slot contributes: an emitted field that reads back as the normalised slot, or nothing *)
  Definition field_good (s : sschema) (f : field) (p : Z * value) : Prop :=
    exists ow, wfield_fn e s p = Ok ow /\
      match ow with
      | Some (t', id, x) =>
          t' = ttype_of e (f_ty f) /\ id = f_id f /\ (is_required f = true -> True) /\
          exists v', from_w e (f_ty f) x = Ok v' /\ norm_fn e s p = (fst p, wrap_slot f v')
      | None => is_optional f = true /\ norm_fn e s p = (fst p, init_slot f)
      end.

  Lemma field_good_intro s f p :
    find_field (fst p) (s_fields s) = Some f ->
    slot_ok e s p = true ->
    Q (snd p) -> (forall x, snd p = VSome x -> Q x) ->
    field_good s f p.
  Proof.
    intros Hf Hok HQ HQs. unfold field_good, wfield_fn, norm_fn, slot_ok in *. rewrite Hf in *.
    destruct (present f (snd p)) eqn:Hp.
    - destruct (base_ptr f) eqn:Hb.
      + destruct (snd p) as [| | | | | | | | |x] eqn:Es; try discriminate.
        * (* VNil under base_ptr: not present *)
          exfalso. unfold present, isset, base_ptr in *.
          rewrite !andb_true_iff in Hb. destruct Hb as [[[Ho Hd] _] _].
          rewrite Ho in Hp. cbn in Hp. apply negb_true_iff in Hd. unfold has_default in Hd.
          destruct (f_default f); [discriminate|]. cbn in Hp. discriminate.
        * destruct (HQs x eq_refl _ _ Hok) as (w & Hw & Hr).
          exists (Some (ttype_of e (f_ty f), f_id f, w)). rewrite Hw. cbn [bind]. split; [reflexivity|].
          repeat split. exists (norm e (f_ty f) x). split; [assumption|].
          unfold wrap_slot. rewrite Hb. reflexivity.
      + assert (Hwt : exists w, to_w e (f_ty f) (snd p) = Ok w /\ from_w e (f_ty f) w = Ok (norm e (f_ty f) (snd p))).
        { destruct (is_optional f && is_nil (snd p)) eqn:Eon.
          - (* optional, nil, yet present: a binary field with a default *)
            apply andb_true_iff in Eon. destruct Eon as [Ho Hn].
            destruct (snd p); try discriminate.
            unfold present, isset in Hp. rewrite Ho in Hp. cbn [negb orb] in Hp.
            destruct (f_default f) as [l|]; [|discriminate].
            destruct (is_base (f_ty f)) eqn:Eb; [|discriminate].
            cbn [negb orb] in Hok. destruct (f_ty f); try discriminate.
            exists (WStr []). split; reflexivity.
          - apply (HQ _ _ Hok). }
        destruct Hwt as (w & Hw & Hr).
        exists (Some (ttype_of e (f_ty f), f_id f, w)). rewrite Hw. cbn [bind]. split; [reflexivity|].
        repeat split. exists (norm e (f_ty f) (snd p)). split; [assumption|].
        unfold wrap_slot. rewrite Hb. reflexivity.
    - exists None. split; [reflexivity|]. split; [|reflexivity].
      unfold present in Hp. apply orb_false_iff in Hp. destruct Hp as [Hp _].
      apply negb_false_iff in Hp. exact Hp.
  Qed.

  Lemma read_step_field s f x v' st :
    find_field (f_id f) (s_fields s) = Some f ->
    from_w e (f_ty f) x = Ok v' ->
    read_step e s st (ttype_of e (f_ty f), f_id f, x) =
      Ok (set_field (f_id f) (wrap_slot f v') (fst st), if is_required f then f_id f :: snd st else snd st).
  Proof.
    intros Hf Hr. unfold read_step. cbn [fst snd]. rewrite Hf, ttype_eqb_refl, Hr. reflexivity.
  Qed.

  Lemma read_fold s : NoDup (map f_id (s_fields s)) ->
    forall todo ftodo done fdone seen,
      s_fields s = fdone ++ ftodo ->
      map fst done = map f_id fdone ->
      map fst todo = map f_id ftodo ->
      Forall (fun p => forall f, find_field (fst p) (s_fields s) = Some f -> field_good s f p) todo ->
      exists ofs seen',
        mapM (wfield_fn e s) todo = Ok ofs /\
        foldM (read_step e s) (cat_somes ofs)
              (done ++ map (fun f => (f_id f, init_slot f)) ftodo, seen)
          = Ok (done ++ map (norm_fn e s) todo, seen') /\
        (forall id, In id seen -> In id seen') /\
        (forall f, In f ftodo -> is_required f = true -> In (f_id f) seen').
  Proof.
    intros Hnd. induction todo as [|p todo IH]; intros ftodo done fdone seen Hsplit Hdone Htodo Hgood.
    - destruct ftodo; [|discriminate]. exists [], seen. cbn. repeat split; auto. intros f [].
    - destruct ftodo as [|f ftodo]; [discriminate|]. cbn [map] in Htodo. injection Htodo as Hid Htodo.
      inversion Hgood as [|? ? Hp Hrest]; subst.
      assert (Hnotdone : ~ In (f_id f) (map f_id fdone)).
      { rewrite Hsplit, map_app in Hnd. cbn [map] in Hnd. apply NoDup_remove_2 in Hnd.
        intro H. apply Hnd. apply in_or_app. left. exact H. }
      assert (Hnotrest : ~ In (f_id f) (map f_id ftodo)).
      { rewrite Hsplit, map_app in Hnd. cbn [map] in Hnd. apply NoDup_remove_2 in Hnd.
        intro H. apply Hnd. apply in_or_app. right. exact H. }
      assert (Hfind : find_field (f_id f) (s_fields s) = Some f).
      { rewrite Hsplit, find_field_app_skip by assumption. apply find_field_head. }
      rewrite Hid in Hp. specialize (Hp f Hfind). destruct Hp as (ow & How & Hshape).
      assert (Hsplit' : s_fields s = (fdone ++ [f]) ++ ftodo) by (rewrite <- app_assoc; exact Hsplit).
      destruct ow as [[[t' id] x]|].
      + destruct Hshape as (-> & -> & _ & v' & Hr & Hn).
        assert (Hdone' : map fst (done ++ [norm_fn e s p]) = map f_id (fdone ++ [f])).
        { rewrite !map_app, Hdone. cbn. rewrite norm_fn_fst, Hid. reflexivity. }
        destruct (IH ftodo (done ++ [norm_fn e s p]) (fdone ++ [f])
                    (if is_required f then f_id f :: seen else seen) Hsplit' Hdone' Htodo Hrest)
          as (ofs & seen' & Hm & Hfold & Hmono & Hreq).
        exists (Some (ttype_of e (f_ty f), f_id f, x) :: ofs), seen'.
        split; [cbn [mapM]; rewrite How, Hm; reflexivity|].
        split.
        * cbn [cat_somes foldM map].
          rewrite (read_step_field s f x v' _ Hfind Hr). cbn [fst snd].
          rewrite set_field_app. rewrite (set_field_notin _ _ done) by (rewrite Hdone; assumption).
          cbn [set_field map fst]. rewrite Z.eqb_refl.
          change (map (fun p0 : Z * value => if fst p0 =? f_id f then (fst p0, wrap_slot f v') else p0)
                      (map (fun f0 : field => (f_id f0, init_slot f0)) ftodo))
            with (set_field (f_id f) (wrap_slot f v') (map (fun f0 : field => (f_id f0, init_slot f0)) ftodo)).
          rewrite set_field_notin by (rewrite map_map; cbn [fst]; assumption).
          rewrite Hn in Hfold. rewrite Hid in Hfold. rewrite <- app_assoc in Hfold. cbn [app] in Hfold.
          rewrite Hfold. rewrite Hn, Hid, <- app_assoc. reflexivity.
        * split.
          -- intros id0 Hin. apply Hmono. destruct (is_required f); [right|]; assumption.
          -- intros g [<-|Hg] Hrq; [|apply Hreq; assumption].
             apply Hmono. rewrite Hrq. left. reflexivity.
      + destruct Hshape as (Hopt & Hn).
        assert (Hdone' : map fst (done ++ [norm_fn e s p]) = map f_id (fdone ++ [f])).
        { rewrite !map_app, Hdone. cbn. rewrite norm_fn_fst, Hid. reflexivity. }
        destruct (IH ftodo (done ++ [norm_fn e s p]) (fdone ++ [f]) seen Hsplit' Hdone' Htodo Hrest)
          as (ofs & seen' & Hm & Hfold & Hmono & Hreq).
        exists (None :: ofs), seen'.
        split; [cbn [mapM]; rewrite How, Hm; reflexivity|].
        split.
        * cbn [cat_somes map]. rewrite Hn, Hid in Hfold. rewrite <- app_assoc in Hfold. cbn [app] in Hfold.
          rewrite Hfold. rewrite Hn, Hid, <- app_assoc. reflexivity.
        * split; [assumption|].
          intros g [<-|Hg] Hrq; [|apply Hreq; assumption].
          exfalso. unfold is_optional, is_required in *. destruct (f_req f); discriminate.
  Qed.

  Lemma no_required_first_missing fields seen :
    existsb is_required fields = false -> first_missing fields seen = None.
  Proof.
    intro H. apply first_missing_none. intros f Hin Hr.
    assert (existsb is_required fields = true) by (apply existsb_exists; exists f; auto). congruence.
  Qed.

  Theorem to_from : forall v, Q v.
  Proof.
    intro v.
    enough (H : Q v /\ match v with VSome x => Q x | _ => True end) by apply H.
    induction v using value_ind2.
    - (* VBool *) split; [|exact I]. intros t key Hwt. destruct t; try discriminate.
      exists (WBool b). split; reflexivity.
    - (* VInt *) split; [|exact I]. intros t key Hwt. destruct t; try discriminate;
        (eexists; split; reflexivity).
    - split; [|exact I]. intros t key Hwt. destruct t; try discriminate. eexists; split; reflexivity.
    - split; [|exact I]. intros t key Hwt. destruct t; try discriminate. eexists; split; reflexivity.
    - split; [|exact I]. intros t key Hwt. destruct t; try discriminate. eexists; split; reflexivity.
    - (* VList *) split; [|exact I]. intros t key Hwt. destruct t; try discriminate; cbn [wt_val] in Hwt.
      + apply andb_true_iff in Hwt. destruct Hwt as [_ Hall]. apply forallb_Forall in Hall.
        assert (HF : Forall (fun x => exists w, to_w e t x = Ok w /\ from_w e t w = Ok (norm e t x)) l).
        { eapply Forall_and_impl; [exact H | exact Hall |]. intros x [Hx _] Hwx. apply (Hx _ _ Hwx). }
        destruct (mapM_ok _ _ _ _ HF) as (ws & Hm & Hm2).
        exists (WList (ttype_of e t) ws). cbn [to_w from_w]. rewrite Hm. cbn [bind]. split; [reflexivity|].
        rewrite ttype_eqb_refl. cbn [orb]. rewrite Hm2. reflexivity.
      + apply andb_true_iff in Hwt. destruct Hwt as [Hwt Hdup]. apply andb_true_iff in Hwt.
        destruct Hwt as [_ Hall]. apply forallb_Forall in Hall. apply negb_true_iff in Hdup.
        assert (HF : Forall (fun x => exists w, to_w e t x = Ok w /\ from_w e t w = Ok (norm e t x)) l).
        { eapply Forall_and_impl; [exact H | exact Hall |]. intros x [Hx _] Hwx. apply (Hx _ _ Hwx). }
        destruct (mapM_ok _ _ _ _ HF) as (ws & Hm & Hm2).
        exists (WSet (ttype_of e t) ws). cbn [to_w from_w]. unfold set_has_dup. rewrite Hdup, Hm. cbn [bind].
        split; [reflexivity|]. rewrite ttype_eqb_refl. cbn [orb]. rewrite Hm2. reflexivity.
    - (* VMap *) split; [|exact I]. intros t key Hwt. destruct t; try discriminate; cbn [wt_val] in Hwt.
      apply andb_true_iff in Hwt. destruct Hwt as [Hwt _]. apply andb_true_iff in Hwt.
      destruct Hwt as [_ Hall]. apply forallb_Forall in Hall.
      set (f := fun kv : value * value => bind (to_w e t1 (fst kv)) (fun k =>
                  bind (to_w e t2 (snd kv)) (fun x => Ok (k, x)))).
      set (g := fun kv : wval * wval => bind (from_w e t1 (fst kv)) (fun k =>
                  bind (from_w e t2 (snd kv)) (fun x => Ok (k, x)))).
      set (h := fun kv : value * value => (norm e t1 (fst kv), norm e t2 (snd kv))).
      assert (HF : Forall (fun kv => exists w, f kv = Ok w /\ g w = Ok (h kv)) kvs).
      { eapply Forall_and_impl; [exact H | exact Hall |]. intros kv [[Hk _] [Hx _]] Hw.
        apply andb_true_iff in Hw. destruct Hw as [Hwk Hwx].
        destruct (Hk _ _ Hwk) as (wk & Hk1 & Hk2). destruct (Hx _ _ Hwx) as (wx & Hx1 & Hx2).
        exists (wk, wx). unfold f, g, h. cbn [fst snd]. rewrite Hk1, Hx1, Hk2, Hx2. split; reflexivity. }
      destruct (mapM_ok _ _ _ _ HF) as (ws & Hm & Hm2).
      exists (WMap (ttype_of e t1) (ttype_of e t2) ws). cbn [to_w from_w norm].
      fold f. fold g. fold h. rewrite Hm. cbn [bind]. split; [reflexivity|].
      rewrite !ttype_eqb_refl. cbn [andb orb]. rewrite Hm2. reflexivity.
    - (* VStruct *) split; [|exact I]. intros t key Hwt. destruct t; try discriminate.
      rewrite wt_struct_eq in Hwt. rewrite to_w_struct, norm_struct_eq.
      destruct (find_struct e name) as [s|] eqn:Hs; [|discriminate].
      apply andb_true_iff in Hwt. destruct Hwt as [Hwt Hun]. apply andb_true_iff in Hwt.
      destruct Hwt as [Hids Hslots]. apply list_eqbZ_eq in Hids. apply forallb_Forall in Hslots.
      pose proof (wf_env_struct _ _ _ Henv Hs) as Hwfs. pose proof (wf_struct_nodup _ Hwfs) as Hnd.
      assert (Hgood : Forall (fun p => forall f, find_field (fst p) (s_fields s) = Some f -> field_good s f p) fs).
      { eapply Forall_and_impl; [exact H | exact Hslots |]. intros p Hp Hok f Hf.
        apply field_good_intro; try assumption.
        - apply Hp.
        - intros x Ex. destruct Hp as [_ Hp]. rewrite Ex in Hp. exact Hp. }
      destruct (read_fold s Hnd fs (s_fields s) [] [] [] eq_refl eq_refl Hids Hgood)
        as (ofs & seen' & Hm & Hfold & _ & Hreq).
      cbn zeta.
      assert (Hu : is_union s && negb (count_set (s_fields s) fs =? 1)%nat = false).
      { destruct (is_union s); [|reflexivity]. rewrite Hun. reflexivity. }
      rewrite Hu, Hm. cbn [bind]. eexists. split; [reflexivity|].
      rewrite from_w_struct, Hs. cbn [app] in Hfold. unfold new_fields. rewrite Hfold. cbn [bind].
      unfold finish_read. cbn [fst snd]. rewrite first_missing_none; [reflexivity|].
      intros f Hin Hr. apply Hreq; assumption.
    - (* VNil *) split; [|exact I]. intros t key Hwt. destruct t; try discriminate; cbn [wt_val] in Hwt.
      + exists (WStr []). split; reflexivity.
      + destruct (find_struct e name) as [s|] eqn:Hs; [|discriminate].
        apply andb_true_iff in Hwt. destruct Hwt as [Hnu Hnr]. apply negb_true_iff in Hnu, Hnr.
        exists (WStruct []). cbn [to_w norm]. rewrite Hs, Hnu. split; [reflexivity|].
        rewrite from_w_struct, Hs. cbn [foldM bind]. unfold finish_read. cbn [fst snd].
        rewrite no_required_first_missing by assumption. reflexivity.
      + eexists. split; [reflexivity|]. cbn [from_w length Nat.eqb]. rewrite orb_true_r. reflexivity.
      + eexists. split; [reflexivity|]. cbn [from_w length Nat.eqb]. rewrite orb_true_r. reflexivity.
      + eexists. split; [reflexivity|]. cbn [from_w length Nat.eqb]. rewrite orb_true_r. reflexivity.
    - (* VSome *) split; [intros t key Hwt; discriminate | apply IHv].
  Qed.
End RoundTrip.

(* ------------------------------------------------------------------ top level, NewX() as start object *)

Lemma wt_is_struct e s v : wt e s v = true -> exists fs, v = VStruct fs.
Proof.
  unfold wt. destruct (find_struct e (s_name s)); [|discriminate].
  destruct v; try discriminate. intros _. eexists. reflexivity.
Qed.

Lemma wt_wt_val e s v : wt e s v = true -> wt_val e false (TRef (s_name s)) v = true.
Proof.
  unfold wt. destruct (find_struct e (s_name s)); [|discriminate].
  rewrite andb_true_iff. tauto.
Qed.

Theorem write_read e s v :
  wf_env e = true -> find_struct e (s_name s) = Some s -> wt e s v = true ->
  exists wfs, to_wire e s v = Ok (WStruct wfs) /\ read_new e s (WStruct wfs) = Ok (norm_struct e s v).
Proof.
  intros Henv Hs Hwt. destruct (wt_is_struct _ _ _ Hwt) as (fs & ->).
  destruct (to_from e Henv (VStruct fs) _ _ (wt_wt_val _ _ _ Hwt)) as (w & Hw & Hr).
  unfold to_wire, read_new, norm_struct, from_wire, new_struct.
  rewrite to_w_struct, Hs in Hw. cbn zeta in Hw.
  destruct (is_union s && negb (count_set (s_fields s) fs =? 1)%nat); [discriminate|].
  destruct (mapM (wfield_fn e s) fs) as [ofs|] eqn:Hm; [|discriminate]. cbn [bind] in Hw.
  injection Hw as <-. exists (cat_somes ofs). split.
  - rewrite to_w_struct, Hs. cbn zeta.
    destruct (is_union s && negb (count_set (s_fields s) fs =? 1)%nat) eqn:Hu.
    + (* impossible: already excluded above, but the destruct forgot it; redo from the hypothesis *)
      exfalso. pose proof (wt_wt_val _ _ _ Hwt) as H. rewrite wt_struct_eq, Hs in H.
      apply andb_true_iff in H. destruct H as [_ H]. apply andb_true_iff in Hu. destruct Hu as [Hu1 Hu2].
      rewrite Hu1 in H. rewrite H in Hu2. discriminate.
    + rewrite Hm. reflexivity.
  - rewrite from_w_struct, Hs in Hr. exact Hr.
Qed.

(* ------------------------------------------------------------------ what Write emits is well formed *)

Lemma mapM_Forall2 {A B} (f : A -> result B) l ws :
  mapM f l = Ok ws -> Forall2 (fun x w => f x = Ok w) l ws.
Proof.
  revert ws; induction l as [|x l IH]; intros ws H; cbn in H.
  - injection H as <-. constructor.
  - destruct (f x) as [y|] eqn:E; [|discriminate].
    destruct (mapM f l) as [ys|] eqn:E2; [|discriminate]. injection H as <-.
    constructor; [assumption | apply IH; reflexivity].
Qed.

Lemma Forall2_length {A B} (R : A -> B -> Prop) l l' : Forall2 R l l' -> length l = length l'.
Proof. induction 1; cbn; congruence. Qed.

Lemma len_ok_srange {A} (l : list A) : len_ok l = true -> in_srange 4 (Z.of_nat (length l)).
Proof. unfold len_ok. rewrite Z.ltb_lt. intro H. apply in_srange_4. lia. Qed.

Lemma Forall_cat_somes {A} (P : A -> Prop) (l : list (option A)) :
  Forall (fun o => match o with Some x => P x | None => True end) l -> Forall P (cat_somes l).
Proof.
  induction l as [|[x|] l IH]; intro H; inversion H; subst; cbn; [constructor | constructor; auto | auto].
Qed.

Lemma Forall2_out {A B} (R0 : A -> B -> Prop) (P Q : A -> Prop) (R : B -> Prop) l ws :
  Forall2 R0 l ws -> Forall P l -> Forall Q l ->
  (forall x w, P x -> Q x -> R0 x w -> R w) -> Forall R ws.
Proof.
  intros H2 HP HQ H. induction H2 as [|x w l' ws' Hxw H2 IH]; [constructor|].
  inversion HP; inversion HQ; subst. constructor; [eapply H; eauto | apply IH; assumption].
Qed.

Section WF.
  Variable e : env.
  Hypothesis Henv : wf_env e = true.

  Definition W (v : value) : Prop := forall t key w, wt_val e key t v = true -> to_w e t v = Ok w ->
    wf w /\ wtype w = ttype_of e t.

  Lemma srange_of_b n z : in_srangeb n z = true -> in_srange n z.
  Proof. apply in_srangeb_spec. Qed.

  Theorem to_w_wf : forall v, W v.
  Proof.
    intro v.
    enough (H : W v /\ match v with VSome x => W x | _ => True end) by apply H.
    induction v using value_ind2.
    - split; [|exact I]. intros t key w Hwt Hw. destruct t; try discriminate. injection Hw as <-.
      rewrite ttype_of_spec. split; [exact I | reflexivity].
    - split; [|exact I]. intros t key w Hwt Hw. destruct t; try discriminate; injection Hw as <-;
        rewrite ttype_of_spec; cbn [wt_val] in Hwt; (split; [|reflexivity]); cbn [wf].
      + apply srange_of_b; assumption.
      + apply srange_of_b; assumption.
      + apply srange_of_b; assumption.
      + apply srange_of_b; assumption.
      + apply wrap32_in_srange.
    - split; [|exact I]. intros t key w Hwt Hw. destruct t; try discriminate. injection Hw as <-.
      rewrite ttype_of_spec. split; [|reflexivity]. cbn [wt_val] in Hwt. cbn [wf]. unfold in_range.
      apply andb_true_iff in Hwt. destruct Hwt as [H1 H2]. apply Z.leb_le in H1. apply Z.ltb_lt in H2.
      replace (256 ^ Z.of_nat 8) with 18446744073709551616 by reflexivity. lia.
    - split; [|exact I]. intros t key w Hwt Hw. destruct t; try discriminate. injection Hw as <-.
      rewrite ttype_of_spec. split; [|reflexivity]. cbn [wf]. apply len_ok_srange. exact Hwt.
    - split; [|exact I]. intros t key w Hwt Hw. destruct t; try discriminate. injection Hw as <-.
      rewrite ttype_of_spec. split; [|reflexivity]. cbn [wf]. apply len_ok_srange. exact Hwt.
    - (* VList *) split; [|exact I]. intros t key w Hwt Hw. destruct t; try discriminate; cbn [wt_val to_w] in *.
      + apply andb_true_iff in Hwt. destruct Hwt as [Hlen Hall]. apply forallb_Forall in Hall.
        destruct (mapM (to_w e t) l) as [ws|] eqn:Hm; [|discriminate]. injection Hw as <-.
        apply mapM_Forall2 in Hm. rewrite (ttype_of_spec e (TList t)). split; [|reflexivity].
        apply wf_list_iff. split.
        * rewrite <- (Forall2_length _ _ _ Hm). apply len_ok_srange. assumption.
        * apply (Forall2_out _ _ _ _ _ _ Hm H Hall). intros x w' [Hx _] Hwx Hxw.
          destruct (Hx _ _ _ Hwx Hxw). split; assumption.
      + apply andb_true_iff in Hwt. destruct Hwt as [Hwt _]. apply andb_true_iff in Hwt.
        destruct Hwt as [Hlen Hall]. apply forallb_Forall in Hall.
        destruct (set_has_dup l); [discriminate|].
        destruct (mapM (to_w e t) l) as [ws|] eqn:Hm; [|discriminate]. injection Hw as <-.
        apply mapM_Forall2 in Hm. rewrite (ttype_of_spec e (TSet t)). split; [|reflexivity].
        apply wf_set_iff. split.
        * rewrite <- (Forall2_length _ _ _ Hm). apply len_ok_srange. assumption.
        * apply (Forall2_out _ _ _ _ _ _ Hm H Hall). intros x w' [Hx _] Hwx Hxw.
          destruct (Hx _ _ _ Hwx Hxw). split; assumption.
    - (* VMap *) split; [|exact I]. intros t key w Hwt Hw. destruct t; try discriminate; cbn [wt_val to_w] in *.
      apply andb_true_iff in Hwt. destruct Hwt as [Hwt _]. apply andb_true_iff in Hwt.
      destruct Hwt as [Hlen Hall]. apply forallb_Forall in Hall.
      match type of Hw with bind (mapM ?F kvs) _ = _ => set (f := F) in * end.
      destruct (mapM f kvs) as [ws|] eqn:Hm; [|discriminate]. injection Hw as <-.
      apply mapM_Forall2 in Hm. rewrite (ttype_of_spec e (TMap t1 t2)). split; [|reflexivity].
      apply wf_map_iff. split.
      + rewrite <- (Forall2_length _ _ _ Hm). apply len_ok_srange. assumption.
      + apply (Forall2_out _ _ _ _ _ _ Hm H Hall). intros kv w' [[Hk _] [Hx _]] H3 Hxw.
        apply andb_true_iff in H3. destruct H3 as [Hwk Hwx]. unfold f in Hxw.
        destruct (to_w e t1 (fst kv)) as [wk|] eqn:E1; [|discriminate].
        destruct (to_w e t2 (snd kv)) as [wx|] eqn:E2; [|discriminate]. injection Hxw as <-.
        destruct (Hk _ _ _ Hwk E1). destruct (Hx _ _ _ Hwx E2). cbn [fst snd]. auto.
    - (* VStruct *) split; [|exact I]. intros t key w Hwt Hw. destruct t; try discriminate.
      rewrite wt_struct_eq in Hwt. rewrite to_w_struct in Hw.
      destruct (find_struct e name) as [s|] eqn:Hs; [|discriminate]. cbn zeta in Hw.
      destruct (is_union s && negb (count_set (s_fields s) fs =? 1)%nat); [discriminate|].
      destruct (mapM (wfield_fn e s) fs) as [ofs|] eqn:Hm; [|discriminate]. injection Hw as <-.
      rewrite (ttype_of_spec e (TRef name)). split; [|reflexivity].
      apply andb_true_iff in Hwt. destruct Hwt as [Hwt _]. apply andb_true_iff in Hwt.
      destruct Hwt as [_ Hslots]. apply forallb_Forall in Hslots.
      pose proof (wf_env_struct _ _ _ Henv Hs) as Hwfs.
      apply wf_struct_iff. apply Forall_cat_somes. apply mapM_Forall2 in Hm.
      apply (Forall2_out _ _ _ _ _ _ Hm H Hslots). intros p ow Hx H2 Hp.
      unfold wfield_fn in Hp. unfold slot_ok in H2.
      destruct (find_field (fst p) (s_fields s)) as [f|] eqn:Hf; [|discriminate].
      destruct (find_field_In _ _ _ Hf) as [Hin _].
      destruct (present f (snd p)); [|injection Hp as <-; exact I].
      destruct (base_ptr f).
      + destruct (snd p) as [| | | | | | | | |x] eqn:Es; try discriminate.
        destruct (to_w e (f_ty f) x) as [wx|] eqn:E1; [|discriminate]. injection Hp as <-.
        destruct Hx as [_ Hx]. destruct (Hx _ _ _ H2 E1) as [Hw1 Hw2]. cbn [fst snd].
        split; [assumption | split; [apply (wf_struct_ids s); assumption | assumption]].
      + destruct (to_w e (f_ty f) (snd p)) as [wx|] eqn:E1; [|discriminate]. injection Hp as <-.
        cbn [fst snd].
        destruct (is_optional f && is_nil (snd p)) eqn:Eon.
        * apply andb_true_iff in Eon. destruct Eon as [_ Hn]. destruct (snd p); try discriminate.
          destruct (f_ty f); cbn [is_base is_binary negb orb] in H2; try discriminate; cbn [to_w] in E1.
          -- injection E1 as <-. rewrite ttype_of_spec.
             split; [reflexivity | split; [apply (wf_struct_ids s); assumption | cbn; apply in_srange_4; lia]].
          -- destruct (find_struct e name0) as [s0|]; [|discriminate].
             destruct (is_union s0); [discriminate|]. injection E1 as <-. rewrite ttype_of_spec.
             split; [reflexivity | split; [apply (wf_struct_ids s); assumption | exact I]].
          -- injection E1 as <-. rewrite (ttype_of_spec e (TList t)).
             split; [reflexivity | split; [apply (wf_struct_ids s); assumption | cbn; split; [apply in_srange_4; lia | exact I]]].
          -- injection E1 as <-. rewrite (ttype_of_spec e (TSet t)).
             split; [reflexivity | split; [apply (wf_struct_ids s); assumption | cbn; split; [apply in_srange_4; lia | exact I]]].
          -- injection E1 as <-. rewrite (ttype_of_spec e (TMap t1 t2)).
             split; [reflexivity | split; [apply (wf_struct_ids s); assumption | cbn; split; [apply in_srange_4; lia | exact I]]].
        * destruct Hx as [Hx _]. destruct (Hx _ _ _ H2 E1) as [Hw1 Hw2].
          split; [assumption | split; [apply (wf_struct_ids s); assumption | assumption]].
    - (* VNil *) split; [|exact I]. intros t key w Hwt Hw. destruct t; try discriminate; cbn [wt_val to_w] in *.
      + injection Hw as <-. rewrite ttype_of_spec. split; [|reflexivity]. cbn. apply in_srange_4. lia.
      + destruct (find_struct e name) as [s|]; [|discriminate]. destruct (is_union s); [discriminate|].
        injection Hw as <-. rewrite ttype_of_spec. split; [exact I | reflexivity].
      + injection Hw as <-. rewrite (ttype_of_spec e (TList t)). split; [|reflexivity]. cbn. split; [apply in_srange_4; lia | exact I].
      + injection Hw as <-. rewrite (ttype_of_spec e (TSet t)). split; [|reflexivity]. cbn. split; [apply in_srange_4; lia | exact I].
      + injection Hw as <-. rewrite (ttype_of_spec e (TMap t1 t2)). split; [|reflexivity]. cbn. split; [apply in_srange_4; lia | exact I].
    - split; [intros t key w Hwt; discriminate | apply IHv].
  Qed.
End WF.

Theorem write_read_bytes e s v :
  wf_env e = true -> find_struct e (s_name s) = Some s -> wt e s v = true ->
  exists bs, write_bytes e s v = Ok bs /\
    forall rest, read_bytes e s (new_struct e s) (bs ++ rest) = Ok (norm_struct e s v).
Proof.
  intros Henv Hs Hwt. destruct (write_read e s v Henv Hs Hwt) as (wfs & Hw & Hr).
  exists (enc (WStruct wfs)). unfold write_bytes. rewrite Hw. cbn [bind]. split; [reflexivity|].
  intro rest. unfold read_bytes.
  destruct (to_w_wf e Henv v _ _ _ (wt_wt_val _ _ _ Hwt) Hw) as [Hwf _].
  rewrite dec_struct_enc by assumption. exact Hr.
Qed.

(* ------------------------------------------------------------------ wire shape *)

(* headers Thrift prescribes for the fields of a value: declaration order, schema id, spec wire type,
   non-optional fields always, optional fields iff set *)
Definition emitted_hdrs (s : sschema) (fs : list (Z * value)) : list (ttype * Z) :=
  cat_somes (map (fun p => match find_field (fst p) (s_fields s) with
                           | Some f => if present f (snd p) then Some (spec_ttype (f_ty f), f_id f) else None
                           | None => None end) fs).

Definition hdr (wf : wfield) : ttype * Z := (fst (fst wf), snd (fst wf)).

(* every container header and every nested field carries the wire type of its IDL type *)
Fixpoint conforms (e : env) (t : ty) (w : wval) {struct w} : bool :=
  match w with
  | WBool _ => match t with TBool => true | _ => false end
  | WByte _ => match t with TByte => true | _ => false end
  | WDouble _ => match t with TDouble => true | _ => false end
  | WI16 _ => match t with TI16 => true | _ => false end
  | WI32 _ => match t with TI32 | TEnum _ => true | _ => false end
  | WI64 _ => match t with TI64 => true | _ => false end
  | WStr _ => match t with TString | TBinary => true | _ => false end
  | WList et l => match t with TList a => ttype_eqb et (spec_ttype a) && forallb (conforms e a) l | _ => false end
  | WSet et l => match t with TSet a => ttype_eqb et (spec_ttype a) && forallb (conforms e a) l | _ => false end
  | WMap kt vt kvs =>
      match t with
      | TMap a b => ttype_eqb kt (spec_ttype a) && ttype_eqb vt (spec_ttype b) &&
                    forallb (fun kv => conforms e a (fst kv) && conforms e b (snd kv)) kvs
      | _ => false end
  | WStruct wfs =>
      match t with
      | TRef n => match find_struct e n with
                  | Some s => forallb (fun wf => match find_field (snd (fst wf)) (s_fields s) with
                                                 | Some f => ttype_eqb (fst (fst wf)) (spec_ttype (f_ty f)) &&
                                                             conforms e (f_ty f) (snd wf)
                                                 | None => false end) wfs
                  | None => false end
      | _ => false end
  end.

Lemma forallb_Forall2_out {A B} (f : A -> result B) (P : A -> Prop) (q : B -> bool) l ws :
  Forall2 (fun x w => f x = Ok w) l ws -> Forall P l ->
  (forall x w, P x -> f x = Ok w -> q w = true) -> forallb q ws = true.
Proof.
  intros H2 HP H. induction H2 as [|x w l' ws' Hxw H2 IH]; [reflexivity|].
  inversion HP; subst. cbn. rewrite (H x w) by assumption. apply IH. assumption.
Qed.

Lemma forallb_cat_somes {A} (q : A -> bool) (l : list (option A)) :
  forallb (fun o => match o with Some x => q x | None => true end) l = true -> forallb q (cat_somes l) = true.
Proof.
  induction l as [|[x|] l IH]; cbn; [reflexivity | |assumption].
  rewrite !andb_true_iff. intros [H1 H2]. auto.
Qed.

Theorem to_w_conforms e : forall v t w, to_w e t v = Ok w -> conforms e t w = true.
Proof.
  intro v.
  enough (H : (forall t w, to_w e t v = Ok w -> conforms e t w = true) /\
              match v with VSome x => forall t w, to_w e t x = Ok w -> conforms e t w = true | _ => True end)
    by apply H.
  induction v using value_ind2.
  - split; [|exact I]. intros t w Hw. destruct t; try discriminate. injection Hw as <-. reflexivity.
  - split; [|exact I]. intros t w Hw. destruct t; try discriminate; injection Hw as <-; reflexivity.
  - split; [|exact I]. intros t w Hw. destruct t; try discriminate. injection Hw as <-. reflexivity.
  - split; [|exact I]. intros t w Hw. destruct t; try discriminate. injection Hw as <-. reflexivity.
  - split; [|exact I]. intros t w Hw. destruct t; try discriminate. injection Hw as <-. reflexivity.
  - split; [|exact I]. intros t w Hw. destruct t; try discriminate; cbn [to_w] in Hw.
    + destruct (mapM (to_w e t) l) as [ws|] eqn:Hm; [|discriminate]. injection Hw as <-.
      cbn [conforms]. rewrite ttype_of_spec, ttype_eqb_refl. cbn [andb].
      apply mapM_Forall2 in Hm. apply (forallb_Forall2_out _ _ _ _ _ Hm H). intros x w [Hx _] Hxw. eauto.
    + destruct (set_has_dup l); [discriminate|].
      destruct (mapM (to_w e t) l) as [ws|] eqn:Hm; [|discriminate]. injection Hw as <-.
      cbn [conforms]. rewrite ttype_of_spec, ttype_eqb_refl. cbn [andb].
      apply mapM_Forall2 in Hm. apply (forallb_Forall2_out _ _ _ _ _ Hm H). intros x w [Hx _] Hxw. eauto.
  - split; [|exact I]. intros t w Hw. destruct t; try discriminate; cbn [to_w] in Hw.
    match type of Hw with bind (mapM ?F kvs) _ = _ => set (f := F) in * end.
    destruct (mapM f kvs) as [ws|] eqn:Hm; [|discriminate]. injection Hw as <-.
    cbn [conforms]. rewrite !ttype_of_spec, !ttype_eqb_refl. cbn [andb].
    apply mapM_Forall2 in Hm. apply (forallb_Forall2_out _ _ _ _ _ Hm H).
    intros kv w [[Hk _] [Hx _]] Hxw. unfold f in Hxw.
    destruct (to_w e t1 (fst kv)) as [wk|] eqn:E1; [|discriminate].
    destruct (to_w e t2 (snd kv)) as [wx|] eqn:E2; [|discriminate]. injection Hxw as <-.
    cbn [fst snd]. rewrite (Hk _ _ E1), (Hx _ _ E2). reflexivity.
  - split; [|exact I]. intros t w Hw. destruct t; try discriminate. rewrite to_w_struct in Hw.
    destruct (find_struct e name) as [s|] eqn:Hs; [|discriminate]. cbn zeta in Hw.
    destruct (is_union s && negb (count_set (s_fields s) fs =? 1)%nat); [discriminate|].
    destruct (mapM (wfield_fn e s) fs) as [ofs|] eqn:Hm; [|discriminate]. injection Hw as <-.
    cbn [conforms]. rewrite Hs. apply forallb_cat_somes.
    apply mapM_Forall2 in Hm. apply (forallb_Forall2_out _ _ _ _ _ Hm H). intros p ow Hp How.
    unfold wfield_fn in How.
    destruct (find_field (fst p) (s_fields s)) as [f|] eqn:Hf; [|discriminate].
    destruct (find_field_In _ _ _ Hf) as [_ Hid].
    destruct (present f (snd p)); [|injection How as <-; reflexivity].
    destruct (base_ptr f).
    + destruct (snd p) as [| | | | | | | | |x] eqn:Es; try discriminate.
      destruct (to_w e (f_ty f) x) as [wx|] eqn:E1; [|discriminate]. injection How as <-.
      cbn [fst snd]. rewrite Hid, Hf, ttype_of_spec, ttype_eqb_refl. destruct Hp as [_ Hp]. rewrite (Hp _ _ E1). reflexivity.
    + destruct (to_w e (f_ty f) (snd p)) as [wx|] eqn:E1; [|discriminate]. injection How as <-.
      cbn [fst snd]. rewrite Hid, Hf, ttype_of_spec, ttype_eqb_refl. destruct Hp as [Hp _]. rewrite (Hp _ _ E1). reflexivity.
  - split; [|exact I]. intros t w Hw. destruct t; try discriminate; cbn [to_w] in Hw.
    + injection Hw as <-. reflexivity.
    + destruct (find_struct e name) as [s|] eqn:Hs; [|discriminate]. destruct (is_union s); [discriminate|].
      injection Hw as <-. cbn [conforms]. rewrite Hs. reflexivity.
    + injection Hw as <-. cbn [conforms]. rewrite ttype_of_spec, ttype_eqb_refl. reflexivity.
    + injection Hw as <-. cbn [conforms]. rewrite ttype_of_spec, ttype_eqb_refl. reflexivity.
    + injection Hw as <-. cbn [conforms]. rewrite !ttype_of_spec, !ttype_eqb_refl. reflexivity.
  - split; [intros t w Hw; discriminate | apply IHv].
Qed.

Lemma conforms_wtype e t w : conforms e t w = true -> wtype w = spec_ttype t.
Proof. destruct w, t; cbn; try discriminate; reflexivity. Qed.

(* the emitted top-level fields: exactly the present ones, in declaration order, schema ids, spec wire types *)
Theorem wire_shape e s fs wfs :
  find_struct e (s_name s) = Some s ->
  to_wire e s (VStruct fs) = Ok (WStruct wfs) ->
  map hdr wfs = emitted_hdrs s fs /\
  Forall (fun wf => wtype (snd wf) = fst (fst wf)) wfs /\
  conforms e (TRef (s_name s)) (WStruct wfs) = true.
Proof.
  intros Hs Hw. split; [|split].
  - unfold to_wire in Hw. rewrite to_w_struct, Hs in Hw. cbn zeta in Hw.
    destruct (is_union s && negb (count_set (s_fields s) fs =? 1)%nat); [discriminate|].
    destruct (mapM (wfield_fn e s) fs) as [ofs|] eqn:Hm; [|discriminate]. injection Hw as <-.
    unfold emitted_hdrs. revert ofs Hm. induction fs as [|p fs IH]; intros ofs Hm; cbn in Hm.
    + injection Hm as <-. reflexivity.
    + destruct (wfield_fn e s p) as [ow|] eqn:Hp; [|discriminate].
      destruct (mapM (wfield_fn e s) fs) as [ofs'|] eqn:Hm'; [|discriminate]. injection Hm as <-.
      specialize (IH ofs' eq_refl). cbn [map]. unfold wfield_fn in Hp.
      destruct (find_field (fst p) (s_fields s)) as [f|]; [|discriminate].
      destruct (present f (snd p)).
      * assert (Ho : exists x, ow = Some (ttype_of e (f_ty f), f_id f, x)).
        { destruct (base_ptr f).
          - destruct (snd p); try discriminate. destruct (to_w e (f_ty f) v); [|discriminate].
            injection Hp as <-. eexists; reflexivity.
          - destruct (to_w e (f_ty f) (snd p)); [|discriminate]. injection Hp as <-. eexists; reflexivity. }
        destruct Ho as (x & ->). cbn [cat_somes map hdr fst snd]. rewrite ttype_of_spec, IH. reflexivity.
      * injection Hp as <-. cbn [cat_somes]. exact IH.
  - pose proof (to_w_conforms e _ _ _ Hw) as Hc. cbn [conforms] in Hc. rewrite Hs in Hc.
    rewrite forallb_forall in Hc. apply Forall_forall. intros wf Hin. specialize (Hc wf Hin).
    destruct (find_field (snd (fst wf)) (s_fields s)) as [f|]; [|discriminate].
    apply andb_true_iff in Hc. destruct Hc as [Ht Hc]. apply ttype_eqb_eq in Ht. rewrite Ht.
    apply conforms_wtype with (e := e). assumption.
  - apply (to_w_conforms e _ _ _ Hw).
Qed.

(* ------------------------------------------------------------------ Read ignores what it must skip *)

Definition skippable (e : env) (s : sschema) (wf : wfield) : bool :=
  match find_field (snd (fst wf)) (s_fields s) with
  | Some f => negb (ttype_eqb (fst (fst wf)) (ttype_of e (f_ty f)))
  | None => true end.

Lemma read_step_skippable e s st wf : skippable e s wf = true -> read_step e s st wf = Ok st.
Proof.
  unfold skippable, read_step. destruct (find_field (snd (fst wf)) (s_fields s)); [|reflexivity].
  intro H. apply negb_true_iff in H. rewrite H. reflexivity.
Qed.

Lemma foldM_ignores e s wfs : forall st,
  foldM (read_step e s) wfs st = foldM (read_step e s) (filter (fun wf => negb (skippable e s wf)) wfs) st.
Proof.
  induction wfs as [|wf wfs IH]; intro st; [reflexivity|]. cbn [filter].
  destruct (skippable e s wf) eqn:Hk; cbn [negb foldM].
  - rewrite read_step_skippable by assumption. apply IH.
  - destruct (read_step e s st wf); [apply IH | reflexivity].
Qed.

Theorem read_ignores_unknown e s init wfs :
  from_wire e s init (WStruct wfs) =
  from_wire e s init (WStruct (filter (fun wf => negb (skippable e s wf)) wfs)).
Proof.
  unfold from_wire. destruct init; try reflexivity. rewrite foldM_ignores. reflexivity.
Qed.

Corollary read_ignores_inserted e s init l1 u l2 :
  skippable e s u = true ->
  from_wire e s init (WStruct (l1 ++ u :: l2)) = from_wire e s init (WStruct (l1 ++ l2)).
Proof.
  intro H. rewrite read_ignores_unknown, (read_ignores_unknown e s init (l1 ++ l2)).
  rewrite !filter_app. cbn [filter]. rewrite H. reflexivity.
Qed.

(* ------------------------------------------------------------------ required fields *)

Lemma foldM_seen e s wfs : forall st st',
  foldM (read_step e s) wfs st = Ok st' ->
  forall id, In id (snd st') ->
    In id (snd st) \/ exists f x, find_field id (s_fields s) = Some f /\ In (ttype_of e (f_ty f), id, x) wfs.
Proof.
  induction wfs as [|wf wfs IH]; intros st st' H id Hin; cbn in H.
  - injection H as <-. left. assumption.
  - destruct (read_step e s st wf) as [st1|] eqn:E; [|discriminate].
    destruct (IH _ _ H id Hin) as [H1|(f & x & Hf & Hx)].
    + unfold read_step in E. destruct wf as [[t i] x]. cbn [fst snd] in E.
      destruct (find_field i (s_fields s)) as [f|] eqn:Hf; [|injection E as <-; left; assumption].
      destruct (ttype_eqb_spec t (ttype_of e (f_ty f))) as [->|Hne]; [|injection E as <-; left; assumption].
      destruct (from_w e (f_ty f) x) as [v|]; [|discriminate]. cbn [bind] in E. injection E as <-.
      cbn [snd] in H1. destruct (find_field_In _ _ _ Hf) as [_ Hid].
      destruct (is_required f); [|left; assumption].
      destruct H1 as [<-|H1]; [|left; assumption].
      right. exists f, x. rewrite Hid. split; [assumption | left; reflexivity].
    + right. exists f, x. split; [assumption | right; assumption].
Qed.

Theorem read_required_missing e s init wfs f :
  wf_struct s = true -> In f (s_fields s) -> is_required f = true ->
  (forall x, ~ In (ttype_of e (f_ty f), f_id f, x) wfs) ->
  exists er, from_wire e s init (WStruct wfs) = Err er /\
    (forall st, (exists fs0, init = VStruct fs0 /\ foldM (read_step e s) wfs (fs0, []) = Ok st) ->
                exists id, er = ERequiredMissing id).
Proof.
  intros Hwf Hin Hreq Hno. unfold from_wire.
  destruct init as [| | | | | |  |fs0| |]; try (eexists; split; [reflexivity | intros st (fs1 & Hd & _); discriminate]).
  destruct (foldM (read_step e s) wfs (fs0, [])) as [st|er] eqn:Hfold; cbn [bind].
  - unfold finish_read.
    assert (Hnot : ~ In (f_id f) (snd st)).
    { intro Hi. destruct (foldM_seen _ _ _ _ _ Hfold _ Hi) as [[]|(f' & x & Hf' & Hx)].
      assert (f' = f).
      { pose proof (wf_struct_nodup _ Hwf) as Hnd. clear - Hf' Hin Hnd.
        induction (s_fields s) as [|g l IH]; [contradiction|]. cbn in Hf', Hnd. inversion Hnd; subst.
        destruct (Z.eqb_spec (f_id f) (f_id g)) as [E|E].
        - injection Hf' as <-. destruct Hin as [->|Hin]; [reflexivity|].
          exfalso. apply H1. rewrite <- E. apply in_map. assumption.
        - destruct Hin as [->|Hin]; [congruence|]. apply IH; assumption. }
      subst f'. apply (Hno x). assumption. }
    assert (Hm : exists id, first_missing (s_fields s) (snd st) = Some id).
    { unfold first_missing.
      assert (In f (filter (fun f0 => is_required f0 && negb (existsb (Z.eqb (f_id f0)) (snd st))) (s_fields s))).
      { apply filter_In. split; [assumption|]. rewrite Hreq. cbn [andb]. apply negb_true_iff.
        destruct (existsb (Z.eqb (f_id f)) (snd st)) eqn:E; [|reflexivity].
        apply existsb_exists in E. destruct E as (y & Hy & Hxy). apply Z.eqb_eq in Hxy. subst y. contradiction. }
      destruct (filter _ (s_fields s)) as [|g l]; [contradiction|]. eexists. reflexivity. }
    destruct Hm as (id & ->). eexists. split; [reflexivity|]. intros _ _. eexists. reflexivity.
  - eexists. split; [reflexivity|]. intros st (fs1 & [= <-] & H). congruence.
Qed.

(* ------------------------------------------------------------------ unions *)

Theorem union_write_refused e s fs :
  find_struct e (s_name s) = Some s -> is_union s = true ->
  count_set (s_fields s) fs <> 1%nat ->
  to_wire e s (VStruct fs) = Err (EUnionCount (count_set (s_fields s) fs)).
Proof.
  intros Hs Hu Hc. unfold to_wire. rewrite to_w_struct, Hs. cbn zeta. rewrite Hu.
  destruct (Nat.eqb_spec (count_set (s_fields s) fs) 1); [contradiction|]. reflexivity.
Qed.

Theorem union_write_exactly_one e s fs w :
  find_struct e (s_name s) = Some s -> is_union s = true ->
  to_wire e s (VStruct fs) = Ok w -> count_set (s_fields s) fs = 1%nat.
Proof.
  intros Hs Hu Hw. destruct (Nat.eq_dec (count_set (s_fields s) fs) 1) as [E|E]; [assumption|].
  rewrite (union_write_refused e s fs Hs Hu E) in Hw. discriminate.
Qed.

