(* Idl/TrimFacts.v — proofs about the trimmer model (Idl/Trim.v) against its specification
   (Idl/TrimSpec.v).  Statements of the headline theorems are repeated in Props/C16.v.

   Structure
     1. [needed_nodes_spec]: the saturation that computes the needed set is exactly the
        inductive relation [needed].
     2. The state order [le] (marks, cleared `extends`, cache only grow) through every
        marking function.
     3. Minimality ([final_marks_good]): every mark the model ends with is needed (or is
        an include leading to always-kept definitions; with a method filter includes are
        exempt: known finding).
     4. Soundness ([needed_marked]): the marks are closed under the edges of the
        specification (depth-first-search argument: the nodes NEWLY marked by a call are
        closed when it returns), the always-kept roots are marked for every file
        preProcess visits, so every needed node is marked.
     5. Connectivity ([marks_connected], [kept_files_connected]): the file of every marked
        definition, and every file with constants / typedefs / enums, is reached from the
        main file over marked includes, hence survives traversal ([path_in_output]).
     6. The theorems; the method filter ([method_filter_only_matching], [method_filter_complete]);
        what does not hold with a method filter (witness Idl/TrimWitness.v); no reference of
        the output dangles ([references_survive], [base_service_survives]). *)
From Coq Require Import List Bool Arith NArith ZArith Lia.
From Coq.Strings Require Import Byte.
From Verif Require Import Base.Bytes Idl.Ast Idl.AstUtil Idl.AstFacts Idl.Trim Idl.TrimSpec Idl.TrimWitness.
Import ListNotations.



(* ==================================================================== the computed closure is the inductive relation *)

Lemma node_eqb_eq a b : node_eqb a b = true <-> a = b.
Proof.
  destruct a, b; cbn; try (split; [discriminate | congruence]);
    rewrite ?andb_true_iff, ?Nat.eqb_eq, ?beqb_true, ?sl_kind_eqb_eq;
    (split; [intuition congruence | intros [= -> ->] || intros [= -> -> ->]; auto]).
Qed.

Lemma node_eqb_refl a : node_eqb a a = true.
Proof. apply node_eqb_eq; reflexivity. Qed.

Lemma node_mem_In n l : node_mem n l = true <-> In n l.
Proof.
  unfold node_mem. rewrite existsb_exists. split.
  - intros [x [Hin He]]. apply node_eqb_eq in He. subst. exact Hin.
  - intros Hin. exists n. split; [exact Hin | apply node_eqb_refl].
Qed.

Lemma add_new_In l : forall acc x, In x (add_new l acc) <-> In x l \/ In x acc.
Proof.
  induction l as [|y l IH]; intros acc x; cbn.
  - tauto.
  - destruct (node_mem y acc) eqn:E.
    + rewrite IH. apply node_mem_In in E. split; [tauto|]. intros [[->|H]|H]; auto.
    + rewrite IH, in_app_iff. cbn. tauto.
Qed.

Lemma add_new_length l : forall acc, List.length acc <= List.length (add_new l acc).
Proof.
  induction l as [|y l IH]; intros acc; cbn; [lia|].
  destruct (node_mem y acc); [apply IH|].
  specialize (IH (acc ++ [y])). rewrite app_length in IH. cbn in IH. lia.
Qed.

Lemma add_new_same_length l : forall acc,
  List.length (add_new l acc) = List.length acc -> add_new l acc = acc /\ forall x, In x l -> In x acc.
Proof.
  induction l as [|y l IH]; intros acc H; cbn in *.
  - split; [reflexivity | tauto].
  - destruct (node_mem y acc) eqn:E.
    + destruct (IH _ H) as [H1 H2]. split; [exact H1|].
      intros x [->|Hx]; [apply node_mem_In; exact E | auto].
    + pose proof (add_new_length l (acc ++ [y])) as L. rewrite app_length in L. cbn in L. lia.
Qed.

Section Closure.
  Variable succ : node -> list node.

  Inductive reach_from (s : list node) : node -> Prop :=
  | rf_base n : In n s -> reach_from s n
  | rf_step n m : reach_from s n -> In m (succ n) -> reach_from s m.

  Lemma reach_from_mono s s' n : (forall x, In x s -> reach_from s' x) -> reach_from s n -> reach_from s' n.
  Proof. intros H R. induction R; [auto | eapply rf_step; eauto]. Qed.

  Lemma saturate_spec fuel : forall s s',
    saturate fuel succ s = Some s' ->
    (forall n, In n s -> In n s') /\
    (forall n m, In n s' -> In m (succ n) -> In m s') /\
    (forall n, In n s' -> reach_from s n).
  Proof.
    induction fuel as [|fuel IH]; intros s s' H; cbn in H.
    - destruct (Nat.eqb _ _) eqn:E; [|discriminate]. injection H as <-.
      apply Nat.eqb_eq in E. apply add_new_same_length in E. destruct E as [_ E].
      split; [auto|]. split.
      + intros n m Hn Hm. apply E. apply in_flat_map. eauto.
      + intros n Hn. apply rf_base. exact Hn.
    - destruct (Nat.eqb _ _) eqn:E.
      + injection H as <-.
        apply Nat.eqb_eq in E. apply add_new_same_length in E. destruct E as [_ E].
        split; [auto|]. split.
        * intros n m Hn Hm. apply E. apply in_flat_map. eauto.
        * intros n Hn. apply rf_base. exact Hn.
      + apply IH in H. destruct H as [H1 [H2 H3]]. split; [|split].
        * intros n Hn. apply H1. apply add_new_In. auto.
        * exact H2.
        * intros n Hn. apply H3 in Hn. eapply reach_from_mono; [|exact Hn].
          intros x Hx. apply add_new_In in Hx. destruct Hx as [Hx|Hx]; [|apply rf_base; exact Hx].
          apply in_flat_map in Hx. destruct Hx as [y [Hy Hx]].
          eapply rf_step; [apply rf_base; exact Hy | exact Hx].
  Qed.
End Closure.

Theorem needed_nodes_spec cp c p K l :
  needed_nodes cp c p K = Some l -> forall n, In n l <-> needed cp c p K n.
Proof.
  unfold needed_nodes. intros H. apply saturate_spec in H. destruct H as [H1 [H2 H3]].
  intros n. split.
  - intros Hn. apply H3 in Hn. induction Hn as [n Hn | n m _ IH Hm].
    + apply needed_root. apply add_new_In in Hn. destruct Hn as [Hn|[]]. exact Hn.
    + eapply needed_step; eauto.
  - intros Hn. induction Hn as [n Hn | n m _ IH Hm].
    + apply H1. apply add_new_In. auto.
    + eapply H2; eauto.
Qed.


(* ==================================================================== results, marks, the state order; relations preserved by marking types *)

(* ---------------------------------------------------------------- res / fold_res *)

Lemma bind_ok {A B} (r : res A) (k : A -> res B) b :
  bind r k = Ok b -> exists a, r = Ok a /\ k a = Ok b.
Proof. destruct r; cbn; intros H; try discriminate. eauto. Qed.

Lemma fold_res_app {A S} (f : A -> S -> res S) l1 l2 s :
  fold_res f (l1 ++ l2) s = bind (fold_res f l1 s) (fold_res f l2).
Proof.
  revert s. induction l1 as [|x l1 IH]; intros s; cbn; [reflexivity|].
  destruct (f x s); cbn; auto.
Qed.

(* a relation preserved by every step is preserved by the loop *)
Lemma fold_res_rel {A S} (f : A -> S -> res S) (R : S -> S -> Prop) l :
  (forall s, R s s) -> (forall a b c, R a b -> R b c -> R a c) ->
  (forall x s s', In x l -> f x s = Ok s' -> R s s') ->
  forall s s', fold_res f l s = Ok s' -> R s s'.
Proof.
  intros Hr Ht. induction l as [|x l IH]; intros Hs s s' H; cbn in H.
  - injection H as <-. apply Hr.
  - apply bind_ok in H. destruct H as [s1 [H1 H2]].
    eapply Ht; [eapply Hs; [left; reflexivity | exact H1]|].
    apply IH; [|exact H2]. intros. eapply Hs; [right|]; eauto.
Qed.

(* ---------------------------------------------------------------- marks *)

Lemma marked_In st n : marked st n = true <-> In n (ms_marks st).
Proof. unfold marked. apply node_mem_In. Qed.

Lemma mark_marks n st : forall m, In m (ms_marks (mark n st)) <-> m = n \/ In m (ms_marks st).
Proof.
  intros m. unfold mark. destruct (marked st n) eqn:E; cbn.
  - apply marked_In in E. split; [auto | intros [->|H]; auto].
  - split; [intros [<-|H]; auto | intros [->|H]; auto].
Qed.
Lemma mark_ext n st : ms_ext (mark n st) = ms_ext st.
Proof. unfold mark. destruct (marked st n); reflexivity. Qed.
Lemma mark_cache n st : ms_cache (mark n st) = ms_cache st.
Proof. unfold mark. destruct (marked st n); reflexivity. Qed.

Lemma marked_mark n st m : marked (mark n st) m = true <-> m = n \/ marked st m = true.
Proof. rewrite !marked_In. apply mark_marks. Qed.

(* the state order: marks, cleared-extends list and cache only grow *)
Definition le (a b : mstate) : Prop :=
  (forall n, In n (ms_marks a) -> In n (ms_marks b)) /\
  (forall x, In x (ms_ext a) -> In x (ms_ext b)) /\
  (forall k v, lookup k (ms_cache a) = Some v -> lookup k (ms_cache b) = Some v).

Lemma le_refl a : le a a.
Proof. repeat split; auto. Qed.
Lemma le_trans a b c : le a b -> le b c -> le a c.
Proof. intros [A1 [A2 A3]] [B1 [B2 B3]]. repeat split; auto. Qed.
Lemma le_mark n st : le st (mark n st).
Proof.
  repeat split.
  - intros m H. apply mark_marks. auto.
  - rewrite mark_ext. auto.
  - rewrite mark_cache. auto.
Qed.
Lemma le_add_ext f i st : le st (add_ext f i st).
Proof. repeat split; cbn; auto. Qed.
Lemma le_add_cache f v st : lookup f (ms_cache st) = None -> le st (add_cache f v st).
Proof.
  intros Hn. repeat split; cbn; auto.
  intros k w H. destruct (beqb k f) eqn:E; [|exact H].
  apply beqb_true in E. subst. congruence.
Qed.
Lemma le_marked a b n : le a b -> marked a n = true -> marked b n = true.
Proof. intros [H _]. rewrite !marked_In. auto. Qed.

#[export] Hint Resolve le_refl le_mark le_add_ext : trim.

(* ---------------------------------------------------------------- relations preserved by marking *)

Definition svc_fn (n : node) : bool :=
  match n with NService _ _ | NFunction _ _ _ => true | _ => false end.

Section Mono.
  Variable p : program.
  (* any preorder that [mark] respects *)
  Variable R : mstate -> mstate -> Prop.
  Hypothesis R_refl : forall a, R a a.
  Hypothesis R_trans : forall a b c, R a b -> R b c -> R a c.
  (* markType marks includes, typedefs, struct-likes and enums; markFunction a function *)
  Hypothesis R_mark : forall n st, svc_fn n = false -> R st (mark n st).
  Hypothesis R_mark_fn : forall F s j st, R st (mark (NFunction F s j) st).

  Definition mono1 (rec : bytes -> ty -> mstate -> res mstate) : Prop :=
    forall fname t st st', rec fname t st = Ok st' -> R st st'.

  Lemma mark_types_with_R rec fname ts : mono1 rec ->
    forall st st', mark_types_with rec fname ts st = Ok st' -> R st st'.
  Proof.
    intros Hrec. unfold mark_types_with.
    apply fold_res_rel; [apply R_refl | apply R_trans|].
    intros t s s' _. apply fold_res_rel; [apply R_refl | apply R_trans|].
    intros t' a b _. apply Hrec.
  Qed.

  Lemma mark_sl_with_R rec fname k i s : mono1 rec ->
    forall st st', mark_sl_with rec fname k i s st = Ok st' -> R st st'.
  Proof.
    intros Hrec st st'. unfold mark_sl_with.
    destruct (marked st _); [intros [= <-]; apply R_refl|].
    intros H. apply mark_types_with_R in H; [|exact Hrec].
    eapply R_trans; [|exact H]. apply R_mark; reflexivity.
  Qed.

  Lemma mark_typedef_with_R rec bname bf t : mono1 rec ->
    forall st st', mark_typedef_with rec bname bf t st = Ok st' -> R st st'.
  Proof.
    intros Hrec st st'. unfold mark_typedef_with.
    destruct (find_index _ _) as [[i d]|]; [|intros [= <-]; apply R_refl].
    destruct (marked st _); [intros [= <-]; apply R_refl|].
    intros H. apply mark_types_with_R in H; [|exact Hrec].
    eapply R_trans; [|exact H]. apply R_mark; reflexivity.
  Qed.

  Lemma mark_named_body_R rec : mono1 rec -> mono1 (mark_named_body p rec).
  Proof.
    intros Hrec fname t st st'. unfold mark_named_body.
    destruct (prog_file p fname) as [f|]; [|discriminate].
    intros H. apply bind_ok in H. destruct H as [[bname st1] [Hb H]].
    assert (R st st1) as L1.
    { destruct (ty_ref t) as [r|].
      - destruct (include_file p f (ref_index r)) as [[i tn]|]; [|discriminate].
        injection Hb as <- <-. apply R_mark; reflexivity.
      - injection Hb as <- <-. apply R_refl. }
    eapply R_trans; [exact L1|].
    destruct (prog_file p bname) as [bf|]; [|discriminate].
    destruct (ty_is_typedef t).
    - eapply mark_typedef_with_R; eauto.
    - destruct (category_sl_kind (ty_category t)) as [k|].
      + destruct (find_index _ _) as [[i s]|]; [|injection H as <-; apply R_refl].
        eapply mark_sl_with_R; eauto.
      + destruct (ty_category t); try (injection H as <-; apply R_refl).
        destruct (find_index _ _) as [[i e]|]; injection H as <-; [apply R_mark; reflexivity | apply R_refl].
  Qed.

  Lemma mark_named_R fuel : mono1 (mark_named p fuel).
  Proof.
    induction fuel as [|n IH]; cbn.
    - intros fname t st st' H. discriminate.
    - apply mark_named_body_R. exact IH.
  Qed.

  Lemma mark_types_R fuel fname ts st st' : mark_types p fuel fname ts st = Ok st' -> R st st'.
  Proof. apply mark_types_with_R. apply mark_named_R. Qed.
  Lemma mark_sl_R fuel fname k i s st st' : mark_sl p fuel fname k i s st = Ok st' -> R st st'.
  Proof. apply mark_sl_with_R. apply mark_named_R. Qed.

  Lemma mark_function_R fuel fname si fi fn st st' :
    mark_function p fuel fname si fi fn st = Ok st' -> R st st'.
  Proof.
    unfold mark_function. intros H.
    apply bind_ok in H. destruct H as [st1 [H1 H]].
    apply bind_ok in H. destruct H as [st2 [H2 H]].
    apply mark_types_R in H1. apply mark_types_R in H2.
    eapply R_trans; [apply R_mark_fn|]. eapply R_trans; [exact H1|]. eapply R_trans; [exact H2|].
    destruct (fn_void fn); [injection H as <-; apply R_refl | eapply mark_types_R; eauto].
  Qed.
End Mono.

Definition same_cache (a b : mstate) : Prop := ms_cache b = ms_cache a.
Definition same_ext (a b : mstate) : Prop := ms_ext b = ms_ext a.

Lemma same_cache_refl a : same_cache a a. Proof. reflexivity. Qed.
Lemma same_cache_trans a b c : same_cache a b -> same_cache b c -> same_cache a c.
Proof. unfold same_cache. congruence. Qed.
Lemma same_cache_mark n st : same_cache st (mark n st). Proof. apply mark_cache. Qed.
Lemma same_ext_refl a : same_ext a a. Proof. reflexivity. Qed.
Lemma same_ext_trans a b c : same_ext a b -> same_ext b c -> same_ext a c.
Proof. unfold same_ext. congruence. Qed.
Lemma same_ext_mark n st : same_ext st (mark n st). Proof. apply mark_ext. Qed.

Definition mark_types_le p := mark_types_R p le le_refl le_trans (fun n st _ => le_mark n st).
Definition mark_sl_le p := mark_sl_R p le le_refl le_trans (fun n st _ => le_mark n st).
Definition mark_function_le p :=
  mark_function_R p le le_refl le_trans (fun n st _ => le_mark n st) (fun F s j st => le_mark _ st).
Definition mark_named_le p := mark_named_R p le le_refl le_trans (fun n st _ => le_mark n st).
Definition mark_types_cache p :=
  mark_types_R p same_cache same_cache_refl same_cache_trans (fun n st _ => same_cache_mark n st).
Definition mark_sl_cache p :=
  mark_sl_R p same_cache same_cache_refl same_cache_trans (fun n st _ => same_cache_mark n st).
Definition mark_function_cache p :=
  mark_function_R p same_cache same_cache_refl same_cache_trans (fun n st _ => same_cache_mark n st)
                  (fun F s j st => same_cache_mark _ st).

(* marking types and functions marks no service *)
Definition same_services (a b : mstate) : Prop :=
  forall G gi, marked b (NService G gi) = true -> marked a (NService G gi) = true.
Lemma same_services_refl a : same_services a a. Proof. intros G gi H. exact H. Qed.
Lemma same_services_trans a b d : same_services a b -> same_services b d -> same_services a d.
Proof. intros H1 H2 G gi H. auto. Qed.
Lemma same_services_mark n st : (forall G gi, n <> NService G gi) -> same_services st (mark n st).
Proof.
  intros Hn G gi H. apply marked_mark in H. destruct H as [H|H]; [|exact H].
  exfalso. eapply Hn. symmetry. exact H.
Qed.
Lemma same_services_mark_ty n st : svc_fn n = false -> same_services st (mark n st).
Proof. intros H. apply same_services_mark. intros G gi ->. discriminate. Qed.
Lemma same_services_mark_fn F s j st : same_services st (mark (NFunction F s j) st).
Proof. apply same_services_mark. discriminate. Qed.
Definition mark_function_services p :=
  mark_function_R p same_services same_services_refl same_services_trans
    same_services_mark_ty same_services_mark_fn.


(* ==================================================================== the state order through traceExtendMethod, markService, markKeptPart *)

Section Mono2.
  Variable matches : bytes -> bytes -> bool.
  Variable cp : bytes -> bool.
  Variable c : cfg.
  Variable p : program.

  Definition le2 (a b : mstate * bool) : Prop := le (fst a) (fst b).
  Lemma le2_refl a : le2 a a. Proof. apply le_refl. Qed.
  Lemma le2_trans a b d : le2 a b -> le2 b d -> le2 a d. Proof. apply le_trans. Qed.

  Lemma mark_service_include_le fname f s st st' :
    mark_service_include p fname f s st = Ok st' -> le st st'.
  Proof.
    unfold mark_service_include. destruct (sv_ref s) as [r|]; [|intros [= <-]; apply le_refl].
    destruct (include_file p f (ref_index r)) as [[i tn]|]; [|discriminate].
    intros [= <-]. apply le_mark.
  Qed.

  Definition mono_trace (rec : list bytes -> bytes -> nat -> mstate -> res (mstate * bool)) : Prop :=
    forall fa fname si st r, rec fa fname si st = Ok r -> le st (fst r).

  Lemma trace_body_le rec fuel : mono_trace rec -> mono_trace (trace_body matches c p rec fuel).
  Proof.
    intros Hrec fa fname si st r. unfold trace_body.
    destruct (prog_file p fname) as [f|]; [|discriminate].
    destruct (nth_error (f_services f) si) as [s|]; [|discriminate].
    intros H. apply bind_ok in H. destruct H as [[st1 ret1] [H1 H]].
    assert (le st st1) as L1.
    { change (le2 (st, false) (st1, ret1)).
      revert H1. apply fold_res_rel; [apply le2_refl | apply le2_trans|].
      intros jf a b _. apply fold_res_rel; [apply le2_refl | apply le2_trans|].
      intros father a' b' _. apply fold_res_rel; [apply le2_refl | apply le2_trans|].
      intros pat a2 b2 _. destruct (matches _ _); [|intros [= <-]; apply le2_refl].
      intros H2. apply bind_ok in H2. destruct H2 as [st'' [H2 H3]]. injection H3 as <-.
      apply mark_function_le in H2. unfold le2. cbn. eapply le_trans; [apply le_mark | exact H2]. }
    apply bind_ok in H. destruct H as [[st3 ret] [H3 H]].
    assert (le st1 st3) as L3.
    { destruct (is_nil (sv_extends s)); [injection H3 as <- <-; apply le_refl|].
      apply bind_ok in H3. destruct H3 as [nb [Hb H3]].
      destruct nb as [[[bn bi] b]|]; [|discriminate].
      apply bind_ok in H3. destruct H3 as [[st2 back] [H2 H3]].
      apply Hrec in H2. cbn in H2. injection H3 as <- <-.
      destruct back; [exact H2 | eapply le_trans; [exact H2 | apply le_add_ext]]. }
    eapply le_trans; [exact L1|]. eapply le_trans; [exact L3|].
    destruct ret.
    - apply bind_ok in H. destruct H as [st4 [H4 H]]. injection H as <-. cbn.
      apply mark_service_include_le in H4. eapply le_trans; [apply le_mark | exact H4].
    - injection H as <-. apply le_refl.
  Qed.

  Lemma trace_le fuel : mono_trace (trace matches c p fuel).
  Proof.
    induction fuel as [|n IH]; cbn.
    - intros fa fname si st r H. discriminate.
    - apply trace_body_le. exact IH.
  Qed.

  Definition mono_svc (rec : bytes -> nat -> mstate -> res mstate) : Prop :=
    forall fname si st st', rec fname si st = Ok st' -> le st st'.

  Lemma mark_service_body_le rec fuel : mono_svc rec -> mono_svc (mark_service_body matches c p rec fuel).
  Proof.
    intros Hrec fname si st st'. unfold mark_service_body.
    destruct (prog_file p fname) as [f|]; [|discriminate].
    destruct (nth_error (f_services f) si) as [s|]; [|discriminate].
    destruct (marked st (NService fname si)); [intros [= <-]; apply le_refl|].
    intros H. apply bind_ok in H. destruct H as [st1 [H1 H]].
    assert (le st st1) as L1.
    { eapply le_trans with (b := if filtering c then st else mark (NService fname si) st).
      { destruct (filtering c); [apply le_refl | apply le_mark]. }
      revert H1. apply fold_res_rel; [apply le_refl | apply le_trans|].
      intros jf a b _. destruct (filtering c).
      - apply fold_res_rel; [apply le_refl | apply le_trans|].
        intros pat a' b' _. destruct (selects _ _ _); [|intros [= <-]; apply le_refl].
        intros H2. apply mark_function_le in H2. eapply le_trans; [apply le_mark | exact H2].
      - apply mark_function_le. }
    apply bind_ok in H. destruct H as [st2 [H2 H]].
    assert (le st1 st2) as L2.
    { destruct (filtering c && _).
      - apply bind_ok in H2. destruct H2 as [r [H2 H3]]. injection H3 as <-.
        eapply trace_le; eauto.
      - injection H2 as <-. apply le_refl. }
    eapply le_trans; [exact L1|]. eapply le_trans; [exact L2|].
    destruct (negb (is_nil (sv_extends s)) && marked st2 (NService fname si)); [|injection H as <-; apply le_refl].
    destruct (sv_ref s) as [r|].
    - apply bind_ok in H. destruct H as [st3 [H3 H]].
      apply mark_service_include_le in H3. eapply le_trans; [exact H3|].
      apply bind_ok in H. destruct H as [nb [Hb H]].
      destruct nb as [[[bn bi] b]|]; [eapply Hrec; eauto | injection H as <-; apply le_refl].
    - apply bind_ok in H. destruct H as [nb [Hb H]].
      destruct nb as [[[bn bi] b]|]; [eapply Hrec; eauto | injection H as <-; apply le_refl].
  Qed.

  Lemma mark_service_le fuel : mono_svc (mark_service matches c p fuel).
  Proof.
    induction fuel as [|n IH]; cbn.
    - intros fname si st st' H. discriminate.
    - apply mark_service_body_le. exact IH.
  Qed.

  Lemma kept_part_le fuel fname st r : kept_part cp c p fuel fname st = Ok r -> le st (fst r).
  Proof.
    unfold kept_part. destruct (lookup fname (ms_cache st)) as [v|] eqn:Ec; [intros [= <-]; apply le_refl|].
    destruct (prog_file p fname) as [f|]; [|discriminate].
    intros H. apply bind_ok in H. destruct H as [st1 [H1 H]].
    apply bind_ok in H. destruct H as [st2 [H2 H]].
    apply bind_ok in H. destruct H as [[st3 ret] [H3 H]]. injection H as <-. cbn.
    pose proof H1 as C1. pose proof H2 as C2.
    apply mark_types_le in H1. apply mark_types_le in H2.
    assert (le st2 st3) as L3.
    { assert (forall k l a b, fold_res
         (fun (is : nat * struct_like) (acc : mstate * bool) =>
            if negb (marked (fst acc) (NStructLike fname k (fst is))) && check_preserve cp c fname k (snd is)
            then bind (mark_sl p fuel fname k (fst is) (snd is) (fst acc)) (fun st' => Ok (st', true))
            else Ok acc) l a = Ok b -> le2 a b) as Hl.
      { intros k l. apply fold_res_rel; [apply le2_refl | apply le2_trans|].
        intros is a b _. destruct (_ && _); [|intros [= <-]; apply le2_refl].
        intros H4. apply bind_ok in H4. destruct H4 as [st' [H4 H5]]. injection H5 as <-.
        apply mark_sl_le in H4. exact H4. }
      destruct (c_force c); [injection H3 as <- <-; apply le_refl|].
      apply bind_ok in H3. destruct H3 as [a1 [Ha1 H3]].
      apply bind_ok in H3. destruct H3 as [a2 [Ha2 H3]].
      apply Hl in Ha1. apply Hl in Ha2. apply Hl in H3.
      change (le2 (st2, has_enum_const_typedef f) (st3, ret)).
      eapply le2_trans; [exact Ha1|]. eapply le2_trans; [exact Ha2 | exact H3]. }
    eapply le_trans; [exact H1|]. eapply le_trans; [exact H2|]. eapply le_trans; [exact L3|].
    apply le_add_cache.
    (* the cache entry of fname is still absent: marking does not touch the cache *)
    assert (ms_cache st3 = ms_cache st) as ->; [|exact Ec].
    apply mark_types_cache in C1. apply mark_types_cache in C2. unfold same_cache in *.
    rewrite <- C1, <- C2. clear - H3.
    assert (forall k l a b, fold_res
         (fun (is : nat * struct_like) (acc : mstate * bool) =>
            if negb (marked (fst acc) (NStructLike fname k (fst is))) && check_preserve cp c fname k (snd is)
            then bind (mark_sl p fuel fname k (fst is) (snd is) (fst acc)) (fun st' => Ok (st', true))
            else Ok acc) l a = Ok b -> same_cache (fst a) (fst b)) as Hl.
    { intros k l. apply fold_res_rel with (R := fun a b => same_cache (fst a) (fst b));
        [intros; apply same_cache_refl | intros ? ? ?; apply same_cache_trans|].
      intros is a b _. destruct (_ && _); [|intros [= <-]; apply same_cache_refl].
      intros H4. apply bind_ok in H4. destruct H4 as [st' [H4 H5]]. injection H5 as <-.
      apply mark_sl_cache in H4. exact H4. }
    destruct (c_force c); [injection H3 as <- <-; reflexivity|].
    apply bind_ok in H3. destruct H3 as [a1 [Ha1 H3]].
    apply bind_ok in H3. destruct H3 as [a2 [Ha2 H3]].
    apply Hl in Ha1. apply Hl in Ha2. apply Hl in H3. unfold same_cache in *. cbn in *. congruence.
  Qed.
End Mono2.


(* ==================================================================== ... and preProcess *)

Section Mono3.
  Variable matches : bytes -> bytes -> bool.
  Variable cp : bytes -> bool.
  Variable c : cfg.
  Variable p : program.

  Lemma pre_process_le fuel : forall fname st r, pre_process cp c p fuel fname st = Ok r -> le st (fst r).
  Proof.
    induction fuel as [|n IH]; intros fname st r H; cbn in H; [discriminate|].
    apply bind_ok in H. destruct H as [[st1 ret] [H1 H]].
    apply kept_part_le in H1. cbn in H1.
    destruct (prog_file p fname) as [f|]; [|discriminate].
    eapply le_trans; [exact H1|].
    change (le2 (st1, ret) r). revert H.
    apply fold_res_rel; [apply le2_refl | apply le2_trans|].
    intros ii a b _. destruct (include_file p f _) as [[i tn]|]; [|discriminate].
    intros H. apply bind_ok in H. destruct H as [[st' m] [H2 H]].
    apply IH in H2. cbn in H2. injection H as <-.
    destruct m; unfold le2; cbn; [eapply le_trans; [exact H2 | apply le_mark] | exact H2].
  Qed.

  Lemma mark_ast_le_ms0 fuel st : mark_ast matches cp c p fuel = Ok st -> le ms0 st.
  Proof.
    intros _. repeat split; cbn; intros; try tauto; discriminate.
  Qed.
End Mono3.


(* ==================================================================== minimality: everything markType marks is needed *)

(* ---------------------------------------------------------------- list helpers *)

Lemma find_index_from_some {A} (f : A -> bool) l : forall k i x,
  find_index_from f l k = Some (i, x) -> k <= i /\ nth_error l (i - k) = Some x /\ f x = true.
Proof.
  induction l as [|y l IH]; intros k i x H; cbn in H; [discriminate|].
  destruct (f y) eqn:E.
  - injection H as <- <-. rewrite Nat.sub_diag. auto.
  - apply IH in H. destruct H as [H1 [H2 H3]]. split; [lia|]. split; [|exact H3].
    replace (i - k) with (S (i - S k)) by lia. exact H2.
Qed.
Lemma find_index_some {A} (f : A -> bool) l i x :
  find_index f l = Some (i, x) -> nth_error l i = Some x /\ f x = true.
Proof.
  intros H. apply find_index_from_some in H. rewrite Nat.sub_0_r in H. tauto.
Qed.

Lemma indexed_In {A} (l : list A) i x : In (i, x) (indexed l) <-> nth_error l i = Some x.
Proof.
  unfold indexed.
  assert (forall k, In (i, x) (combine (seq k (List.length l)) l) <-> k <= i /\ nth_error l (i - k) = Some x) as H.
  { induction l as [|y l IH]; intros k; cbn.
    - split; [tauto|]. intros [_ H]. destruct (i - k); discriminate.
    - rewrite IH. split.
      + intros [[= <- <-]|[H1 H2]].
        * rewrite Nat.sub_diag. auto.
        * split; [lia|]. replace (i - k) with (S (i - S k)) by lia. exact H2.
      + intros [H1 H2]. destruct (Nat.eq_dec k i) as [->|Hne].
        * rewrite Nat.sub_diag in H2. cbn in H2. injection H2 as ->. auto.
        * right. split; [lia|]. replace (i - k) with (S (i - S k)) in H2 by lia. exact H2. }
  rewrite H, Nat.sub_0_r. split; [tauto | intros; split; [lia | assumption]].
Qed.

Lemma ty_refs_sub : forall t t', In t' (ty_refs t) -> In t' (ty_subtypes t).
Proof.
  induction t using ty_ind'. intros t' H1.
  cbn [ty_refs] in H1. destruct (ty_is_plain _); [destruct H1|].
  cbn [ty_subtypes]. apply in_app_iff in H1. destruct H1 as [H1|H1].
  - right. apply in_or_app. left. destruct k as [x|]; [|destruct H1]. eapply H; eauto.
  - apply in_app_iff in H1. destruct H1 as [H1|[<-|[]]].
    + right. apply in_or_app. right. destruct v as [x|]; [|destruct H1]. eapply H0; eauto.
    + left. reflexivity.
Qed.

Section Minimal.
  Variable matches : bytes -> bytes -> bool.
  Variable cp : bytes -> bool.
  Variable c : cfg.
  Variable p : program.
  Variable K : list node.

  Notation Nd := (needed cp c p K).

  (* what may be marked: needed nodes; and includes that lead to always-kept definitions
     or (with a method filter, see the known finding) any include *)
  Definition good (n : node) : Prop :=
    Nd n \/ exists f i, n = NInclude f i /\ (no_filter c = false \/ include_leads_to_kept_part cp c p f i).
  Definition all_good (st : mstate) : Prop := forall n, In n (ms_marks st) -> good n.

  Lemma all_good_mark n st : good n -> all_good st -> all_good (mark n st).
  Proof. intros Hn Hs m Hm. apply mark_marks in Hm. destruct Hm as [->|Hm]; auto. Qed.

  Lemma good_sl_needed f k i : good (NStructLike f k i) -> Nd (NStructLike f k i).
  Proof. intros [H|[g [j [H _]]]]; [exact H | discriminate]. Qed.

  Lemma prog_file_In fname f : prog_file p fname = Some f -> In (fname, f) p.
  Proof. apply lookup_In. Qed.

  Lemma typedef_root bname bf i d :
    prog_file p bname = Some bf -> nth_error (f_typedefs bf) i = Some d -> Nd (NTypedef bname i).
  Proof.
    intros Hf Hn. apply needed_root. unfold roots. apply in_or_app. right. apply in_or_app. right.
    apply in_flat_map. exists (bname, bf). split; [apply prog_file_In; exact Hf|].
    unfold file_roots. cbn [fst snd]. apply in_or_app. left.
    apply in_map_iff. exists i. split; [reflexivity|]. apply in_seq.
    split; [lia|]. cbn. apply nth_error_Some. congruence.
  Qed.

  (* what the recursive call is trusted with *)
  Definition min1 (rec : bytes -> ty -> mstate -> res mstate) : Prop :=
    forall fname t st st', rec fname t st = Ok st' ->
      (forall m, In m (ty_denotes p fname t) -> good m) -> all_good st -> all_good st'.

  Lemma mark_types_with_min rec fname ts : min1 rec ->
    forall st st', mark_types_with rec fname ts st = Ok st' ->
      (forall m, In m (tys_nodes p fname ts) -> good m) -> all_good st -> all_good st'.
  Proof.
    intros Hrec st st' H Hts. revert st st' H.
    unfold mark_types_with.
    induction ts as [|t ts IH]; intros st st' H Hst; cbn in H.
    - injection H as <-. exact Hst.
    - apply bind_ok in H. destruct H as [s1 [H1 H2]].
      assert (all_good s1) as G1.
      { assert (forall l, (forall t', In t' l -> In t' (ty_refs t)) ->
                  forall a b, fold_res (rec fname) l a = Ok b -> all_good a -> all_good b) as Hl.
        { induction l as [|t' l IHl]; intros Hsub a b Hf Ha; cbn in Hf.
          - injection Hf as <-. exact Ha.
          - apply bind_ok in Hf. destruct Hf as [a1 [Hf1 Hf2]].
            eapply IHl; [intros; apply Hsub; right; assumption | exact Hf2|].
            eapply Hrec; [exact Hf1| |exact Ha].
            intros m Hm. apply Hts. unfold tys_nodes. cbn [flat_map]. apply in_or_app. left.
            unfold ty_nodes. apply in_flat_map. exists t'. split; [|exact Hm].
            apply ty_refs_sub. apply Hsub. left. reflexivity. }
        eapply Hl; [intros t' Ht'; exact Ht' | exact H1 | exact Hst]. }
      eapply IH; [|exact H2 | exact G1].
      intros m Hm. apply Hts. unfold tys_nodes. cbn [flat_map]. apply in_or_app. right. exact Hm.
  Qed.

  Lemma mark_sl_with_min rec fname f k i s : min1 rec ->
    prog_file p fname = Some f -> nth_error (sl_list k f) i = Some s ->
    forall st st', mark_sl_with rec fname k i s st = Ok st' ->
      good (NStructLike fname k i) -> all_good st -> all_good st'.
  Proof.
    intros Hrec Hf Hn st st'. unfold mark_sl_with.
    destruct (marked st _); [intros [= <-]; auto|].
    intros H Hg Hst. eapply mark_types_with_min; [exact Hrec | exact H | | apply all_good_mark; assumption].
    intros m Hm. left. eapply needed_step; [apply good_sl_needed; exact Hg|].
    cbn [succs]. unfold succ_struct_like. rewrite Hf, Hn. exact Hm.
  Qed.

  Lemma mark_named_body_min rec : min1 rec -> min1 (mark_named_body p rec).
  Proof.
    intros Hrec fname t st st'. unfold mark_named_body.
    destruct (prog_file p fname) as [f|] eqn:Hf; [|discriminate].
    intros H Hd Hst. apply bind_ok in H. destruct H as [[bname st1] [Hb H]].
    (* what the specification says this type denotes *)
    assert (exists via, ty_target_file p fname t = Some (bname, via) /\
                        (forall m, In m via -> In m (ms_marks st1) ) /\
                        all_good st1) as [via [Ht [_ G1]]].
    { unfold ty_target_file. rewrite Hf. destruct (ty_ref t) as [r|] eqn:Er.
      - destruct (include_file p f (ref_index r)) as [[i tn]|] eqn:Ei; [|discriminate].
        injection Hb as <- <-. exists [NInclude fname i]. split; [reflexivity|]. split.
        + intros m [<-|[]]. apply mark_marks. auto.
        + apply all_good_mark; [|exact Hst]. apply Hd.
          unfold ty_denotes, ty_target_file. rewrite Hf, Er, Ei. cbn. auto.
      - injection Hb as <- <-. exists []. split; [reflexivity|]. split; [intros m []|exact Hst]. }
    assert (forall m, In m (match prog_file p bname with
                            | None => []
                            | Some bf =>
                              match ty_is_typedef t with
                              | Some _ =>
                                match find_index (fun d => beqb (td_alias d) (ty_def_name t)) (f_typedefs bf) with
                                | Some (i, _) => [NTypedef bname i]
                                | None => []
                                end
                              | None =>
                                match category_sl_kind (ty_category t) with
                                | Some k =>
                                  match find_index (fun s => ty_name_ok t (sl_name s)) (sl_list k bf) with
                                  | Some (i, _) => [NStructLike bname k i]
                                  | None => []
                                  end
                                | None =>
                                  match ty_category t with
                                  | CatEnum =>
                                    match find_index (fun e => ty_name_ok t (en_name e)) (f_enums bf) with
                                    | Some (i, _) => [NEnum bname i]
                                    | None => []
                                    end
                                  | _ => []
                                  end
                                end
                              end
                            end) -> good m) as Hd'.
    { intros m Hm. apply Hd. unfold ty_denotes. rewrite Ht. apply in_or_app. right. exact Hm. }
    clear Hd Ht.
    destruct (prog_file p bname) as [bf|] eqn:Hbf; [|discriminate].
    destruct (ty_is_typedef t).
    - (* typedef: every typedef is always kept, its target is an edge *)
      clear Hd'. unfold mark_typedef_with in H.
      destruct (find_index _ _) as [[i d]|] eqn:Efi; [|injection H as <-; exact G1].
      apply find_index_some in Efi. destruct Efi as [Hn _].
      destruct (marked st1 _); [injection H as <-; exact G1|].
      pose proof (typedef_root _ _ _ _ Hbf Hn) as Ntd.
      eapply mark_types_with_min; [exact Hrec | exact H | | apply all_good_mark; [left; exact Ntd | exact G1]].
      intros m Hm. left. eapply needed_step; [exact Ntd|].
      cbn [succs]. unfold succ_typedef. rewrite Hbf, Hn.
      unfold tys_nodes in Hm. cbn in Hm. rewrite app_nil_r in Hm. exact Hm.
    - destruct (category_sl_kind (ty_category t)) as [k|].
      + destruct (find_index _ _) as [[i s]|] eqn:Efi; [|injection H as <-; exact G1].
        apply find_index_some in Efi. destruct Efi as [Hn _].
        eapply mark_sl_with_min; [exact Hrec | exact Hbf | exact Hn | exact H | | exact G1].
        apply Hd'. left. reflexivity.
      + destruct (ty_category t); try (injection H as <-; exact G1).
        destruct (find_index _ _) as [[i e]|]; injection H as <-; [|exact G1].
        apply all_good_mark; [|exact G1]. apply Hd'. left. reflexivity.
  Qed.

  Lemma mark_named_min fuel : min1 (mark_named p fuel).
  Proof.
    induction fuel as [|n IH]; cbn.
    - intros fname t st st' H. discriminate.
    - apply mark_named_body_min. exact IH.
  Qed.

  Lemma mark_types_min fuel fname ts st st' :
    mark_types p fuel fname ts st = Ok st' ->
    (forall m, In m (tys_nodes p fname ts) -> good m) -> all_good st -> all_good st'.
  Proof. apply mark_types_with_min. apply mark_named_min. Qed.

  Lemma mark_sl_min fuel fname f k i s st st' :
    prog_file p fname = Some f -> nth_error (sl_list k f) i = Some s ->
    mark_sl p fuel fname k i s st = Ok st' ->
    good (NStructLike fname k i) -> all_good st -> all_good st'.
  Proof. intros Hf Hn. eapply mark_sl_with_min; eauto. apply mark_named_min. Qed.
End Minimal.


(* ==================================================================== minimality: markFunction, traceExtendMethod *)

(* a loop invariant that may refer to the state the whole computation ends in *)
Lemma fold_res_final {A S} (proj : S -> mstate) (f : A -> S -> res S) (P : S -> Prop) (fin : mstate) l :
  (forall x s s', f x s = Ok s' -> le (proj s) (proj s')) ->
  (forall x s s', In x l -> f x s = Ok s' -> le (proj s') fin -> P s -> P s') ->
  forall s s', fold_res f l s = Ok s' -> le (proj s') fin -> P s -> P s'.
Proof.
  intros Hm. induction l as [|x l IH]; intros Hs s s' H Hfin Hp; cbn in H.
  - injection H as <-. exact Hp.
  - apply bind_ok in H. destruct H as [s1 [H1 H2]].
    assert (le (proj s1) (proj s')) as L.
    { revert H2. apply fold_res_rel with (R := fun a b => le (proj a) (proj b));
        [intros; apply le_refl | intros ? ? ?; apply le_trans | intros; eapply Hm; eauto]. }
    eapply IH; [intros; eapply Hs; eauto; right; assumption | exact H2 | exact Hfin|].
    eapply Hs; [left; reflexivity | exact H1 | eapply le_trans; eauto | exact Hp].
Qed.


Section Minimal2.
  Variable matches : bytes -> bytes -> bool.
  Variable cp : bytes -> bool.
  Variable c : cfg.
  Variable p : program.
  Variable K : list node.
  Variable fin : mstate.

  Notation Nd := (needed cp c p K).
  Notation good := (good cp c p K).
  Notation all_good := (all_good cp c p K).

  Lemma tys_nodes_app fname a b : tys_nodes p fname (a ++ b) = tys_nodes p fname a ++ tys_nodes p fname b.
  Proof. unfold tys_nodes. apply flat_map_app. Qed.

  Lemma mark_function_min fuel fname f s si fi fn st st' :
    prog_file p fname = Some f -> nth_error (f_services f) si = Some s -> nth_error (sv_functions s) fi = Some fn ->
    mark_function p fuel fname si fi fn st = Ok st' ->
    Nd (NFunction fname si fi) -> all_good st -> all_good st'.
  Proof.
    intros Hf Hs Hfn H Hg Hst. unfold mark_function in H.
    assert (forall m, In m (tys_nodes p fname (function_types fn)) -> good m) as Hsucc.
    { intros m Hm. left. eapply needed_step; [exact Hg|]. cbn [succs]. unfold succ_function.
      rewrite Hf, Hs, Hfn. exact Hm. }
    unfold function_types in Hsucc. rewrite !tys_nodes_app in Hsucc.
    apply bind_ok in H. destruct H as [st1 [H1 H]].
    apply bind_ok in H. destruct H as [st2 [H2 H]].
    eapply mark_types_min in H1; [| |apply all_good_mark; [left; exact Hg | exact Hst]].
    2:{ intros m Hm. apply Hsucc. apply in_or_app. left. exact Hm. }
    eapply mark_types_min in H2; [| |exact H1].
    2:{ intros m Hm. apply Hsucc. apply in_or_app. right. apply in_or_app. left. exact Hm. }
    destruct (fn_void fn); [injection H as <-; exact H2|].
    eapply mark_types_min in H; [exact H| |exact H2].
    intros m Hm. apply Hsucc. apply in_or_app. right. apply in_or_app. right. exact Hm.
  Qed.

  (* ---------------------------------------------------------- with a method filter *)
  Section Filtered.
    Hypothesis Hfilter : no_filter c = false.
    (* the kept services and methods are those the run ends up with *)
    Hypothesis HK : forall n, In n (ms_marks fin) -> svc_fn n = true -> In n K.

    Lemma K_needed n st : le st fin -> In n (ms_marks st) -> svc_fn n = true -> Nd n.
    Proof.
      intros [L _] Hn Hs. apply needed_root. unfold roots. apply in_or_app. left.
      apply HK; auto.
    Qed.

    Lemma include_good_filtered f i : good (NInclude f i).
    Proof. right. exists f, i. auto. Qed.

    Lemma mark_service_include_min fname f s st st' :
      mark_service_include p fname f s st = Ok st' -> all_good st -> all_good st'.
    Proof.
      unfold mark_service_include. destruct (sv_ref s) as [r|]; [|intros [= <-]; auto].
      destruct (include_file p f (ref_index r)) as [[i tn]|]; [|discriminate].
      intros [= <-] Hst. apply all_good_mark; [apply include_good_filtered | exact Hst].
    Qed.

    Definition min_trace (rec : list bytes -> bytes -> nat -> mstate -> res (mstate * bool)) : Prop :=
      forall fa fname si st r, rec fa fname si st = Ok r -> le (fst r) fin -> all_good st -> all_good (fst r).

    Lemma trace_body_min rec fuel :
      (forall fa fname si st r, rec fa fname si st = Ok r -> le st (fst r)) ->
      min_trace rec -> min_trace (trace_body matches c p rec fuel).
    Proof.
      intros Hmono Hrec fa fname si st r. unfold trace_body.
      destruct (prog_file p fname) as [f|] eqn:Hf; [|discriminate].
      destruct (nth_error (f_services f) si) as [s|] eqn:Hs; [|discriminate].
      intros H Hfin Hst. apply bind_ok in H. destruct H as [[st1 ret1] [H1 H]].
      apply bind_ok in H. destruct H as [[st3 ret] [H3 H]].
      (* order of the intermediate states *)
      assert (le st3 (fst r)) as L3.
      { destruct ret.
        - apply bind_ok in H. destruct H as [st4 [H4 H]]. injection H as <-. cbn.
          apply mark_service_include_le in H4. eapply le_trans; [apply le_mark | exact H4].
        - injection H as <-. apply le_refl. }
      assert (le st1 st3) as L1.
      { destruct (is_nil (sv_extends s)); [injection H3 as <- <-; apply le_refl|].
        apply bind_ok in H3. destruct H3 as [nb [Hb H3]].
        destruct nb as [[[bn bi] b]|]; [|discriminate].
        apply bind_ok in H3. destruct H3 as [[st2 back] [H2 H3]].
        apply Hmono in H2. cbn in H2. injection H3 as <- <-.
        destruct back; [exact H2 | eapply le_trans; [exact H2 | apply le_add_ext]]. }
      assert (le st1 fin) as F1 by (eapply le_trans; [exact L1|]; eapply le_trans; eauto).
      assert (le st3 fin) as F3 by (eapply le_trans; eauto).
      (* 1. the loop over own functions *)
      assert (all_good st1) as G1.
      { change (all_good (fst (st1, ret1))).
        revert H1 F1 Hst.
        change (le st1 fin) with (le (fst (st1, ret1)) fin).
        change (all_good st) with (all_good (fst (st, false))).
        generalize (st, false). generalize (st1, ret1). intros b a. revert a b.
        apply fold_res_final with (P := fun a => all_good (fst a)).
        { intros jf a b. apply fold_res_rel with (R := fun a b => le (fst a) (fst b));
            [intros; apply le_refl | intros ? ? ?; apply le_trans|].
          intros fa' a' b' _. apply fold_res_rel with (R := fun a b => le (fst a) (fst b));
            [intros; apply le_refl | intros ? ? ?; apply le_trans|].
          intros pat a2 b2 _. destruct (matches _ _); [|intros [= <-]; apply le_refl].
          intros H2. apply bind_ok in H2. destruct H2 as [st'' [H2 H5]]. injection H5 as <-.
          apply mark_function_le in H2. cbn. eapply le_trans; [apply le_mark | exact H2]. }
        intros jf a b Hjf. apply fold_res_final with (P := fun a => all_good (fst a)).
        { intros fa' a' b'. apply fold_res_rel with (R := fun a b => le (fst a) (fst b));
            [intros; apply le_refl | intros ? ? ?; apply le_trans|].
          intros pat a2 b2 _. destruct (matches _ _); [|intros [= <-]; apply le_refl].
          intros H2. apply bind_ok in H2. destruct H2 as [st'' [H2 H5]]. injection H5 as <-.
          apply mark_function_le in H2. cbn. eapply le_trans; [apply le_mark | exact H2]. }
        intros father a' b' _. apply fold_res_final with (P := fun a => all_good (fst a)).
        { intros pat a2 b2. destruct (matches _ _); [|intros [= <-]; apply le_refl].
          intros H2. apply bind_ok in H2. destruct H2 as [st'' [H2 H5]]. injection H5 as <-.
          apply mark_function_le in H2. cbn. eapply le_trans; [apply le_mark | exact H2]. }
        intros pat a2 b2 _. destruct (matches _ _); [|intros [= <-]; auto].
        intros H2 Hb Ha. apply bind_ok in H2. destruct H2 as [st'' [H2 H5]]. injection H5 as <-.
        cbn in *. destruct jf as [j fn]. apply indexed_In in Hjf. cbn [fst snd] in *.
        pose proof (mark_function_le _ _ _ _ _ _ _ _ H2) as Lf.
        assert (Nd (NService fname si)) as Ns.
        { eapply K_needed; [exact Hb| |reflexivity]. apply Lf. apply mark_marks. auto. }
        assert (Nd (NFunction fname si j)) as Nf.
        { eapply K_needed; [exact Hb| |reflexivity].
          unfold mark_function in H2. apply bind_ok in H2. destruct H2 as [x1 [X1 X2]].
          apply bind_ok in X2. destruct X2 as [x2 [X2 X3]].
          apply mark_types_le in X1. apply mark_types_le in X2.
          assert (le x2 st'') as X4.
          { destruct (fn_void fn); [injection X3 as <-; apply le_refl | eapply mark_types_le; eauto]. }
          apply X4, X2, X1. apply mark_marks. auto. }
        eapply mark_function_min; [exact Hf | exact Hs | exact Hjf | exact H2 | exact Nf|].
        apply all_good_mark; [left; exact Ns | exact Ha]. }
      (* 2. the base service *)
      assert (all_good st3) as G3.
      { destruct (is_nil (sv_extends s)); [injection H3 as <- <-; exact G1|].
        apply bind_ok in H3. destruct H3 as [nb [Hb H3]].
        destruct nb as [[[bn bi] b]|]; [|discriminate].
        apply bind_ok in H3. destruct H3 as [[st2 back] [H2 H3]]. injection H3 as <- <-.
        assert (le st2 fin) as F2.
        { eapply le_trans; [|exact F3]. destruct back; [apply le_refl | apply le_add_ext]. }
        pose proof (Hrec _ _ _ _ _ H2 F2 G1) as G2. cbn in G2.
        destruct back; [exact G2|]. intros n Hn. apply G2. exact Hn. }
      destruct ret.
      - apply bind_ok in H. destruct H as [st4 [H4 H]]. injection H as <-. cbn in *.
        eapply mark_service_include_min; [exact H4|].
        apply all_good_mark; [|exact G3]. left.
        eapply K_needed; [exact Hfin| |reflexivity].
        apply mark_service_include_le in H4. apply H4. apply mark_marks. auto.
      - injection H as <-. exact G3.
    Qed.

    Lemma trace_min fuel : min_trace (trace matches c p fuel).
    Proof.
      induction fuel as [|n IH]; cbn.
      - intros fa fname si st r H. discriminate.
      - apply trace_body_min; [apply trace_le | exact IH].
    Qed.
  End Filtered.
End Minimal2.


(* ==================================================================== minimality: markService *)

Lemma is_nil_false {A} (l : list A) : is_nil l = false <-> l <> [].
Proof. destruct l; cbn; split; congruence. Qed.

Section Minimal3.
  Variable matches : bytes -> bytes -> bool.
  Variable cp : bytes -> bool.
  Variable c : cfg.
  Variable p : program.
  Variable K : list node.
  Variable fin : mstate.

  Notation Nd := (needed cp c p K).
  Notation good := (good cp c p K).
  Notation all_good := (all_good cp c p K).

  Hypothesis HK : no_filter c = false -> forall n, In n (ms_marks fin) -> svc_fn n = true -> In n K.

  Lemma filtering_no_filter : filtering c = negb (no_filter c).
  Proof. reflexivity. Qed.

  (* the model and the specification look the base service up in the same way *)
  Lemma base_service_spec fname f s bn bi b :
    prog_file p fname = Some f -> sv_extends s <> [] ->
    base_service p fname f s = Ok (Some (bn, bi, b)) ->
    exists via, base_of p fname s = Some (NService bn bi, via) /\
                (forall r, sv_ref s = Some r -> exists i tn, include_file p f (ref_index r) = Some (i, tn) /\ via = [NInclude fname i]).
  Proof.
    intros Hf Hne. unfold base_service, base_of. rewrite Hf.
    destruct (sv_extends s) as [|e0 er] eqn:Ee; [congruence|]. rewrite <- Ee.
    destruct (sv_ref s) as [r|].
    - destruct (include_file p f (ref_index r)) as [[i tn]|] eqn:Ei; [|discriminate].
      destruct (prog_file p tn) as [tf|]; [|discriminate].
      destruct (find_index _ _) as [[j x]|]; [|discriminate].
      intros [= <- <- <-]. eexists. split; [reflexivity|].
      intros r' [= <-]. rewrite Ei. do 2 eexists. split; reflexivity.
    - destruct (find_index _ _) as [[j x]|]; [|discriminate].
      intros [= <- <- <-]. eexists. split; [reflexivity|]. intros r' Hr. discriminate.
  Qed.

  Lemma base_service_none fname f s :
    prog_file p fname = Some f -> sv_extends s <> [] ->
    base_service p fname f s = Ok None -> base_of p fname s = None.
  Proof.
    intros Hf Hne. unfold base_service, base_of. rewrite Hf.
    destruct (sv_extends s) as [|e0 er] eqn:Ee; [congruence|]. rewrite <- Ee.
    destruct (sv_ref s) as [r|].
    - destruct (include_file p f (ref_index r)) as [[i tn]|]; [|discriminate].
      destruct (prog_file p tn) as [tf|]; [|discriminate].
      destruct (find_index _ _) as [[j x]|]; [discriminate | reflexivity].
    - destruct (find_index _ _) as [[j x]|]; [discriminate | reflexivity].
  Qed.

  Definition min_svc (rec : bytes -> nat -> mstate -> res mstate) : Prop :=
    forall fname si st st', rec fname si st = Ok st' -> le st' fin ->
      (no_filter c = true -> Nd (NService fname si)) -> all_good st -> all_good st'.

  (* `extends` of every service names an existing service *)
  Hypothesis Hbase : forall fname f s, prog_file p fname = Some f -> In s (f_services f) ->
    sv_extends s <> [] -> base_of p fname s <> None.

  Lemma mark_service_body_min rec fuel :
    (forall fname si st st', rec fname si st = Ok st' -> le st st') ->
    min_svc rec -> min_svc (mark_service_body matches c p rec fuel).
  Proof.
    intros Hmono Hrec fname si st st'. unfold mark_service_body.
    destruct (prog_file p fname) as [f|] eqn:Hf; [|discriminate].
    destruct (nth_error (f_services f) si) as [s|] eqn:Hs; [|discriminate].
    destruct (marked st (NService fname si)) eqn:Em; [intros [= <-]; auto|].
    intros H Hfin Hnd Hst.
    apply bind_ok in H. destruct H as [st1 [H1 H]].
    apply bind_ok in H. destruct H as [st2 [H2 H]].
    (* order of the states *)
    assert (le st2 st') as L2.
    { destruct (negb (is_nil (sv_extends s)) && marked st2 (NService fname si)); [|injection H as <-; apply le_refl].
      destruct (sv_ref s) as [r|].
      - apply bind_ok in H. destruct H as [st3 [H3 H]].
        apply mark_service_include_le in H3. eapply le_trans; [exact H3|].
        apply bind_ok in H. destruct H as [nb [Hb H]].
        destruct nb as [[[bn bi] b]|]; [eapply Hmono; eauto | injection H as <-; apply le_refl].
      - apply bind_ok in H. destruct H as [nb [Hb H]].
        destruct nb as [[[bn bi] b]|]; [eapply Hmono; eauto | injection H as <-; apply le_refl]. }
    assert (le st1 st2) as L1.
    { destruct (filtering c && _).
      - apply bind_ok in H2. destruct H2 as [r [H2 H3]]. injection H3 as <-. eapply trace_le; eauto.
      - injection H2 as <-. apply le_refl. }
    assert (le st2 fin) as F2 by (eapply le_trans; eauto).
    assert (le st1 fin) as F1 by (eapply le_trans; eauto).
    destruct (no_filter c) eqn:Enf.
    - (* ---------------- no filter *)
      assert (filtering c = false) as Ef by (rewrite filtering_no_filter, Enf; reflexivity).
      rewrite Ef in *. cbn [andb] in H2. injection H2 as <-.
      specialize (Hnd eq_refl).
      assert (all_good st1) as G1.
      {         assert (forall l, (forall jf, In jf l -> In jf (indexed (sv_functions s))) ->
                  forall a b, fold_res (fun (jf : nat * function) (st0 : mstate) =>
                                  mark_function p fuel fname si (fst jf) (snd jf) st0) l a = Ok b ->
                              all_good a -> all_good b) as Hl.
        { induction l as [|jf l IHl]; intros Hsub a b Hfo Ha; cbn in Hfo.
          - injection Hfo as <-. exact Ha.
          - apply bind_ok in Hfo. destruct Hfo as [a1 [Hf1 Hf2]].
            eapply IHl; [intros; apply Hsub; right; assumption | exact Hf2|].
            destruct jf as [j fn]. pose proof (Hsub _ (or_introl eq_refl)) as Hj. apply indexed_In in Hj.
            eapply mark_function_min; [exact Hf | exact Hs | exact Hj | exact Hf1 | | exact Ha].
            eapply needed_step; [exact Hnd|]. cbn [succs]. unfold succ_service. rewrite Hf, Hs, Enf.
            apply in_or_app. left. apply in_map_iff. exists j. split; [reflexivity|].
            apply in_seq. split; [lia|]. cbn. apply nth_error_Some. cbn in Hj. congruence. }
        eapply Hl; [intros jf Hjf; exact Hjf | exact H1 | apply all_good_mark; [left; exact Hnd | exact Hst]]. }
      destruct (negb (is_nil (sv_extends s))) eqn:Ene; cbn [andb] in H; [|injection H as <-; exact G1].
      destruct (marked st1 (NService fname si)); [|injection H as <-; exact G1].
      apply negb_true_iff, is_nil_false in Ene.
      assert (In s (f_services f)) as Hin by (eapply nth_error_In; eauto).
      pose proof (Hbase _ _ _ Hf Hin Ene) as Hbo.
      destruct (sv_ref s) as [r|] eqn:Er.
      + apply bind_ok in H. destruct H as [st3 [H3 H]].
        apply bind_ok in H. destruct H as [nb [Hb H]].
        destruct nb as [[[bn bi] b]|].
        * destruct (base_service_spec _ _ _ _ _ _ Hf Ene Hb) as [via [Hbo' Hvia]].
          destruct (Hvia _ Er) as [i [tn [Hi ->]]].
          assert (all_good st3) as G3.
          { unfold mark_service_include in H3. rewrite Er, Hi in H3. injection H3 as <-.
            apply all_good_mark; [|exact G1]. left. eapply needed_step; [exact Hnd|].
            cbn [succs]. unfold succ_service. rewrite Hf, Hs, Enf, Hbo'. apply in_or_app. right. right. left. reflexivity. }
          eapply Hrec; [exact H | exact Hfin | | exact G3].
          intros _. eapply needed_step; [exact Hnd|].
          cbn [succs]. unfold succ_service. rewrite Hf, Hs, Enf, Hbo'. apply in_or_app. right. left. reflexivity.
        * exfalso. apply Hbo. eapply base_service_none; eauto.
      + apply bind_ok in H. destruct H as [nb [Hb H]].
        destruct nb as [[[bn bi] b]|]; [|injection H as <-; exact G1].
        destruct (base_service_spec _ _ _ _ _ _ Hf Ene Hb) as [via [Hbo' _]].
        eapply Hrec; [exact H | exact Hfin | | exact G1].
        intros _. eapply needed_step; [exact Hnd|].
        cbn [succs]. unfold succ_service. rewrite Hf, Hs, Enf, Hbo'. apply in_or_app. right. left. reflexivity.
    - (* ---------------- with a method filter *)
      assert (filtering c = true) as Ef by (rewrite filtering_no_filter, Enf; reflexivity).
      rewrite Ef in *. specialize (HK eq_refl).
      assert (all_good st1) as G1.
      { cbv beta iota in H1.
        eapply fold_res_final with (proj := fun a => a) (P := all_good) (fin := fin);
          [ | | exact H1 | exact F1 | exact Hst].
        { intros jf a b. apply fold_res_rel; [apply le_refl | apply le_trans|].
          intros pat a' b' _. destruct (selects _ _ _); [|intros [= <-]; apply le_refl].
          intros X2. apply mark_function_le in X2. eapply le_trans; [apply le_mark | exact X2]. }
        intros jf a b Hjf. apply fold_res_final with (proj := fun a => a) (P := all_good).
        { intros pat a' b'. destruct (selects _ _ _); [|intros [= <-]; apply le_refl].
          intros X2. apply mark_function_le in X2. eapply le_trans; [apply le_mark | exact X2]. }
        intros pat a' b' _. destruct (selects _ _ _); [|intros [= <-]; auto].
        intros Y2 Hb Ha. destruct jf as [j fn]. apply indexed_In in Hjf. cbn [fst snd] in *.
        pose proof (mark_function_le _ _ _ _ _ _ _ _ Y2) as Lf.
        assert (Nd (NService fname si)) as Ns.
        { eapply K_needed; [exact HK | exact Hb| |reflexivity]. apply Lf. apply mark_marks. auto. }
        assert (Nd (NFunction fname si j)) as Nf.
        { eapply K_needed; [exact HK | exact Hb| |reflexivity].
          unfold mark_function in Y2. apply bind_ok in Y2. destruct Y2 as [x1 [X1 X2]].
          apply bind_ok in X2. destruct X2 as [x2 [X2 X3]].
          apply mark_types_le in X1. apply mark_types_le in X2.
          assert (le x2 b') as X4.
          { destruct (fn_void fn); [injection X3 as <-; apply le_refl | eapply mark_types_le; eauto]. }
          apply X4, X2, X1. apply mark_marks. auto. }
        eapply mark_function_min; [exact Hf | exact Hs | exact Hjf | exact Y2 | exact Nf|].
        apply all_good_mark; [left; exact Ns | exact Ha]. }
      assert (all_good st2) as G2.
      { destruct (true && _).
        - apply bind_ok in H2. destruct H2 as [r [H2 H3]]. injection H3 as <-.
          eapply trace_min; [exact Enf | exact HK | exact H2 | exact F2 | exact G1].
        - injection H2 as <-. exact G1. }
      destruct (negb (is_nil (sv_extends s)) && marked st2 (NService fname si)); [|injection H as <-; exact G2].
      destruct (sv_ref s) as [r|] eqn:Er.
      + apply bind_ok in H. destruct H as [st3 [H3 H]].
        apply bind_ok in H. destruct H as [nb [Hb H]].
        assert (all_good st3) as G3 by (eapply mark_service_include_min; eauto).
        destruct nb as [[[bn bi] b]|]; [|injection H as <-; exact G3].
        eapply Hrec; [exact H | exact Hfin | congruence | exact G3].
      + apply bind_ok in H. destruct H as [nb [Hb H]].
        destruct nb as [[[bn bi] b]|]; [|injection H as <-; exact G2].
        eapply Hrec; [exact H | exact Hfin | congruence | exact G2].
  Qed.

  Lemma mark_service_min fuel : min_svc (mark_service matches c p fuel).
  Proof.
    induction fuel as [|n IH]; cbn.
    - intros fname si st st' H. discriminate.
    - apply mark_service_body_min; [apply mark_service_le | exact IH].
  Qed.
End Minimal3.


(* ==================================================================== minimality: markKeptPart, preProcess *)

Lemma include_file_inv p f z j tn :
  include_file p f z = Some (j, tn) ->
  j = Z.to_nat z /\ exists inc, nth_include f z = Some inc /\ in_ref inc = Some tn /\ prog_file p tn <> None.
Proof.
  unfold include_file. destruct (nth_include f z) as [inc|]; [|discriminate].
  destruct (in_ref inc) as [tn'|] eqn:Er; [|discriminate].
  destruct (prog_file p tn') eqn:Et; [|discriminate].
  intros [= <- <-]. split; [reflexivity|]. exists inc. repeat split; auto. congruence.
Qed.

Lemma nth_include_In f z inc : nth_include f z = Some inc -> In inc (f_includes f).
Proof.
  unfold nth_include. destruct (z <? 0)%Z; [discriminate|]. apply nth_error_In.
Qed.

Section Minimal4.
  Variable matches : bytes -> bytes -> bool.
  Variable cp : bytes -> bool.
  Variable c : cfg.
  Variable p : program.
  Variable K : list node.

  Notation Nd := (needed cp c p K).
  Notation good := (good cp c p K).
  Notation all_good := (all_good cp c p K).

  Lemma check_preserve_preserved fname k s : check_preserve cp c fname k s = preserved cp c fname k s.
  Proof.
    unfold check_preserve, preserved. destruct (c_force c); cbn; [reflexivity|].
    destruct (existsb _ (c_preserved_structs c)); cbn; [reflexivity|].
    destruct (negb (c_no_comment c) && cp (sl_comments s)); reflexivity.
  Qed.

  Definition has_kept (F : bytes) : Prop :=
    exists f, prog_file p F = Some f /\ file_has_kept_part cp c (F, f) = true.
  Definition cache_good (st : mstate) : Prop :=
    forall F, lookup F (ms_cache st) = Some true -> has_kept F.

  Lemma preserved_root F f k i s :
    prog_file p F = Some f -> nth_error (sl_list k f) i = Some s -> preserved cp c F k s = true ->
    Nd (NStructLike F k i).
  Proof.
    intros Hf Hn Hp. apply needed_root. unfold roots. apply in_or_app. right. apply in_or_app. right.
    apply in_flat_map. exists (F, f). split; [apply lookup_In; exact Hf|].
    unfold file_roots. cbn [fst snd]. apply in_or_app. right. apply in_or_app. right. apply in_or_app. right.
    apply in_flat_map. exists k. split; [destruct k; cbn; auto|].
    apply in_map_iff. exists (i, s). split; [reflexivity|].
    apply filter_In. split; [apply indexed_In; exact Hn | exact Hp].
  Qed.

  Lemma preserved_has_kept F f k i s :
    prog_file p F = Some f -> nth_error (sl_list k f) i = Some s -> preserved cp c F k s = true -> has_kept F.
  Proof.
    intros Hf Hn Hp. exists f. split; [exact Hf|]. unfold file_has_kept_part. apply orb_true_iff. right.
    apply existsb_exists. exists k. split; [destruct k; cbn; auto|].
    apply existsb_exists. exists s. split; [eapply nth_error_In; eauto | exact Hp].
  Qed.

  Lemma kept_part_min fuel F st st' ret :
    kept_part cp c p fuel F st = Ok (st', ret) ->
    all_good st -> cache_good st ->
    all_good st' /\ cache_good st' /\ (ret = true -> has_kept F).
  Proof.
    unfold kept_part. destruct (lookup F (ms_cache st)) as [v|] eqn:Ec.
    { intros [= <- <-] Hst Hc. repeat split; auto. intros ->. apply Hc. exact Ec. }
    destruct (prog_file p F) as [f|] eqn:Hf; [|discriminate].
    intros H Hst Hc. apply bind_ok in H. destruct H as [st1 [H1 H]].
    apply bind_ok in H. destruct H as [st2 [H2 H]].
    apply bind_ok in H. destruct H as [[st3 r3] [H3 H]]. injection H as <- <-.
    (* constants *)
    assert (all_good st1) as G1.
    { eapply mark_types_min; [exact H1| |exact Hst].
      intros m Hm. left. apply needed_root. unfold roots. apply in_or_app. right. apply in_or_app. right.
      apply in_flat_map. exists (F, f). split; [apply lookup_In; exact Hf|].
      unfold file_roots. cbn [fst snd]. apply in_or_app. right. apply in_or_app. right. apply in_or_app. left. exact Hm. }
    (* typedefs *)
    assert (all_good st2) as G2.
    { eapply mark_types_min; [exact H2| |exact G1].
      intros m Hm. unfold tys_nodes in Hm. apply in_flat_map in Hm. destruct Hm as [t [Ht Hm]].
      apply in_map_iff in Ht. destruct Ht as [d [<- Hd]].
      apply In_nth_error in Hd. destruct Hd as [i Hi].
      left. eapply needed_step; [eapply typedef_root; eauto|].
      cbn [succs]. unfold succ_typedef. rewrite Hf, Hi. exact Hm. }
    (* preserved struct-likes *)
    assert (forall k l, (forall is, In is l -> In is (indexed (sl_list k f))) ->
              forall a b, fold_res
                (fun (is : nat * struct_like) (acc : mstate * bool) =>
                   if negb (marked (fst acc) (NStructLike F k (fst is))) && check_preserve cp c F k (snd is)
                   then bind (mark_sl p fuel F k (fst is) (snd is) (fst acc)) (fun st' => Ok (st', true))
                   else Ok acc) l a = Ok b ->
              all_good (fst a) /\ (snd a = true -> has_kept F) ->
              all_good (fst b) /\ (snd b = true -> has_kept F)) as Hl.
    { intros k. induction l as [|[i s] l IHl]; intros Hsub a b Hfo Ha; cbn [fold_res] in Hfo.
      - injection Hfo as <-. exact Ha.
      - apply bind_ok in Hfo. destruct Hfo as [a1 [Hf1 Hf2]].
        eapply IHl; [intros; apply Hsub; right; assumption | exact Hf2|].
        pose proof (Hsub _ (or_introl eq_refl)) as Hi. apply indexed_In in Hi. cbn [fst snd] in *.
        destruct (negb _ && check_preserve cp c F k s) eqn:E; [|injection Hf1 as <-; exact Ha].
        apply andb_true_iff in E. destruct E as [_ E]. rewrite check_preserve_preserved in E.
        apply bind_ok in Hf1. destruct Hf1 as [s' [Hm Hr]]. injection Hr as <-. cbn [fst snd].
        split; [|intros _; eapply preserved_has_kept; eauto].
        eapply mark_sl_min; [exact Hf | exact Hi | exact Hm | left; eapply preserved_root; eauto | apply Ha]. }
    assert (all_good st3 /\ (r3 = true -> has_kept F)) as [G3 R3].
    { assert (all_good (fst (st2, has_enum_const_typedef f)) /\
              (snd (st2, has_enum_const_typedef f) = true -> has_kept F)) as G0.
      { split; [exact G2|]. cbn. intros E. exists f. split; [exact Hf|].
        unfold file_has_kept_part. cbn [snd]. rewrite E. reflexivity. }
      destruct (c_force c); [injection H3 as <- <-; exact G0|].
      apply bind_ok in H3. destruct H3 as [a1 [Ha1 H3]].
      apply bind_ok in H3. destruct H3 as [a2 [Ha2 H3]].
      change st3 with (fst (st3, r3)). change r3 with (snd (st3, r3)) at 2.
      eapply (Hl SKException); [intros is His; exact His | exact H3|].
      eapply (Hl SKUnion); [intros is His; exact His | exact Ha2|].
      eapply (Hl SKStruct); [intros is His; exact His | exact Ha1 | exact G0]. }
    split; [exact G3|]. split; [|exact R3].
    intros G. cbn. destruct (beqb G F) eqn:E.
    - intros [= ->]. apply beqb_true in E. subst. auto.
    - intros HG. apply Hc.
      (* marking does not touch the cache *)
      assert (ms_cache st3 = ms_cache st) as <-; [|exact HG].
      apply mark_types_cache in H1. apply mark_types_cache in H2. unfold same_cache in *.
      rewrite <- H1, <- H2. clear - H3.
      assert (forall k l a b, fold_res
         (fun (is : nat * struct_like) (acc : mstate * bool) =>
            if negb (marked (fst acc) (NStructLike F k (fst is))) && check_preserve cp c F k (snd is)
            then bind (mark_sl p fuel F k (fst is) (snd is) (fst acc)) (fun st' => Ok (st', true))
            else Ok acc) l a = Ok b -> same_cache (fst a) (fst b)) as Hc.
      { intros k l. apply fold_res_rel with (R := fun a b => same_cache (fst a) (fst b));
          [intros; apply same_cache_refl | intros ? ? ?; apply same_cache_trans|].
        intros is a b _. destruct (_ && _); [|intros [= <-]; apply same_cache_refl].
        intros H4. apply bind_ok in H4. destruct H4 as [st' [H4 H5]]. injection H5 as <-.
        apply mark_sl_cache in H4. exact H4. }
      destruct (c_force c); [injection H3 as <- <-; reflexivity|].
      apply bind_ok in H3. destruct H3 as [a1 [Ha1 H3]].
      apply bind_ok in H3. destruct H3 as [a2 [Ha2 H3]].
      apply Hc in Ha1. apply Hc in Ha2. apply Hc in H3. unfold same_cache in *. cbn in *. congruence.
  Qed.

  (* preProcess: an include is marked only when the files below it hold a kept part *)
  Lemma pre_process_min fuel : forall F st st' r,
    pre_process cp c p fuel F st = Ok (st', r) ->
    all_good st -> cache_good st ->
    all_good st' /\ cache_good st' /\ (r = true -> exists G, below p F G /\ has_kept G).
  Proof.
    induction fuel as [|n IH]; intros F st st' r H Hst Hc; cbn [pre_process] in H; [discriminate|].
    apply bind_ok in H. destruct H as [[st1 ret] [H1 H]].
    apply kept_part_min in H1; [|exact Hst | exact Hc]. destruct H1 as [G1 [C1 R1]].
    destruct (prog_file p F) as [f|] eqn:Hf; [|discriminate].
    assert (forall l, (forall ii, In ii l -> In ii (indexed (f_includes f))) ->
              forall a b, fold_res
                (fun (ii : nat * include) (acc : mstate * bool) =>
                   match include_file p f (Z.of_nat (fst ii)) with
                   | None => Crash
                   | Some (_, tn) =>
                     bind (pre_process cp c p n tn (fst acc)) (fun '(st', m) =>
                     Ok (if m then (mark (NInclude F (fst ii)) st', true) else (st', snd acc)))
                   end) l a = Ok b ->
              (all_good (fst a) /\ cache_good (fst a) /\ (snd a = true -> exists G, below p F G /\ has_kept G)) ->
              (all_good (fst b) /\ cache_good (fst b) /\ (snd b = true -> exists G, below p F G /\ has_kept G))) as Hl.
    { induction l as [|[i inc] l IHl]; intros Hsub a b Hfo Ha; cbn [fold_res] in Hfo.
      - injection Hfo as <-. exact Ha.
      - apply bind_ok in Hfo. destruct Hfo as [a1 [Hf1 Hf2]].
        eapply IHl; [intros; apply Hsub; right; assumption | exact Hf2|].
        cbn [fst snd] in Hf1.
        destruct (include_file p f (Z.of_nat i)) as [[j tn]|] eqn:Ei; [|discriminate].
        apply bind_ok in Hf1. destruct Hf1 as [[s' m] [Hp Hr]].
        destruct Ha as [Ga [Ca Ra]].
        destruct (IH _ _ _ _ Hp Ga Ca) as [G' [C' R']].
        destruct (include_file_inv _ _ _ _ _ Ei) as [Hj [inc' [Hn [Hr' _]]]]. rewrite Nat2Z.id in Hj. subst j.
        destruct m; injection Hr as <-; cbn [fst snd].
        + destruct (R' eq_refl) as [G [HbG HkG]].
          split; [|split].
          * apply all_good_mark; [|exact G']. right. exists F, i. split; [reflexivity|]. right.
            destruct HkG as [g [Hg Hk]]. exists f, tn, G, g. auto.
          * intros X. rewrite mark_cache. apply C'.
          * intros _. exists G. split; [|exact HkG].
            eapply below_step; [exact Hf | eapply nth_include_In; exact Hn | exact Hr' | exact HbG].
        + split; [exact G'|]. split; [exact C' | exact Ra]. }
    destruct (Hl _ (fun ii H => H) _ _ H) as [Gb [Cb Rb]].
    - cbn [fst snd]. split; [exact G1|]. split; [exact C1|].
      intros E. exists F. split; [apply below_refl | apply R1; exact E].
    - cbn [fst snd] in *. auto.
  Qed.
End Minimal4.


(* ==================================================================== minimality: the whole mark phase *)

Section Minimal5.
  Variable matches : bytes -> bytes -> bool.
  Variable cp : bytes -> bool.
  Variable c : cfg.
  Variable p : program.

  Lemma kept_part_cached fuel F st st' r :
    kept_part cp c p fuel F st = Ok (st', r) -> lookup F (ms_cache st') = Some r.
  Proof.
    unfold kept_part. destruct (lookup F (ms_cache st)) as [v|] eqn:Ec; [intros [= <- <-]; exact Ec|].
    destruct (prog_file p F) as [f|]; [|discriminate].
    intros H. apply bind_ok in H. destruct H as [st1 [H1 H]].
    apply bind_ok in H. destruct H as [st2 [H2 H]].
    apply bind_ok in H. destruct H as [[st3 r3] [H3 H]]. injection H as <- <-.
    cbn. rewrite beqb_refl. reflexivity.
  Qed.

  Lemma pre_process_cached fuel F st st' r :
    pre_process cp c p fuel F st = Ok (st', r) -> exists v, lookup F (ms_cache st') = Some v.
  Proof.
    destruct fuel as [|n]; cbn [pre_process]; [discriminate|].
    intros H. apply bind_ok in H. destruct H as [[st1 ret] [H1 H]].
    apply kept_part_cached in H1.
    destruct (prog_file p F) as [f|]; [|discriminate].
    assert (le st1 st') as L.
    { change (le2 (st1, ret) (st', r)). revert H.
      apply fold_res_rel; [apply le2_refl | apply le2_trans|].
      intros ii a b _. destruct (include_file p f _) as [[i tn]|]; [|discriminate].
      intros H. apply bind_ok in H. destruct H as [[s' m] [H2 H]].
      apply pre_process_le in H2. cbn in H2. injection H as <-.
      destruct m; unfold le2; cbn; [eapply le_trans; [exact H2 | apply le_mark] | exact H2]. }
    exists ret. destruct L as [_ [_ L]]. apply L. exact H1.
  Qed.

  (* the kept services and methods: given by the run when there is a method filter *)
  Definition kept_methods (fin : mstate) : list node :=
    if no_filter c then [] else filter svc_fn (ms_marks fin).

  Definition extends_resolved : Prop :=
    forall fname f s, prog_file p fname = Some f -> In s (f_services f) ->
      sv_extends s <> [] -> base_of p fname s <> None.

  Theorem final_marks_good fuel fin :
    extends_resolved ->
    mark_ast matches cp c p fuel = Ok fin ->
    all_good cp c p (kept_methods fin) fin.
  Proof.
    intros Hbase H. unfold mark_ast in H.
    destruct (prog_main p) as [f|] eqn:Hm; [|discriminate].
    assert (exists rest, p = (main_name p, f) :: rest) as [rest Hp].
    { unfold prog_main, main_name in *. destruct p as [|[n g] r]; [discriminate|]. injection Hm as ->. eauto. }
    assert (prog_file p (main_name p) = Some f) as Hf.
    { unfold prog_file. rewrite Hp at 1. cbn. rewrite Hp. cbn. rewrite beqb_refl. reflexivity. }
    apply bind_ok in H. destruct H as [[st1 r1] [H1 H]].
    apply bind_ok in H. destruct H as [st2 [H2 H]].
    apply bind_ok in H. destruct H as [[st3 r3] [H3 H]]. injection H as <-. cbn [fst].
    (* the last markKeptPart is answered by the cache *)
    assert (le st1 st2) as L12.
    { revert H2. apply fold_res_rel; [apply le_refl | apply le_trans|].
      intros is a b _. apply mark_service_le. }
    destruct (pre_process_cached _ _ _ _ _ H1) as [v Hv].
    assert (st3 = st2) as ->.
    { unfold kept_part in H3. destruct L12 as [_ [_ L]]. rewrite (L _ _ Hv) in H3. congruence. }
    set (K := kept_methods st2).
    assert (no_filter c = false -> forall n, In n (ms_marks st2) -> svc_fn n = true -> In n K) as HK.
    { intros E n Hn Hs. unfold K, kept_methods. rewrite E. apply filter_In. auto. }
    apply pre_process_min with (K := K) in H1.
    2:{ intros n []. }
    2:{ intros F HF. discriminate. }
    destruct H1 as [G1 _].
    eapply fold_res_final with (proj := fun a => a) (P := all_good cp c p K) (fin := st2);
      [ | | exact H2 | apply le_refl | exact G1].
    - intros is a b. apply mark_service_le.
    - intros [i s] a b Hin Hs Hfin Ha. cbn [fst] in Hs.
      eapply mark_service_min; [exact HK | exact Hbase | exact Hs | exact Hfin | | exact Ha].
      intros E. apply needed_root. unfold roots. rewrite E. apply in_or_app. right. apply in_or_app. left.
      unfold main_service_roots. rewrite Hp. apply in_map_iff. exists i. split; [reflexivity|].
      apply indexed_In in Hin. apply in_seq. split; [lia|]. cbn. apply nth_error_Some. congruence.
  Qed.
End Minimal5.


(* ==================================================================== traversal: what is left of a file, which files are reached *)

Lemma filter_res_spec {A} (f : A -> res bool) : forall l r,
  filter_res f l = Ok r -> forall x, In x r <-> In x l /\ f x = Ok true.
Proof.
  induction l as [|y l IH]; intros r H x; cbn in H.
  - injection H as <-. cbn. tauto.
  - apply bind_ok in H. destruct H as [b [Hb H]].
    apply bind_ok in H. destruct H as [r' [Hr H]]. injection H as <-.
    specialize (IH _ Hr x). destruct b; cbn; rewrite IH; split.
    + intros [<-|[H1 H2]]; auto.
    + intros [[<-|H1] H2]; auto.
    + intros [H1 H2]; auto.
    + intros [[<-|H1] H2]; [congruence | auto].
Qed.

Section Traversal.
  Variable matches : bytes -> bytes -> bool.
  Variable cp : bytes -> bool.
  Variable c : cfg.
  Variable p : program.

  (* ---------------- what traversal leaves of one file *)

  Lemma trim_file_struct_likes st F f tf k s :
    trim_file cp c p st F f = Ok tf -> In s (sl_list k tf) ->
    exists i, nth_error (sl_list k f) i = Some s /\ keep_sl cp c st F k (i, s) = true.
  Proof.
    unfold trim_file. intros H. apply bind_ok in H. destruct H as [incs [_ H]]. injection H as <-.
    destruct k; cbn [sl_list f_structs f_unions f_exceptions]; intros Hs;
      apply in_map_iff in Hs; destruct Hs as [[i s'] [<- Hs]]; apply filter_In in Hs; destruct Hs as [Hi Hk];
      apply indexed_In in Hi; exists i; auto.
  Qed.

  Lemma trim_file_struct_likes_conv st F f tf k i s :
    trim_file cp c p st F f = Ok tf -> nth_error (sl_list k f) i = Some s -> keep_sl cp c st F k (i, s) = true ->
    In s (sl_list k tf).
  Proof.
    unfold trim_file. intros H. apply bind_ok in H. destruct H as [incs [_ H]]. injection H as <-.
    intros Hn Hk.
    destruct k; cbn [sl_list f_structs f_unions f_exceptions] in *;
      apply in_map_iff; exists (i, s); (split; [reflexivity|]); apply filter_In; (split; [apply indexed_In; exact Hn | exact Hk]).
  Qed.

  Lemma trim_file_includes st F f tf inc :
    trim_file cp c p st F f = Ok tf -> In inc (f_includes tf) ->
    exists i inc0, nth_error (f_includes f) i = Some inc0 /\
                   inc = Include (in_path inc0) (in_ref inc0) None /\
                   keep_include p st F (i, inc0) = Ok true.
  Proof.
    unfold trim_file. intros H. apply bind_ok in H. destruct H as [incs [Hi H]]. injection H as <-.
    cbn [f_includes]. intros Hin. apply in_map_iff in Hin. destruct Hin as [[i inc0] [<- Hin]].
    eapply filter_res_spec in Hi. apply Hi in Hin. destruct Hin as [Hin Hk].
    apply indexed_In in Hin. exists i, inc0. auto.
  Qed.

  Lemma trim_file_includes_conv st F f tf i inc0 :
    trim_file cp c p st F f = Ok tf -> nth_error (f_includes f) i = Some inc0 ->
    keep_include p st F (i, inc0) = Ok true ->
    In (Include (in_path inc0) (in_ref inc0) None) (f_includes tf).
  Proof.
    unfold trim_file. intros H. apply bind_ok in H. destruct H as [incs [Hi H]]. injection H as <-.
    cbn [f_includes]. intros Hn Hk. apply in_map_iff. exists (i, inc0). split; [reflexivity|].
    eapply filter_res_spec in Hi. apply Hi. split; [apply indexed_In; exact Hn | exact Hk].
  Qed.

  Lemma trim_file_always_kept st F f tf :
    trim_file cp c p st F f = Ok tf ->
    f_constants tf = f_constants f /\ f_typedefs tf = f_typedefs f /\ f_enums tf = f_enums f /\
    f_namespaces tf = f_namespaces f /\ f_cpp_includes tf = f_cpp_includes f /\ f_filename tf = f_filename f.
  Proof.
    unfold trim_file. intros H. apply bind_ok in H. destruct H as [incs [_ H]]. injection H as <-.
    cbn. auto 10.
  Qed.

  (* ---------------- the files traversal reaches *)

  Definition T (full : bool) := if full then trim_file_resolved cp c p else trim_file cp c p.

  Definition entry_ok (full : bool) (st : mstate) (e : bytes * file) : Prop :=
    exists g, prog_file p (fst e) = Some g /\ T full st (fst e) g = Ok (snd e).

  Lemma reach_entries full fuel st : forall F acc acc',
    reach cp c p full fuel st F acc = Ok acc' ->
    (forall e, In e acc -> entry_ok full st e) -> forall e, In e acc' -> entry_ok full st e.
  Proof.
    induction fuel as [|n IH]; intros F acc acc' H Hacc; cbn [reach] in H.
    - destruct (existsb _ acc); [injection H as <-; exact Hacc | discriminate].
    - destruct (existsb _ acc); [injection H as <-; exact Hacc|].
      destruct (prog_file p F) as [f|] eqn:Hf; [|discriminate].
      apply bind_ok in H. destruct H as [tf [Ht H]].
      revert H. generalize (f_includes tf). intros l.
      assert (forall e, In e (acc ++ [(F, tf)]) -> entry_ok full st e) as H0.
      { intros e He. apply in_app_iff in He. destruct He as [He|[<-|[]]]; [auto|].
        exists f. split; [exact Hf|]. unfold T. destruct full; exact Ht. }
      revert H0. generalize (acc ++ [(F, tf)]). clear Hacc. revert acc'.
      induction l as [|inc l IHl]; intros acc' a Ha H; cbn [fold_res] in H.
      + injection H as <-. exact Ha.
      + apply bind_ok in H. destruct H as [a1 [H1 H2]].
        destruct (in_ref inc) as [tn|]; [|discriminate].
        eapply IHl; [|exact H2]. eapply IH; eauto.
  Qed.

  Lemma reach_grows full fuel st : forall F acc acc',
    reach cp c p full fuel st F acc = Ok acc' -> (forall e, In e acc -> In e acc') /\ In F (map fst acc').
  Proof.
    induction fuel as [|n IH]; intros F acc acc' H; cbn [reach] in H.
    - destruct (existsb _ acc) eqn:E; [injection H as <-|discriminate].
      split; [auto|]. apply existsb_exists in E. destruct E as [e [He Hb]]. apply beqb_true in Hb. subst.
      apply in_map. exact He.
    - destruct (existsb _ acc) eqn:E.
      { injection H as <-. split; [auto|]. apply existsb_exists in E. destruct E as [e [He Hb]].
        apply beqb_true in Hb. subst. apply in_map. exact He. }
      destruct (prog_file p F) as [f|] eqn:Hf; [|discriminate].
      apply bind_ok in H. destruct H as [tf [Ht H]].
      assert (forall l a b, fold_res (fun (inc : include) acc0 =>
                 match in_ref inc with Some tn => reach cp c p full n st tn acc0 | None => Crash end) l a = Ok b ->
               forall e, In e a -> In e b) as Hl.
      { induction l as [|inc l IHl]; intros a b Hfo e He; cbn [fold_res] in Hfo.
        - injection Hfo as <-. exact He.
        - apply bind_ok in Hfo. destruct Hfo as [a1 [H1 H2]].
          destruct (in_ref inc) as [tn|]; [|discriminate].
          eapply IHl; [exact H2|]. apply IH in H1. apply H1. exact He. }
      split.
      + intros e He. eapply Hl; [exact H|]. apply in_or_app. left. exact He.
      + apply in_map_iff. exists (F, tf). split; [reflexivity|]. eapply Hl; [exact H|].
        apply in_or_app. right. left. reflexivity.
  Qed.
End Traversal.


(* ==================================================================== soundness: the marked struct-likes and functions are closed under the edges (DFS argument) *)

(* nodes whose survival depends on a mark: typedefs and enums are never deleted *)
Definition needs_mark (n : node) : bool :=
  match n with NTypedef _ _ | NEnum _ _ => false | _ => true end.

Lemma marked_false_mark st n m : marked (mark n st) m = true -> marked st m = false -> m = n.
Proof. intros H1 H2. apply marked_mark in H1. destruct H1 as [->|H1]; [reflexivity | congruence]. Qed.

Section Sound.
  Variable cp : bytes -> bool.
  Variable c : cfg.
  Variable p : program.

  (* every type occurrence is well formed *)
  Definition types_wf : Prop :=
    forall F f, prog_file p F = Some f -> forall t, In t (file_top_types f) ->
      forall t', In t' (ty_subtypes t) -> ty_wf t' = true.

  Lemma plain_denotes_nothing F t : ty_wf t = true -> ty_is_plain t = true -> ty_denotes p F t = [].
  Proof.
    intros Hw Hp. unfold ty_wf in Hw. rewrite Hp in Hw. cbn in Hw.
    destruct (negb (is_none (ty_key t)) || negb (is_none (ty_value t)) || negb (is_none (ty_ref t))) eqn:E; [discriminate|].
    apply orb_false_iff in E. destruct E as [_ E]. apply negb_false_iff in E.
    unfold ty_is_plain in Hp. apply andb_true_iff in Hp. destruct Hp as [Hc Ht].
    unfold ty_denotes, ty_target_file. destruct (ty_ref t); [discriminate|]. cbn.
    destruct (prog_file p F); [|reflexivity].
    destruct (ty_is_typedef t); [discriminate|].
    destruct (ty_category t); cbn in Hc |- *; try reflexivity; discriminate.
  Qed.

  (* the types markType looks at are all the sub-types that denote anything *)
  Lemma subtypes_refs F : forall t, (forall t', In t' (ty_subtypes t) -> ty_wf t' = true) ->
    forall t', In t' (ty_subtypes t) -> ty_denotes p F t' <> [] -> In t' (ty_refs t).
  Proof.
    induction t using ty_ind'. intros Hw t' Hin Hd.
    cbn [ty_refs]. destruct (ty_is_plain (Ty n k v c0 an cat r t)) eqn:Ep.
    - exfalso.
      assert (ty_wf (Ty n k v c0 an cat r t) = true) as W by (apply Hw; cbn; auto).
      pose proof W as W'. unfold ty_wf in W'. rewrite Ep in W'. cbn [ty_key ty_value ty_ref] in W'.
      destruct k; [discriminate|]. destruct v; [discriminate|]. cbn in Hin.
      destruct Hin as [<-|[]]. apply Hd. apply plain_denotes_nothing; assumption.
    - cbn [ty_subtypes] in Hin, Hw. destruct Hin as [<-|Hin].
      + apply in_or_app. right. apply in_or_app. right. left. reflexivity.
      + apply in_app_iff in Hin. destruct Hin as [Hin|Hin].
        * apply in_or_app. left. destruct k as [x|]; [|destruct Hin].
          eapply H; [reflexivity | | exact Hin | exact Hd].
          intros y Hy. apply Hw. right. apply in_or_app. left. exact Hy.
        * apply in_or_app. right. apply in_or_app. left. destruct v as [x|]; [|destruct Hin].
          eapply H0; [reflexivity | | exact Hin | exact Hd].
          intros y Hy. apply Hw. right. apply in_or_app. right. exact Hy.
  Qed.

  (* ---------------- closure of the marked struct-likes and functions *)

  Definition sl_closed_at (st : mstate) (n : node) : Prop :=
    match n with
    | NStructLike F k i =>
      forall f s, prog_file p F = Some f -> nth_error (sl_list k f) i = Some s ->
        forall m, In m (tys_nodes p F (map fd_type (sl_fields s))) -> needs_mark m = true -> marked st m = true
    | NFunction F si j =>
      forall f s fn, prog_file p F = Some f -> nth_error (f_services f) si = Some s ->
        nth_error (sv_functions s) j = Some fn ->
        forall m, In m (tys_nodes p F (function_types fn)) -> needs_mark m = true -> marked st m = true
    | _ => True
    end.

  Lemma sl_closed_at_le a b n : le a b -> sl_closed_at a n -> sl_closed_at b n.
  Proof.
    intros L. destruct n; cbn; auto.
    - intros H f s fn Hf Hs Hfn m Hm Hn. eapply le_marked; [exact L|]. eapply H; eauto.
    - intros H f s Hf Hs m Hm Hn. eapply le_marked; [exact L|]. eapply H; eauto.
  Qed.

  Definition closed (st : mstate) : Prop := forall n, marked st n = true -> sl_closed_at st n.

  (* the new marks of [b] over [a] are closed in [b] *)
  Definition new_closed (a b : mstate) : Prop :=
    forall n, marked b n = true -> marked a n = false -> sl_closed_at b n.

  Lemma new_closed_refl a : new_closed a a.
  Proof. intros n H1 H2. congruence. Qed.
  Lemma new_closed_trans a b d : le b d -> new_closed a b -> new_closed b d -> new_closed a d.
  Proof.
    intros L H1 H2 n Hd Ha. destruct (marked b n) eqn:Eb.
    - eapply sl_closed_at_le; [exact L|]. apply H1; assumption.
    - apply H2; assumption.
  Qed.

  Lemma closed_new a b : le a b -> closed a -> new_closed a b -> closed b.
  Proof.
    intros L Ha Hn n Hb. destruct (marked a n) eqn:Ea.
    - eapply sl_closed_at_le; [exact L|]. apply Ha. exact Ea.
    - apply Hn; assumption.
  Qed.

  Definition dfs1 (rec : bytes -> ty -> mstate -> res mstate) : Prop :=
    forall F t st st', rec F t st = Ok st' ->
      le st st' /\
      (forall m, In m (ty_denotes p F t) -> needs_mark m = true -> marked st' m = true) /\
      new_closed st st'.

  (* one type with all its sub-types: wf gives that ty_refs covers the denoting ones *)
  Lemma fold_refs_dfs rec F : dfs1 rec -> forall l st st',
    fold_res (rec F) l st = Ok st' ->
    le st st' /\
    (forall t', In t' l -> forall m, In m (ty_denotes p F t') -> needs_mark m = true -> marked st' m = true) /\
    new_closed st st'.
  Proof.
    intros Hrec. induction l as [|t l IH]; intros st st' H; cbn [fold_res] in H.
    - injection H as <-. split; [apply le_refl|]. split; [intros t' []|apply new_closed_refl].
    - apply bind_ok in H. destruct H as [s1 [H1 H2]].
      apply Hrec in H1. destruct H1 as [L1 [D1 N1]].
      apply IH in H2. destruct H2 as [L2 [D2 N2]].
      split; [eapply le_trans; eauto|]. split.
      + intros t' [<-|Hin] m Hm Hn; [eapply le_marked; [exact L2|]; eapply D1; eauto | eapply D2; eauto].
      + eapply new_closed_trans; eauto.
  Qed.

  Lemma mark_types_with_dfs rec F : dfs1 rec -> forall ts,
    (forall t, In t ts -> forall t', In t' (ty_subtypes t) -> ty_wf t' = true) ->
    forall st st', mark_types_with rec F ts st = Ok st' ->
    le st st' /\
    (forall m, In m (tys_nodes p F ts) -> needs_mark m = true -> marked st' m = true) /\
    new_closed st st'.
  Proof.
    intros Hrec. unfold mark_types_with. induction ts as [|t ts IH]; intros Hw st st' H; cbn [fold_res] in H.
    - injection H as <-. split; [apply le_refl|]. split; [intros m []|apply new_closed_refl].
    - apply bind_ok in H. destruct H as [s1 [H1 H2]].
      apply (fold_refs_dfs _ _ Hrec) in H1. destruct H1 as [L1 [D1 N1]].
      apply IH in H2; [|intros; eapply Hw; eauto; right; assumption]. destruct H2 as [L2 [D2 N2]].
      split; [eapply le_trans; eauto|]. split.
      + intros m Hm Hn. unfold tys_nodes in Hm. cbn [flat_map] in Hm. apply in_app_iff in Hm.
        destruct Hm as [Hm|Hm]; [|apply D2; assumption].
        eapply le_marked; [exact L2|].
        unfold ty_nodes in Hm. apply in_flat_map in Hm. destruct Hm as [t' [Ht' Hm]].
        eapply D1; [|exact Hm | exact Hn].
        eapply subtypes_refs; [intros; eapply Hw; [left; reflexivity | eassumption] | exact Ht'|].
        intros E. rewrite E in Hm. destruct Hm.
      + eapply new_closed_trans; eauto.
  Qed.
End Sound.


(* ==================================================================== soundness: markType, markStructLike, markFunction *)

Lemma in_flat_map' {A B} (f : A -> list B) l y : In y (flat_map' f l) <-> exists x, In x l /\ In y (f x).
Proof.
  unfold flat_map'. induction l as [|a l IH]; cbn.
  - split; [tauto | intros [x [[] _]]].
  - rewrite in_app_iff, IH. split.
    + intros [H|[x [H1 H2]]]; eauto.
    + intros [x [[<-|H1] H2]]; eauto.
Qed.

Lemma sl_list_struct_likes k f s : In s (sl_list k f) -> In s (struct_likes f).
Proof. unfold struct_likes. destruct k; cbn; intros H; rewrite !in_app_iff; auto. Qed.

Lemma top_type_field f k s fd : In s (sl_list k f) -> In fd (sl_fields s) -> In (fd_type fd) (file_top_types f).
Proof.
  intros Hs Hfd. unfold file_top_types. apply in_or_app. right. apply in_or_app. right. apply in_or_app. left.
  apply in_map. apply in_flat_map'. exists s. split; [apply sl_list_struct_likes in Hs; exact Hs | exact Hfd].
Qed.
Lemma top_type_typedef f d : In d (f_typedefs f) -> In (td_type d) (file_top_types f).
Proof. intros H. unfold file_top_types. apply in_or_app. left. apply in_map. exact H. Qed.
Lemma top_type_constant f d : In d (f_constants f) -> In (co_type d) (file_top_types f).
Proof. intros H. unfold file_top_types. apply in_or_app. right. apply in_or_app. left. apply in_map. exact H. Qed.
Lemma top_type_function f s fn t : In s (f_services f) -> In fn (sv_functions s) -> In t (function_types fn) ->
  In t (file_top_types f).
Proof.
  intros Hs Hfn Ht. unfold file_top_types. apply in_or_app. right. apply in_or_app. right. apply in_or_app. right.
  apply in_flat_map'. exists s. split; [exact Hs|]. apply in_flat_map'. exists fn. split; [exact Hfn|].
  unfold function_types in Ht. unfold function_fields. rewrite map_app.
  apply in_app_iff in Ht. destruct Ht as [Ht|Ht]; [right; apply in_or_app; auto|].
  apply in_app_iff in Ht. destruct Ht as [Ht|Ht]; [right; apply in_or_app; auto|].
  destruct (fn_void fn); [destruct Ht|]. destruct Ht as [<-|[]]. left. reflexivity.
Qed.

Section Sound2.
  Variable cp : bytes -> bool.
  Variable c : cfg.
  Variable p : program.
  Hypothesis Hwf : types_wf p.

  Notation dfs1 := (dfs1 p).
  Notation new_closed := (new_closed p).

  Lemma mark_sl_with_dfs rec F f k i s : dfs1 rec ->
    prog_file p F = Some f -> nth_error (sl_list k f) i = Some s ->
    forall st st', mark_sl_with rec F k i s st = Ok st' ->
      le st st' /\ marked st' (NStructLike F k i) = true /\ new_closed st st'.
  Proof.
    intros Hrec Hf Hn st st'. unfold mark_sl_with.
    destruct (marked st (NStructLike F k i)) eqn:Em.
    { intros [= <-]. split; [apply le_refl|]. split; [exact Em | apply new_closed_refl]. }
    intros H. eapply mark_types_with_dfs in H; [|exact Hrec|].
    2:{ intros t Ht t' Ht'. apply in_map_iff in Ht. destruct Ht as [fd [<- Hfd]].
        eapply Hwf; [exact Hf | eapply top_type_field; [eapply nth_error_In; exact Hn | exact Hfd] | exact Ht']. }
    destruct H as [L [D N]].
    split; [eapply le_trans; [apply le_mark | exact L]|].
    split; [eapply le_marked; [exact L|]; apply marked_mark; auto|].
    intros n Hb Ha. destruct (marked (mark (NStructLike F k i) st) n) eqn:E.
    - apply marked_false_mark in E; [|exact Ha]. subst n. cbn.
      intros f' s' Hf' Hn' m Hm Hnm. rewrite Hf in Hf'. injection Hf' as <-. rewrite Hn in Hn'. injection Hn' as <-.
      apply D; assumption.
    - apply N; assumption.
  Qed.

  Lemma mark_typedef_with_dfs rec bn bf t : dfs1 rec -> prog_file p bn = Some bf ->
    forall st st', mark_typedef_with rec bn bf t st = Ok st' -> le st st' /\ new_closed st st'.
  Proof.
    intros Hrec Hbf st st'. unfold mark_typedef_with.
    destruct (find_index _ _) as [[i d]|] eqn:Efi; [|intros [= <-]; split; [apply le_refl | apply new_closed_refl]].
    destruct (marked st (NTypedef bn i)) eqn:Em; [intros [= <-]; split; [apply le_refl | apply new_closed_refl]|].
    apply find_index_some in Efi. destruct Efi as [Hn _].
    intros H. eapply mark_types_with_dfs in H; [|exact Hrec|].
    2:{ intros t0 [<-|[]] t' Ht'. eapply Hwf; [exact Hbf | apply top_type_typedef; eapply nth_error_In; exact Hn | exact Ht']. }
    destruct H as [L [_ N]].
    split; [eapply le_trans; [apply le_mark | exact L]|].
    intros n Hb Ha. destruct (marked (mark (NTypedef bn i) st) n) eqn:E.
    - apply marked_false_mark in E; [|exact Ha]. subst n. exact I.
    - apply N; assumption.
  Qed.

  Lemma new_closed_mark_other st n : (forall F k i, n <> NStructLike F k i) -> (forall F s j, n <> NFunction F s j) ->
    new_closed st (mark n st).
  Proof.
    intros H1 H2 m Hb Ha. apply marked_false_mark in Hb; [|exact Ha]. subst m.
    destruct n; cbn; auto; [exfalso; eapply H2 | exfalso; eapply H1]; reflexivity.
  Qed.

  Lemma mark_named_body_dfs rec : dfs1 rec -> dfs1 (mark_named_body p rec).
  Proof.
    intros Hrec F t st st'. unfold mark_named_body.
    destruct (prog_file p F) as [f|] eqn:Hf; [|discriminate].
    intros H. apply bind_ok in H. destruct H as [[bn st1] [Hb H]].
    assert (exists via, ty_target_file p F t = Some (bn, via) /\ le st st1 /\ new_closed st st1 /\
                        forall m, In m via -> marked st1 m = true) as [via [Ht [L1 [N1 V1]]]].
    { unfold ty_target_file. rewrite Hf. destruct (ty_ref t) as [r|].
      - destruct (include_file p f (ref_index r)) as [[i tn]|]; [|discriminate].
        injection Hb as <- <-. exists [NInclude F i]. split; [reflexivity|]. split; [apply le_mark|].
        split; [apply new_closed_mark_other; discriminate|].
        intros m [<-|[]]. apply marked_mark. auto.
      - injection Hb as <- <-. exists []. split; [reflexivity|]. split; [apply le_refl|].
        split; [apply new_closed_refl | intros m []]. }
    destruct (prog_file p bn) as [bf|] eqn:Hbf; [|discriminate].
    unfold ty_denotes. rewrite Ht, Hbf.
    destruct (ty_is_typedef t).
    - eapply mark_typedef_with_dfs in H; [|exact Hrec | exact Hbf]. destruct H as [L2 N2].
      split; [eapply le_trans; eauto|]. split; [|eapply new_closed_trans; eauto].
      intros m Hm Hn. apply in_app_iff in Hm. destruct Hm as [Hm|Hm].
      + eapply le_marked; [exact L2|]. apply V1. exact Hm.
      + destruct (find_index _ _) as [[i d]|]; [|destruct Hm]. destruct Hm as [<-|[]]. discriminate.
    - destruct (category_sl_kind (ty_category t)) as [k|].
      + destruct (find_index _ _) as [[i s]|] eqn:Efi.
        * apply find_index_some in Efi. destruct Efi as [Hn _].
          eapply mark_sl_with_dfs in H; [|exact Hrec | exact Hbf | exact Hn]. destruct H as [L2 [M2 N2]].
          split; [eapply le_trans; eauto|]. split; [|eapply new_closed_trans; eauto].
          intros m Hm Hnm. apply in_app_iff in Hm. destruct Hm as [Hm|[<-|[]]]; [|exact M2].
          eapply le_marked; [exact L2|]. apply V1. exact Hm.
        * injection H as <-. split; [exact L1|]. split; [|exact N1].
          intros m Hm Hnm. rewrite app_nil_r in Hm. apply V1. exact Hm.
      + assert (forall st2, le st1 st2 -> new_closed st1 st2 ->
                  forall m, In m (via ++ match ty_category t with
                                         | CatEnum => match find_index (fun e => ty_name_ok t (en_name e)) (f_enums bf) with
                                                      | Some (i, _) => [NEnum bn i]
                                                      | None => []
                                                      end
                                         | _ => []
                                         end) -> needs_mark m = true -> marked st2 m = true) as Hv.
        { intros st2 L2 _ m Hm Hnm. apply in_app_iff in Hm. destruct Hm as [Hm|Hm].
          - eapply le_marked; [exact L2|]. apply V1. exact Hm.
          - destruct (ty_category t); try destruct Hm.
            destruct (find_index _ _) as [[i e]|]; [|destruct Hm]. destruct Hm as [<-|[]]. discriminate. }
        destruct (ty_category t) eqn:Ec; try (injection H as <-; split; [exact L1|]; split; [apply Hv; [apply le_refl | apply new_closed_refl] | exact N1]).
        destruct (find_index _ _) as [[i e]|]; injection H as <-.
        * split; [eapply le_trans; [exact L1 | apply le_mark]|]. split.
          -- apply Hv; [apply le_mark | apply new_closed_mark_other; discriminate].
          -- eapply new_closed_trans; [apply le_mark | exact N1 | apply new_closed_mark_other; discriminate].
        * split; [exact L1|]. split; [apply Hv; [apply le_refl | apply new_closed_refl] | exact N1].
  Qed.

  Lemma mark_named_dfs fuel : dfs1 (mark_named p fuel).
  Proof.
    induction fuel as [|n IH]; cbn.
    - intros F t st st' H. discriminate.
    - apply mark_named_body_dfs. exact IH.
  Qed.

  Lemma mark_types_dfs fuel F ts st st' :
    (forall t, In t ts -> forall t', In t' (ty_subtypes t) -> ty_wf t' = true) ->
    mark_types p fuel F ts st = Ok st' ->
    le st st' /\
    (forall m, In m (tys_nodes p F ts) -> needs_mark m = true -> marked st' m = true) /\
    new_closed st st'.
  Proof. intros Hw. apply mark_types_with_dfs; [apply mark_named_dfs | exact Hw]. Qed.

  Lemma mark_sl_dfs fuel F f k i s st st' :
    prog_file p F = Some f -> nth_error (sl_list k f) i = Some s ->
    mark_sl p fuel F k i s st = Ok st' ->
    le st st' /\ marked st' (NStructLike F k i) = true /\ new_closed st st'.
  Proof. intros Hf Hn. eapply mark_sl_with_dfs; eauto. apply mark_named_dfs. Qed.

  (* markFunction: the function node itself becomes closed *)
  Lemma mark_function_dfs fuel F f s si j fn st st' :
    prog_file p F = Some f -> nth_error (f_services f) si = Some s -> nth_error (sv_functions s) j = Some fn ->
    mark_function p fuel F si j fn st = Ok st' ->
    le st st' /\ marked st' (NFunction F si j) = true /\ new_closed st st' /\
    sl_closed_at p st' (NFunction F si j).
  Proof.
    intros Hf Hs Hfn H. unfold mark_function in H.
    assert (forall t, In t (function_types fn) -> forall t', In t' (ty_subtypes t) -> ty_wf t' = true) as Hw.
    { intros t Ht t' Ht'. eapply Hwf; [exact Hf | | exact Ht'].
      eapply top_type_function; [eapply nth_error_In; exact Hs | eapply nth_error_In; exact Hfn | exact Ht]. }
    unfold function_types in Hw.
    apply bind_ok in H. destruct H as [st1 [H1 H]].
    apply bind_ok in H. destruct H as [st2 [H2 H]].
    apply mark_types_dfs in H1; [|intros; eapply Hw; eauto; apply in_or_app; auto].
    apply mark_types_dfs in H2; [|intros; eapply Hw; eauto; apply in_or_app; right; apply in_or_app; auto].
    destruct H1 as [L1 [D1 N1]]. destruct H2 as [L2 [D2 N2]].
    assert (le st2 st' /\ (forall m, In m (tys_nodes p F (if fn_void fn then [] else [fn_type fn])) ->
                                     needs_mark m = true -> marked st' m = true) /\ new_closed st2 st') as [L3 [D3 N3]].
    { destruct (fn_void fn).
      - injection H as <-. split; [apply le_refl|]. split; [intros m []|apply new_closed_refl].
      - apply mark_types_dfs in H; [exact H|]. intros; eapply Hw; eauto.
        apply in_or_app; right; apply in_or_app; right. assumption. }
    assert (sl_closed_at p st' (NFunction F si j)) as Cf.
    { cbn. intros f' s' fn' Hf' Hs' Hfn' m Hm Hnm.
      rewrite Hf in Hf'. injection Hf' as <-. rewrite Hs in Hs'. injection Hs' as <-. rewrite Hfn in Hfn'. injection Hfn' as <-.
      unfold function_types in Hm. rewrite !tys_nodes_app in Hm.
      apply in_app_iff in Hm. destruct Hm as [Hm|Hm]; [eapply le_marked; [exact L3|]; eapply le_marked; [exact L2|]; apply D1; assumption|].
      apply in_app_iff in Hm. destruct Hm as [Hm|Hm]; [eapply le_marked; [exact L3|]; apply D2; assumption|].
      apply D3; assumption. }
    split; [eapply le_trans; [apply le_mark|]; eapply le_trans; [exact L1|]; eapply le_trans; eauto|].
    split; [eapply le_marked; [exact L3|]; eapply le_marked; [exact L2|]; eapply le_marked; [exact L1|]; apply marked_mark; auto|].
    split; [|exact Cf].
    intros n Hb Ha. destruct (marked (mark (NFunction F si j) st) n) eqn:E.
    - apply marked_false_mark in E; [|exact Ha]. subst n. exact Cf.
    - assert (new_closed (mark (NFunction F si j) st) st') as N.
      { eapply new_closed_trans with (b := st1); [eapply le_trans; [exact L2 | exact L3] | exact N1|].
        eapply new_closed_trans with (b := st2); [exact L3 | exact N2 | exact N3]. }
      apply N; assumption.
  Qed.
End Sound2.


(* ==================================================================== soundness: markKeptPart establishes the always-kept roots *)

Section Sound3.
  Variable matches : bytes -> bytes -> bool.
  Variable cp : bytes -> bool.
  Variable c : cfg.
  Variable p : program.
  Hypothesis Hwf : types_wf p.

  Notation closed := (closed p).
  Notation new_closed := (new_closed p).

  (* the always-kept roots of file F are marked *)
  Definition roots_marked (st : mstate) (F : bytes) : Prop :=
    forall f, prog_file p F = Some f ->
      (forall m, In m (tys_nodes p F (map co_type (f_constants f))) -> needs_mark m = true -> marked st m = true) /\
      (forall m, In m (tys_nodes p F (map td_type (f_typedefs f))) -> needs_mark m = true -> marked st m = true) /\
      (forall k i s, nth_error (sl_list k f) i = Some s -> preserved cp c F k s = true ->
                     marked st (NStructLike F k i) = true).
  Definition roots_done (st : mstate) : Prop :=
    forall F v, lookup F (ms_cache st) = Some v -> roots_marked st F.

  Lemma roots_marked_le a b F : le a b -> roots_marked a F -> roots_marked b F.
  Proof.
    intros L H f Hf. destruct (H f Hf) as [H1 [H2 H3]]. repeat split.
    - intros m Hm Hn. eapply le_marked; [exact L|]. apply H1; assumption.
    - intros m Hm Hn. eapply le_marked; [exact L|]. apply H2; assumption.
    - intros k i s Hs Hp. eapply le_marked; [exact L|]. eapply H3; eauto.
  Qed.

  Definition inv (st : mstate) : Prop := closed st /\ roots_done st.

  (* the loop over the struct-likes of one kind in markKeptPart *)
  Lemma preserve_loop fuel F f k : prog_file p F = Some f ->
    forall l, (forall is, In is l -> In is (indexed (sl_list k f))) ->
    forall a b, fold_res
      (fun (is : nat * struct_like) (acc : mstate * bool) =>
         if negb (marked (fst acc) (NStructLike F k (fst is))) && check_preserve cp c F k (snd is)
         then bind (mark_sl p fuel F k (fst is) (snd is) (fst acc)) (fun st' => Ok (st', true))
         else Ok acc) l a = Ok b ->
    le (fst a) (fst b) /\ new_closed (fst a) (fst b) /\
    (forall i s, In (i, s) l -> preserved cp c F k s = true -> marked (fst b) (NStructLike F k i) = true).
  Proof.
    intros Hf. induction l as [|[i s] l IH]; intros Hsub a b H; cbn [fold_res] in H.
    - injection H as <-. split; [apply le_refl|]. split; [apply new_closed_refl | intros i s []].
    - apply bind_ok in H. destruct H as [a1 [H1 H2]].
      apply IH in H2; [|intros; apply Hsub; right; assumption]. destruct H2 as [L2 [N2 P2]].
      pose proof (Hsub _ (or_introl eq_refl)) as Hi. apply indexed_In in Hi. cbn [fst snd] in *.
      assert (le (fst a) (fst a1) /\ new_closed (fst a) (fst a1) /\
              (preserved cp c F k s = true -> marked (fst a1) (NStructLike F k i) = true)) as [L1 [N1 P1]].
      { rewrite <- check_preserve_preserved.
        destruct (marked (fst a) (NStructLike F k i)) eqn:Em; cbn [negb andb] in H1.
        - injection H1 as <-. split; [apply le_refl|]. split; [apply new_closed_refl | auto].
        - destruct (check_preserve cp c F k s).
          + apply bind_ok in H1. destruct H1 as [s' [Hm Hr]]. injection Hr as <-. cbn [fst].
            eapply mark_sl_dfs in Hm; eauto. destruct Hm as [L [Mk N]]. auto.
          + injection H1 as <-. split; [apply le_refl|]. split; [apply new_closed_refl | discriminate]. }
      split; [eapply le_trans; eauto|]. split; [eapply new_closed_trans; eauto|].
      intros i' s' [[= <- <-]|Hin] Hp; [eapply le_marked; [exact L2|]; auto | eapply P2; eauto].
  Qed.

  (* the marking steps of markKeptPart leave the cache alone *)
  Lemma kept_part_steps_cache fuel F f st st1 st2 st3 r3 :
    mark_types p fuel F (map co_type (f_constants f)) st = Ok st1 ->
    mark_types p fuel F (map td_type (f_typedefs f)) st1 = Ok st2 ->
    (if c_force c then Ok (st2, has_enum_const_typedef f)
     else
       let on_sl (k : sl_kind) (is : nat * struct_like) (acc : mstate * bool) : res (mstate * bool) :=
         if negb (marked (fst acc) (NStructLike F k (fst is))) && check_preserve cp c F k (snd is)
         then bind (mark_sl p fuel F k (fst is) (snd is) (fst acc)) (fun st' => Ok (st', true))
         else Ok acc in
       bind (fold_res (on_sl SKStruct) (indexed (f_structs f)) (st2, has_enum_const_typedef f)) (fun a1 =>
       bind (fold_res (on_sl SKUnion) (indexed (f_unions f)) a1) (fun a2 =>
       fold_res (on_sl SKException) (indexed (f_exceptions f)) a2))) = Ok (st3, r3) ->
    ms_cache st3 = ms_cache st.
  Proof.
    intros H1 H2 H3.
    apply mark_types_cache in H1. apply mark_types_cache in H2. unfold same_cache in *.
    rewrite <- H1, <- H2. clear - H3.
    assert (forall k l a b, fold_res
       (fun (is : nat * struct_like) (acc : mstate * bool) =>
          if negb (marked (fst acc) (NStructLike F k (fst is))) && check_preserve cp c F k (snd is)
          then bind (mark_sl p fuel F k (fst is) (snd is) (fst acc)) (fun st' => Ok (st', true))
          else Ok acc) l a = Ok b -> same_cache (fst a) (fst b)) as Hc.
    { intros k l. apply fold_res_rel with (R := fun a b => same_cache (fst a) (fst b));
        [intros; apply same_cache_refl | intros ? ? ?; apply same_cache_trans|].
      intros is a b _. destruct (_ && _); [|intros [= <-]; apply same_cache_refl].
      intros H4. apply bind_ok in H4. destruct H4 as [st' [H4 H5]]. injection H5 as <-.
      apply mark_sl_cache in H4. exact H4. }
    destruct (c_force c); [injection H3 as <- <-; reflexivity|].
    cbv zeta in H3.
    apply bind_ok in H3. destruct H3 as [a1 [Ha1 H3]].
    apply bind_ok in H3. destruct H3 as [a2 [Ha2 H3]].
    apply Hc in Ha1. apply Hc in Ha2. apply Hc in H3. unfold same_cache in *. cbn in *. congruence.
  Qed.

  Lemma kept_part_sound fuel F st st' r :
    kept_part cp c p fuel F st = Ok (st', r) -> inv st -> inv st' /\ le st st'.
  Proof.
    intros H Hinv. pose proof (kept_part_le _ _ _ _ _ _ _ H) as L. cbn in L. split; [|exact L].
    revert H. unfold kept_part. destruct (lookup F (ms_cache st)) as [v|] eqn:Ec; [intros [= <- <-]; exact Hinv|].
    destruct (prog_file p F) as [f|] eqn:Hf; [|discriminate].
    intros H. apply bind_ok in H. destruct H as [st1 [H1 H]].
    apply bind_ok in H. destruct H as [st2 [H2 H]].
    apply bind_ok in H. destruct H as [[st3 r3] [H3 H]]. injection H as <- <-.
    pose proof (kept_part_steps_cache _ _ _ _ _ _ _ _ H1 H2 H3) as Ecache.
    destruct Hinv as [Hc Hr].
    apply mark_types_dfs in H1; [|exact Hwf|].
    2:{ intros t Ht t' Ht'. apply in_map_iff in Ht. destruct Ht as [d [<- Hd]].
        eapply Hwf; [exact Hf | apply top_type_constant; exact Hd | exact Ht']. }
    apply mark_types_dfs in H2; [|exact Hwf|].
    2:{ intros t Ht t' Ht'. apply in_map_iff in Ht. destruct Ht as [d [<- Hd]].
        eapply Hwf; [exact Hf | apply top_type_typedef; exact Hd | exact Ht']. }
    destruct H1 as [L1 [D1 N1]]. destruct H2 as [L2 [D2 N2]].
    assert (le st2 st3 /\ new_closed st2 st3 /\
            (forall k i s, nth_error (sl_list k f) i = Some s -> preserved cp c F k s = true ->
                           marked st3 (NStructLike F k i) = true)) as [L3 [N3 P3]].
    { destruct (c_force c) eqn:Ef.
      - injection H3 as <- <-. split; [apply le_refl|]. split; [apply new_closed_refl|].
        intros k i s _ Hp. unfold preserved in Hp. rewrite Ef in Hp. discriminate.
      - apply bind_ok in H3. destruct H3 as [a1 [Ha1 H3]].
        apply bind_ok in H3. destruct H3 as [a2 [Ha2 H3]].
        eapply preserve_loop in Ha1; [|exact Hf | intros is His; exact His].
        eapply preserve_loop in Ha2; [|exact Hf | intros is His; exact His].
        eapply preserve_loop in H3; [|exact Hf | intros is His; exact His].
        cbn [fst snd] in *. destruct Ha1 as [La [Na Pa]]. destruct Ha2 as [Lb [Nb Pb]]. destruct H3 as [Lc [Nc Pc]].
        split; [eapply le_trans; [exact La|]; eapply le_trans; eauto|].
        split; [eapply new_closed_trans with (b := fst a1); [eapply le_trans; eauto | exact Na|];
                eapply new_closed_trans with (b := fst a2); eauto|].
        intros k i s Hn Hp. destruct k; cbn [sl_list] in Hn.
        + eapply le_marked; [eapply le_trans; [exact Lb | exact Lc]|]. eapply Pa; [apply indexed_In; exact Hn | exact Hp].
        + eapply le_marked; [exact Lc|]. eapply Pb; [apply indexed_In; exact Hn | exact Hp].
        + eapply Pc; [apply indexed_In; exact Hn | exact Hp]. }
    assert (le st st3) as L03 by (eapply le_trans; [exact L1|]; eapply le_trans; eauto).
    assert (closed st3) as C3.
    { eapply closed_new; [exact L03 | exact Hc|].
      eapply new_closed_trans with (b := st1); [eapply le_trans; eauto | exact N1|].
      eapply new_closed_trans with (b := st2); eauto. }
    split.
    - (* closed: the cache entry changes no mark *)
      intros n Hn. specialize (C3 n Hn). destruct n; cbn in *; auto.
    - intros G v. cbn [add_cache ms_cache lookup]. destruct (beqb G F) eqn:E.
      + apply beqb_true in E. subst G. intros _ f' Hf'. rewrite Hf in Hf'. injection Hf' as <-.
        repeat split.
        * intros m Hm Hn. change (marked st3 m = true).
          eapply le_marked; [eapply le_trans; [exact L2 | exact L3]|]. apply D1; assumption.
        * intros m Hm Hn. change (marked st3 m = true). eapply le_marked; [exact L3|]. apply D2; assumption.
        * intros k i s Hs Hp. change (marked st3 (NStructLike F k i) = true). eapply P3; eauto.
      + intros HG. 
        rewrite Ecache in HG. apply Hr in HG. 
        assert (roots_marked st3 G) as R by (eapply roots_marked_le; [exact L03 | exact HG]).
        intros g Hg. destruct (R g Hg) as [R1 [R2 R3]]. repeat split; auto.
  Qed.
End Sound3.


(* ==================================================================== relations preserved by the service part of marking (generic) *)

(* relations preserved by the service part of marking *)
Section MonoSvc.
  Variable matches : bytes -> bytes -> bool.
  Variable c : cfg.
  Variable p : program.
  Variable R : mstate -> mstate -> Prop.
  Hypothesis R_refl : forall a, R a a.
  Hypothesis R_trans : forall a b d, R a b -> R b d -> R a d.
  Hypothesis R_mark_svc : forall F i st, R st (mark (NService F i) st).
  Hypothesis R_mark_inc : forall F i st, R st (mark (NInclude F i) st).
  Hypothesis R_add_ext : forall F i st, R st (add_ext F i st).
  Hypothesis R_mark_function : forall fuel F f s si j fn st st',
    prog_file p F = Some f -> nth_error (f_services f) si = Some s -> nth_error (sv_functions s) j = Some fn ->
    mark_function p fuel F si j fn st = Ok st' -> R st st'.

  Definition R2 (a b : mstate * bool) : Prop := R (fst a) (fst b).

  Lemma mark_service_include_R fname f s st st' :
    mark_service_include p fname f s st = Ok st' -> R st st'.
  Proof.
    unfold mark_service_include. destruct (sv_ref s) as [r|]; [|intros [= <-]; apply R_refl].
    destruct (include_file p f (ref_index r)) as [[i tn]|]; [|discriminate].
    intros [= <-]. apply R_mark_inc.
  Qed.

  (* loops whose elements come from a known list *)
  Lemma fold_res_rel_in {A S} (f : A -> S -> res S) (Q : S -> S -> Prop) l :
    (forall s, Q s s) -> (forall a b d, Q a b -> Q b d -> Q a d) ->
    (forall x s s', In x l -> f x s = Ok s' -> Q s s') ->
    forall s s', fold_res f l s = Ok s' -> Q s s'.
  Proof. apply fold_res_rel. Qed.

  Definition mono_trace_R (rec : list bytes -> bytes -> nat -> mstate -> res (mstate * bool)) : Prop :=
    forall fa fname si st r, rec fa fname si st = Ok r -> R st (fst r).

  Lemma trace_body_R rec fuel : mono_trace_R rec -> mono_trace_R (trace_body matches c p rec fuel).
  Proof.
    intros Hrec fa fname si st r. unfold trace_body.
    destruct (prog_file p fname) as [f|] eqn:Hf; [|discriminate].
    destruct (nth_error (f_services f) si) as [s|] eqn:Hs; [|discriminate].
    intros H. apply bind_ok in H. destruct H as [[st1 ret1] [H1 H]].
    assert (R st st1) as L1.
    { change (R2 (st, false) (st1, ret1)).
      revert H1. apply fold_res_rel_in; [intros; apply R_refl | intros ? ? ?; apply R_trans|].
      intros jf a b Hjf. apply fold_res_rel; [intros; apply R_refl | intros ? ? ?; apply R_trans|].
      intros father a' b' _. apply fold_res_rel; [intros; apply R_refl | intros ? ? ?; apply R_trans|].
      intros pat a2 b2 _. destruct (matches _ _); [|intros [= <-]; apply R_refl].
      intros H2. apply bind_ok in H2. destruct H2 as [st'' [H2 H3]]. injection H3 as <-.
      destruct jf as [j fn]. apply indexed_In in Hjf.
      unfold R2. cbn. eapply R_trans; [apply R_mark_svc|].
      eapply R_mark_function; [exact Hf | exact Hs | exact Hjf | exact H2]. }
    apply bind_ok in H. destruct H as [[st3 ret] [H3 H]].
    assert (R st1 st3) as L3.
    { destruct (is_nil (sv_extends s)); [injection H3 as <- <-; apply R_refl|].
      apply bind_ok in H3. destruct H3 as [nb [Hb H3]].
      destruct nb as [[[bn bi] b]|]; [|discriminate].
      apply bind_ok in H3. destruct H3 as [[st2 back] [H2 H3]].
      apply Hrec in H2. cbn in H2. injection H3 as <- <-.
      destruct back; [exact H2 | eapply R_trans; [exact H2 | apply R_add_ext]]. }
    eapply R_trans; [exact L1|]. eapply R_trans; [exact L3|].
    destruct ret.
    - apply bind_ok in H. destruct H as [st4 [H4 H]]. injection H as <-. cbn.
      apply mark_service_include_R in H4. eapply R_trans; [apply R_mark_svc | exact H4].
    - injection H as <-. apply R_refl.
  Qed.

  Lemma trace_R fuel : mono_trace_R (trace matches c p fuel).
  Proof.
    induction fuel as [|n IH]; cbn.
    - intros fa fname si st r H. discriminate.
    - apply trace_body_R. exact IH.
  Qed.

  Definition mono_svc_R (rec : bytes -> nat -> mstate -> res mstate) : Prop :=
    forall fname si st st', rec fname si st = Ok st' -> R st st'.

  Lemma mark_service_body_R rec fuel : mono_svc_R rec -> mono_svc_R (mark_service_body matches c p rec fuel).
  Proof.
    intros Hrec fname si st st'. unfold mark_service_body.
    destruct (prog_file p fname) as [f|] eqn:Hf; [|discriminate].
    destruct (nth_error (f_services f) si) as [s|] eqn:Hs; [|discriminate].
    destruct (marked st (NService fname si)); [intros [= <-]; apply R_refl|].
    intros H. apply bind_ok in H. destruct H as [st1 [H1 H]].
    assert (R st st1) as L1.
    { eapply R_trans with (b := if filtering c then st else mark (NService fname si) st).
      { destruct (filtering c); [apply R_refl | apply R_mark_svc]. }
      revert H1. apply fold_res_rel_in; [apply R_refl | apply R_trans|].
      intros [j fn] a b Hjf. apply indexed_In in Hjf. cbn [fst snd]. destruct (filtering c).
      - apply fold_res_rel; [apply R_refl | apply R_trans|].
        intros pat a' b' _. destruct (selects _ _ _); [|intros [= <-]; apply R_refl].
        intros H2. eapply R_trans; [apply R_mark_svc|]. eapply R_mark_function; [exact Hf | exact Hs | exact Hjf | exact H2].
      - intros H2. eapply R_mark_function; [exact Hf | exact Hs | exact Hjf | exact H2]. }
    apply bind_ok in H. destruct H as [st2 [H2 H]].
    assert (R st1 st2) as L2.
    { destruct (filtering c && _).
      - apply bind_ok in H2. destruct H2 as [r [H2 H3]]. injection H3 as <-.
        eapply trace_R; eauto.
      - injection H2 as <-. apply R_refl. }
    eapply R_trans; [exact L1|]. eapply R_trans; [exact L2|].
    destruct (negb (is_nil (sv_extends s)) && marked st2 (NService fname si)); [|injection H as <-; apply R_refl].
    destruct (sv_ref s) as [r|].
    - apply bind_ok in H. destruct H as [st3 [H3 H]].
      apply mark_service_include_R in H3. eapply R_trans; [exact H3|].
      apply bind_ok in H. destruct H as [nb [Hb H]].
      destruct nb as [[[bn bi] b]|]; [eapply Hrec; eauto | injection H as <-; apply R_refl].
    - apply bind_ok in H. destruct H as [nb [Hb H]].
      destruct nb as [[[bn bi] b]|]; [eapply Hrec; eauto | injection H as <-; apply R_refl].
  Qed.

  Lemma mark_service_R fuel : mono_svc_R (mark_service matches c p fuel).
  Proof.
    induction fuel as [|n IH]; cbn.
    - intros fname si st st' H. discriminate.
    - apply mark_service_body_R. exact IH.
  Qed.
End MonoSvc.


(* ==================================================================== soundness: services keep the invariant; preProcess visits every file *)

Section Sound4.
  Variable matches : bytes -> bytes -> bool.
  Variable cp : bytes -> bool.
  Variable c : cfg.
  Variable p : program.
  Hypothesis Hwf : types_wf p.

  Notation closed := (closed p).
  Notation new_closed := (new_closed p).
  Notation inv := (inv cp c p).

  (* what the service part of marking preserves *)
  Definition Rc (a b : mstate) : Prop := le a b /\ new_closed a b /\ ms_cache b = ms_cache a.

  Lemma Rc_refl a : Rc a a.
  Proof. split; [apply le_refl|]. split; [apply new_closed_refl | reflexivity]. Qed.
  Lemma Rc_trans a b d : Rc a b -> Rc b d -> Rc a d.
  Proof.
    intros [L1 [N1 C1]] [L2 [N2 C2]]. split; [eapply le_trans; eauto|].
    split; [eapply new_closed_trans; eauto | congruence].
  Qed.
  Lemma Rc_mark_other n st : (forall F k i, n <> NStructLike F k i) -> (forall F s j, n <> NFunction F s j) ->
    Rc st (mark n st).
  Proof.
    intros H1 H2. split; [apply le_mark|]. split; [apply new_closed_mark_other; assumption | apply mark_cache].
  Qed.
  Lemma Rc_add_ext F i st : Rc st (add_ext F i st).
  Proof.
    split; [apply le_add_ext|]. split; [|reflexivity].
    intros n Hb Ha. unfold marked in *. cbn in *. congruence.
  Qed.
  Lemma Rc_mark_function fuel F f s si j fn st st' :
    prog_file p F = Some f -> nth_error (f_services f) si = Some s -> nth_error (sv_functions s) j = Some fn ->
    mark_function p fuel F si j fn st = Ok st' -> Rc st st'.
  Proof.
    intros Hf Hs Hfn H. pose proof (mark_function_cache _ _ _ _ _ _ _ _ H) as C.
    eapply mark_function_dfs in H; eauto. destruct H as [L [_ [N _]]].
    split; [exact L|]. split; [exact N | exact C].
  Qed.

  Lemma inv_Rc a b : inv a -> Rc a b -> inv b.
  Proof.
    intros [Hc Hr] [L [N C]]. split; [eapply closed_new; eauto|].
    intros F v HF. rewrite C in HF. eapply roots_marked_le; [exact L|]. eapply Hr; eauto.
  Qed.

  Lemma mark_service_Rc fuel F si st st' :
    mark_service matches c p fuel F si st = Ok st' -> Rc st st'.
  Proof.
    apply (mark_service_R matches c p Rc Rc_refl Rc_trans).
    - intros. apply Rc_mark_other; discriminate.
    - intros. apply Rc_mark_other; discriminate.
    - apply Rc_add_ext.
    - intros fuel' F' f s si' j fn a b. apply Rc_mark_function.
  Qed.

  (* ---------------- preProcess *)

  Definition cached (st : mstate) (G : bytes) : Prop := exists v, lookup G (ms_cache st) = Some v.

  Lemma cached_le a b G : le a b -> cached a G -> cached b G.
  Proof. intros [_ [_ L]] [v Hv]. exists v. apply L. exact Hv. Qed.

  Lemma inv_mark_include st F i : inv st -> inv (mark (NInclude F i) st).
  Proof. intros H. eapply inv_Rc; [exact H|]. apply Rc_mark_other; discriminate. Qed.

  Lemma pre_process_sound fuel : forall F st st' r,
    pre_process cp c p fuel F st = Ok (st', r) -> inv st ->
    inv st' /\ le st st' /\ (forall G, below p F G -> cached st' G).
  Proof.
    induction fuel as [|n IH]; intros F st st' r H Hinv; cbn [pre_process] in H; [discriminate|].
    apply bind_ok in H. destruct H as [[st1 ret] [H1 H]].
    pose proof (kept_part_cached _ _ _ _ _ _ _ _ H1) as Hc1.
    apply kept_part_sound in H1; [|exact Hwf | exact Hinv]. destruct H1 as [I1 L1].
    destruct (prog_file p F) as [f|] eqn:Hf; [|discriminate].
    assert (forall l, (forall ii, In ii l -> In ii (indexed (f_includes f))) ->
              forall a b, fold_res
                (fun (ii : nat * include) (acc : mstate * bool) =>
                   match include_file p f (Z.of_nat (fst ii)) with
                   | None => Crash
                   | Some (_, tn) =>
                     bind (pre_process cp c p n tn (fst acc)) (fun '(st', m) =>
                     Ok (if m then (mark (NInclude F (fst ii)) st', true) else (st', snd acc)))
                   end) l a = Ok b ->
              inv (fst a) ->
              inv (fst b) /\ le (fst a) (fst b) /\
              (forall i inc tn G, In (i, inc) l -> in_ref inc = Some tn -> below p tn G -> cached (fst b) G)) as Hl.
    { induction l as [|[i inc] l IHl]; intros Hsub a b Hfo Ha; cbn [fold_res] in Hfo.
      - injection Hfo as <-. split; [exact Ha|]. split; [apply le_refl | intros i inc tn G []].
      - apply bind_ok in Hfo. destruct Hfo as [a1 [Hf1 Hf2]].
        cbn [fst snd] in Hf1.
        destruct (include_file p f (Z.of_nat i)) as [[j tn]|] eqn:Ei; [|discriminate].
        apply bind_ok in Hf1. destruct Hf1 as [[s' m] [Hp Hr]].
        destruct (IH _ _ _ _ Hp Ha) as [I' [L' V']].
        assert (inv (fst a1) /\ le (fst a) (fst a1) /\ (forall G, below p tn G -> cached (fst a1) G)) as [Ia [La Va]].
        { destruct m; injection Hr as <-; cbn [fst].
          - split; [apply inv_mark_include; exact I'|]. split; [eapply le_trans; [exact L' | apply le_mark]|].
            intros G HG. eapply cached_le; [apply le_mark | apply V'; exact HG].
          - auto. }
        destruct (IHl (fun ii H => Hsub ii (or_intror H)) _ _ Hf2 Ia) as [Ib [Lb Vb]].
        split; [exact Ib|]. split; [eapply le_trans; eauto|].
        intros i' inc' tn' G [[= <- <-]|Hin] Hr' HG.
        + (* the include just processed *)
          pose proof (Hsub _ (or_introl eq_refl)) as Hi. apply indexed_In in Hi.
          destruct (include_file_inv _ _ _ _ _ Ei) as [_ [inc0 [Hn [Hr0 _]]]].
          unfold nth_include in Hn. destruct (Z.of_nat i <? 0)%Z; [discriminate|]. rewrite Nat2Z.id in Hn.
          rewrite Hi in Hn. injection Hn as <-. rewrite Hr' in Hr0. injection Hr0 as ->.
          eapply cached_le; [exact Lb | apply Va; exact HG].
        + eapply Vb; eauto. }
    destruct (Hl _ (fun ii H => H) _ _ H I1) as [Ib [Lb Vb]]. cbn [fst] in *.
    split; [exact Ib|]. split; [eapply le_trans; eauto|].
    intros G HG. inversion HG as [|F0 f0 inc G0 H0 Hf0 Hinc Hr0 Hb0]; subst.
    - eapply cached_le; [exact Lb|]. exists ret. exact Hc1.
    - rewrite Hf in Hf0. injection Hf0 as <-.
      apply In_nth_error in Hinc. destruct Hinc as [i Hi].
      eapply Vb; [apply indexed_In; exact Hi | exact Hr0 | exact Hb0].
  Qed.
End Sound4.


(* ==================================================================== soundness: without a filter a marked service has its methods and base service marked *)

Section Sound5.
  Variable matches : bytes -> bytes -> bool.
  Variable cp : bytes -> bool.
  Variable c : cfg.
  Variable p : program.
  Hypothesis Hnf : filtering c = false.

  (* without a filter a marked service has all its methods and its base service marked *)
  Definition svc_closed_at (st : mstate) (F : bytes) (si : nat) : Prop :=
    forall f s, prog_file p F = Some f -> nth_error (f_services f) si = Some s ->
      (forall j fn, nth_error (sv_functions s) j = Some fn -> marked st (NFunction F si j) = true) /\
      (forall b via, base_of p F s = Some (b, via) -> marked st b = true /\ forall m, In m via -> marked st m = true).

  Lemma svc_closed_at_le a b F si : le a b -> svc_closed_at a F si -> svc_closed_at b F si.
  Proof.
    intros L H f s Hf Hs. destruct (H f s Hf Hs) as [H1 H2]. split.
    - intros j fn Hj. eapply le_marked; [exact L|]. eauto.
    - intros b0 via Hb. destruct (H2 _ _ Hb) as [H3 H4]. split; [eapply le_marked; eauto|].
      intros m Hm. eapply le_marked; [exact L|]. auto.
  Qed.

  Definition svc_dfs (rec : bytes -> nat -> mstate -> res mstate) : Prop :=
    forall F si st st', rec F si st = Ok st' ->
      le st st' /\ marked st' (NService F si) = true /\
      (forall G gi, marked st' (NService G gi) = true -> marked st (NService G gi) = false -> svc_closed_at st' G gi).

  Lemma functions_loop fuel F f s si : prog_file p F = Some f -> nth_error (f_services f) si = Some s ->
    forall l, (forall jf, In jf l -> In jf (indexed (sv_functions s))) ->
    forall a b, fold_res (fun (jf : nat * function) (st0 : mstate) =>
                            mark_function p fuel F si (fst jf) (snd jf) st0) l a = Ok b ->
    le a b /\ same_services a b /\ (forall j fn, In (j, fn) l -> marked b (NFunction F si j) = true).
  Proof.
    intros Hf Hs. induction l as [|[j fn] l IH]; intros Hsub a b H; cbn [fold_res] in H.
    - injection H as <-. split; [apply le_refl|]. split; [apply same_services_refl | intros j fn []].
    - apply bind_ok in H. destruct H as [a1 [H1 H2]]. cbn [fst snd] in H1.
      apply IH in H2; [|intros; apply Hsub; right; assumption]. destruct H2 as [L2 [S2 M2]].
      pose proof (mark_function_le _ _ _ _ _ _ _ _ H1) as L1.
      pose proof (mark_function_services _ _ _ _ _ _ _ _ H1) as S1.
      split; [eapply le_trans; eauto|]. split; [eapply same_services_trans; eauto|].
      intros j' fn' [[= <- <-]|Hin]; [|eapply M2; eauto].
      eapply le_marked; [exact L2|].
      unfold mark_function in H1. apply bind_ok in H1. destruct H1 as [x1 [X1 X2]].
      apply bind_ok in X2. destruct X2 as [x2 [X2 X3]].
      apply mark_types_le in X1. apply mark_types_le in X2.
      assert (le x2 a1) as X4.
      { destruct (fn_void fn); [injection X3 as <-; apply le_refl | eapply mark_types_le; eauto]. }
      eapply le_marked; [exact X4|]. eapply le_marked; [exact X2|]. eapply le_marked; [exact X1|].
      apply marked_mark. auto.
  Qed.

  Lemma mark_service_body_svc rec fuel : svc_dfs rec -> svc_dfs (mark_service_body matches c p rec fuel).
  Proof.
    intros Hrec F si st st'. unfold mark_service_body.
    destruct (prog_file p F) as [f|] eqn:Hf; [|discriminate].
    destruct (nth_error (f_services f) si) as [s|] eqn:Hs; [|discriminate].
    destruct (marked st (NService F si)) eqn:Em.
    { intros [= <-]. split; [apply le_refl|]. split; [exact Em|]. intros G gi H1 H2. congruence. }
    rewrite Hnf. cbn [andb]. cbv beta iota.
    intros H. apply bind_ok in H. destruct H as [st1 [H1 H]].
    eapply functions_loop in H1; [|exact Hf | exact Hs | intros jf Hjf; exact Hjf].
    destruct H1 as [L1 [S1 M1]].
    apply bind_ok in H. destruct H as [st2 [H2 H]]. injection H2 as <-.
    assert (marked st1 (NService F si) = true) as Ms1.
    { eapply le_marked; [exact L1|]. apply marked_mark. auto. }
    assert (forall j fn, nth_error (sv_functions s) j = Some fn -> marked st1 (NFunction F si j) = true) as Fn1.
    { intros j fn Hj. eapply M1. apply indexed_In. exact Hj. }
    (* services marked so far: only (F, si) is new *)
    assert (forall G gi, marked st1 (NService G gi) = true -> marked st (NService G gi) = false ->
                         G = F /\ gi = si) as New1.
    { intros G gi H1' H0. apply S1 in H1'. apply marked_mark in H1'. destruct H1' as [[= -> ->]|H1']; [auto | congruence]. }
    (* the part after the loop, given the base service found *)
    assert (forall st3, le st1 st3 -> same_services st1 st3 ->
              (forall m, match sv_ref s with
                         | Some r => match include_file p f (ref_index r) with
                                     | Some (i, _) => m = NInclude F i
                                     | None => False
                                     end
                         | None => False
                         end -> marked st3 m = true) ->
              forall nb, base_service p F f s = Ok nb -> sv_extends s <> [] ->
              match nb with
              | Some (bn, bi, _) => rec bn bi st3
              | None => Ok st3
              end = Ok st' ->
              le st st' /\ marked st' (NService F si) = true /\
              (forall G gi, marked st' (NService G gi) = true -> marked st (NService G gi) = false ->
                            svc_closed_at st' G gi)) as Hfinish.
    { intros st3 L3 S3 Hinc nb Hb Hne Hr.
      assert (le st st1) as L01 by (eapply le_trans; [apply le_mark | exact L1]).
      destruct nb as [[[bn bi] b]|].
      - apply Hrec in Hr. destruct Hr as [L4 [M4 N4]].
        destruct (base_service_spec _ _ _ _ _ _ _ Hf Hne Hb) as [via [Hbo Hvia]].
        split; [eapply le_trans; [exact L01|]; eapply le_trans; eauto|].
        split; [eapply le_marked; [exact L4|]; eapply le_marked; [exact L3|]; exact Ms1|].
        intros G gi Hg H0. destruct (marked st3 (NService G gi)) eqn:E3.
        + apply S3 in E3. destruct (New1 _ _ E3 H0) as [-> ->].
          intros f' s' Hf' Hs'. rewrite Hf in Hf'. injection Hf' as <-. rewrite Hs in Hs'. injection Hs' as <-.
          split.
          * intros j fn Hj. eapply le_marked; [exact L4|]. eapply le_marked; [exact L3|]. eauto.
          * intros b0 via0 Hb0. rewrite Hbo in Hb0. injection Hb0 as <- <-. split; [exact M4|].
            intros m Hm. eapply le_marked; [exact L4|]. apply Hinc.
            destruct (sv_ref s) as [r|] eqn:Er.
            -- destruct (Hvia _ eq_refl) as [i [tn [Hi ->]]]. rewrite Hi. destruct Hm as [<-|[]]. reflexivity.
            -- (* no reference: via is empty *)
               unfold base_of in Hbo. rewrite Hf, Er in Hbo.
               destruct (sv_extends s); [discriminate|].
               destruct (find_index _ _) as [[? ?]|]; [|discriminate]. inversion Hbo; subst. destruct Hm.
        + apply N4; assumption.
      - injection Hr as <-.
        split; [eapply le_trans; eauto|]. split; [eapply le_marked; eauto|].
        intros G gi Hg H0. apply S3 in Hg. destruct (New1 _ _ Hg H0) as [-> ->].
        intros f' s' Hf' Hs'. rewrite Hf in Hf'. injection Hf' as <-. rewrite Hs in Hs'. injection Hs' as <-.
        split.
        + intros j fn Hj. eapply le_marked; [exact L3|]. eauto.
        + intros b0 via0 Hb0. rewrite (base_service_none _ _ _ _ Hf Hne Hb) in Hb0. discriminate. }
    destruct (negb (is_nil (sv_extends s))) eqn:Ene; cbn [andb] in H.
    2:{ injection H as <-. apply negb_false_iff in Ene.
        split; [eapply le_trans; [apply le_mark | exact L1]|]. split; [exact Ms1|].
        intros G gi Hg H0. destruct (New1 _ _ Hg H0) as [-> ->].
        intros f' s' Hf' Hs'. rewrite Hf in Hf'. injection Hf' as <-. rewrite Hs in Hs'. injection Hs' as <-.
        split; [exact Fn1|]. intros b0 via0 Hb0. unfold base_of in Hb0.
        destruct (sv_extends s) eqn:Ee; [discriminate Hb0 | cbn in Ene; discriminate Ene]. }
    apply negb_true_iff, is_nil_false in Ene.
    rewrite Ms1 in H.
    destruct (sv_ref s) as [r|] eqn:Er.
    - apply bind_ok in H. destruct H as [st3 [H3 H]].
      apply bind_ok in H. destruct H as [nb [Hb H]].
      unfold mark_service_include in H3. rewrite Er in H3.
      destruct (include_file p f (ref_index r)) as [[i tn]|] eqn:Ei; [|discriminate]. injection H3 as <-.
      eapply Hfinish with (st3 := mark (NInclude F i) st1); [apply le_mark | apply same_services_mark; intros ? ?; discriminate | | exact Hb | exact Ene | exact H].
      intros m Hm. subst m. apply marked_mark. auto.
    - apply bind_ok in H. destruct H as [nb [Hb H]].
      eapply Hfinish; [apply le_refl | apply same_services_refl | | exact Hb | exact Ene | exact H].
      intros m [].
  Qed.

  Lemma mark_service_svc fuel : svc_dfs (mark_service matches c p fuel).
  Proof.
    induction fuel as [|n IH]; cbn.
    - intros F si st st' H. discriminate.
    - apply mark_service_body_svc. exact IH.
  Qed.
End Sound5.


(* ==================================================================== soundness: the state markAST ends in *)

Lemma In_lookup {A} (l : list (bytes * A)) k v : NoDup (map fst l) -> In (k, v) l -> lookup k l = Some v.
Proof.
  induction l as [|[k' v'] l IH]; intros Hnd Hin; [destruct Hin|].
  cbn in *. inversion Hnd as [|? ? Hn Hnd']; subst. destruct Hin as [[= -> ->]|Hin].
  - rewrite beqb_refl. reflexivity.
  - destruct (beqb k k') eqn:E; [|apply IH; assumption].
    apply beqb_true in E. subst. exfalso. apply Hn. apply in_map_iff. exists (k', v). auto.
Qed.

Section NoServices.
  Variable cp : bytes -> bool.
  Variable c : cfg.
  Variable p : program.

  Definition mark_types_services := mark_types_R p same_services same_services_refl same_services_trans same_services_mark_ty.
  Definition mark_sl_services := mark_sl_R p same_services same_services_refl same_services_trans same_services_mark_ty.

  Lemma same_services_cache F v st : same_services st (add_cache F v st).
  Proof. intros G gi H. exact H. Qed.

  Lemma kept_part_services fuel F st r : kept_part cp c p fuel F st = Ok r -> same_services st (fst r).
  Proof.
    unfold kept_part. destruct (lookup F (ms_cache st)); [intros [= <-]; apply same_services_refl|].
    destruct (prog_file p F) as [f|]; [|discriminate].
    intros H. apply bind_ok in H. destruct H as [st1 [H1 H]].
    apply bind_ok in H. destruct H as [st2 [H2 H]].
    apply bind_ok in H. destruct H as [[st3 r3] [H3 H]]. injection H as <-. cbn [fst].
    apply mark_types_services in H1. apply mark_types_services in H2.
    eapply same_services_trans; [exact H1|]. eapply same_services_trans; [exact H2|].
    eapply same_services_trans; [|apply same_services_cache].
    assert (forall k l a b, fold_res
       (fun (is : nat * struct_like) (acc : mstate * bool) =>
          if negb (marked (fst acc) (NStructLike F k (fst is))) && check_preserve cp c F k (snd is)
          then bind (mark_sl p fuel F k (fst is) (snd is) (fst acc)) (fun st' => Ok (st', true))
          else Ok acc) l a = Ok b -> same_services (fst a) (fst b)) as Hc.
    { intros k l. apply fold_res_rel with (R := fun a b => same_services (fst a) (fst b));
        [intros; apply same_services_refl | intros ? ? ?; apply same_services_trans|].
      intros is a b _. destruct (_ && _); [|intros [= <-]; apply same_services_refl].
      intros H4. apply bind_ok in H4. destruct H4 as [st' [H4 H5]]. injection H5 as <-.
      apply mark_sl_services in H4. exact H4. }
    destruct (c_force c); [injection H3 as <- <-; apply same_services_refl|].
    apply bind_ok in H3. destruct H3 as [a1 [Ha1 H3]].
    apply bind_ok in H3. destruct H3 as [a2 [Ha2 H3]].
    apply Hc in Ha1. apply Hc in Ha2. apply Hc in H3. cbn [fst] in *.
    eapply same_services_trans; [exact Ha1|]. eapply same_services_trans; eauto.
  Qed.

  Lemma pre_process_services fuel : forall F st r, pre_process cp c p fuel F st = Ok r -> same_services st (fst r).
  Proof.
    induction fuel as [|n IH]; intros F st r H; cbn [pre_process] in H; [discriminate|].
    apply bind_ok in H. destruct H as [[st1 ret] [H1 H]].
    apply kept_part_services in H1. cbn [fst] in H1.
    destruct (prog_file p F) as [f|]; [|discriminate].
    eapply same_services_trans; [exact H1|].
    change (same_services (fst (st1, ret)) (fst r)). revert H.
    apply fold_res_rel with (R := fun a b => same_services (fst a) (fst b));
      [intros; apply same_services_refl | intros ? ? ?; apply same_services_trans|].
    intros ii a b _. destruct (include_file p f _) as [[i tn]|]; [|discriminate].
    intros H. apply bind_ok in H. destruct H as [[s' m] [H2 H]].
    apply IH in H2. cbn [fst] in H2. injection H as <-.
    destruct m; cbn [fst]; [|exact H2].
    eapply same_services_trans; [exact H2|]. apply same_services_mark. intros ? ?; discriminate.
  Qed.
End NoServices.

Section Sound6.
  Variable matches : bytes -> bytes -> bool.
  Variable cp : bytes -> bool.
  Variable c : cfg.
  Variable p : program.
  Hypothesis Hwf : types_wf p.
  Hypothesis Hnd : NoDup (map fst p).
  Hypothesis Hbelow : forall F f, prog_file p F = Some f -> below p (main_name p) F.

  Definition services_closed (st : mstate) : Prop :=
    filtering c = false -> forall G gi, marked st (NService G gi) = true -> svc_closed_at p st G gi.

  (* the state markAST ends in *)
  Record final_ok (fin : mstate) : Prop := {
    fo_inv : inv cp c p fin;
    fo_cached : forall F f, prog_file p F = Some f -> cached fin F;
    fo_services : services_closed fin;
    fo_main : filtering c = false -> forall f i, prog_main p = Some f -> i < List.length (f_services f) ->
              marked fin (NService (main_name p) i) = true }.

  Lemma inv_ms0 : inv cp c p ms0.
  Proof. split; [intros n H; discriminate | intros F v H; discriminate]. Qed.

  Theorem mark_ast_final fuel fin : mark_ast matches cp c p fuel = Ok fin -> final_ok fin.
  Proof.
    intros H. unfold mark_ast in H.
    destruct (prog_main p) as [f|] eqn:Hm; [|discriminate].
    apply bind_ok in H. destruct H as [[st1 r1] [H1 H]].
    apply bind_ok in H. destruct H as [st2 [H2 H]].
    apply bind_ok in H. destruct H as [[st3 r3] [H3 H]]. injection H as <-. cbn [fst].
    assert (le st1 st2) as L12.
    { revert H2. apply fold_res_rel; [apply le_refl | apply le_trans|].
      intros is a b _. apply mark_service_le. }
    destruct (pre_process_cached _ _ _ _ _ _ _ _ H1) as [v Hv].
    assert (st3 = st2) as ->.
    { unfold kept_part in H3. destruct L12 as [_ [_ L]]. rewrite (L _ _ Hv) in H3. congruence. }
    pose proof H1 as HP1.
    apply pre_process_sound in H1; [|exact Hwf | apply inv_ms0]. destruct H1 as [I1 [_ V1]].
    (* the loop over the services of the main file *)
    assert (forall l, (forall is, In is l -> In is (indexed (f_services f))) ->
              forall a b, fold_res (fun (is : nat * service) => mark_service matches c p fuel (main_name p) (fst is)) l a = Ok b ->
              inv cp c p a -> services_closed a ->
              inv cp c p b /\ services_closed b /\ le a b /\
              (filtering c = false -> forall i s, In (i, s) l -> marked b (NService (main_name p) i) = true)) as Hl.
    { induction l as [|[i s] l IH]; intros Hsub a b Hfo Ia Sa; cbn [fold_res] in Hfo.
      - injection Hfo as <-. split; [exact Ia|]. split; [exact Sa|]. split; [apply le_refl | intros _ i s []].
      - apply bind_ok in Hfo. destruct Hfo as [a1 [Hf1 Hf2]]. cbn [fst] in Hf1.
        assert (Rc p a a1) as R1 by (eapply mark_service_Rc; [exact Hwf | exact Hf1]).
        assert (services_closed a1 /\ (filtering c = false -> marked a1 (NService (main_name p) i) = true)) as [S1 M1].
        { split.
          - intros Hnf G gi Hg. destruct (mark_service_svc matches c p Hnf fuel _ _ _ _ Hf1) as [L [_ N]].
            destruct (marked a (NService G gi)) eqn:E.
            + eapply svc_closed_at_le; [exact L|]. apply Sa; assumption.
            + apply N; assumption.
          - intros Hnf. destruct (mark_service_svc matches c p Hnf fuel _ _ _ _ Hf1) as [_ [Mk _]]. exact Mk. }
        destruct (IH (fun is H => Hsub is (or_intror H)) _ _ Hf2 (inv_Rc cp c p _ _ Ia R1) S1) as [Ib [Sb [Lb Mb]]].
        split; [exact Ib|]. split; [exact Sb|]. split; [eapply le_trans; [apply R1 | exact Lb]|].
        intros Hnf i' s' [[= <- <-]|Hin]; [eapply le_marked; [exact Lb|]; auto | eapply Mb; eauto]. }
    destruct (Hl _ (fun is H => H) _ _ H2 I1) as [I2 [S2 [_ M2]]].
    { intros Hnf G gi Hg.
      (* no service is marked before the loop *)
      exfalso. apply (pre_process_services _ _ _ _ _ _ _ HP1) in Hg. discriminate. }
    split.
    - exact I2.
    - intros F f' HF. eapply cached_le; [exact L12|]. apply V1. eapply Hbelow; eauto.
    - exact S2.
    - intros Hnf f' i Hf' Hi. rewrite Hm in Hf'. injection Hf' as <-.
      destruct (nth_error (f_services f) i) as [s|] eqn:Es; [|apply nth_error_None in Es; lia].
      eapply M2; [exact Hnf | apply indexed_In; exact Es].
  Qed.
End Sound6.


(* ==================================================================== soundness: needed implies marked *)

Section Sound7.
  Variable matches : bytes -> bytes -> bool.
  Variable cp : bytes -> bool.
  Variable c : cfg.
  Variable p : program.
  Hypothesis Hwf : types_wf p.
  Hypothesis Hnd : NoDup (map fst p).
  Hypothesis Hbelow : forall F f, prog_file p F = Some f -> below p (main_name p) F.

  Lemma base_of_via F s b via : base_of p F s = Some (b, via) -> forall m, In m via -> exists G i, m = NInclude G i.
  Proof.
    unfold base_of. destruct (sv_extends s); [discriminate|].
    destruct (prog_file p F) as [f|]; [|discriminate].
    destruct (sv_ref s) as [r|].
    - destruct (include_file p f (ref_index r)) as [[ii tn]|]; [|discriminate].
      destruct (prog_file p tn); [|discriminate].
      destruct (find_index _ _) as [[i x]|]; [|discriminate].
      intros [= <- <-] m [<-|[]]. eauto.
    - destruct (find_index _ _) as [[i x]|]; [|discriminate]. intros [= <- <-] m [].
  Qed.

  Theorem needed_marked fuel fin :
    mark_ast matches cp c p fuel = Ok fin ->
    forall n, needed cp c p (kept_methods c fin) n -> needs_mark n = true ->
      marked fin n = true \/ (no_filter c = false /\ exists F i, n = NInclude F i).
  Proof.
    intros Hm. pose proof (mark_ast_final matches cp c p Hwf Hbelow fuel fin Hm) as [[Hcl Hrd] Hca Hsv Hmain].
    assert (forall F f, prog_file p F = Some f -> roots_marked cp c p fin F) as Hroots.
    { intros F f HF. destruct (Hca _ _ HF) as [v Hv]. eapply Hrd; eauto. }
    induction 1 as [n Hn | n m Hn IH Hm']; intros Hnm.
    - (* roots *)
      unfold roots in Hn. apply in_app_iff in Hn. destruct Hn as [Hn|Hn].
      { unfold kept_methods in Hn. destruct (no_filter c); [destruct Hn|].
        apply filter_In in Hn. left. apply marked_In. tauto. }
      apply in_app_iff in Hn. destruct Hn as [Hn|Hn].
      { destruct (no_filter c) eqn:Enf; [|destruct Hn]. left.
        unfold main_service_roots in Hn. destruct p as [|[mn mf] rest] eqn:Ep; [destruct Hn|].
        apply in_map_iff in Hn. destruct Hn as [i [<- Hi]]. apply in_seq in Hi.
        apply (Hmain (f_equal negb Enf) mf i); [reflexivity | cbn in Hi; lia]. }
      apply in_flat_map in Hn. destruct Hn as [[F f] [HF Hn]].
      pose proof (In_lookup _ _ _ Hnd HF) as HF'. destruct (Hroots _ _ HF' f HF') as [R1 [R2 R3]].
      unfold file_roots in Hn. cbn [fst snd] in Hn.
      apply in_app_iff in Hn. destruct Hn as [Hn|Hn].
      { apply in_map_iff in Hn. destruct Hn as [i [<- _]]. discriminate. }
      apply in_app_iff in Hn. destruct Hn as [Hn|Hn].
      { apply in_map_iff in Hn. destruct Hn as [i [<- _]]. discriminate. }
      apply in_app_iff in Hn. destruct Hn as [Hn|Hn]; [left; apply R1; assumption|].
      apply in_flat_map in Hn. destruct Hn as [k [_ Hn]]. apply in_map_iff in Hn. destruct Hn as [[i s] [<- Hn]].
      apply filter_In in Hn. destruct Hn as [Hi Hp]. apply indexed_In in Hi. left. eapply R3; eauto.
    - (* edges *)
      destruct n as [F si|F si j|F k i|F i|F i|F i]; cbn [succs] in Hm'.
      + (* service *)
        unfold succ_service in Hm'.
        destruct (prog_file p F) as [f|] eqn:HF; [|destruct Hm'].
        destruct (nth_error (f_services f) si) as [s|] eqn:Hs; [|destruct Hm'].
        destruct (no_filter c) eqn:Enf.
        * destruct (IH eq_refl) as [Mk|[E _]]; [|discriminate]. left.
          destruct (Hsv (f_equal negb Enf) _ _ Mk _ _ HF Hs) as [Hfn Hb].
          apply in_app_iff in Hm'. destruct Hm' as [Hm'|Hm'].
          -- apply in_map_iff in Hm'. destruct Hm' as [j [<- Hj]]. apply in_seq in Hj.
             destruct (nth_error (sv_functions s) j) as [fn|] eqn:Ej; [eapply Hfn; eauto|].
             apply nth_error_None in Ej. cbn in Hj. lia.
          -- destruct (base_of p F s) as [[b via]|] eqn:Eb; [|destruct Hm'].
             destruct (Hb _ _ eq_refl) as [Mb Mv]. destruct Hm' as [<-|Hm']; auto.
        * right. split; [reflexivity|].
          destruct (base_of p F s) as [[b via]|] eqn:Eb; [|destruct Hm'].
          destruct (existsb _ _); [|destruct Hm']. eapply base_of_via; eauto.
      + (* function *)
        destruct (IH eq_refl) as [Mk|[_ [G [i E]]]]; [|discriminate]. left.
        specialize (Hcl _ Mk). cbn in Hcl. unfold succ_function in Hm'.
        destruct (prog_file p F) as [f|] eqn:HF; [|destruct Hm'].
        destruct (nth_error (f_services f) si) as [s|] eqn:Hs; [|destruct Hm'].
        destruct (nth_error (sv_functions s) j) as [fn|] eqn:Hj; [|destruct Hm'].
        eapply Hcl; eauto.
      + (* struct-like *)
        destruct (IH eq_refl) as [Mk|[_ [G [j E]]]]; [|discriminate]. left.
        specialize (Hcl _ Mk). cbn in Hcl. unfold succ_struct_like in Hm'.
        destruct (prog_file p F) as [f|] eqn:HF; [|destruct Hm'].
        destruct (nth_error (sl_list k f) i) as [s|] eqn:Hs; [|destruct Hm'].
        eapply Hcl; eauto.
      + destruct Hm'.
      + (* typedef: always kept, its target is a root of the marking *)
        left. unfold succ_typedef in Hm'.
        destruct (prog_file p F) as [f|] eqn:HF; [|destruct Hm'].
        destruct (nth_error (f_typedefs f) i) as [d|] eqn:Hd; [|destruct Hm'].
        destruct (Hroots _ _ HF f HF) as [_ [R2 _]]. apply R2; [|exact Hnm].
        unfold tys_nodes. apply in_flat_map. exists (td_type d). split; [|exact Hm'].
        apply in_map. eapply nth_error_In; eauto.
      + destruct Hm'.
  Qed.
End Sound7.


(* ==================================================================== connectivity: new marks lie in files reached over marked includes *)

Definition node_file (n : node) : bytes :=
  match n with
  | NService f _ | NFunction f _ _ | NStructLike f _ _ | NEnum f _ | NTypedef f _ | NInclude f _ => f
  end.
Definition def_kind (n : node) : bool := match n with NInclude _ _ => false | _ => true end.

Section Paths.
  Variable p : program.

  (* a chain of marked includes *)
  Inductive pathm (st : mstate) : bytes -> bytes -> Prop :=
  | pm_refl F : pathm st F F
  | pm_step G g i tn F :
      prog_file p G = Some g -> include_file p g (Z.of_nat i) = Some (i, tn) ->
      marked st (NInclude G i) = true -> pathm st tn F -> pathm st G F.

  Lemma pathm_le a b G F : le a b -> pathm a G F -> pathm b G F.
  Proof. intros L H. induction H; [apply pm_refl | eapply pm_step; eauto; eapply le_marked; eauto]. Qed.
  Lemma pathm_trans st A B C : pathm st A B -> pathm st B C -> pathm st A C.
  Proof. intros H1 H2. induction H1; [exact H2 | eapply pm_step; eauto]. Qed.

  (* the new marks of definitions lie in files reached from F over marked includes *)
  Definition newpath (a b : mstate) (F : bytes) : Prop :=
    forall x, def_kind x = true -> marked b x = true -> marked a x = false -> pathm b F (node_file x).

  Lemma newpath_refl a F : newpath a a F.
  Proof. intros x _ H1 H2. congruence. Qed.
  Lemma newpath_trans a b d F : le b d -> newpath a b F -> newpath b d F -> newpath a d F.
  Proof.
    intros L H1 H2 x Hk Hd Ha. destruct (marked b x) eqn:Eb.
    - eapply pathm_le; [exact L|]. apply H1; assumption.
    - apply H2; assumption.
  Qed.
  Lemma newpath_mark_here a n : node_file n = node_file n -> forall F, node_file n = F -> newpath a (mark n a) F.
  Proof.
    intros _ F <- x Hk Hb Ha. apply marked_false_mark in Hb; [|exact Ha]. subst x. apply pm_refl.
  Qed.
  Lemma newpath_mark_include a G i F : newpath a (mark (NInclude G i) a) F.
  Proof.
    intros x Hk Hb Ha. apply marked_false_mark in Hb; [|exact Ha]. subst x. discriminate.
  Qed.
  (* going through an include that is marked *)
  Lemma newpath_via a b F g i tn : le a b ->
    prog_file p F = Some g -> include_file p g (Z.of_nat i) = Some (i, tn) -> marked b (NInclude F i) = true ->
    newpath a b tn -> newpath a b F.
  Proof.
    intros L Hg Hi Hm H x Hk Hb Ha. eapply pm_step; eauto.
  Qed.

  Definition reach1 (rec : bytes -> ty -> mstate -> res mstate) : Prop :=
    forall F t st st', rec F t st = Ok st' -> newpath st st' F.

  Lemma mark_types_with_reach rec F ts : reach1 rec -> (forall F t st st', rec F t st = Ok st' -> le st st') ->
    forall st st', mark_types_with rec F ts st = Ok st' -> newpath st st' F.
  Proof.
    intros Hrec Hmono. unfold mark_types_with.
    assert (forall l a b, fold_res (rec F) l a = Ok b -> le a b /\ newpath a b F) as Hin.
    { induction l as [|t l IH]; intros a b H; cbn [fold_res] in H.
      - injection H as <-. split; [apply le_refl | apply newpath_refl].
      - apply bind_ok in H. destruct H as [a1 [H1 H2]].
        pose proof (Hmono _ _ _ _ H1) as L1. apply Hrec in H1. apply IH in H2. destruct H2 as [L2 N2].
        split; [eapply le_trans; eauto | eapply newpath_trans; eauto]. }
    induction ts as [|t ts IH]; intros st st' H; cbn [fold_res] in H.
    - injection H as <-. apply newpath_refl.
    - apply bind_ok in H. destruct H as [a1 [H1 H2]].
      apply Hin in H1. destruct H1 as [L1 N1].
      assert (le a1 st') as L2.
      { revert H2. apply fold_res_rel; [apply le_refl | apply le_trans|].
        intros t' a b _ Hf. apply Hin in Hf. tauto. }
      eapply newpath_trans; [exact L2 | exact N1 | apply IH; exact H2].
  Qed.

  Lemma include_file_of_nat g z i tn : include_file p g z = Some (i, tn) -> include_file p g (Z.of_nat i) = Some (i, tn).
  Proof.
    intros H. pose proof H as H'. apply include_file_inv in H'. destruct H' as [-> [inc [Hn _]]].
    unfold nth_include in Hn. destruct (z <? 0)%Z eqn:Ez; [discriminate|].
    apply Z.ltb_ge in Ez. rewrite Z2Nat.id by exact Ez. exact H.
  Qed.

  Lemma mark_named_body_reach rec : reach1 rec -> (forall F t st st', rec F t st = Ok st' -> le st st') ->
    reach1 (mark_named_body p rec).
  Proof.
    intros Hrec Hmono F t st st'. unfold mark_named_body.
    destruct (prog_file p F) as [f|] eqn:Hf; [|discriminate].
    intros H. apply bind_ok in H. destruct H as [[bn st1] [Hb H]].
    (* the file the type points into is reached over a marked include *)
    assert (le st st1 /\ newpath st st1 F /\ (forall b, le st1 b -> pathm b F bn)) as [L1 [N1 P1]].
    { destruct (ty_ref t) as [r|].
      - destruct (include_file p f (ref_index r)) as [[i tn]|] eqn:Ei; [|discriminate].
        injection Hb as <- <-. split; [apply le_mark|]. split; [apply newpath_mark_include|].
        intros b Lb. eapply pm_step; [exact Hf | eapply include_file_of_nat; exact Ei | | apply pm_refl].
        eapply le_marked; [exact Lb|]. apply marked_mark. auto.
      - injection Hb as <- <-. split; [apply le_refl|]. split; [apply newpath_refl|]. intros; apply pm_refl. }
    destruct (prog_file p bn) as [bf|] eqn:Hbf; [|discriminate].
    assert (forall st2, le st1 st2 -> newpath st1 st2 bn -> newpath st st2 F) as Hfin.
    { intros st2 L2 N2. eapply newpath_trans; [exact L2 | exact N1|].
      intros x Hk Hb2 Ha. eapply pathm_trans; [apply P1; exact L2 | apply N2; assumption]. }
    destruct (ty_is_typedef t).
    - unfold mark_typedef_with in H.
      destruct (find_index _ _) as [[i d]|]; [|injection H as <-; apply Hfin; [apply le_refl | apply newpath_refl]].
      destruct (marked st1 (NTypedef bn i)) eqn:Em; [injection H as <-; apply Hfin; [apply le_refl | apply newpath_refl]|].
      pose proof (mark_types_with_R le le_refl le_trans rec bn [td_type d] Hmono _ _ H) as L2.
      apply mark_types_with_reach in H; [|exact Hrec | exact Hmono].
      apply Hfin; [eapply le_trans; [apply le_mark | exact L2]|].
      eapply newpath_trans; [exact L2 | apply newpath_mark_here; reflexivity | exact H].
    - destruct (category_sl_kind (ty_category t)) as [k|].
      + destruct (find_index _ _) as [[i s]|]; [|injection H as <-; apply Hfin; [apply le_refl | apply newpath_refl]].
        unfold mark_sl_with in H.
        destruct (marked st1 (NStructLike bn k i)); [injection H as <-; apply Hfin; [apply le_refl | apply newpath_refl]|].
        pose proof (mark_types_with_R le le_refl le_trans rec bn _ Hmono _ _ H) as L2.
        apply mark_types_with_reach in H; [|exact Hrec | exact Hmono].
        apply Hfin; [eapply le_trans; [apply le_mark | exact L2]|].
        eapply newpath_trans; [exact L2 | apply newpath_mark_here; reflexivity | exact H].
      + destruct (ty_category t); try (injection H as <-; apply Hfin; [apply le_refl | apply newpath_refl]).
        destruct (find_index _ _) as [[i e]|]; injection H as <-.
        * apply Hfin; [apply le_mark | apply newpath_mark_here; reflexivity].
        * apply Hfin; [apply le_refl | apply newpath_refl].
  Qed.

  Lemma mark_named_reach fuel : reach1 (mark_named p fuel).
  Proof.
    induction fuel as [|n IH]; cbn.
    - intros F t st st' H. discriminate.
    - apply mark_named_body_reach; [exact IH | apply mark_named_le].
  Qed.

  Lemma mark_types_reach fuel F ts st st' : mark_types p fuel F ts st = Ok st' -> newpath st st' F.
  Proof. apply mark_types_with_reach; [apply mark_named_reach | apply mark_named_le]. Qed.

  Lemma mark_sl_reach fuel F k i s st st' : mark_sl p fuel F k i s st = Ok st' -> newpath st st' F.
  Proof.
    unfold mark_sl, mark_sl_with. destruct (marked st _); [intros [= <-]; apply newpath_refl|].
    intros H. pose proof (mark_types_le _ _ _ _ _ _ H) as L. apply mark_types_reach in H.
    eapply newpath_trans; [exact L | apply newpath_mark_here; reflexivity | exact H].
  Qed.

  Lemma mark_function_reach fuel F si j fn st st' : mark_function p fuel F si j fn st = Ok st' -> newpath st st' F.
  Proof.
    unfold mark_function. intros H.
    apply bind_ok in H. destruct H as [st1 [H1 H]].
    apply bind_ok in H. destruct H as [st2 [H2 H]].
    pose proof (mark_types_le _ _ _ _ _ _ H1) as L1. pose proof (mark_types_le _ _ _ _ _ _ H2) as L2.
    apply mark_types_reach in H1. apply mark_types_reach in H2.
    assert (le st2 st' /\ newpath st2 st' F) as [L3 N3].
    { destruct (fn_void fn); [injection H as <-; split; [apply le_refl | apply newpath_refl]|].
      split; [eapply mark_types_le; eauto | eapply mark_types_reach; eauto]. }
    eapply newpath_trans with (b := mark (NFunction F si j) st);
      [eapply le_trans; [exact L1|]; eapply le_trans; eauto | apply newpath_mark_here; reflexivity|].
    eapply newpath_trans with (b := st1); [eapply le_trans; eauto | exact H1|].
    eapply newpath_trans with (b := st2); eauto.
  Qed.
End Paths.


(* ==================================================================== connectivity: traceExtendMethod, markService *)

Section Paths2.
  Variable matches : bytes -> bytes -> bool.
  Variable cp : bytes -> bool.
  Variable c : cfg.
  Variable p : program.

  Notation pathm := (pathm p).
  Notation newpath := (newpath p).

  (* no definition is newly marked *)
  Definition nonew (a b : mstate) : Prop := forall x, def_kind x = true -> marked b x = true -> marked a x = true.
  Lemma nonew_refl a : nonew a a. Proof. intros x _ H. exact H. Qed.
  Lemma nonew_trans a b d : nonew a b -> nonew b d -> nonew a d.
  Proof. intros H1 H2 x Hk Hd. auto. Qed.
  Lemma nonew_newpath a b F : nonew a b -> newpath a b F.
  Proof. intros H x Hk Hb Ha. rewrite (H x Hk Hb) in Ha. discriminate. Qed.
  Lemma nonew_mark_include a G i : nonew a (mark (NInclude G i) a).
  Proof. intros x Hk H. apply marked_mark in H. destruct H as [->|H]; [discriminate | exact H]. Qed.
  Lemma nonew_add_ext a F i : nonew a (add_ext F i a).
  Proof. intros x _ H. exact H. Qed.

  (* where the base service lives, relative to the file of the service *)
  Lemma base_service_file F f s bn bi b :
    base_service p F f s = Ok (Some (bn, bi, b)) ->
    match sv_ref s with
    | None => bn = F
    | Some r => exists i, include_file p f (ref_index r) = Some (i, bn)
    end.
  Proof.
    unfold base_service. destruct (sv_ref s) as [r|].
    - destruct (include_file p f (ref_index r)) as [[i tn]|]; [|discriminate].
      destruct (prog_file p tn); [|discriminate].
      destruct (find_index _ _) as [[j x]|]; [|discriminate]. intros [= <- <- <-]. eauto.
    - destruct (find_index _ _) as [[j x]|]; [|discriminate]. intros [= <- <- <-]. reflexivity.
  Qed.

  (* markInclude for the base service: the file of the base service is then reached *)
  Lemma mark_service_include_path F f s a b bn bi bs :
    prog_file p F = Some f -> mark_service_include p F f s a = Ok b ->
    base_service p F f s = Ok (Some (bn, bi, bs)) ->
    le a b /\ nonew a b /\ forall d, le b d -> pathm d F bn.
  Proof.
    intros Hf H Hb. apply base_service_file in Hb. unfold mark_service_include in H.
    destruct (sv_ref s) as [r|].
    - destruct Hb as [i Hi]. rewrite Hi in H. injection H as <-.
      split; [apply le_mark|]. split; [apply nonew_mark_include|].
      intros d Ld. eapply pm_step; [exact Hf | eapply include_file_of_nat; exact Hi | | apply pm_refl].
      eapply le_marked; [exact Ld|]. apply marked_mark. auto.
    - injection H as <-. subst bn. split; [apply le_refl|]. split; [apply nonew_refl|]. intros; apply pm_refl.
  Qed.

  Lemma mark_service_include_nonew F f s a b : mark_service_include p F f s a = Ok b -> le a b /\ nonew a b.
  Proof.
    unfold mark_service_include. destruct (sv_ref s) as [r|]; [|intros [= <-]; split; [apply le_refl | apply nonew_refl]].
    destruct (include_file p f (ref_index r)) as [[i tn]|]; [|discriminate].
    intros [= <-]. split; [apply le_mark | apply nonew_mark_include].
  Qed.

  (* loops over an accumulator with a flag that records whether anything was marked *)
  Definition step_ok (F : bytes) (acc r : mstate * bool) : Prop :=
    le (fst acc) (fst r) /\ newpath (fst acc) (fst r) F /\
    (snd r = false -> nonew (fst acc) (fst r) /\ snd acc = false).

  Lemma flag_loop {A} F (f : A -> mstate * bool -> res (mstate * bool)) l :
    (forall x acc r, In x l -> f x acc = Ok r -> step_ok F acc r) ->
    forall acc r, fold_res f l acc = Ok r -> step_ok F acc r.
  Proof.
    induction l as [|x l IH]; intros Hstep acc r Hf0; cbn [fold_res] in Hf0.
    - injection Hf0 as <-. split; [apply le_refl|]. split; [apply newpath_refl|].
      intros E. split; [apply nonew_refl | exact E].
    - apply bind_ok in Hf0. destruct Hf0 as [a1 [Hx Hr]].
      apply Hstep in Hx; [|left; reflexivity].
      apply IH in Hr; [|intros; eapply Hstep; eauto; right; assumption].
      destruct Hx as [La [Na Za]]. destruct Hr as [Lb [Nb Zb]].
      split; [eapply le_trans; eauto|]. split; [eapply newpath_trans; eauto|].
      intros E. destruct (Zb E) as [Zb1 Zb2]. destruct (Za Zb2) as [Za1 Za2].
      split; [eapply nonew_trans; eauto | exact Za2].
  Qed.

  (* ---------------- traceExtendMethod *)

  Definition trace_post (rec : list bytes -> bytes -> nat -> mstate -> res (mstate * bool)) : Prop :=
    forall fa F si st st' ret, rec fa F si st = Ok (st', ret) ->
      le st st' /\ newpath st st' F /\ (ret = false -> nonew st st').

  Lemma trace_body_post rec fuel : trace_post rec -> trace_post (trace_body matches c p rec fuel).
  Proof.
    intros Hrec fa F si st st' ret. unfold trace_body.
    destruct (prog_file p F) as [f|] eqn:Hf; [|discriminate].
    destruct (nth_error (f_services f) si) as [s|] eqn:Hs; [|discriminate].
    intros H. apply bind_ok in H. destruct H as [[st1 ret1] [H1 H]].
    (* the loop over own functions *)
    assert (step_ok F (st, false) (st1, ret1)) as X1.
    { eapply flag_loop; [|exact H1]. intros jf acc r _. apply flag_loop. intros father acc' r' _. apply flag_loop.
      intros pat a2 r2 _. destruct (matches _ _).
      - intros Hm. apply bind_ok in Hm. destruct Hm as [s' [Hm Hr]]. injection Hr as <-. unfold step_ok. cbn [fst snd].
        pose proof (mark_function_le _ _ _ _ _ _ _ _ Hm) as Lm. apply mark_function_reach in Hm.
        split; [eapply le_trans; [apply le_mark | exact Lm]|].
        split; [eapply newpath_trans; [exact Lm | apply newpath_mark_here; reflexivity | exact Hm] | discriminate].
      - intros [= <-]. split; [apply le_refl|]. split; [apply newpath_refl|].
        intros E. split; [apply nonew_refl | exact E]. }
    destruct X1 as [L1 [N1 Z1]]. cbn [fst snd] in L1, N1, Z1.
    apply bind_ok in H. destruct H as [[st3 ret3] [H3 H]].
    (* the end: mark the service and its include when anything below matched *)
    assert (forall (Hpath : ret3 = true -> forall d, le st' d -> True), True) as _ by auto.
    destruct (is_nil (sv_extends s)) eqn:Enil.
    - injection H3 as <- <-. destruct ret1.
      + apply bind_ok in H. destruct H as [st4 [H4 H]]. injection H as <- <-.
        apply mark_service_include_nonew in H4. destruct H4 as [L4 Z4].
        split; [eapply le_trans; [exact L1|]; eapply le_trans; [apply le_mark | exact L4]|].
        split; [|discriminate].
        intros x Hk Hx H0. destruct (marked st1 x) eqn:E1.
        * eapply pathm_le; [eapply le_trans; [apply le_mark | exact L4]|]. apply N1; assumption.
        * apply Z4 in Hx; [|exact Hk]. apply marked_false_mark in Hx; [|exact E1]. subst x. apply pm_refl.
      + injection H as <- <-. split; [exact L1|]. split; [exact N1|]. intros _. apply Z1. reflexivity.
    - apply bind_ok in H3. destruct H3 as [nb [Hb H3]].
      destruct nb as [[[bn bi] bs]|]; [|discriminate].
      apply bind_ok in H3. destruct H3 as [[st2 back] [H2 H3]]. injection H3 as <- <-.
      apply Hrec in H2. destruct H2 as [L2 [N2 Z2]].
      destruct back; cbn [orb] in H.
      + (* something matched below: the service and its include are marked *)
        apply bind_ok in H. destruct H as [st4 [H4 H]]. injection H as <- <-.
        eapply mark_service_include_path in H4; [|exact Hf | exact Hb]. destruct H4 as [L4 [Z4 P4]].
        assert (le st2 st4) as L24 by (eapply le_trans; [apply le_mark | exact L4]).
        split; [eapply le_trans; [exact L1|]; eapply le_trans; [exact L2 | exact L24]|].
        split; [|discriminate].
        intros x Hk Hx H0. destruct (marked st1 x) eqn:E1.
        * eapply pathm_le with (a := st1); [eapply le_trans; [exact L2 | exact L24] | apply N1; assumption].
        * destruct (marked st2 x) eqn:E2.
          -- eapply pathm_trans; [apply P4; apply le_refl|]. eapply pathm_le; [exact L24|]. apply N2; assumption.
          -- apply Z4 in Hx; [|exact Hk]. apply marked_false_mark in Hx; [|exact E2]. subst x. apply pm_refl.
      + (* nothing matched below: `extends` will be cleared *)
        specialize (Z2 eq_refl).
        destruct ret1.
        * apply bind_ok in H. destruct H as [st4 [H4 H]]. injection H as <- <-.
          apply mark_service_include_nonew in H4. destruct H4 as [L4 Z4].
          assert (le st2 st4) as L24.
          { eapply le_trans; [apply le_add_ext|]. eapply le_trans; [apply le_mark | exact L4]. }
          split; [eapply le_trans; [exact L1|]; eapply le_trans; [exact L2 | exact L24]|].
          split; [|discriminate].
          intros x Hk Hx H0. destruct (marked st1 x) eqn:E1.
          -- eapply pathm_le with (a := st1); [eapply le_trans; [exact L2 | exact L24] | apply N1; assumption].
          -- apply Z4 in Hx; [|exact Hk]. apply marked_mark in Hx. destruct Hx as [->|Hx]; [apply pm_refl|].
             exfalso. change (marked st2 x = true) in Hx. apply Z2 in Hx; [congruence | exact Hk].
        * injection H as <- <-.
          split; [eapply le_trans; [exact L1|]; eapply le_trans; [exact L2 | apply le_add_ext]|].
          assert (nonew st (add_ext F si st2)) as Zn.
          { eapply nonew_trans; [apply Z1; reflexivity|]. eapply nonew_trans; [exact Z2 | apply nonew_add_ext]. }
          split; [apply nonew_newpath; exact Zn | intros _; exact Zn].
  Qed.

  Lemma trace_post_all fuel : trace_post (trace matches c p fuel).
  Proof.
    induction fuel as [|n IH]; cbn.
    - intros fa F si st st' ret H. discriminate.
    - apply trace_body_post. exact IH.
  Qed.

  (* ---------------- markService *)

  Definition svc_post (rec : bytes -> nat -> mstate -> res mstate) : Prop :=
    forall F si st st', rec F si st = Ok st' -> le st st' /\ newpath st st' F.

  Lemma mark_service_body_post rec fuel : svc_post rec -> svc_post (mark_service_body matches c p rec fuel).
  Proof.
    intros Hrec F si st st'. unfold mark_service_body.
    destruct (prog_file p F) as [f|] eqn:Hf; [|discriminate].
    destruct (nth_error (f_services f) si) as [s|] eqn:Hs; [|discriminate].
    destruct (marked st (NService F si)); [intros [= <-]; split; [apply le_refl | apply newpath_refl]|].
    intros H. apply bind_ok in H. destruct H as [st1 [H1 H]].
    set (st0 := if filtering c then st else mark (NService F si) st) in *.
    assert (le st st0 /\ newpath st st0 F) as [L0 N0].
    { unfold st0. destruct (filtering c); [split; [apply le_refl | apply newpath_refl]|].
      split; [apply le_mark | apply newpath_mark_here; reflexivity]. }
    assert (le st0 st1 /\ newpath st0 st1 F) as [L1 N1].
    { clear H. revert H1. generalize st0. generalize (indexed (sv_functions s)). intros l.
      induction l as [|[j fn] l IH]; intros a Hfo; cbn [fold_res] in Hfo.
      - injection Hfo as <-. split; [apply le_refl | apply newpath_refl].
      - apply bind_ok in Hfo. destruct Hfo as [a1 [Hx Hr]]. apply IH in Hr. destruct Hr as [Lr Nr].
        assert (le a a1 /\ newpath a a1 F) as [La Na].
        { cbn [fst snd] in Hx. destruct (filtering c).
          - clear - Hx. revert Hx. generalize a. generalize (patterns c p). intros pl.
            induction pl as [|pat pl IHp]; intros a0 Hfo; cbn [fold_res] in Hfo.
            + injection Hfo as <-. split; [apply le_refl | apply newpath_refl].
            + apply bind_ok in Hfo. destruct Hfo as [a2 [Hy Hr]]. apply IHp in Hr. destruct Hr as [Lr Nr].
              destruct (selects _ _ _).
              * pose proof (mark_function_le _ _ _ _ _ _ _ _ Hy) as Lm. apply mark_function_reach in Hy.
                split; [eapply le_trans; [apply le_mark|]; eapply le_trans; eauto|].
                eapply newpath_trans; [exact Lr| |exact Nr].
                eapply newpath_trans; [exact Lm | apply newpath_mark_here; reflexivity | exact Hy].
              * injection Hy as <-. auto.
          - pose proof (mark_function_le _ _ _ _ _ _ _ _ Hx) as Lm. apply mark_function_reach in Hx. auto. }
        split; [eapply le_trans; eauto | eapply newpath_trans; eauto]. }
    apply bind_ok in H. destruct H as [st2 [H2 H]].
    assert (le st1 st2 /\ newpath st1 st2 F) as [L2 N2].
    { destruct (filtering c && _).
      - apply bind_ok in H2. destruct H2 as [[s2 r2] [H2 H3]]. injection H3 as <-.
        apply trace_post_all in H2. tauto.
      - injection H2 as <-. split; [apply le_refl | apply newpath_refl]. }
    assert (le st st2 /\ newpath st st2 F) as [L02 N02].
    { split; [eapply le_trans; [exact L0|]; eapply le_trans; eauto|].
      eapply newpath_trans with (b := st0); [eapply le_trans; eauto | exact N0|].
      eapply newpath_trans; eauto. }
    destruct (negb (is_nil (sv_extends s)) && marked st2 (NService F si)); [|injection H as <-; auto].
    assert (forall st3 nb, le st2 st3 /\ nonew st2 st3 ->
              base_service p F f s = Ok nb ->
              (forall bn bi bs, nb = Some (bn, bi, bs) -> forall d, le st3 d -> pathm d F bn) ->
              match nb with Some (bn, bi, _) => rec bn bi st3 | None => Ok st3 end = Ok st' ->
              le st st' /\ newpath st st' F) as Hfin.
    { intros st3 nb [L3 Z3] Hb Hp Hr. destruct nb as [[[bn bi] bs]|].
      - apply Hrec in Hr. destruct Hr as [L4 N4].
        split; [eapply le_trans; [exact L02|]; eapply le_trans; [exact L3 | exact L4]|].
        intros x Hk Hx H0. destruct (marked st2 x) eqn:E2.
        + eapply pathm_le with (a := st2); [eapply le_trans; [exact L3 | exact L4] | apply N02; assumption].
        + destruct (marked st3 x) eqn:E3; [apply Z3 in E3; [congruence | exact Hk]|].
          eapply pathm_trans; [eapply Hp; [reflexivity | exact L4]|]. apply N4; assumption.
      - injection Hr as <-. split; [eapply le_trans; eauto|].
        eapply newpath_trans; [exact L3 | exact N02 | apply nonew_newpath; exact Z3]. }
    destruct (sv_ref s) as [r|] eqn:Er.
    - apply bind_ok in H. destruct H as [st3 [H3 H]].
      apply bind_ok in H. destruct H as [nb [Hb H]].
      eapply Hfin; [eapply mark_service_include_nonew; exact H3 | exact Hb | | exact H].
      intros bn bi bs -> d Ld. eapply mark_service_include_path in H3; [|exact Hf | exact Hb].
      destruct H3 as [_ [_ P3]]. apply P3. exact Ld.
    - apply bind_ok in H. destruct H as [nb [Hb H]].
      eapply Hfin; [split; [apply le_refl | apply nonew_refl] | exact Hb | | exact H].
      intros bn bi bs -> d Ld. apply base_service_file in Hb. rewrite Er in Hb. subst bn. apply pm_refl.
  Qed.

  Lemma mark_service_post fuel : svc_post (mark_service matches c p fuel).
  Proof.
    induction fuel as [|n IH]; cbn.
    - intros F si st st' H. discriminate.
    - apply mark_service_body_post. exact IH.
  Qed.
End Paths2.


(* ==================================================================== connectivity: markKeptPart *)

Section Paths3.
  Variable matches : bytes -> bytes -> bool.
  Variable cp : bytes -> bool.
  Variable c : cfg.
  Variable p : program.

  Notation pathm := (pathm p).
  Notation newpath := (newpath p).

  Lemma pathm_same_marks a b G F : (forall x, marked b x = marked a x) -> pathm a G F -> pathm b G F.
  Proof.
    intros E H. induction H; [apply pm_refl|]. eapply pm_step; eauto; try (rewrite E; assumption).
  Qed.

  (* ---------------- markKeptPart *)

  Lemma mark_types_nil fuel F st : mark_types p fuel F [] st = Ok st.
  Proof. reflexivity. Qed.

  Lemma kept_part_post fuel F st st' r :
    kept_part cp c p fuel F st = Ok (st', r) ->
    le st st' /\ newpath st st' F /\ (r = false -> nonew st st').
  Proof.
    intros H. pose proof (kept_part_le _ _ _ _ _ _ _ H) as L. cbn [fst] in L. split; [exact L|].
    revert H. unfold kept_part. destruct (lookup F (ms_cache st)) as [v|].
    { intros [= <- <-]. split; [apply newpath_refl | intros _; apply nonew_refl]. }
    destruct (prog_file p F) as [f|] eqn:Hf; [|discriminate].
    intros H. apply bind_ok in H. destruct H as [st1 [H1 H]].
    apply bind_ok in H. destruct H as [st2 [H2 H]].
    apply bind_ok in H. destruct H as [[st3 r3] [H3 H]]. injection H as <- <-.
    pose proof (mark_types_le _ _ _ _ _ _ H1) as L1. pose proof (mark_types_le _ _ _ _ _ _ H2) as L2.
    assert (step_ok p F (st2, has_enum_const_typedef f) (st3, r3)) as X.
    { assert (forall k l acc r, fold_res
         (fun (is : nat * struct_like) (acc : mstate * bool) =>
            if negb (marked (fst acc) (NStructLike F k (fst is))) && check_preserve cp c F k (snd is)
            then bind (mark_sl p fuel F k (fst is) (snd is) (fst acc)) (fun st' => Ok (st', true))
            else Ok acc) l acc = Ok r -> step_ok p F acc r) as Hl.
      { intros k l. apply flag_loop. intros is acc r _. destruct (_ && _).
        - intros Hm. apply bind_ok in Hm. destruct Hm as [s' [Hm Hr]]. injection Hr as <-. unfold step_ok. cbn [fst snd].
          split; [eapply mark_sl_le; eauto|]. split; [eapply mark_sl_reach; eauto | discriminate].
        - intros [= <-]. split; [apply le_refl|]. split; [apply newpath_refl|].
          intros E. split; [apply nonew_refl | exact E]. }
      destruct (c_force c).
      - injection H3 as <- <-. split; [apply le_refl|]. split; [apply newpath_refl|].
        intros E. split; [apply nonew_refl | exact E].
      - apply bind_ok in H3. destruct H3 as [a1 [Ha1 H3]].
        apply bind_ok in H3. destruct H3 as [a2 [Ha2 H3]].
        apply Hl in Ha1. apply Hl in Ha2. apply Hl in H3.
        destruct Ha1 as [La [Na Za]]. destruct Ha2 as [Lb [Nb Zb]]. destruct H3 as [Lc [Nc Zc]].
        cbn [fst snd] in *.
        split; [eapply le_trans; [exact La|]; eapply le_trans; eauto|].
        split.
        + eapply newpath_trans with (b := fst a1); [eapply le_trans; eauto | exact Na|].
          eapply newpath_trans with (b := fst a2); eauto.
        + intros E. destruct (Zc E) as [Zc1 Zc2]. destruct (Zb Zc2) as [Zb1 Zb2]. destruct (Za Zb2) as [Za1 Za2].
          split; [|exact Za2]. eapply nonew_trans; [exact Za1|]. eapply nonew_trans; eauto. }
    destruct X as [L3 [N3 Z3]]. cbn [fst snd] in *.
    assert (forall x, marked (add_cache F r3 st3) x = marked st3 x) as Hsame by reflexivity.
    split.
    - intros x Hk Hx H0. rewrite Hsame in Hx.
      assert (pathm st3 F (node_file x)) as P; [|eapply pathm_same_marks; [exact Hsame | exact P]].
      apply mark_types_reach in H1. apply mark_types_reach in H2.
      assert (newpath st st3 F) as N; [|apply N; assumption].
      eapply newpath_trans with (b := st1); [eapply le_trans; eauto | exact H1|].
      eapply newpath_trans with (b := st2); eauto.
    - intros E. destruct (Z3 E) as [Z3a Z3b].
      intros x Hk Hx. rewrite Hsame in Hx. apply Z3a in Hx; [|exact Hk].
      (* no constants and no typedefs: nothing was marked for them *)
      unfold has_enum_const_typedef in Z3b. apply negb_false_iff in Z3b.
      apply andb_true_iff in Z3b. destruct Z3b as [Z3b Z3c]. apply andb_true_iff in Z3b. destruct Z3b as [Zc Ze].
      destruct (f_constants f); [|discriminate]. destruct (f_typedefs f); [|discriminate].
      cbn in H1, H2. injection H1 as <-. injection H2 as <-. exact Hx.
  Qed.
End Paths3.


(* ==================================================================== connectivity: preProcess, markAST *)

Section Paths4.
  Variable matches : bytes -> bytes -> bool.
  Variable cp : bytes -> bool.
  Variable c : cfg.
  Variable p : program.

  Notation pathm := (pathm p).
  Notation newpath := (newpath p).

  Definition cache_true (st : mstate) (G : bytes) : Prop := lookup G (ms_cache st) = Some true.

  Lemma cache_true_le a b G : le a b -> cache_true a G -> cache_true b G.
  Proof. intros [_ [_ L]] H. apply L. exact H. Qed.

  Lemma cached_true_back a b G : le a b -> cached a G -> cache_true b G -> cache_true a G.
  Proof.
    intros [_ [_ L]] [v Hv] Hb. unfold cache_true in *. rewrite (L _ _ Hv) in Hb. injection Hb as ->. exact Hv.
  Qed.

  (* every file below F has been through markKeptPart *)
  Lemma pre_process_visits fuel : forall F st r,
    pre_process cp c p fuel F st = Ok r -> forall G, below p F G -> cached (fst r) G.
  Proof.
    induction fuel as [|n IH]; intros F st r H; cbn [pre_process] in H; [discriminate|].
    apply bind_ok in H. destruct H as [[st1 ret] [H1 H]].
    pose proof (kept_part_cached _ _ _ _ _ _ _ _ H1) as Hc1.
    destruct (prog_file p F) as [f|] eqn:Hf; [|discriminate].
    assert (forall l, (forall ii, In ii l -> In ii (indexed (f_includes f))) ->
              forall a b, fold_res
                (fun (ii : nat * include) (acc : mstate * bool) =>
                   match include_file p f (Z.of_nat (fst ii)) with
                   | None => Crash
                   | Some (_, tn) =>
                     bind (pre_process cp c p n tn (fst acc)) (fun '(st', m) =>
                     Ok (if m then (mark (NInclude F (fst ii)) st', true) else (st', snd acc)))
                   end) l a = Ok b ->
              le (fst a) (fst b) /\
              (forall i inc tn G, In (i, inc) l -> in_ref inc = Some tn -> below p tn G -> cached (fst b) G)) as Hl.
    { induction l as [|[i inc] l IHl]; intros Hsub a b Hfo; cbn [fold_res] in Hfo.
      - injection Hfo as <-. split; [apply le_refl | intros i inc tn G []].
      - apply bind_ok in Hfo. destruct Hfo as [a1 [Hf1 Hf2]]. cbn [fst snd] in Hf1.
        destruct (include_file p f (Z.of_nat i)) as [[j tn]|] eqn:Ei; [|discriminate].
        apply bind_ok in Hf1. destruct Hf1 as [[s' m] [Hp Hr]].
        pose proof (pre_process_le _ _ _ _ _ _ _ Hp) as L'. cbn [fst] in L'.
        pose proof (IH _ _ _ Hp) as V'. cbn [fst] in V'.
        assert (le s' (fst a1)) as La by (destruct m; injection Hr as <-; cbn [fst]; [apply le_mark | apply le_refl]).
        destruct (IHl (fun ii H => Hsub ii (or_intror H)) _ _ Hf2) as [Lb Vb].
        split; [eapply le_trans; [exact L'|]; eapply le_trans; eauto|].
        intros i' inc' tn' G [[= <- <-]|Hin] Hr' HG; [|eapply Vb; eauto].
        pose proof (Hsub _ (or_introl eq_refl)) as Hi. apply indexed_In in Hi.
        destruct (include_file_inv _ _ _ _ _ Ei) as [_ [inc0 [Hn [Hr0 _]]]].
        unfold nth_include in Hn. destruct (Z.of_nat i <? 0)%Z; [discriminate|]. rewrite Nat2Z.id in Hn.
        rewrite Hi in Hn. injection Hn as <-. rewrite Hr' in Hr0. injection Hr0 as ->.
        eapply cached_le; [eapply le_trans; [exact La | exact Lb] | apply V'; exact HG]. }
    destruct (Hl _ (fun ii H => H) _ _ H) as [Lb Vb]. cbn [fst] in *.
    intros G HG. inversion HG as [|F0 f0 inc G0 H0 Hf0 Hinc Hr0 Hb0]; subst.
    - eapply cached_le; [exact Lb|]. exists ret. exact Hc1.
    - rewrite Hf in Hf0. injection Hf0 as <-.
      apply In_nth_error in Hinc. destruct Hinc as [i Hi].
      eapply Vb; [apply indexed_In; exact Hi | exact Hr0 | exact Hb0].
  Qed.

  (* preProcess: new marks are anchored at files whose kept part is recorded as true,
     and every such file below F is reached from F over marked includes *)
  Definition anchored_new (a b : mstate) (F : bytes) : Prop :=
    forall x, def_kind x = true -> marked b x = true -> marked a x = false ->
      exists G, below p F G /\ cache_true b G /\ pathm b G (node_file x).

  Lemma anchored_new_le a b d F : le b d -> anchored_new a b F -> anchored_new b d F -> anchored_new a d F.
  Proof.
    intros L H1 H2 x Hk Hd Ha. destruct (marked b x) eqn:Eb.
    - destruct (H1 x Hk Eb Ha) as [G [HG [HC HP]]]. exists G. split; [exact HG|].
      split; [eapply cache_true_le; eauto | eapply pathm_le; eauto].
    - apply H2; assumption.
  Qed.

  Lemma pre_process_post fuel : forall F st st' r,
    pre_process cp c p fuel F st = Ok (st', r) ->
    le st st' /\ anchored_new st st' F /\
    (forall G, below p F G -> cache_true st' G -> r = true /\ pathm st' F G).
  Proof.
    induction fuel as [|n IH]; intros F st st' r H; cbn [pre_process] in H; [discriminate|].
    apply bind_ok in H. destruct H as [[st1 ret] [H1 H]].
    pose proof (kept_part_cached _ _ _ _ _ _ _ _ H1) as Hc1.
    apply kept_part_post in H1. destruct H1 as [L1 [N1 Z1]].
    destruct (prog_file p F) as [f|] eqn:Hf; [|discriminate].
    assert (forall l, (forall ii, In ii l -> In ii (indexed (f_includes f))) ->
              forall a b, fold_res
                (fun (ii : nat * include) (acc : mstate * bool) =>
                   match include_file p f (Z.of_nat (fst ii)) with
                   | None => Crash
                   | Some (_, tn) =>
                     bind (pre_process cp c p n tn (fst acc)) (fun '(st', m) =>
                     Ok (if m then (mark (NInclude F (fst ii)) st', true) else (st', snd acc)))
                   end) l a = Ok b ->
              le (fst a) (fst b) /\ anchored_new (fst a) (fst b) F /\ (snd a = true -> snd b = true) /\
              (forall i inc tn G, In (i, inc) l -> in_ref inc = Some tn -> below p tn G -> cache_true (fst b) G ->
                                  snd b = true /\ pathm (fst b) F G)) as Hl.
    { induction l as [|[i inc] l IHl]; intros Hsub a b Hfo; cbn [fold_res] in Hfo.
      - injection Hfo as <-. split; [apply le_refl|]. split; [intros x _ H1 H2; congruence|].
        split; [auto | intros i inc tn G []].
      - apply bind_ok in Hfo. destruct Hfo as [a1 [Hf1 Hf2]]. cbn [fst snd] in Hf1.
        destruct (include_file p f (Z.of_nat i)) as [[j tn]|] eqn:Ei; [|discriminate].
        apply bind_ok in Hf1. destruct Hf1 as [[s' m] [Hp Hr]].
        pose proof (pre_process_visits _ _ _ _ Hp) as V'. cbn [fst] in V'.
        destruct (IH _ _ _ _ Hp) as [L' [A' C']].
        destruct (include_file_inv _ _ _ _ _ Ei) as [Hj [inc0 [Hn [Hr0 _]]]]. rewrite Nat2Z.id in Hj. subst j.
        pose proof (Hsub _ (or_introl eq_refl)) as Hi. apply indexed_In in Hi.
        unfold nth_include in Hn. destruct (Z.of_nat i <? 0)%Z eqn:Ez; [discriminate|]. rewrite Nat2Z.id in Hn.
        rewrite Hi in Hn. injection Hn as <-.
        assert (below p F tn) as Btn.
        { eapply below_step; [exact Hf | eapply nth_error_In; exact Hi | exact Hr0 | apply below_refl]. }
        assert (forall G, below p tn G -> below p F G) as Bdown.
        { intros G HG. eapply below_step; [exact Hf | eapply nth_error_In; exact Hi | exact Hr0 | exact HG]. }
        assert (le s' (fst a1) /\ (forall x, marked (fst a1) x = true -> marked s' x = true \/ x = NInclude F i) /\
                (snd a = true -> snd a1 = true) /\ (m = true -> snd a1 = true /\ marked (fst a1) (NInclude F i) = true) /\
                ms_cache (fst a1) = ms_cache s') as [La [Ma [Fa [Ta Ca]]]].
        { destruct m; injection Hr as <-; cbn [fst snd].
          - split; [apply le_mark|]. split; [intros x Hx; apply marked_mark in Hx; tauto|].
            split; [auto|]. split; [intros _; split; [reflexivity | apply marked_mark; auto] | apply mark_cache].
          - split; [apply le_refl|]. split; [auto|]. split; [auto|]. split; [discriminate | reflexivity]. }
        destruct (IHl (fun ii H => Hsub ii (or_intror H)) _ _ Hf2) as [Lb [Ab [Fb Cb]]].
        split; [eapply le_trans; [exact L'|]; eapply le_trans; eauto|].
        split.
        { (* new marks *)
          intros x Hk Hx H0. destruct (marked (fst a1) x) eqn:E1.
          - destruct (Ma _ E1) as [Es | ->]; [|discriminate].
            destruct (A' x Hk Es H0) as [G [HG [HC HP]]].
            exists G. split; [apply Bdown; exact HG|].
            split; [eapply cache_true_le; [eapply le_trans; [exact La | exact Lb] | exact HC]|].
            eapply pathm_le; [eapply le_trans; [exact La | exact Lb] | exact HP].
          - apply Ab; assumption. }
        split; [auto|].
        intros i' inc' tn' G [[= <- <-]|Hin] Hr' HG HC; [|eapply Cb; eauto].
        rewrite Hr' in Hr0. injection Hr0 as ->.
        (* the include just processed *)
        assert (cache_true s' G) as Cs.
        { eapply cached_true_back; [eapply le_trans; [exact La | exact Lb] | apply V'; exact HG | exact HC]. }
        destruct (C' _ HG Cs) as [-> P']. destruct (Ta eq_refl) as [T1 T2].
        split; [apply Fb; exact T1|].
        eapply pm_step; [exact Hf | exact Ei | eapply le_marked; [exact Lb | exact T2]|].
        eapply pathm_le; [eapply le_trans; [exact La | exact Lb] | exact P']. }
    destruct (Hl _ (fun ii H => H) _ _ H) as [Lb [Ab [Fb Cb]]]. cbn [fst snd] in *.
    split; [eapply le_trans; eauto|]. split.
    - intros x Hk Hx H0. destruct (marked st1 x) eqn:E1.
      + (* marked by markKeptPart of F itself: then its result is true *)
        destruct ret.
        * exists F. split; [apply below_refl|]. split; [eapply cache_true_le; [exact Lb | exact Hc1]|].
          eapply pathm_le; [exact Lb|]. apply N1; assumption.
        * apply Z1 in E1; [congruence | reflexivity | exact Hk].
      + apply Ab; assumption.
    - intros G HG HC. inversion HG as [|F0 f0 inc G0 H0 Hf0 Hinc Hr0 Hb0]; subst.
      + split; [|apply pm_refl]. apply Fb.
        unfold cache_true in HC. destruct Lb as [_ [_ Lc]]. rewrite (Lc _ _ Hc1) in HC. congruence.
      + rewrite Hf in Hf0. injection Hf0 as <-.
        apply In_nth_error in Hinc. destruct Hinc as [i Hi].
        eapply Cb; [apply indexed_In; exact Hi | exact Hr0 | exact Hb0 | exact HC].
  Qed.

  (* ---------------- markAST: every marked definition lies in a file reached from the main file *)
  Theorem marks_connected fuel fin :
    mark_ast matches cp c p fuel = Ok fin ->
    forall x, def_kind x = true -> marked fin x = true -> pathm fin (main_name p) (node_file x).
  Proof.
    intros H. unfold mark_ast in H.
    destruct (prog_main p) as [f|] eqn:Hm; [|discriminate].
    apply bind_ok in H. destruct H as [[st1 r1] [H1 H]].
    apply bind_ok in H. destruct H as [st2 [H2 H]].
    apply bind_ok in H. destruct H as [[st3 r3] [H3 H]]. injection H as <-. cbn [fst].
    assert (le st1 st2 /\ newpath st1 st2 (main_name p)) as [L12 N12].
    { revert H2. generalize st1. generalize (indexed (f_services f)). intros l.
      induction l as [|[i s] l IH]; intros a Hfo; cbn [fold_res] in Hfo.
      - injection Hfo as <-. split; [apply le_refl | apply newpath_refl].
      - apply bind_ok in Hfo. destruct Hfo as [a1 [Hx Hr]]. apply IH in Hr. destruct Hr as [Lr Nr].
        apply (mark_service_post matches cp c p) in Hx. destruct Hx as [Lx Nx].
        split; [eapply le_trans; [exact Lx | exact Lr] | eapply newpath_trans; [exact Lr | exact Nx | exact Nr]]. }
    destruct (pre_process_cached _ _ _ _ _ _ _ _ H1) as [v Hv].
    assert (st3 = st2) as ->.
    { unfold kept_part in H3. destruct L12 as [_ [_ L]]. rewrite (L _ _ Hv) in H3. congruence. }
    apply pre_process_post in H1. destruct H1 as [_ [A1 C1]].
    intros x Hk Hx. destruct (marked st1 x) eqn:E1.
    - destruct (A1 x Hk E1 eq_refl) as [G [HG [HC HP]]].
      destruct (C1 _ HG HC) as [_ P1].
      eapply pathm_le; [exact L12|]. eapply pathm_trans; eauto.
    - apply N12; assumption.
  Qed.
End Paths4.


(* ==================================================================== the output: closed under kept includes *)

Section Output.
  Variable matches : bytes -> bytes -> bool.
  Variable cp : bytes -> bool.
  Variable c : cfg.
  Variable p : program.

  (* ---------------- the set of files traversal reaches is closed under kept includes *)

  Definition closed_entry (acc : program) (e : bytes * file) : Prop :=
    forall inc tn, In inc (f_includes (snd e)) -> in_ref inc = Some tn -> In tn (map fst acc).

  Lemma closed_entry_mono a b e : (forall x, In x a -> In x b) -> closed_entry a e -> closed_entry b e.
  Proof.
    intros Hs H inc tn Hi Hr. specialize (H inc tn Hi Hr). apply in_map_iff in H. destruct H as [x [<- Hx]].
    apply in_map. auto.
  Qed.

  Lemma reach_closed full fuel st : forall F acc acc',
    reach cp c p full fuel st F acc = Ok acc' ->
    forall e, In e acc' -> In e acc \/ closed_entry acc' e.
  Proof.
    induction fuel as [|n IH]; intros F acc acc' H; cbn [reach] in H.
    - destruct (existsb _ acc); [injection H as <-; auto | discriminate].
    - destruct (existsb _ acc); [injection H as <-; auto|].
      destruct (prog_file p F) as [f|] eqn:Hf; [|discriminate].
      apply bind_ok in H. destruct H as [tf [Ht H]].
      assert (forall l a b, fold_res (fun (inc : include) acc0 =>
                 match in_ref inc with Some tn => reach cp c p full n st tn acc0 | None => Crash end) l a = Ok b ->
               (forall e, In e a -> In e b) /\
               (forall e, In e b -> In e a \/ closed_entry b e) /\
               (forall inc tn, In inc l -> in_ref inc = Some tn -> In tn (map fst b))) as Hl.
      { induction l as [|inc l IHl]; intros a b Hfo; cbn [fold_res] in Hfo.
        - injection Hfo as <-. split; [auto|]. split; [auto | intros inc tn []].
        - apply bind_ok in Hfo. destruct Hfo as [a1 [H1 H2]].
          destruct (in_ref inc) as [tn|] eqn:Er; [|discriminate].
          pose proof (reach_grows _ _ _ _ _ _ _ _ _ H1) as [G1 K1].
          pose proof (IH _ _ _ H1) as C1.
          destruct (IHl _ _ H2) as [G2 [C2 T2]].
          split; [auto|]. split.
          + intros e He. destruct (C2 e He) as [He1|Hc]; [|auto].
            destruct (C1 e He1) as [He0|Hc]; [auto|]. right. eapply closed_entry_mono; [exact G2 | exact Hc].
          + intros inc' tn' [<-|Hin] Hr'.
            * rewrite Er in Hr'. injection Hr' as <-. apply in_map_iff in K1. destruct K1 as [x [<- Hx]].
              apply in_map. auto.
            * eapply T2; eauto. }
      destruct (Hl _ _ _ H) as [G [Cl T]].
      intros e He. destruct (Cl e He) as [He0|Hc]; [|auto].
      apply in_app_iff in He0. destruct He0 as [He0|[<-|[]]]; [auto|].
      right. intros inc tn Hi Hr. eapply T; eauto.
  Qed.

  (* ---------------- from a chain of marked includes to membership in the output *)

  Lemma path_in_output fuel fin q :
    reach cp c p false fuel fin (main_name p) [] = Ok q ->
    forall G F, pathm p fin G F -> In G (map fst q) -> In F (map fst q).
  Proof.
    intros Hr G F Hp. induction Hp as [F | G g i tn F Hg Hi Hm _ IH]; [auto|].
    intros HG. apply IH. apply in_map_iff in HG. destruct HG as [[G' tg] [HG' He]]. cbn in HG'. subst G'.
    pose proof (reach_entries _ _ _ _ _ _ _ _ _ Hr (fun e (H : In e []) => match H with end) _ He) as [g' [Hg' Ht]].
    cbn [fst snd] in *. rewrite Hg in Hg'. injection Hg' as <-. unfold T in Ht.
    destruct (reach_closed _ _ _ _ _ _ Hr _ He) as [[]|Hc].
    destruct (include_file_inv _ _ _ _ _ Hi) as [_ [inc0 [Hn [Hr0 Ht0]]]].
    unfold nth_include in Hn. destruct (Z.of_nat i <? 0)%Z; [discriminate|]. rewrite Nat2Z.id in Hn.
    eapply (Hc (Include (in_path inc0) (in_ref inc0) None)); [|exact Hr0].
    eapply trim_file_includes_conv; [exact Ht | exact Hn|].
    unfold keep_include, include_target. cbn [fst snd]. rewrite Hr0.
    destruct (prog_file p tn); [|congruence]. rewrite Hm. reflexivity.
  Qed.

  Lemma main_in_output full fuel fin q :
    reach cp c p full fuel fin (main_name p) [] = Ok q -> In (main_name p) (map fst q).
  Proof. intros H. apply reach_grows in H. tauto. Qed.

  (* ---------------- the outcome of trim *)

  Lemma trim_with_trimmed compiles full fuel q :
    trim_with matches compiles cp c p full fuel = Trimmed q ->
    exists fin, mark_ast matches cp c p fuel = Ok fin /\ reach cp c p full fuel fin (main_name p) [] = Ok q.
  Proof.
    unfold trim_with. destruct (_ && _); [discriminate|].
    destruct (mark_ast matches cp c p fuel) as [fin| |] eqn:Em; try discriminate.
    destruct (reach cp c p full fuel fin (main_name p) []) as [q'| |] eqn:Er; try discriminate.
    intros [= <-]. exists fin. split; [reflexivity | exact Er].
  Qed.
End Output.


(* ==================================================================== files with constants, typedefs or enums are connected *)

Section CacheValue.
  Variable matches : bytes -> bytes -> bool.
  Variable cp : bytes -> bool.
  Variable c : cfg.
  Variable p : program.

  (* a file with constants, enums or typedefs is recorded as a kept part *)
  Definition cache_cet (st : mstate) : Prop :=
    forall F v f, lookup F (ms_cache st) = Some v -> prog_file p F = Some f ->
      has_enum_const_typedef f = true -> v = true.

  Lemma kept_part_cet fuel F st st' r :
    kept_part cp c p fuel F st = Ok (st', r) -> cache_cet st -> cache_cet st'.
  Proof.
    unfold kept_part. destruct (lookup F (ms_cache st)) as [v|] eqn:Ec; [intros [= <- <-]; auto|].
    destruct (prog_file p F) as [f|] eqn:Hf; [|discriminate].
    intros H Hc. apply bind_ok in H. destruct H as [st1 [H1 H]].
    apply bind_ok in H. destruct H as [st2 [H2 H]].
    apply bind_ok in H. destruct H as [[st3 r3] [H3 H]]. injection H as <- <-.
    assert (ms_cache st3 = ms_cache st) as Ecache by (eapply kept_part_steps_cache; [exact H1 | exact H2 | exact H3]).
    assert (has_enum_const_typedef f = true -> r3 = true) as Hr.
    { intros E. rewrite E in H3.
      assert (forall k l acc r, fold_res
         (fun (is : nat * struct_like) (acc : mstate * bool) =>
            if negb (marked (fst acc) (NStructLike F k (fst is))) && check_preserve cp c F k (snd is)
            then bind (mark_sl p fuel F k (fst is) (snd is) (fst acc)) (fun st' => Ok (st', true))
            else Ok acc) l acc = Ok r -> snd acc = true -> snd r = true) as Hl.
      { intros k. induction l as [|is l IH]; intros acc r Hfo Ha; cbn [fold_res] in Hfo.
        - injection Hfo as <-. exact Ha.
        - apply bind_ok in Hfo. destruct Hfo as [a1 [Hx Hr]]. eapply IH; [exact Hr|].
          destruct (_ && _); [|injection Hx as <-; exact Ha].
          apply bind_ok in Hx. destruct Hx as [s' [_ Hx]]. injection Hx as <-. reflexivity. }
      destruct (c_force c); [injection H3 as _ <-; reflexivity|].
      apply bind_ok in H3. destruct H3 as [a1 [Ha1 H3]].
      apply bind_ok in H3. destruct H3 as [a2 [Ha2 H3]].
      apply Hl in Ha1; [|reflexivity]. apply Hl in Ha2; [|exact Ha1]. apply Hl in H3; [|exact Ha2]. exact H3. }
    intros G v g. cbn [add_cache ms_cache lookup]. destruct (beqb G F) eqn:E.
    - apply beqb_true in E. subst G. intros [= <-] Hg Hcet. rewrite Hf in Hg. injection Hg as <-. auto.
    - rewrite Ecache. apply Hc.
  Qed.

  Lemma pre_process_cet fuel : forall F st r,
    pre_process cp c p fuel F st = Ok r -> cache_cet st -> cache_cet (fst r).
  Proof.
    induction fuel as [|n IH]; intros F st r H Hc; cbn [pre_process] in H; [discriminate|].
    apply bind_ok in H. destruct H as [[st1 ret] [H1 H]].
    apply kept_part_cet in H1; [|exact Hc].
    destruct (prog_file p F) as [f|]; [|discriminate].
    assert (forall l a b, fold_res
              (fun (ii : nat * include) (acc : mstate * bool) =>
                 match include_file p f (Z.of_nat (fst ii)) with
                 | None => Crash
                 | Some (_, tn) =>
                   bind (pre_process cp c p n tn (fst acc)) (fun '(st', m) =>
                   Ok (if m then (mark (NInclude F (fst ii)) st', true) else (st', snd acc)))
                 end) l a = Ok b -> cache_cet (fst a) -> cache_cet (fst b)) as Hl.
    { induction l as [|[i inc] l IHl]; intros a b Hfo Ha; cbn [fold_res] in Hfo.
      - injection Hfo as <-. exact Ha.
      - apply bind_ok in Hfo. destruct Hfo as [a1 [Hx Hr]]. eapply IHl; [exact Hr|].
        cbn [fst snd] in Hx. destruct (include_file p f (Z.of_nat i)) as [[j tn]|]; [|discriminate].
        apply bind_ok in Hx. destruct Hx as [[s' m] [Hp Hx]].
        apply IH in Hp; [|exact Ha]. cbn [fst] in Hp.
        destruct m; injection Hx as <-; cbn [fst]; [|exact Hp].
        intros G v g. rewrite mark_cache. apply Hp. }
    eapply Hl; [exact H | exact H1].
  Qed.

  (* after markAST: the files with always-kept definitions are reached from the main file *)
  Theorem kept_files_connected fuel fin :
    mark_ast matches cp c p fuel = Ok fin ->
    forall F f, below p (main_name p) F -> prog_file p F = Some f -> has_enum_const_typedef f = true ->
      pathm p fin (main_name p) F.
  Proof.
    intros H F f HB HF Hcet. unfold mark_ast in H.
    destruct (prog_main p) as [mf|] eqn:Hm; [|discriminate].
    apply bind_ok in H. destruct H as [[st1 r1] [H1 H]].
    apply bind_ok in H. destruct H as [st2 [H2 H]].
    apply bind_ok in H. destruct H as [[st3 r3] [H3 H]]. injection H as <-. cbn [fst].
    assert (le st1 st2) as L12.
    { revert H2. apply fold_res_rel; [apply le_refl | apply le_trans|].
      intros is a b _. apply mark_service_le. }
    destruct (pre_process_cached _ _ _ _ _ _ _ _ H1) as [v Hv].
    assert (st3 = st2) as ->.
    { unfold kept_part in H3. destruct L12 as [_ [_ L]]. rewrite (L _ _ Hv) in H3. congruence. }
    assert (cache_cet st1) as Hc.
    { change st1 with (fst (st1, r1)). eapply pre_process_cet; [exact H1|]. intros G v' g HG. discriminate. }
    assert (cached st1 F) as [w Hw].
    { change st1 with (fst (st1, r1)). eapply pre_process_visits; [exact H1 | exact HB]. }
    assert (w = true) as -> by (eapply Hc; eauto).
    apply (pre_process_post matches cp c p) in H1. destruct H1 as [_ [_ C1]].
    eapply pathm_le; [exact L12|]. apply C1; [exact HB | exact Hw].
  Qed.
End CacheValue.


(* ==================================================================== well-formed programs (the boolean test is sound) *)

(* ---------------------------------------------------------------- well-formed programs *)

Lemma nodup_length_le {A} (d : forall x y : A, {x = y} + {x <> y}) l : List.length (nodup d l) <= List.length l.
Proof. induction l as [|x l IH]; cbn; [lia|]. destruct (in_dec d x l); cbn; lia. Qed.

Lemma nodup_length_NoDup {A} (d : forall x y : A, {x = y} + {x <> y}) l :
  List.length (nodup d l) = List.length l -> NoDup l.
Proof.
  induction l as [|x l IH]; cbn; intros H; [constructor|].
  destruct (in_dec d x l) as [Hi|Hi].
  - pose proof (nodup_length_le d l). lia.
  - cbn in H. constructor; [exact Hi | apply IH; lia].
Qed.

Section WF.
  Variable cp : bytes -> bool.
  Variable c : cfg.
  Variable p : program.

  Lemma files_below_sound fuel : forall F acc G,
    In G (files_below p fuel F acc) -> In G acc \/ below p F G.
  Proof.
    induction fuel as [|n IH]; intros F acc G H; cbn [files_below] in H.
    - destruct (existsb _ acc); auto.
    - destruct (existsb _ acc); [auto|].
      destruct (prog_file p F) as [f|] eqn:Hf; [|auto].
      assert (forall l, (forall inc, In inc l -> In inc (f_includes f)) ->
                forall a, In G (fold_left (fun acc0 inc => match in_ref inc with
                                                           | Some tn => files_below p n tn acc0
                                                           | None => acc0
                                                           end) l a) -> In G a \/ below p F G) as Hl.
      { induction l as [|inc l IHl]; intros Hsub a Hin; cbn [fold_left] in Hin; [auto|].
        apply IHl in Hin; [|intros; apply Hsub; right; assumption]. destruct Hin as [Hin|Hin]; [|auto].
        destruct (in_ref inc) as [tn|] eqn:Er; [|auto].
        apply IH in Hin. destruct Hin as [Hin|Hin]; [auto|]. right.
        eapply below_step; [exact Hf | apply Hsub; left; reflexivity | exact Er | exact Hin]. }
      apply Hl in H; [|auto]. destruct H as [[<-|H]|H]; auto. right. apply below_refl.
  Qed.

  Record wf : Prop := {
    wf_types : types_wf p;
    wf_keys : NoDup (map fst p);
    wf_below : forall F f, prog_file p F = Some f -> below p (main_name p) F;
    wf_extends : extends_resolved p }.

  Theorem wf_program_sound : wf_program p = true -> wf.
  Proof.
    unfold wf_program. rewrite !andb_true_iff. intros [[[[Hne Hfiles] _] Hnd] Hbel].
    rewrite forallb_forall in Hfiles.
    assert (forall F f, prog_file p F = Some f -> file_wf p (F, f) = true) as Hfile.
    { intros F f HF. apply Hfiles. apply lookup_In. exact HF. }
    split.
    - intros F f HF t Ht t' Ht'. specialize (Hfile _ _ HF). unfold file_wf in Hfile. cbn [snd] in Hfile.
      rewrite !andb_true_iff in Hfile. destruct Hfile as [[[[Hty _] _] _] _].
      rewrite forallb_forall in Hty. apply Hty. unfold file_types. apply in_flat_map'. eauto.
    - apply Nat.eqb_eq in Hnd. eapply nodup_length_NoDup. rewrite map_length. exact Hnd.
    - intros F f HF. rewrite forallb_forall in Hbel. apply lookup_In in HF. specialize (Hbel _ HF).
      cbn [fst] in Hbel. apply existsb_exists in Hbel. destruct Hbel as [G [HG E]]. apply beqb_true in E. subst G.
      apply files_below_sound in HG. destruct HG as [[]|HG]. unfold main_name. exact HG.
    - intros F f s HF Hs Hne'. specialize (Hfile _ _ HF). unfold file_wf in Hfile. cbn [fst snd] in Hfile.
      rewrite !andb_true_iff in Hfile. destruct Hfile as [_ Hb]. rewrite forallb_forall in Hb.
      specialize (Hb _ Hs). apply orb_true_iff in Hb. destruct Hb as [Hb|Hb].
      + destruct (sv_extends s); [congruence | discriminate].
      + intros E. rewrite E in Hb. discriminate.
  Qed.
End WF.


(* ==================================================================== the theorems of property C16 *)

Section Main.
  Variable matches : bytes -> bytes -> bool.
  Variable compiles : bytes -> bool.
  Variable cp : bytes -> bool.
  Variable c : cfg.
  Variable p : program.
  Hypothesis Hwf : wf p.

  Notation trim := (trim matches compiles cp c p).

  (* the marks the trimmer ends with, when it does not fail *)
  Definition marks_of (fin : mstate) : Prop := mark_ast matches cp c p (prog_size p) = Ok fin.

  Lemma trim_trimmed q : trim = Trimmed q ->
    exists fin, marks_of fin /\ reach cp c p false (prog_size p) fin (main_name p) [] = Ok q.
  Proof. apply trim_with_trimmed. Qed.

  Lemma output_entry fin q F qf :
    reach cp c p false (prog_size p) fin (main_name p) [] = Ok q -> In (F, qf) q ->
    exists pf, prog_file p F = Some pf /\ trim_file cp c p fin F pf = Ok qf.
  Proof.
    intros Hr He.
    exact (reach_entries _ _ _ _ _ _ _ _ _ Hr (fun e (H : In e []) => match H with end) _ He).
  Qed.

  Lemma file_in_output fin q F :
    marks_of fin -> reach cp c p false (prog_size p) fin (main_name p) [] = Ok q ->
    pathm p fin (main_name p) F -> exists qf, In (F, qf) q.
  Proof.
    intros Hm Hr Hp.
    assert (In F (map fst q)) as H.
    { eapply path_in_output; [exact Hr | exact Hp | eapply main_in_output; exact Hr]. }
    apply in_map_iff in H. destruct H as [[F' qf] [E H]]. cbn in E. subst. eauto.
  Qed.

  (* ------------------------------------------------------------ soundness *)

  (* a needed struct-like is in the output, in its file, unchanged *)
  Theorem trim_sound_struct_like q fin F k i pf s :
    trim = Trimmed q -> marks_of fin ->
    needed cp c p (kept_methods c fin) (NStructLike F k i) ->
    prog_file p F = Some pf -> nth_error (sl_list k pf) i = Some s ->
    exists qf, In (F, qf) q /\ In s (sl_list k qf).
  Proof.
    intros Ht Hm Hn HF Hs. destruct Hwf as [W1 W2 W3 W4].
    destruct (trim_trimmed _ Ht) as [fin' [Hm' Hr]].
    unfold marks_of in *. rewrite Hm in Hm'. injection Hm' as <-.
    destruct (needed_marked matches cp c p W1 W2 W3 _ _ Hm (NStructLike F k i) Hn eq_refl) as [Mk|[_ [G [j E]]]]; [|discriminate].
    pose proof (marks_connected matches cp c p _ _ Hm (NStructLike F k i) eq_refl Mk) as Hp. cbn [node_file] in Hp.
    destruct (file_in_output _ _ _ Hm Hr Hp) as [qf Hq]. exists qf. split; [exact Hq|].
    destruct (output_entry _ _ _ _ Hr Hq) as [pf' [HF' Htf]]. rewrite HF in HF'. injection HF' as <-.
    eapply trim_file_struct_likes_conv; [exact Htf | exact Hs|].
    unfold keep_sl. cbn [fst]. rewrite Mk. reflexivity.
  Qed.

  (* ------------------------------------------------------------ always-kept categories *)

  Theorem trim_keeps_consts_typedefs_enums q F pf :
    trim = Trimmed q -> prog_file p F = Some pf -> has_enum_const_typedef pf = true ->
    exists qf, In (F, qf) q /\
      f_constants qf = f_constants pf /\ f_typedefs qf = f_typedefs pf /\ f_enums qf = f_enums pf.
  Proof.
    intros Ht HF Hc. destruct Hwf as [W1 W2 W3 W4].
    destruct (trim_trimmed _ Ht) as [fin [Hm Hr]].
    pose proof (kept_files_connected matches cp c p _ _ Hm _ _ (W3 _ _ HF) HF Hc) as Hp.
    destruct (file_in_output _ _ _ Hm Hr Hp) as [qf Hq]. exists qf. split; [exact Hq|].
    destruct (output_entry _ _ _ _ Hr Hq) as [pf' [HF' Htf]]. rewrite HF in HF'. injection HF' as <-.
    apply trim_file_always_kept in Htf. tauto.
  Qed.

  (* every file of the output keeps all its constants, typedefs and enums *)
  Theorem trim_output_file_keeps_all q F qf :
    trim = Trimmed q -> In (F, qf) q ->
    exists pf, prog_file p F = Some pf /\
      f_constants qf = f_constants pf /\ f_typedefs qf = f_typedefs pf /\ f_enums qf = f_enums pf /\
      f_namespaces qf = f_namespaces pf /\ f_filename qf = f_filename pf.
  Proof.
    intros Ht Hq. destruct (trim_trimmed _ Ht) as [fin [Hm Hr]].
    destruct (output_entry _ _ _ _ Hr Hq) as [pf [HF Htf]]. exists pf. split; [exact HF|].
    apply trim_file_always_kept in Htf. tauto.
  Qed.

  (* ------------------------------------------------------------ minimality *)

  Theorem trim_minimal_struct_like q fin F qf k s :
    trim = Trimmed q -> marks_of fin -> In (F, qf) q -> In s (sl_list k qf) ->
    exists pf i, prog_file p F = Some pf /\ nth_error (sl_list k pf) i = Some s /\
                 needed cp c p (kept_methods c fin) (NStructLike F k i).
  Proof.
    intros Ht Hm Hq Hs. destruct Hwf as [W1 W2 W3 W4].
    destruct (trim_trimmed _ Ht) as [fin' [Hm' Hr]].
    unfold marks_of in *. rewrite Hm in Hm'. injection Hm' as <-.
    destruct (output_entry _ _ _ _ Hr Hq) as [pf [HF Htf]].
    destruct (trim_file_struct_likes _ _ _ _ _ _ _ _ _ Htf Hs) as [i [Hi Hk]].
    exists pf, i. split; [exact HF|]. split; [exact Hi|].
    unfold keep_sl in Hk. cbn [fst snd] in Hk. apply orb_true_iff in Hk. destruct Hk as [Hk|Hk].
    - apply marked_In in Hk. apply (final_marks_good matches cp c p _ _ W4 Hm) in Hk.
      eapply good_sl_needed; eauto.
    - rewrite check_preserve_preserved in Hk. eapply preserved_root; eauto.
  Qed.

  Theorem trim_minimal_include q fin F qf inc :
    trim = Trimmed q -> marks_of fin -> no_filter c = true -> In (F, qf) q -> In inc (f_includes qf) ->
    exists pf i inc0, prog_file p F = Some pf /\ nth_error (f_includes pf) i = Some inc0 /\
                      in_path inc = in_path inc0 /\ in_ref inc = in_ref inc0 /\
                      include_needed cp c p (kept_methods c fin) F i.
  Proof.
    intros Ht Hm Hnf Hq Hi. destruct Hwf as [W1 W2 W3 W4].
    destruct (trim_trimmed _ Ht) as [fin' [Hm' Hr]].
    unfold marks_of in *. rewrite Hm in Hm'. injection Hm' as <-.
    destruct (output_entry _ _ _ _ Hr Hq) as [pf [HF Htf]].
    destruct (trim_file_includes _ _ _ _ _ _ _ _ Htf Hi) as [i [inc0 [Hn [-> Hk]]]].
    exists pf, i, inc0. split; [exact HF|]. split; [exact Hn|]. split; [reflexivity|]. split; [reflexivity|].
    unfold keep_include in Hk. cbn [fst snd] in Hk.
    destruct (include_target p inc0) as [tf|] eqn:Et; [|discriminate]. injection Hk as Hk.
    assert (exists tn, in_ref inc0 = Some tn /\ prog_file p tn = Some tf /\
                       include_file p pf (Z.of_nat i) = Some (i, tn)) as [tn [Hr0 [Htn Hif]]].
    { unfold include_target in Et. destruct (in_ref inc0) as [tn|] eqn:Er; [|discriminate].
      exists tn. split; [reflexivity|]. split; [exact Et|].
      unfold include_file, nth_include. destruct (Z.of_nat i <? 0)%Z eqn:Ez; [apply Z.ltb_lt in Ez; lia|].
      rewrite Nat2Z.id, Hn, Er, Et. reflexivity. }
    apply orb_true_iff in Hk. destruct Hk as [Hk|Hk].
    - apply marked_In in Hk. apply (final_marks_good matches cp c p _ _ W4 Hm) in Hk.
      destruct Hk as [Hk|[G [j [[= <- <-] [E|Hk]]]]]; [left; exact Hk | congruence | right; exact Hk].
    - right. exists pf, tn, tn, tf. split; [exact HF|]. split; [exact Hif|]. split; [apply below_refl|].
      split; [exact Htn|]. unfold file_has_kept_part. cbn [snd]. rewrite Hk. reflexivity.
  Qed.

  (* ------------------------------------------------------------ kept definitions are unchanged *)

  Theorem trim_schema_preserved q F qf :
    trim = Trimmed q -> In (F, qf) q ->
    exists pf, prog_file p F = Some pf /\
      (forall k s, In s (sl_list k qf) -> In s (sl_list k pf)) /\
      f_typedefs qf = f_typedefs pf /\ f_enums qf = f_enums pf /\ f_constants qf = f_constants pf /\
      (forall sv, In sv (f_services qf) -> exists sv0, In sv0 (f_services pf) /\ sv_name sv = sv_name sv0 /\
                  forall fn, In fn (sv_functions sv) -> In fn (sv_functions sv0)).
  Proof.
    intros Ht Hq. destruct (trim_trimmed _ Ht) as [fin [Hm Hr]].
    destruct (output_entry _ _ _ _ Hr Hq) as [pf [HF Htf]]. exists pf. split; [exact HF|].
    split.
    { intros k s Hs. destruct (trim_file_struct_likes _ _ _ _ _ _ _ _ _ Htf Hs) as [i [Hi _]].
      eapply nth_error_In; eauto. }
    pose proof (trim_file_always_kept _ _ _ _ _ _ _ Htf) as [E1 [E2 [E3 _]]].
    split; [exact E2|]. split; [exact E3|]. split; [exact E1|].
    unfold trim_file in Htf. apply bind_ok in Htf. destruct Htf as [incs [_ Htf]]. injection Htf as <-.
    cbn [f_services]. intros sv Hsv. apply in_map_iff in Hsv. destruct Hsv as [[i s0] [<- Hsv]].
    apply filter_In in Hsv. destruct Hsv as [Hin _]. apply indexed_In in Hin.
    exists s0. split; [eapply nth_error_In; eauto|].
    unfold trim_service. cbn [fst snd].
    assert (forall fn, In fn (if filtering c
                              then map snd (filter (fun jf => marked fin (NFunction F i (fst jf))) (indexed (sv_functions s0)))
                              else sv_functions s0) -> In fn (sv_functions s0)) as Hfn.
    { destruct (filtering c); [|auto]. intros fn Hfn. apply in_map_iff in Hfn. destruct Hfn as [[j fn'] [<- Hfn]].
      apply filter_In in Hfn. destruct Hfn as [Hfn _]. apply indexed_In in Hfn. eapply nth_error_In; eauto. }
    destruct (in_ext fin F i); cbn [sv_name sv_functions]; auto.
  Qed.
End Main.


(* ==================================================================== the method filter: why a method is kept *)

(* ---------------------------------------------------------------- the method filter *)

Section Filter.
  Variable matches : bytes -> bytes -> bool.
  Variable c : cfg.
  Variable p : program.

  Definition service_at (F : bytes) (si : nat) (s : service) : Prop :=
    exists f, prog_file p F = Some f /\ nth_error (f_services f) si = Some s.

  (* [derives (G, gi) (F, si)]: service (F, si) is reached from (G, gi) through `extends` *)
  Inductive derives : bytes * nat -> bytes * nat -> Prop :=
  | d_refl x : derives x x
  | d_step G gi gs G' gi' via y :
      service_at G gi gs -> base_of p G gs = Some (NService G' gi', via) -> derives (G', gi') y ->
      derives (G, gi) y.

  Lemma derives_snoc x G gi gs G' gi' via :
    derives x (G, gi) -> service_at G gi gs -> base_of p G gs = Some (NService G' gi', via) ->
    derives x (G', gi').
  Proof.
    intros H Hs Hb. remember (G, gi) as y eqn:Ey. revert G gi gs Hs Hb Ey.
    induction H as [x | A ai as_ A' ai' via' y Hs' Hb' _ IH]; intros G gi gs Hs Hb Ey; subst.
    - eapply d_step; [exact Hs | exact Hb | apply d_refl].
    - eapply d_step; [exact Hs' | exact Hb'|]. eapply IH; eauto.
  Qed.

  (* why a method was kept: some pattern matches its name qualified with the name of its
     own service or of a service that (transitively) extends it; for its own service
     the Go name is used when match_go_name is on *)
  Definition fn_selected (F : bytes) (si : nat) (s : service) (fn : function) : Prop :=
    exists pat, In pat (patterns c p) /\
      exists G gi gs, service_at G gi gs /\ derives (G, gi) (F, si) /\
        (matches pat (qualified (sv_name gs) (fn_name fn)) = true \/
         (G = F /\ gi = si /\ matches pat (service_func_name c s fn) = true)).

  Definition fn_ok (st : mstate) : Prop :=
    forall F si j, marked st (NFunction F si j) = true ->
      exists s fn, service_at F si s /\ nth_error (sv_functions s) j = Some fn /\ fn_selected F si s fn.

  (* marking types marks no function *)
  Definition same_functions (a b : mstate) : Prop :=
    forall F s j, marked b (NFunction F s j) = true -> marked a (NFunction F s j) = true.
  Lemma same_functions_refl a : same_functions a a. Proof. intros F s j H. exact H. Qed.
  Lemma same_functions_trans a b d : same_functions a b -> same_functions b d -> same_functions a d.
  Proof. intros H1 H2 F s j H. auto. Qed.
  Lemma same_functions_mark n st : (forall F s j, n <> NFunction F s j) -> same_functions st (mark n st).
  Proof.
    intros Hn F s j H. apply marked_mark in H. destruct H as [H|H]; [|exact H].
    exfalso. eapply Hn. symmetry. exact H.
  Qed.
  Lemma same_functions_mark_ty n st : svc_fn n = false -> same_functions st (mark n st).
  Proof. intros H. apply same_functions_mark. intros F s j ->. discriminate. Qed.
  Definition mark_types_functions :=
    mark_types_R p same_functions same_functions_refl same_functions_trans same_functions_mark_ty.
  Definition mark_sl_functions :=
    mark_sl_R p same_functions same_functions_refl same_functions_trans same_functions_mark_ty.

  Lemma fn_ok_same a b : same_functions a b -> fn_ok a -> fn_ok b.
  Proof. intros H Ha F si j Hm. apply Ha. apply H. exact Hm. Qed.

  (* markFunction marks exactly one function *)
  Lemma mark_function_fn_ok fuel F f s si j fn st st' :
    prog_file p F = Some f -> nth_error (f_services f) si = Some s -> nth_error (sv_functions s) j = Some fn ->
    mark_function p fuel F si j fn st = Ok st' -> fn_selected F si s fn -> fn_ok st -> fn_ok st'.
  Proof.
    intros Hf Hs Hj H Hsel Hst. unfold mark_function in H.
    apply bind_ok in H. destruct H as [st1 [H1 H]].
    apply bind_ok in H. destruct H as [st2 [H2 H]].
    apply mark_types_functions in H1. apply mark_types_functions in H2.
    assert (same_functions st2 st') as H3.
    { destruct (fn_void fn); [injection H as <-; apply same_functions_refl | eapply mark_types_functions; eauto]. }
    intros F' si' j' Hm. apply H3, H2, H1 in Hm. apply marked_mark in Hm. destruct Hm as [[= -> -> ->]|Hm]; [|auto].
    exists s, fn. split; [exists f; auto|]. auto.
  Qed.

  Lemma fn_ok_mark_other n st : (forall F s j, n <> NFunction F s j) -> fn_ok st -> fn_ok (mark n st).
  Proof. intros Hn. apply fn_ok_same. apply same_functions_mark. exact Hn. Qed.

  Lemma mark_service_include_fn_ok F f s a b : mark_service_include p F f s a = Ok b -> fn_ok a -> fn_ok b.
  Proof.
    unfold mark_service_include. destruct (sv_ref s) as [r|]; [|intros [= <-]; auto].
    destruct (include_file p f (ref_index r)) as [[i tn]|]; [|discriminate].
    intros [= <-]. apply fn_ok_mark_other. discriminate.
  Qed.

  Definition fathers_ok (fa : list bytes) (F : bytes) (si : nat) : Prop :=
    forall father, In father fa -> exists G gi gs, service_at G gi gs /\ sv_name gs = father /\ derives (G, gi) (F, si).

  Definition trace_fn (rec : list bytes -> bytes -> nat -> mstate -> res (mstate * bool)) : Prop :=
    forall fa F si st r, rec fa F si st = Ok r -> fathers_ok fa F si -> fn_ok st -> fn_ok (fst r).

  Lemma trace_body_fn rec fuel : trace_fn rec -> trace_fn (trace_body matches c p rec fuel).
  Proof.
    intros Hrec fa F si st r. unfold trace_body.
    destruct (prog_file p F) as [f|] eqn:Hf; [|discriminate].
    destruct (nth_error (f_services f) si) as [s|] eqn:Hs; [|discriminate].
    intros H Hfa Hst. apply bind_ok in H. destruct H as [[st1 ret1] [H1 H]].
    assert (fn_ok st1) as G1.
    { change st1 with (fst (st1, ret1)). revert H1. change (fn_ok st) with (fn_ok (fst (st, false))) in Hst. revert Hst.
      generalize (st, false). generalize (st1, ret1). intros b a Ha Hfo. revert a b Hfo Ha.
      assert (forall l, (forall jf, In jf l -> In jf (indexed (sv_functions s))) ->
                forall a b, fold_res (fun jf : nat * function =>
                   fold_res (fun father : bytes =>
                     fold_res (fun (pat : bytes) (acc : mstate * bool) =>
                        if matches pat (qualified father (fn_name (snd jf)))
                        then bind (mark_function p fuel F si (fst jf) (snd jf) (mark (NService F si) (fst acc)))
                                  (fun st' => Ok (st', true))
                        else Ok acc) (patterns c p)) fa) l a = Ok b -> fn_ok (fst a) -> fn_ok (fst b)) as Hl.
      { induction l as [|[j fn] l IHl]; intros Hsub a b Hfo Ha; cbn [fold_res] in Hfo.
        - injection Hfo as <-. exact Ha.
        - apply bind_ok in Hfo. destruct Hfo as [a1 [Hx Hr]].
          eapply IHl; [intros; apply Hsub; right; assumption | exact Hr|].
          pose proof (Hsub _ (or_introl eq_refl)) as Hj. apply indexed_In in Hj. cbn [fst snd] in Hx.
          clear Hr. revert a a1 Hx Ha.
          assert (forall fl, (forall x, In x fl -> In x fa) ->
                    forall a a1, fold_res (fun father : bytes =>
                       fold_res (fun (pat : bytes) (acc : mstate * bool) =>
                          if matches pat (qualified father (fn_name fn))
                          then bind (mark_function p fuel F si j fn (mark (NService F si) (fst acc)))
                                    (fun st' => Ok (st', true))
                          else Ok acc) (patterns c p)) fl a = Ok a1 -> fn_ok (fst a) -> fn_ok (fst a1)) as Hfl.
          { induction fl as [|father fl IHf]; intros Hsf a a1 Hx Ha; cbn [fold_res] in Hx.
            - injection Hx as <-. exact Ha.
            - apply bind_ok in Hx. destruct Hx as [a2 [Hy Hr]].
              eapply IHf; [intros; apply Hsf; right; assumption | exact Hr|].
              clear Hr. revert a a2 Hy Ha.
              assert (forall pl, (forall x, In x pl -> In x (patterns c p)) ->
                        forall a a2, fold_res (fun (pat : bytes) (acc : mstate * bool) =>
                            if matches pat (qualified father (fn_name fn))
                            then bind (mark_function p fuel F si j fn (mark (NService F si) (fst acc)))
                                      (fun st' => Ok (st', true))
                            else Ok acc) pl a = Ok a2 -> fn_ok (fst a) -> fn_ok (fst a2)) as Hpl.
              { induction pl as [|pat pl IHp]; intros Hsp a a2 Hy Ha; cbn [fold_res] in Hy.
                - injection Hy as <-. exact Ha.
                - apply bind_ok in Hy. destruct Hy as [a3 [Hz Hr]].
                  eapply IHp; [intros; apply Hsp; right; assumption | exact Hr|].
                  destruct (matches pat (qualified father (fn_name fn))) eqn:Em; [|injection Hz as <-; exact Ha].
                  apply bind_ok in Hz. destruct Hz as [s' [Hz Hr']]. injection Hr' as <-. cbn [fst].
                  eapply mark_function_fn_ok; [exact Hf | exact Hs | exact Hj | exact Hz | | apply fn_ok_mark_other; [discriminate | exact Ha]].
                  exists pat. split; [apply Hsp; left; reflexivity|].
                  destruct (Hfa father (Hsf _ (or_introl eq_refl))) as [G [gi [gs [Hg [En Hd]]]]].
                  exists G, gi, gs. split; [exact Hg|]. split; [exact Hd|]. left. rewrite En. exact Em. }
              intros a a2. apply Hpl. auto. }
          intros a a1. apply Hfl. auto. }
      intros a b. apply Hl. auto. }
    apply bind_ok in H. destruct H as [[st3 ret] [H3 H]].
    assert (fn_ok st3) as G3.
    { destruct (is_nil (sv_extends s)) eqn:Enil; [injection H3 as <- <-; exact G1|].
      apply bind_ok in H3. destruct H3 as [nb [Hb H3]].
      destruct nb as [[[bn bi] b]|]; [|discriminate].
      apply bind_ok in H3. destruct H3 as [[st2 back] [H2 H3]]. injection H3 as <- <-.
      assert (sv_extends s <> []) as Hne by (apply is_nil_false; exact Enil).
      destruct (base_service_spec _ _ _ _ _ _ _ Hf Hne Hb) as [via [Hbo _]].
      assert (service_at bn bi b) as Hsb.
      { unfold base_service in Hb. destruct (sv_ref s) as [rf|].
        - destruct (include_file p f (ref_index rf)) as [[ii tn]|]; [|discriminate].
          destruct (prog_file p tn) as [tf|] eqn:Htf; [|discriminate].
          destruct (find_index _ _) as [[jj x]|] eqn:Efi; [|discriminate]. injection Hb as <- <- <-.
          apply find_index_some in Efi. exists tf. tauto.
        - destruct (find_index _ _) as [[jj x]|] eqn:Efi; [|discriminate]. injection Hb as <- <- <-.
          apply find_index_some in Efi. exists f. tauto. }
      assert (fathers_ok (fa ++ [sv_name b]) bn bi) as Hfa'.
      { intros father Hin. apply in_app_iff in Hin. destruct Hin as [Hin|[<-|[]]].
        - destruct (Hfa _ Hin) as [G [gi [gs [Hg [En Hd]]]]]. exists G, gi, gs. split; [exact Hg|]. split; [exact En|].
          eapply derives_snoc; [exact Hd | exists f; eauto | exact Hbo].
        - exists bn, bi, b. split; [exact Hsb|]. split; [reflexivity | apply d_refl]. }
      pose proof (Hrec _ _ _ _ _ H2 Hfa' G1) as G2. cbn [fst] in G2.
      destruct back; [exact G2|]. intros F' si' j' Hm. apply G2. exact Hm. }
    destruct ret.
    - apply bind_ok in H. destruct H as [st4 [H4 H]]. injection H as <-. cbn [fst].
      eapply mark_service_include_fn_ok; [exact H4|]. apply fn_ok_mark_other; [discriminate | exact G3].
    - injection H as <-. exact G3.
  Qed.
End Filter.


(* ==================================================================== the method filter: markService, the theorem *)

Section Filter2.
  Variable matches : bytes -> bytes -> bool.
  Variable compiles : bytes -> bool.
  Variable cp : bytes -> bool.
  Variable c : cfg.
  Variable p : program.
  Hypothesis Hfilter : filtering c = true.

  Notation fn_ok := (fn_ok matches c p).

  Lemma trace_fn_all fuel : trace_fn matches c p (trace matches c p fuel).
  Proof.
    induction fuel as [|n IH]; cbn.
    - intros fa F si st r H. discriminate.
    - apply trace_body_fn. exact IH.
  Qed.

  Definition svc_fn_ok (rec : bytes -> nat -> mstate -> res mstate) : Prop :=
    forall F si st st', rec F si st = Ok st' -> fn_ok st -> fn_ok st'.

  Lemma selects_matches pat name : selects matches pat name = true -> matches pat name = true.
  Proof. unfold selects. intros H. apply andb_true_iff in H. tauto. Qed.

  Lemma mark_service_body_fn rec fuel : svc_fn_ok rec -> svc_fn_ok (mark_service_body matches c p rec fuel).
  Proof.
    intros Hrec F si st st'. unfold mark_service_body.
    destruct (prog_file p F) as [f|] eqn:Hf; [|discriminate].
    destruct (nth_error (f_services f) si) as [s|] eqn:Hs; [|discriminate].
    destruct (marked st (NService F si)); [intros [= <-]; auto|].
    rewrite Hfilter. cbv beta iota.
    intros H Hst. apply bind_ok in H. destruct H as [st1 [H1 H]].
    assert (service_at p F si s) as Hsa by (exists f; auto).
    assert (fn_ok st1) as G1.
    { revert H1 Hst. generalize st. generalize st1. intros b a Hfo Ha. revert a b Hfo Ha.
      assert (forall l, (forall jf, In jf l -> In jf (indexed (sv_functions s))) ->
                forall a b, fold_res (fun (jf : nat * function) (st0 : mstate) =>
                   fold_res (fun pat st2 =>
                      if selects matches pat (service_func_name c s (snd jf))
                      then mark_function p fuel F si (fst jf) (snd jf) (mark (NService F si) st2)
                      else Ok st2) (patterns c p) st0) l a = Ok b -> fn_ok a -> fn_ok b) as Hl.
      { induction l as [|[j fn] l IHl]; intros Hsub a b Hfo Ha; cbn [fold_res] in Hfo.
        - injection Hfo as <-. exact Ha.
        - apply bind_ok in Hfo. destruct Hfo as [a1 [Hx Hr]].
          eapply IHl; [intros; apply Hsub; right; assumption | exact Hr|].
          pose proof (Hsub _ (or_introl eq_refl)) as Hj. apply indexed_In in Hj. cbn [fst snd] in Hx.
          clear Hr. revert a a1 Hx Ha.
          assert (forall pl, (forall x, In x pl -> In x (patterns c p)) ->
                    forall a a1, fold_res (fun pat st2 =>
                        if selects matches pat (service_func_name c s fn)
                        then mark_function p fuel F si j fn (mark (NService F si) st2)
                        else Ok st2) pl a = Ok a1 -> fn_ok a -> fn_ok a1) as Hpl.
          { induction pl as [|pat pl IHp]; intros Hsp a a1 Hy Ha; cbn [fold_res] in Hy.
            - injection Hy as <-. exact Ha.
            - apply bind_ok in Hy. destruct Hy as [a3 [Hz Hr]].
              eapply IHp; [intros; apply Hsp; right; assumption | exact Hr|].
              destruct (selects matches pat (service_func_name c s fn)) eqn:Em; [|injection Hz as <-; exact Ha].
              eapply mark_function_fn_ok; [exact Hf | exact Hs | exact Hj | exact Hz | | apply fn_ok_mark_other; [discriminate | exact Ha]].
              exists pat. split; [apply Hsp; left; reflexivity|].
              exists F, si, s. split; [exact Hsa|]. split; [apply d_refl|]. right.
              split; [reflexivity|]. split; [reflexivity|]. apply selects_matches. exact Em. }
          intros a a1. apply Hpl. auto. }
      intros a b. apply Hl. auto. }
    apply bind_ok in H. destruct H as [st2 [H2 H]].
    assert (fn_ok st2) as G2.
    { destruct (true && _).
      - apply bind_ok in H2. destruct H2 as [r [H2 H3]]. injection H3 as <-.
        eapply trace_fn_all; [exact H2 | | exact G1].
        intros father [<-|[]]. exists F, si, s. split; [exact Hsa|]. split; [reflexivity | apply d_refl].
      - injection H2 as <-. exact G1. }
    destruct (negb (is_nil (sv_extends s)) && marked st2 (NService F si)); [|injection H as <-; exact G2].
    destruct (sv_ref s) as [r|].
    - apply bind_ok in H. destruct H as [st3 [H3 H]].
      apply bind_ok in H. destruct H as [nb [Hb H]].
      apply (mark_service_include_fn_ok matches c p) in H3; [|exact G2].
      destruct nb as [[[bn bi] b]|]; [eapply Hrec; eauto | injection H as <-; exact H3].
    - apply bind_ok in H. destruct H as [nb [Hb H]].
      destruct nb as [[[bn bi] b]|]; [eapply Hrec; eauto | injection H as <-; exact G2].
  Qed.

  Lemma mark_service_fn fuel : svc_fn_ok (mark_service matches c p fuel).
  Proof.
    induction fuel as [|n IH]; cbn.
    - intros F si st st' H. discriminate.
    - apply mark_service_body_fn. exact IH.
  Qed.

  (* markKeptPart and preProcess mark no function *)
  Lemma kept_part_functions fuel F st r : kept_part cp c p fuel F st = Ok r -> same_functions st (fst r).
  Proof.
    unfold kept_part. destruct (lookup F (ms_cache st)); [intros [= <-]; apply same_functions_refl|].
    destruct (prog_file p F) as [f|]; [|discriminate].
    intros H. apply bind_ok in H. destruct H as [st1 [H1 H]].
    apply bind_ok in H. destruct H as [st2 [H2 H]].
    apply bind_ok in H. destruct H as [[st3 r3] [H3 H]]. injection H as <-. cbn [fst].
    apply mark_types_functions in H1. apply mark_types_functions in H2.
    eapply same_functions_trans; [exact H1|]. eapply same_functions_trans; [exact H2|].
    assert (same_functions st3 (add_cache F r3 st3)) as Hc by (intros G s j Hm; exact Hm).
    eapply same_functions_trans; [|exact Hc].
    assert (forall k l a b, fold_res
       (fun (is : nat * struct_like) (acc : mstate * bool) =>
          if negb (marked (fst acc) (NStructLike F k (fst is))) && check_preserve cp c F k (snd is)
          then bind (mark_sl p fuel F k (fst is) (snd is) (fst acc)) (fun st' => Ok (st', true))
          else Ok acc) l a = Ok b -> same_functions (fst a) (fst b)) as Hl.
    { intros k l. apply fold_res_rel with (R := fun a b => same_functions (fst a) (fst b));
        [intros; apply same_functions_refl | intros ? ? ?; apply same_functions_trans|].
      intros is a b _. destruct (_ && _); [|intros [= <-]; apply same_functions_refl].
      intros H4. apply bind_ok in H4. destruct H4 as [st' [H4 H5]]. injection H5 as <-.
      apply mark_sl_functions in H4. exact H4. }
    destruct (c_force c); [injection H3 as <- <-; apply same_functions_refl|].
    apply bind_ok in H3. destruct H3 as [a1 [Ha1 H3]].
    apply bind_ok in H3. destruct H3 as [a2 [Ha2 H3]].
    apply Hl in Ha1. apply Hl in Ha2. apply Hl in H3. cbn [fst] in *.
    eapply same_functions_trans; [exact Ha1|]. eapply same_functions_trans; eauto.
  Qed.

  Lemma pre_process_functions fuel : forall F st r, pre_process cp c p fuel F st = Ok r -> same_functions st (fst r).
  Proof.
    induction fuel as [|n IH]; intros F st r H; cbn [pre_process] in H; [discriminate|].
    apply bind_ok in H. destruct H as [[st1 ret] [H1 H]].
    apply kept_part_functions in H1. cbn [fst] in H1.
    destruct (prog_file p F) as [f|]; [|discriminate].
    eapply same_functions_trans; [exact H1|].
    change (same_functions (fst (st1, ret)) (fst r)). revert H.
    apply fold_res_rel with (R := fun a b => same_functions (fst a) (fst b));
      [intros; apply same_functions_refl | intros ? ? ?; apply same_functions_trans|].
    intros ii a b _. destruct (include_file p f _) as [[i tn]|]; [|discriminate].
    intros H. apply bind_ok in H. destruct H as [[s' m] [H2 H]].
    apply IH in H2. cbn [fst] in H2. injection H as <-.
    destruct m; cbn [fst]; [|exact H2].
    eapply same_functions_trans; [exact H2|]. apply same_functions_mark. intros ? ? ?; discriminate.
  Qed.

  Theorem final_functions_selected fuel fin : mark_ast matches cp c p fuel = Ok fin -> fn_ok fin.
  Proof.
    intros H. unfold mark_ast in H.
    destruct (prog_main p) as [f|] eqn:Hm; [|discriminate].
    apply bind_ok in H. destruct H as [[st1 r1] [H1 H]].
    apply bind_ok in H. destruct H as [st2 [H2 H]].
    apply bind_ok in H. destruct H as [[st3 r3] [H3 H]]. injection H as <-. cbn [fst].
    apply pre_process_functions in H1. cbn [fst] in H1.
    apply kept_part_functions in H3. cbn [fst] in H3.
    eapply fn_ok_same; [exact H3|].
    assert (fn_ok st1) as G1.
    { eapply fn_ok_same; [exact H1|]. intros F si j Hm'. discriminate. }
    revert H2 G1. generalize st1. generalize (indexed (f_services f)). intros l.
    induction l as [|[i s] l IH]; intros a Hfo Ha; cbn [fold_res] in Hfo.
    - injection Hfo as <-. exact Ha.
    - apply bind_ok in Hfo. destruct Hfo as [a1 [Hx Hr]]. eapply IH; [exact Hr|].
      eapply mark_service_fn; eauto.
  Qed.

  (* with a method filter only matching methods remain *)
  Theorem method_filter_only_matching q F qf sv fn :
    trim matches compiles cp c p = Trimmed q -> In (F, qf) q -> In sv (f_services qf) -> In fn (sv_functions sv) ->
    exists si s0, service_at p F si s0 /\ sv_name sv = sv_name s0 /\ In fn (sv_functions s0) /\
                  fn_selected matches c p F si s0 fn.
  Proof.
    intros Ht Hq Hsv Hfn. destruct (trim_trimmed _ _ _ _ _ _ Ht) as [fin [Hm Hr]].
    destruct (output_entry _ _ _ _ _ _ _ Hr Hq) as [pf [HF Htf]].
    pose proof (final_functions_selected _ _ Hm) as Hok.
    unfold trim_file in Htf. apply bind_ok in Htf. destruct Htf as [incs [_ Htf]]. injection Htf as <-.
    cbn [f_services] in Hsv. apply in_map_iff in Hsv. destruct Hsv as [[i s0] [<- Hsv]].
    apply filter_In in Hsv. destruct Hsv as [Hin _]. apply indexed_In in Hin.
    exists i, s0. split; [exists pf; auto|].
    unfold trim_service in *. cbn [fst snd] in *. rewrite Hfilter in *.
    assert (In fn (map snd (filter (fun jf => marked fin (NFunction F i (fst jf))) (indexed (sv_functions s0))))) as Hfn'.
    { destruct (in_ext fin F i); cbn [sv_functions] in Hfn; exact Hfn. }
    apply in_map_iff in Hfn'. destruct Hfn' as [[j fn'] [E Hj]]. cbn in E. subst fn'.
    apply filter_In in Hj. destruct Hj as [Hj Hmk]. apply indexed_In in Hj. cbn [fst] in Hmk.
    split; [destruct (in_ext fin F i); reflexivity|]. split; [eapply nth_error_In; eauto|].
    destruct (Hok _ _ _ Hmk) as [s1 [fn1 [[f1 [Hf1 Hs1]] [Hj1 Hsel]]]].
    rewrite HF in Hf1. injection Hf1 as <-. rewrite Hin in Hs1. injection Hs1 as <-.
    rewrite Hj in Hj1. injection Hj1 as <-. exact Hsel.
  Qed.
End Filter2.


(* ==================================================================== what does not hold with a method filter *)

(* ---------------------------------------------------------------- what does not hold (method filter) *)

Definition w_compiles (_ : bytes) : bool := true.
Definition w_preserves (_ : bytes) : bool := false.

Definition w_first : outcome := trim_resolved w_matches w_compiles w_preserves w_cfg w_program.
Definition w_second : outcome :=
  match w_first with
  | Trimmed q => trim_resolved w_matches w_compiles w_preserves w_cfg q
  | other => other
  end.

Definition outcome_program (o : outcome) : program := match o with Trimmed q => q | _ => [] end.

Lemma w_program_wf : wf_program w_program = true.
Proof. vm_compute. reflexivity. Qed.

(* trimming the trimmed program again changes it: `extends` of S was cleared by the first
   run, so the second run applies markService's stricter rule (fooBar goes) and drops the
   include the first run left behind *)
Theorem trim_not_idempotent_with_filter :
  exists q q2, w_first = Trimmed q /\ w_second = Trimmed q2 /\ program_eqb q q2 = false /\
               List.length q = 2 /\ List.length q2 = 1.
Proof.
  exists (outcome_program w_first), (outcome_program w_second).
  split; [vm_compute; reflexivity|]. split; [vm_compute; reflexivity|].
  split; [vm_compute; reflexivity|]. split; vm_compute; reflexivity.
Qed.

(* the include of a.thrift survives the first run although nothing needs it *)
Definition w_q : program :=
  Eval vm_compute in outcome_program (trim w_matches w_compiles w_preserves w_cfg w_program).
Definition w_fin : mstate :=
  Eval vm_compute in match mark_ast w_matches w_preserves w_cfg w_program (prog_size w_program) with
                     | Ok s => s
                     | _ => ms0
                     end.
Definition w_qf : file := Eval vm_compute in match w_q with (_, f) :: _ => f | [] => empty_file [] end.
Definition w_inc : include :=
  Eval vm_compute in match f_includes w_qf with i :: _ => i | [] => Include [] None None end.

Theorem trim_include_not_minimal_with_filter :
  trim w_matches w_compiles w_preserves w_cfg w_program = Trimmed w_q /\
  mark_ast w_matches w_preserves w_cfg w_program (prog_size w_program) = Ok w_fin /\
  In (main_name w_program, w_qf) w_q /\ In w_inc (f_includes w_qf) /\
  (exists pf, prog_file w_program (main_name w_program) = Some pf /\
              nth_error (f_includes pf) 0 = Some (Include (in_path w_inc) (in_ref w_inc) (Some true))) /\
  ~ include_needed w_preserves w_cfg w_program (kept_methods w_cfg w_fin) (main_name w_program) 0.
Proof.
  split; [vm_compute; reflexivity|]. split; [vm_compute; reflexivity|].
  split; [vm_compute; auto|]. split; [vm_compute; auto|].
  split; [eexists; split; vm_compute; reflexivity|].
  intros [Hn|Hl].
  - (* not needed: the computed closure does not contain it *)
    destruct (needed_nodes w_preserves w_cfg w_program (kept_methods w_cfg w_fin)) as [l|] eqn:El;
      [|vm_compute in El; discriminate].
    apply (needed_nodes_spec _ _ _ _ _ El) in Hn.
    vm_compute in El. injection El as <-.
    cbn in Hn. repeat (destruct Hn as [Hn|Hn]; [discriminate|]). exact Hn.
  - (* the file behind it has no constant, typedef, enum or preserved struct-like *)
    destruct Hl as [f [tn [G [gf [Hf [Hi [Hb [Hg Hk]]]]]]]].
    vm_compute in Hf. injection Hf as <-. vm_compute in Hi. injection Hi as <-.
    inversion Hb as [|F0 f0 inc0 G0 H0 Hf0 Hinc Hr0 Hb0]; subst.
    + vm_compute in Hg. injection Hg as <-. vm_compute in Hk. discriminate.
    + vm_compute in Hf0. injection Hf0 as <-. destruct Hinc.
Qed.


(* ==================================================================== the method filter, "if" half: traceExtendMethod tries every function under every name on the way *)

(* ---------------------------------------------------------------- the method filter, "if" half *)

(* a loop visits every element; what it establishes for one element stays *)
Lemma fold_res_all {A S} (f : A -> S -> res S) (R : S -> S -> Prop) (P : A -> S -> Prop) l :
  (forall s, R s s) -> (forall a b d, R a b -> R b d -> R a d) ->
  (forall x s s', In x l -> f x s = Ok s' -> R s s' /\ P x s') ->
  (forall x s s', R s s' -> P x s -> P x s') ->
  forall s s', fold_res f l s = Ok s' -> R s s' /\ forall x, In x l -> P x s'.
Proof.
  intros Hr Ht. induction l as [|y l IH]; intros Hstep Hmono s s' H; cbn [fold_res] in H.
  - injection H as <-. split; [apply Hr | intros x []].
  - apply bind_ok in H. destruct H as [s1 [H1 H2]].
    destruct (Hstep y s s1 (or_introl eq_refl) H1) as [R1 P1].
    destruct (IH (fun x a b Hin => Hstep x a b (or_intror Hin)) Hmono _ _ H2) as [R2 P2].
    split; [eapply Ht; eauto|]. intros x [<-|Hin]; [eapply Hmono; eauto | auto].
Qed.

Section FilterIf.
  Variable matches : bytes -> bytes -> bool.
  Variable cp : bytes -> bool.
  Variable c : cfg.
  Variable p : program.
  Hypothesis Hfilter : filtering c = true.

  Definition fn_at (T : bytes * nat) (j : nat) (ts : service) (g : function) : Prop :=
    service_at p (fst T) (snd T) ts /\ nth_error (sv_functions ts) j = Some g.

  Definition both_marked (st : mstate) (T : bytes * nat) (j : nat) : Prop :=
    marked st (NService (fst T) (snd T)) = true /\ marked st (NFunction (fst T) (snd T) j) = true.

  Lemma both_marked_le a b T j : le a b -> both_marked a T j -> both_marked b T j.
  Proof. intros L [H1 H2]. split; eapply le_marked; eauto. Qed.

  (* every function of every service reached from X through `extends` that matches under
     one of the names in [fa] is marked *)
  Definition trace_complete (st : mstate) (fa : list bytes) (X : bytes * nat) : Prop :=
    forall T j ts g father pat, derives p X T -> fn_at T j ts g -> In father fa -> In pat (patterns c p) ->
      matches pat (qualified father (fn_name g)) = true -> both_marked st T j.

  Lemma trace_complete_le a b fa X : le a b -> trace_complete a fa X -> trace_complete b fa X.
  Proof. intros L H T j ts g father pat Hd Hf Hi Hp Hm. eapply both_marked_le; eauto. Qed.

  Lemma service_at_fun F si s s' : service_at p F si s -> service_at p F si s' -> s = s'.
  Proof. intros [f [H1 H2]] [f' [H1' H2']]. congruence. Qed.

  Lemma derives_inv F si s T : derives p (F, si) T -> service_at p F si s ->
    T = (F, si) \/ exists b1 b2 via, base_of p F s = Some (NService b1 b2, via) /\ derives p (b1, b2) T.
  Proof.
    intros H Hs. inversion H as [x|G gi gs G' gi' via y Hs' Hb Hd]; subst; [left; reflexivity|].
    right. rewrite (service_at_fun _ _ _ _ Hs Hs'). eauto.
  Qed.

  Lemma mark_function_marks fuel F si j fn st st' :
    mark_function p fuel F si j fn st = Ok st' -> le st st' /\ marked st' (NFunction F si j) = true.
  Proof.
    intros H. pose proof (mark_function_le _ _ _ _ _ _ _ _ H) as L. split; [exact L|].
    unfold mark_function in H. apply bind_ok in H. destruct H as [x1 [X1 X2]].
    apply bind_ok in X2. destruct X2 as [x2 [X2 X3]].
    apply mark_types_le in X1. apply mark_types_le in X2.
    assert (le x2 st') as X4.
    { destruct (fn_void fn); [injection X3 as <-; apply le_refl | eapply mark_types_le; eauto]. }
    eapply le_marked; [exact X4|]. eapply le_marked; [exact X2|]. eapply le_marked; [exact X1|].
    apply marked_mark. auto.
  Qed.

  Definition trace_cpost (rec : list bytes -> bytes -> nat -> mstate -> res (mstate * bool)) : Prop :=
    forall fa F si st r, rec fa F si st = Ok r -> trace_complete (fst r) fa (F, si).

  Definition le2' (a b : mstate * bool) : Prop := le (fst a) (fst b).

  (* the loop of traceExtendMethod over the own functions *)
  Definition step3 fuel F si (jf : nat * function) (father pat : bytes) (acc : mstate * bool) : res (mstate * bool) :=
    if matches pat (qualified father (fn_name (snd jf)))
    then bind (mark_function p fuel F si (fst jf) (snd jf) (mark (NService F si) (fst acc)))
              (fun st' => Ok (st', true))
    else Ok acc.

  Lemma le2'_refl a : le2' a a. Proof. apply le_refl. Qed.
  Lemma le2'_trans a b d : le2' a b -> le2' b d -> le2' a d. Proof. apply le_trans. Qed.

  Lemma loop3 fuel F si jf father pats a b :
    fold_res (step3 fuel F si jf father) pats a = Ok b ->
    le2' a b /\ forall pat, In pat pats -> matches pat (qualified father (fn_name (snd jf))) = true ->
                                          both_marked (fst b) (F, si) (fst jf).
  Proof.
    apply (fold_res_all (step3 fuel F si jf father) le2'
             (fun pat acc => matches pat (qualified father (fn_name (snd jf))) = true ->
                             both_marked (fst acc) (F, si) (fst jf)) pats le2'_refl le2'_trans).
    - intros pat a2 b2 _ Hp. unfold step3 in Hp.
      destruct (matches pat (qualified father (fn_name (snd jf)))) eqn:Em.
      + apply bind_ok in Hp. destruct Hp as [s' [Hm Hr]]. injection Hr as <-. unfold le2'. cbn [fst].
        apply mark_function_marks in Hm. destruct Hm as [Lm Mm].
        split; [eapply le_trans; [apply le_mark | exact Lm]|]. intros _.
        split; [eapply le_marked; [exact Lm|]; apply marked_mark; auto | exact Mm].
      + injection Hp as <-. split; [apply le_refl | discriminate].
    - intros pat a2 b2 L Hb Hm. eapply both_marked_le; [exact L | exact (Hb Hm)].
  Qed.

  Lemma loop2 fuel F si jf fa a b :
    fold_res (fun father => fold_res (step3 fuel F si jf father) (patterns c p)) fa a = Ok b ->
    le2' a b /\ forall father, In father fa -> forall pat, In pat (patterns c p) ->
        matches pat (qualified father (fn_name (snd jf))) = true -> both_marked (fst b) (F, si) (fst jf).
  Proof.
    apply (fold_res_all (fun father => fold_res (step3 fuel F si jf father) (patterns c p)) le2'
             (fun father acc => forall pat, In pat (patterns c p) ->
                 matches pat (qualified father (fn_name (snd jf))) = true -> both_marked (fst acc) (F, si) (fst jf))
             fa le2'_refl le2'_trans).
    - intros father a2 b2 _ Hf. apply loop3 in Hf. exact Hf.
    - intros father a2 b2 L Hb pat Hp Hm. eapply both_marked_le; [exact L | exact (Hb pat Hp Hm)].
  Qed.

  Lemma trace_own_loop fuel fa F si s st st1 ret1 :
    fold_res (fun jf : nat * function =>
       fold_res (fun father : bytes => fold_res (step3 fuel F si jf father) (patterns c p)) fa)
       (indexed (sv_functions s)) (st, false) = Ok (st1, ret1) ->
    forall j g father pat, nth_error (sv_functions s) j = Some g -> In father fa -> In pat (patterns c p) ->
      matches pat (qualified father (fn_name g)) = true -> both_marked st1 (F, si) j.
  Proof.
    intros H.
    apply (fold_res_all _ le2'
             (fun jf acc => forall father, In father fa -> forall pat, In pat (patterns c p) ->
                 matches pat (qualified father (fn_name (snd jf))) = true -> both_marked (fst acc) (F, si) (fst jf))
             (indexed (sv_functions s)) le2'_refl le2'_trans) in H.
    - destruct H as [_ H]. intros j g father pat Hj Hf Hp Hm.
      assert (In (j, g) (indexed (sv_functions s))) as Hin by (apply indexed_In; exact Hj).
      exact (H (j, g) Hin father Hf pat Hp Hm).
    - intros jf a2 b2 _ Hj. apply loop2 in Hj. exact Hj.
    - intros jf a2 b2 L Hb father Hf pat Hp Hm. eapply both_marked_le; [exact L | exact (Hb father Hf pat Hp Hm)].
  Qed.

  Lemma trace_body_cpost rec fuel :
    (forall fa F si st r, rec fa F si st = Ok r -> le st (fst r)) ->
    trace_cpost rec -> trace_cpost (trace_body matches c p rec fuel).
  Proof.
    intros Hmono Hrec fa F si st r. unfold trace_body.
    destruct (prog_file p F) as [f|] eqn:Hf; [|discriminate].
    destruct (nth_error (f_services f) si) as [s|] eqn:Hs; [|discriminate].
    intros H. apply bind_ok in H. destruct H as [[st1 ret1] [H1 H]].
    pose proof (trace_own_loop _ _ _ _ _ _ _ _ H1) as Own.
    apply bind_ok in H. destruct H as [[st3 ret] [H3 H]].
    assert (service_at p F si s) as Hsa by (exists f; auto).
    assert (le st3 (fst r)) as L3r.
    { destruct ret.
      - apply bind_ok in H. destruct H as [st4 [H4 H]]. injection H as <-. cbn [fst].
        apply mark_service_include_le in H4. eapply le_trans; [apply le_mark | exact H4].
      - injection H as <-. apply le_refl. }
    eapply trace_complete_le; [exact L3r|]. clear H L3r.
    intros T j ts g father pat Hd [Hts Hj] Hfa Hp Hm.
    destruct (is_nil (sv_extends s)) eqn:Enil.
    - injection H3 as <- <-.
      destruct (derives_inv _ _ _ _ Hd Hsa) as [->|[b1 [b2 [via [Hb _]]]]].
      + cbn [fst snd] in Hts. rewrite (service_at_fun _ _ _ _ Hts Hsa) in Hj. eapply Own; eauto.
      + unfold base_of in Hb. destruct (sv_extends s); [discriminate | discriminate].
    - apply bind_ok in H3. destruct H3 as [nb [Hb H3]].
      destruct nb as [[[bn bi] b]|]; [|discriminate].
      apply bind_ok in H3. destruct H3 as [[st2 back] [H2 H3]]. injection H3 as <- <-.
      assert (sv_extends s <> []) as Hne by (apply is_nil_false; exact Enil).
      destruct (base_service_spec _ _ _ _ _ _ _ Hf Hne Hb) as [via [Hbo _]].
      pose proof (Hmono _ _ _ _ _ H2) as L2. cbn [fst] in L2.
      apply Hrec in H2. cbn [fst] in H2.
      assert (le st2 (if back then st2 else add_ext F si st2)) as Le by (destruct back; [apply le_refl | apply le_add_ext]).
      eapply both_marked_le; [exact Le|].
      destruct (derives_inv _ _ _ _ Hd Hsa) as [->|[b1 [b2 [via' [Hb' Hd']]]]].
      + cbn [fst snd] in Hts. rewrite (service_at_fun _ _ _ _ Hts Hsa) in Hj.
        eapply both_marked_le; [exact L2|]. eapply Own; eauto.
      + rewrite Hbo in Hb'. injection Hb' as <- <- _.
        eapply H2; [exact Hd' | split; eauto | apply in_or_app; left; exact Hfa | exact Hp | exact Hm].
  Qed.

  Lemma trace_cpost_all fuel : trace_cpost (trace matches c p fuel).
  Proof.
    induction fuel as [|n IH]; cbn.
    - intros fa F si st r H. discriminate.
    - apply trace_body_cpost; [apply trace_le | exact IH].
  Qed.
End FilterIf.


(* ==================================================================== the method filter, "if" half: complete services *)

Section FilterIf2.
  Variable matches : bytes -> bytes -> bool.
  Variable cp : bytes -> bool.
  Variable c : cfg.
  Variable p : program.
  Hypothesis Hfilter : filtering c = true.
  Hypothesis Hgo : c_go_name c = false.

  Notation both_marked := (both_marked).
  Notation trace_complete := (trace_complete matches c p).

  Definition has_ext (s : service) : bool := negb (is_nil (sv_extends s)) || negb (is_none (sv_ref s)).

  (* what markService's own loop guarantees *)
  Definition own_selects (st : mstate) (F : bytes) (si : nat) (s : service) : Prop :=
    forall j g pat, nth_error (sv_functions s) j = Some g -> In pat (patterns c p) ->
      selects matches pat (service_func_name c s g) = true -> both_marked st (F, si) j.

  Definition complete (st : mstate) (F : bytes) (si : nat) (s : service) : Prop :=
    own_selects st F si s /\ (has_ext s = true -> trace_complete st [sv_name s] (F, si)).

  Lemma complete_le a b F si s : le a b -> complete a F si s -> complete b F si s.
  Proof.
    intros L [H1 H2]. split.
    - intros j g pat Hj Hp Hs. eapply both_marked_le; [exact L | eapply H1; eauto].
    - intros He. eapply trace_complete_le; [exact L | auto].
  Qed.

  Lemma func_name_raw s g : service_func_name c s g = qualified (sv_name s) (fn_name g).
  Proof. unfold service_func_name. rewrite Hgo. reflexivity. Qed.

  Lemma selects_matches' pat name : selects matches pat name = true -> matches pat name = true.
  Proof. unfold selects. intros H. apply andb_true_iff in H. tauto. Qed.

  (* a service whose functions were all tried under its own name is complete *)
  Lemma complete_of_trace st fa F si s :
    service_at p F si s -> In (sv_name s) fa -> trace_complete st fa (F, si) -> complete st F si s.
  Proof.
    intros Hs Hin Ht. split.
    - intros j g pat Hj Hp Hsel. rewrite func_name_raw in Hsel. apply selects_matches' in Hsel.
      eapply (Ht (F, si) j s g (sv_name s) pat); [apply d_refl | split; [exact Hs | exact Hj] | exact Hin | exact Hp | exact Hsel].
    - intros _ T j ts g father pat Hd Hf [<-|[]] Hp Hm. eapply Ht; eauto.
  Qed.

  (* only (F, si) is marked as a service by a step *)
  Definition only_svc (F : bytes) (si : nat) (a b : mstate) : Prop :=
    forall G gi, marked b (NService G gi) = true -> marked a (NService G gi) = true \/ (G = F /\ gi = si).
  Lemma only_svc_refl F si a : only_svc F si a a. Proof. intros G gi H. auto. Qed.
  Lemma only_svc_trans F si a b d : only_svc F si a b -> only_svc F si b d -> only_svc F si a d.
  Proof. intros H1 H2 G gi H. apply H2 in H. destruct H as [H|H]; auto. Qed.
  Lemma only_svc_same F si a b : same_services a b -> only_svc F si a b.
  Proof. intros H G gi Hm. left. apply H. exact Hm. Qed.
  Lemma only_svc_mark F si a : only_svc F si a (mark (NService F si) a).
  Proof. intros G gi H. apply marked_mark in H. destruct H as [[= -> ->]|H]; auto. Qed.

  Lemma trace_loop_only fuel fa F si fns a b :
    fold_res (fun jf : nat * function =>
       fold_res (fun father : bytes => fold_res (step3 matches p fuel F si jf father) (patterns c p)) fa) fns a = Ok b ->
    only_svc F si (fst a) (fst b).
  Proof.
    apply fold_res_rel with (R := fun a b => only_svc F si (fst a) (fst b));
      [intros; apply only_svc_refl | intros ? ? ?; apply only_svc_trans|].
    intros jf a1 b1 _. apply fold_res_rel with (R := fun a b => only_svc F si (fst a) (fst b));
      [intros; apply only_svc_refl | intros ? ? ?; apply only_svc_trans|].
    intros father a2 b2 _. apply fold_res_rel with (R := fun a b => only_svc F si (fst a) (fst b));
      [intros; apply only_svc_refl | intros ? ? ?; apply only_svc_trans|].
    intros pat a3 b3 _. unfold step3. destruct (matches _ _); [|intros [= <-]; apply only_svc_refl].
    intros H. apply bind_ok in H. destruct H as [s' [Hm Hr]]. injection Hr as <-. cbn [fst].
    apply mark_function_services in Hm.
    eapply only_svc_trans; [apply only_svc_mark | apply only_svc_same; exact Hm].
  Qed.

  Lemma mark_service_include_services F f s a b : mark_service_include p F f s a = Ok b -> same_services a b.
  Proof.
    unfold mark_service_include. destruct (sv_ref s) as [r|]; [|intros [= <-]; apply same_services_refl].
    destruct (include_file p f (ref_index r)) as [[i tn]|]; [|discriminate].
    intros [= <-]. apply same_services_mark. intros ? ?; discriminate.
  Qed.

  Lemma base_service_at F f s bn bi b :
    prog_file p F = Some f -> base_service p F f s = Ok (Some (bn, bi, b)) -> service_at p bn bi b.
  Proof.
    intros Hf. unfold base_service. destruct (sv_ref s) as [rf|].
    - destruct (include_file p f (ref_index rf)) as [[ii tn]|]; [|discriminate].
      destruct (prog_file p tn) as [tf|] eqn:Htf; [|discriminate].
      destruct (find_index _ _) as [[jj x]|] eqn:Efi; [|discriminate]. intros [= <- <- <-].
      apply find_index_some in Efi. exists tf. tauto.
    - destruct (find_index _ _) as [[jj x]|] eqn:Efi; [|discriminate]. intros [= <- <- <-].
      apply find_index_some in Efi. exists f. tauto.
  Qed.

  (* ---------------- traceExtendMethod: the services it newly marks are complete *)
  Definition trace_npost (rec : list bytes -> bytes -> nat -> mstate -> res (mstate * bool)) : Prop :=
    forall fa F si s st r, rec fa F si st = Ok r -> service_at p F si s -> In (sv_name s) fa ->
      forall G gi gs, service_at p G gi gs -> marked (fst r) (NService G gi) = true ->
        marked st (NService G gi) = false -> complete (fst r) G gi gs.

  Lemma trace_body_npost rec fuel :
    (forall fa F si st r, rec fa F si st = Ok r -> le st (fst r)) ->
    trace_cpost matches c p rec -> trace_npost rec -> trace_npost (trace_body matches c p rec fuel).
  Proof.
    intros Hmono Hc Hrec fa F si s st r H Hsa Hin G gi gs Hg Hm H0.
    pose proof (trace_body_cpost matches c p rec fuel Hmono Hc _ _ _ _ _ H) as Hcomp.
    assert ((G = F /\ gi = si) \/ ~ (G = F /\ gi = si)) as [[EG Egi]|Hne].
    { destruct (Nat.eq_dec gi si); [destruct (list_eq_dec Byte.byte_eq_dec G F)|]; tauto. }
    { subst G gi. rewrite (service_at_fun _ _ _ _ _ Hg Hsa). eapply complete_of_trace; eauto. }
    unfold trace_body in H;
      destruct (prog_file p F) as [f|] eqn:Hf; [|discriminate];
      destruct (nth_error (f_services f) si) as [s'|] eqn:Hs; [|discriminate];
      apply bind_ok in H; destruct H as [[st1 ret1] [H1 H]];
      apply trace_loop_only in H1; cbn [fst] in H1;
      apply bind_ok in H; destruct H as [[st3 ret] [H3 H]].
    assert (le st3 (fst r) /\ only_svc F si st3 (fst r)) as [L3 O3] by
      (destruct ret;
       [apply bind_ok in H; destruct H as [st4 [H4 H]]; injection H as <-; cbn [fst];
        split; [apply mark_service_include_le in H4; eapply le_trans; [apply le_mark | exact H4]
               | eapply only_svc_trans; [apply only_svc_mark | apply only_svc_same; eapply mark_service_include_services; exact H4]]
       | injection H as <-; split; [apply le_refl | apply only_svc_refl]]).
    assert (marked st3 (NService G gi) = true) as M3 by
      (destruct (O3 _ _ Hm) as [M|[E1 E2]]; [exact M | exfalso; apply Hne; split; assumption]).
    assert (marked st1 (NService G gi) = false) as M1 by
      (destruct (marked st1 (NService G gi)) eqn:E; [|reflexivity];
       destruct (H1 _ _ E) as [M|[E1 E2]]; [congruence | exfalso; apply Hne; split; assumption]).
    destruct (is_nil (sv_extends s')) eqn:Enil; [injection H3 as <- <-; congruence|].
    apply bind_ok in H3; destruct H3 as [nb [Hb H3]];
      destruct nb as [[[bn bi] b]|]; [|discriminate];
      apply bind_ok in H3; destruct H3 as [[st2 back] [H2 H3]]; injection H3 as <- <-.
    assert (marked st2 (NService G gi) = true) as M2 by (destruct back; exact M3).
    eapply complete_le; [eapply le_trans; [|exact L3]; destruct back; [apply le_refl | apply le_add_ext]|].
    eapply (Hrec _ _ _ b _ _ H2); [eapply base_service_at; eauto | apply in_or_app; right; left; reflexivity
                                         | exact Hg | exact M2 | exact M1].
  Qed.

  Lemma trace_npost_all fuel : trace_npost (trace matches c p fuel).
  Proof.
    induction fuel as [|n IH]; cbn.
    - intros fa F si s st r H. discriminate.
    - apply trace_body_npost; [apply trace_le | apply trace_cpost_all | exact IH].
  Qed.
End FilterIf2.


(* ==================================================================== the method filter, "if" half: markService, the theorems *)

Section FilterIf3.
  Variable matches : bytes -> bytes -> bool.
  Variable compiles : bytes -> bool.
  Variable cp : bytes -> bool.
  Variable c : cfg.
  Variable p : program.
  Hypothesis Hfilter : filtering c = true.
  Hypothesis Hgo : c_go_name c = false.

  Notation complete := (complete matches c p).

  Definition svc_cpost (rec : bytes -> nat -> mstate -> res mstate) : Prop :=
    forall F si s st st', rec F si st = Ok st' -> service_at p F si s ->
      (marked st (NService F si) = false -> complete st' F si s) /\
      (forall G gi gs, service_at p G gi gs -> marked st' (NService G gi) = true ->
         marked st (NService G gi) = false -> complete st' G gi gs).

  (* the loop of markService over the own functions *)
  Definition sstep fuel F si (s : service) (jf : nat * function) (pat : bytes) (st : mstate) : res mstate :=
    if selects matches pat (service_func_name c s (snd jf))
    then mark_function p fuel F si (fst jf) (snd jf) (mark (NService F si) st)
    else Ok st.

  Lemma sloop fuel F si s a b :
    fold_res (fun jf st0 => fold_res (sstep fuel F si s jf) (patterns c p) st0) (indexed (sv_functions s)) a = Ok b ->
    le a b /\ only_svc F si a b /\ own_selects matches c p b F si s.
  Proof.
    intros H. split; [|split].
    - revert H. apply fold_res_rel; [apply le_refl | apply le_trans|].
      intros jf a1 b1 _. apply fold_res_rel; [apply le_refl | apply le_trans|].
      intros pat a2 b2 _. unfold sstep. destruct (selects _ _ _); [|intros [= <-]; apply le_refl].
      intros Hm. apply mark_function_le in Hm. eapply le_trans; [apply le_mark | exact Hm].
    - revert H. apply fold_res_rel; [apply only_svc_refl | apply only_svc_trans|].
      intros jf a1 b1 _. apply fold_res_rel; [apply only_svc_refl | apply only_svc_trans|].
      intros pat a2 b2 _. unfold sstep. destruct (selects _ _ _); [|intros [= <-]; apply only_svc_refl].
      intros Hm. apply mark_function_services in Hm.
      eapply only_svc_trans; [apply only_svc_mark | apply only_svc_same; exact Hm].
    - apply (fold_res_all _ le
               (fun jf st => forall pat, In pat (patterns c p) ->
                  selects matches pat (service_func_name c s (snd jf)) = true -> both_marked st (F, si) (fst jf))
               (indexed (sv_functions s)) le_refl le_trans) in H.
      + destruct H as [_ H]. intros j g pat Hj Hp Hs.
        assert (In (j, g) (indexed (sv_functions s))) as Hin by (apply indexed_In; exact Hj).
        exact (H (j, g) Hin pat Hp Hs).
      + intros jf a1 b1 _ Hj.
        apply (fold_res_all (sstep fuel F si s jf) le
                 (fun pat st => selects matches pat (service_func_name c s (snd jf)) = true -> both_marked st (F, si) (fst jf))
                 (patterns c p) le_refl le_trans) in Hj.
        * exact Hj.
        * intros pat a2 b2 _ Hp. unfold sstep in Hp.
          destruct (selects matches pat (service_func_name c s (snd jf))) eqn:Es.
          -- apply mark_function_marks in Hp. destruct Hp as [Lm Mm].
             split; [eapply le_trans; [apply le_mark | exact Lm]|]. intros _.
             split; [eapply le_marked; [exact Lm|]; apply marked_mark; auto | exact Mm].
          -- injection Hp as <-. split; [apply le_refl | discriminate].
        * intros pat a2 b2 L Hb Hs. eapply both_marked_le; [exact L | exact (Hb Hs)].
      + intros jf a1 b1 L Hb pat Hp Hs. eapply both_marked_le; [exact L | exact (Hb pat Hp Hs)].
  Qed.

  Lemma mark_service_body_cpost rec fuel :
    (forall F si st st', rec F si st = Ok st' -> le st st') ->
    svc_cpost rec -> svc_cpost (mark_service_body matches c p rec fuel).
  Proof.
    intros Hmono Hrec F si s st st' H Hsa.
    destruct Hsa as [f [Hf Hs]]. unfold mark_service_body in H. rewrite Hf, Hs in H.
    destruct (marked st (NService F si)) eqn:Em.
    { injection H as <-. split; [discriminate|]. intros G gi gs _ H1 H0. congruence. }
    rewrite Hfilter in H. cbv beta iota in H.
    apply bind_ok in H. destruct H as [st1 [H1 H]].
    apply sloop in H1. destruct H1 as [L1 [O1 Own1]].
    apply bind_ok in H. destruct H as [st2 [H2 H]].
    assert (service_at p F si s) as Hsa by (exists f; auto).
    (* traceExtendMethod *)
    assert (le st1 st2 /\ complete st2 F si s /\
            (forall G gi gs, service_at p G gi gs -> marked st2 (NService G gi) = true ->
               marked st1 (NService G gi) = false -> complete st2 G gi gs)) as [L2 [C2 N2]].
    { change (negb (is_nil (sv_extends s)) || negb (is_none (sv_ref s))) with (has_ext s) in H2.
      destruct (has_ext s) eqn:Ee; cbn [andb] in H2.
      - apply bind_ok in H2. destruct H2 as [[s2 r2] [H2 H3]]. injection H3 as <-. cbn [fst].
        pose proof (trace_le matches c p fuel _ _ _ _ _ H2) as L. cbn [fst] in L.
        split; [exact L|]. split.
        + split; [intros j g pat Hj Hp Hsel; eapply both_marked_le; [exact L | eapply Own1; eauto]|].
          intros _. apply (trace_cpost_all matches c p _ _ _ _ _ _ H2).
        + intros G gi gs Hg Hm H0.
          exact (trace_npost_all matches cp c p Hgo fuel _ _ _ s _ _ H2 Hsa (or_introl eq_refl) G gi gs Hg Hm H0).
      - injection H2 as <-. split; [apply le_refl|]. split; [split; [exact Own1 | intros E; rewrite Ee in E; discriminate E]|].
        intros G gi gs _ Hm H0. congruence. }
    (* the rest only marks through the recursive call *)
    assert (forall st3 nb, le st2 st3 -> same_services st2 st3 ->
              base_service p F f s = Ok nb ->
              match nb with Some (bn, bi, _) => rec bn bi st3 | None => Ok st3 end = Ok st' ->
              le st2 st' /\
              (forall G gi gs, service_at p G gi gs -> marked st' (NService G gi) = true ->
                 marked st2 (NService G gi) = false -> complete st' G gi gs)) as Hfin.
    { intros st3 nb L3 S3 Hb Hr. destruct nb as [[[bn bi] b]|].
      - pose proof (Hmono _ _ _ _ Hr) as L4.
        destruct (Hrec _ _ b _ _ Hr (base_service_at matches cp p _ _ _ _ _ _ Hf Hb)) as [_ N4].
        split; [eapply le_trans; eauto|].
        intros G gi gs Hg Hm H0. apply N4; [exact Hg | exact Hm|].
        destruct (marked st3 (NService G gi)) eqn:E; [|reflexivity]. apply S3 in E. congruence.
      - injection Hr as <-. split; [exact L3|]. intros G gi gs _ Hm H0. apply S3 in Hm. congruence. }
    assert (le st2 st' /\
            (forall G gi gs, service_at p G gi gs -> marked st' (NService G gi) = true ->
               marked st2 (NService G gi) = false -> complete st' G gi gs)) as [L3 N3].
    { destruct (negb (is_nil (sv_extends s)) && marked st2 (NService F si)).
      - destruct (sv_ref s) as [r|].
        + apply bind_ok in H. destruct H as [st3 [H3 H]].
          apply bind_ok in H. destruct H as [nb [Hb H]].
          eapply Hfin; [eapply mark_service_include_le; exact H3 | eapply mark_service_include_services; exact H3
                        | exact Hb | exact H].
        + apply bind_ok in H. destruct H as [nb [Hb H]].
          eapply Hfin; [apply le_refl | apply same_services_refl | exact Hb | exact H].
      - injection H as <-. split; [apply le_refl|]. intros G gi gs _ Hm H0. congruence. }
    split.
    - intros _. eapply complete_le; [exact L3 | exact C2].
    - intros G gi gs Hg Hm H0.
      destruct (marked st2 (NService G gi)) eqn:E2; [|apply N3; assumption].
      eapply complete_le; [exact L3|].
      destruct (marked st1 (NService G gi)) eqn:E1; [|apply N2; assumption].
      destruct (O1 _ _ E1) as [M|[-> ->]]; [congruence|].
      rewrite (service_at_fun _ _ _ _ _ Hg Hsa). exact C2.
  Qed.

  Lemma mark_service_cpost fuel : svc_cpost (mark_service matches c p fuel).
  Proof.
    induction fuel as [|n IH]; cbn.
    - intros F si s st st' H. discriminate.
    - apply mark_service_body_cpost; [apply mark_service_le | exact IH].
  Qed.

  (* method_filter, the "if" half: after markAST every service of the main file is complete:
     each of its methods selected by markService's rule is marked, and when it extends another
     service every method of every service reached through `extends` that matches a pattern
     under the main service's name is marked (with its service) *)
  Theorem method_filter_complete fuel fin f i s :
    mark_ast matches cp c p fuel = Ok fin -> prog_main p = Some f -> nth_error (f_services f) i = Some s ->
    complete fin (main_name p) i s.
  Proof.
    intros H Hm Hi. unfold mark_ast in H. rewrite Hm in H.
    apply bind_ok in H. destruct H as [[st1 r1] [H1 H]].
    apply bind_ok in H. destruct H as [st2 [H2 H]].
    apply bind_ok in H. destruct H as [[st3 r3] [H3 H]]. injection H as <-. cbn [fst].
    assert (le st1 st2) as L12.
    { revert H2. apply fold_res_rel; [apply le_refl | apply le_trans|]. intros is a b _. apply mark_service_le. }
    destruct (pre_process_cached _ _ _ _ _ _ _ _ H1) as [v Hv].
    assert (st3 = st2) as ->.
    { unfold kept_part in H3. destruct L12 as [_ [_ L]]. rewrite (L _ _ Hv) in H3. congruence. }
    assert (prog_file p (main_name p) = Some f) as Hf.
    { unfold prog_main, main_name, prog_file in *. destruct p as [|[n g] r]; [discriminate|]. injection Hm as ->.
      cbn. rewrite beqb_refl. reflexivity. }
    assert (forall l, (forall is, In is l -> In is (indexed (f_services f))) ->
              forall a b, fold_res (fun (is : nat * service) => mark_service matches c p fuel (main_name p) (fst is)) l a = Ok b ->
              (forall G gi gs, service_at p G gi gs -> marked a (NService G gi) = true -> complete a G gi gs) ->
              le a b /\
              (forall G gi gs, service_at p G gi gs -> marked b (NService G gi) = true -> complete b G gi gs) /\
              (forall j sj, In (j, sj) l -> complete b (main_name p) j sj)) as Hl.
    { induction l as [|[j sj] l IH]; intros Hsub a b Hfo Ia; cbn [fold_res] in Hfo.
      - injection Hfo as <-. split; [apply le_refl|]. split; [exact Ia | intros j sj []].
      - apply bind_ok in Hfo. destruct Hfo as [a1 [Hx Hr]]. cbn [fst] in Hx.
        pose proof (Hsub _ (or_introl eq_refl)) as Hj. apply indexed_In in Hj.
        assert (service_at p (main_name p) j sj) as Hsj by (exists f; auto).
        pose proof (mark_service_le matches c p fuel _ _ _ _ Hx) as La.
        destruct (mark_service_cpost _ _ _ _ _ _ Hx Hsj) as [C1 N1].
        assert (forall G gi gs, service_at p G gi gs -> marked a1 (NService G gi) = true -> complete a1 G gi gs) as I1.
        { intros G gi gs Hg Hmk. destruct (marked a (NService G gi)) eqn:E.
          - eapply complete_le; [exact La | apply Ia; assumption].
          - apply N1; assumption. }
        assert (complete a1 (main_name p) j sj) as Cj.
        { destruct (marked a (NService (main_name p) j)) eqn:E; [|apply C1; reflexivity].
          eapply complete_le; [exact La | apply Ia; assumption]. }
        destruct (IH (fun is H => Hsub is (or_intror H)) _ _ Hr I1) as [Lb [Ib Cb]].
        split; [eapply le_trans; eauto|]. split; [exact Ib|].
        intros j' sj' [[= <- <-]|Hin]; [eapply complete_le; [exact Lb | exact Cj] | eapply Cb; eauto]. }
    destruct (Hl _ (fun is H => H) _ _ H2) as [_ [_ C]].
    - intros G gi gs _ Hmk. apply (pre_process_services _ _ _ _ _ _ _ H1) in Hmk. discriminate.
    - apply C. apply indexed_In. exact Hi.
  Qed.

  (* ... and what is marked in this way is in the trimmed program *)
  Theorem marked_function_in_output q fin T j ts g :
    trim matches compiles cp c p = Trimmed q -> marks_of matches cp c p fin ->
    both_marked fin T j -> fn_at p T j ts g ->
    exists qf sv, In (fst T, qf) q /\ In sv (f_services qf) /\ sv_name sv = sv_name ts /\ In g (sv_functions sv).
  Proof.
    intros Ht Hm [Ms Mf] [[f [Hf Hs]] Hj].
    destruct (trim_trimmed _ _ _ _ _ _ Ht) as [fin' [Hm' Hr]].
    unfold marks_of in *. rewrite Hm in Hm'. injection Hm' as <-.
    pose proof (marks_connected matches cp c p _ _ Hm (NService (fst T) (snd T)) eq_refl Ms) as Hp. cbn [node_file] in Hp.
    destruct (file_in_output matches cp c p _ _ _ Hm Hr Hp) as [qf Hq].
    destruct (output_entry _ _ _ _ _ _ _ Hr Hq) as [pf [HF Htf]]. rewrite Hf in HF. injection HF as <-.
    exists qf, (trim_service c fin (fst T) (snd T, ts)). split; [exact Hq|].
    unfold trim_file in Htf. apply bind_ok in Htf. destruct Htf as [incs [_ Htf]]. injection Htf as <-.
    cbn [f_services]. split.
    { apply in_map. apply filter_In. split; [apply indexed_In; exact Hs | exact Ms]. }
    unfold trim_service. cbn [fst snd]. rewrite Hfilter.
    assert (In g (map snd (filter (fun jf => marked fin (NFunction (fst T) (snd T) (fst jf))) (indexed (sv_functions ts))))) as Hg.
    { apply in_map_iff. exists (j, g). split; [reflexivity|]. apply filter_In. split; [apply indexed_In; exact Hj | exact Mf]. }
    destruct (in_ext fin (fst T) (snd T)); cbn [sv_name sv_functions]; auto.
  Qed.
End FilterIf3.


(* ==================================================================== no reference of the output dangles *)

(* ---------------------------------------------------------------- no reference of the output dangles *)

Section Survive.
  Variable matches : bytes -> bytes -> bool.
  Variable compiles : bytes -> bool.
  Variable cp : bytes -> bool.
  Variable c : cfg.
  Variable p : program.
  Hypothesis Hwf : wf p.

  (* node [m] of the input is still there in the output [q] *)
  Definition node_survives (q : program) (m : node) : Prop :=
    match m with
    | NStructLike G k i => exists pg s gq, prog_file p G = Some pg /\ nth_error (sl_list k pg) i = Some s /\
                                           In (G, gq) q /\ In s (sl_list k gq)
    | NEnum G i => exists pg e gq, prog_file p G = Some pg /\ nth_error (f_enums pg) i = Some e /\
                                   In (G, gq) q /\ In e (f_enums gq)
    | NTypedef G i => exists pg d gq, prog_file p G = Some pg /\ nth_error (f_typedefs pg) i = Some d /\
                                      In (G, gq) q /\ In d (f_typedefs gq)
    | NInclude G i => exists pg inc0 gq, prog_file p G = Some pg /\ nth_error (f_includes pg) i = Some inc0 /\
                                         In (G, gq) q /\ In (Include (in_path inc0) (in_ref inc0) None) (f_includes gq)
    | NService G i => exists pg s gq sv, prog_file p G = Some pg /\ nth_error (f_services pg) i = Some s /\
                                         In (G, gq) q /\ In sv (f_services gq) /\ sv_name sv = sv_name s
    | NFunction _ _ _ => True
    end.

  Variable q : program.
  Variable fin : mstate.
  Hypothesis Hm : mark_ast matches cp c p (prog_size p) = Ok fin.
  Hypothesis Hr : reach cp c p false (prog_size p) fin (main_name p) [] = Ok q.

  Lemma entry F qf : In (F, qf) q -> exists pf, prog_file p F = Some pf /\ trim_file cp c p fin F pf = Ok qf.
  Proof. apply output_entry. exact Hr. Qed.

  (* a marked include of a file of the output is in that file, and its target is in the output *)
  Lemma include_kept F qf pf j tn :
    In (F, qf) q -> prog_file p F = Some pf -> include_file p pf (Z.of_nat j) = Some (j, tn) ->
    marked fin (NInclude F j) = true ->
    node_survives q (NInclude F j) /\ exists gq, In (tn, gq) q.
  Proof.
    intros Hq Hpf Hi Mk. destruct (entry _ _ Hq) as [pf' [Hpf' Htf]]. rewrite Hpf in Hpf'. injection Hpf' as <-.
    destruct (include_file_inv _ _ _ _ _ Hi) as [_ [inc0 [Hn [Hr0 Ht0]]]].
    unfold nth_include in Hn. destruct (Z.of_nat j <? 0)%Z; [discriminate|]. rewrite Nat2Z.id in Hn.
    assert (In (Include (in_path inc0) (in_ref inc0) None) (f_includes qf)) as Hin.
    { eapply trim_file_includes_conv; [exact Htf | exact Hn|].
      unfold keep_include, include_target. cbn [fst snd]. rewrite Hr0.
      destruct (prog_file p tn); [|congruence]. rewrite Mk. reflexivity. }
    split; [exists pf, inc0, qf; auto|].
    destruct (reach_closed _ _ _ _ _ _ _ _ _ Hr _ Hq) as [[]|Hc].
    specialize (Hc _ tn Hin Hr0). apply in_map_iff in Hc. destruct Hc as [[tn' gq] [E Hc]]. cbn in E. subst. eauto.
  Qed.

  (* what one type node denotes survives when the nodes that need a mark are marked *)
  Lemma denotes_survive F qf t :
    In (F, qf) q ->
    (forall m, In m (ty_denotes p F t) -> needs_mark m = true -> marked fin m = true) ->
    forall m, In m (ty_denotes p F t) -> node_survives q m.
  Proof.
    intros Hq Hmk. destruct (entry _ _ Hq) as [pf [Hpf Htf]].
    unfold ty_denotes in *. destruct (ty_target_file p F t) as [[bn via]|] eqn:Et; [|intros m []].
    (* the file the type points into is in the output *)
    assert ((forall m, In m via -> node_survives q m) /\ exists gq, In (bn, gq) q) as [Hvia [gq Hgq]].
    { unfold ty_target_file in Et. destruct (ty_ref t) as [r|].
      - rewrite Hpf in Et. destruct (include_file p pf (ref_index r)) as [[j tn]|] eqn:Ei; [|discriminate].
        injection Et as <- <-.
        destruct (include_kept _ _ _ _ _ Hq Hpf (include_file_of_nat _ _ _ _ _ Ei)) as [S1 S2].
        { apply Hmk; [left; reflexivity | reflexivity]. }
        split; [intros m [<-|[]]; exact S1 | exact S2].
      - injection Et as <- <-. split; [intros m [] | eauto]. }
    intros m Hin. apply in_app_iff in Hin. destruct Hin as [Hin|Hin]; [auto|].
    destruct (entry _ _ Hgq) as [pg [Hpg Htg]]. rewrite Hpg in Hin, Hmk.
    pose proof (trim_file_always_kept _ _ _ _ _ _ _ Htg) as [_ [Etd [Een _]]].
    destruct (ty_is_typedef t).
    - destruct (find_index _ _) as [[i d]|] eqn:Efi; [|destruct Hin]. destruct Hin as [<-|[]].
      apply find_index_some in Efi. destruct Efi as [Hn _].
      exists pg, d, gq. rewrite Etd. repeat split; auto. eapply nth_error_In; eauto.
    - destruct (category_sl_kind (ty_category t)) as [k|].
      + destruct (find_index _ _) as [[i s]|] eqn:Efi; [|destruct Hin]. destruct Hin as [<-|[]].
        apply find_index_some in Efi. destruct Efi as [Hn _].
        exists pg, s, gq. repeat split; auto.
        eapply trim_file_struct_likes_conv; [exact Htg | exact Hn|].
        unfold keep_sl. cbn [fst]. rewrite Hmk; [reflexivity | apply in_or_app; right; left; reflexivity | reflexivity].
      + destruct (ty_category t); try destruct Hin.
        destruct (find_index _ _) as [[i e]|] eqn:Efi; [|destruct Hin]. destruct Hin as [<-|[]].
        apply find_index_some in Efi. destruct Efi as [Hn _].
        exists pg, e, gq. rewrite Een. repeat split; auto. eapply nth_error_In; eauto.
  Qed.

  Lemma tys_nodes_survive F qf ts :
    In (F, qf) q ->
    (forall m, In m (tys_nodes p F ts) -> needs_mark m = true -> marked fin m = true) ->
    forall m, In m (tys_nodes p F ts) -> node_survives q m.
  Proof.
    intros Hq Hmk m Hin. unfold tys_nodes in Hin. apply in_flat_map in Hin. destruct Hin as [t [Ht Hin]].
    unfold ty_nodes in Hin. apply in_flat_map in Hin. destruct Hin as [t' [Ht' Hin]].
    eapply denotes_survive; [exact Hq | | exact Hin].
    intros m' Hm' Hn. apply Hmk; [|exact Hn].
    unfold tys_nodes. apply in_flat_map. exists t. split; [exact Ht|].
    unfold ty_nodes. apply in_flat_map. exists t'. auto.
  Qed.

  (* the facts about the final marks *)
  Lemma fin_ok : final_ok cp c p fin.
  Proof. destruct Hwf as [W1 W2 W3 W4]. eapply mark_ast_final; eauto. Qed.

  Lemma fin_roots F pf : prog_file p F = Some pf -> roots_marked cp c p fin F.
  Proof.
    intros HF. destruct fin_ok as [[_ Hrd] Hca _ _]. destruct (Hca _ _ HF) as [v Hv]. eapply Hrd; eauto.
  Qed.

  (* every type reference of every definition left in the output denotes a definition (and
     goes through an include) that is left in the output *)
  Theorem references_survive F qf :
    In (F, qf) q ->
    (forall k s m, In s (sl_list k qf) -> In m (tys_nodes p F (map fd_type (sl_fields s))) -> node_survives q m) /\
    (forall m, In m (tys_nodes p F (map td_type (f_typedefs qf))) -> node_survives q m) /\
    (forall m, In m (tys_nodes p F (map co_type (f_constants qf))) -> node_survives q m) /\
    (forall sv fn m, In sv (f_services qf) -> In fn (sv_functions sv) ->
                     In m (tys_nodes p F (function_types fn)) -> node_survives q m).
  Proof.
    intros Hq. destruct (entry _ _ Hq) as [pf [Hpf Htf]].
    destruct fin_ok as [[Hcl _] _ Hsv _].
    destruct (fin_roots _ _ Hpf pf Hpf) as [R1 [R2 R3]].
    pose proof (trim_file_always_kept _ _ _ _ _ _ _ Htf) as [Eco [Etd _]].
    split; [|split; [|split]].
    - intros k s m Hs Hin. destruct (trim_file_struct_likes _ _ _ _ _ _ _ _ _ Htf Hs) as [i [Hi Hk]].
      assert (marked fin (NStructLike F k i) = true) as Mk.
      { unfold keep_sl in Hk. cbn [fst snd] in Hk. apply orb_true_iff in Hk. destruct Hk as [Hk|Hk]; [exact Hk|].
        rewrite check_preserve_preserved in Hk. eapply R3; eauto. }
      eapply tys_nodes_survive; [exact Hq | | exact Hin].
      intros m' Hm' Hn. specialize (Hcl _ Mk). cbn in Hcl. eapply Hcl; eauto.
    - rewrite Etd. intros m Hin. eapply tys_nodes_survive; [exact Hq | exact R2 | exact Hin].
    - rewrite Eco. intros m Hin. eapply tys_nodes_survive; [exact Hq | exact R1 | exact Hin].
    - intros sv fn m Hsvin Hfn Hin.
      unfold trim_file in Htf. apply bind_ok in Htf. destruct Htf as [incs [_ Htf]]. injection Htf as <-.
      cbn [f_services] in Hsvin. apply in_map_iff in Hsvin. destruct Hsvin as [[i s0] [<- Hsvin]].
      apply filter_In in Hsvin. destruct Hsvin as [Hi Mks]. apply indexed_In in Hi. cbn [fst] in Mks.
      assert (exists j, nth_error (sv_functions s0) j = Some fn /\ marked fin (NFunction F i j) = true) as [j [Hj Mf]].
      { unfold trim_service in Hfn. cbn [fst snd] in Hfn.
        assert (In fn (if filtering c
                       then map snd (filter (fun jf => marked fin (NFunction F i (fst jf))) (indexed (sv_functions s0)))
                       else sv_functions s0)) as Hfn' by (destruct (in_ext fin F i); exact Hfn).
        destruct (filtering c) eqn:Ef.
        - apply in_map_iff in Hfn'. destruct Hfn' as [[j fn'] [E Hj]]. cbn in E. subst fn'.
          apply filter_In in Hj. destruct Hj as [Hj Mf]. apply indexed_In in Hj. eauto.
        - apply In_nth_error in Hfn'. destruct Hfn' as [j Hj]. exists j. split; [exact Hj|].
          destruct (Hsv Ef _ _ Mks _ _ Hpf Hi) as [Hall _]. eapply Hall; eauto. }
      eapply tys_nodes_survive; [exact Hq | | exact Hin].
      intros m' Hm' Hn. specialize (Hcl _ Mf). cbn in Hcl. eapply Hcl; eauto.
  Qed.

  (* without a filter the base service of a kept service, and the include it is written
     through, are left in the output *)
  Theorem base_service_survives F qf i s0 b via :
    filtering c = false -> In (F, qf) q ->
    service_at p F i s0 -> marked fin (NService F i) = true -> base_of p F s0 = Some (b, via) ->
    node_survives q b /\ forall m, In m via -> node_survives q m.
  Proof.
    intros Hnf Hq [pf [Hpf Hi]] Mk Hb. destruct fin_ok as [_ _ Hsv _].
    destruct (Hsv Hnf _ _ Mk _ _ Hpf Hi) as [_ Hbase]. destruct (Hbase _ _ Hb) as [Mb Mv].
    unfold base_of in Hb. destruct (sv_extends s0); [discriminate|]. rewrite Hpf in Hb.
    assert (forall G gi gq x, In (G, gq) q -> service_at p G gi x -> marked fin (NService G gi) = true ->
              node_survives q (NService G gi)) as Hsvc.
    { intros G gi gq x Hgq [pg [Hpg Hx]] Mg. destruct (entry _ _ Hgq) as [pg' [Hpg' Htg]].
      rewrite Hpg in Hpg'. injection Hpg' as <-.
      exists pg, x, gq, (trim_service c fin G (gi, x)). repeat split; auto.
      - unfold trim_file in Htg. apply bind_ok in Htg. destruct Htg as [incs [_ Htg]]. injection Htg as <-.
        cbn [f_services]. apply in_map. apply filter_In. split; [apply indexed_In; exact Hx | exact Mg].
      - unfold trim_service. cbn [fst snd]. destruct (in_ext fin G gi); reflexivity. }
    destruct (sv_ref s0) as [r|].
    - destruct (include_file p pf (ref_index r)) as [[j tn]|] eqn:Ei; [|discriminate].
      destruct (prog_file p tn) as [tf|] eqn:Htf; [|discriminate].
      destruct (find_index _ _) as [[gi x]|] eqn:Efi; [|discriminate]. injection Hb as <- <-.
      apply find_index_some in Efi. destruct Efi as [Hx _].
      destruct (include_kept _ _ _ _ _ Hq Hpf (include_file_of_nat _ _ _ _ _ Ei)) as [S1 [gq Hgq]].
      { apply Mv. left. reflexivity. }
      split; [|intros m [<-|[]]; exact S1].
      eapply Hsvc; [exact Hgq | exists tf; eauto | exact Mb].
    - destruct (find_index _ _) as [[gi x]|] eqn:Efi; [|discriminate]. injection Hb as <- <-.
      apply find_index_some in Efi. destruct Efi as [Hx _].
      split; [|intros m []]. eapply Hsvc; [exact Hq | exists pf; eauto | exact Mb].
  Qed.
End Survive.

(* ==================================================================== towards idempotence *)
(* ---------------------------------------------------------------- towards idempotence: a file in which
   everything is kept is a fixed point of traversal *)

Lemma map_snd_indexed {A} (l : list A) : map snd (indexed l) = l.
Proof.
  unfold indexed. generalize 0. induction l as [|x l IH]; intros n; cbn; [reflexivity|]. f_equal. apply IH.
Qed.

Lemma filter_all {A} (f : A -> bool) l : (forall x, In x l -> f x = true) -> filter f l = l.
Proof.
  induction l as [|x l IH]; intros H; cbn; [reflexivity|].
  rewrite (H x (or_introl eq_refl)). f_equal. apply IH. intros y Hy. apply H. right. exact Hy.
Qed.

Lemma filter_res_all {A} (f : A -> res bool) l : (forall x, In x l -> f x = Ok true) -> filter_res f l = Ok l.
Proof.
  induction l as [|x l IH]; intros H; cbn; [reflexivity|].
  rewrite (H x (or_introl eq_refl)). cbn. rewrite IH; [reflexivity|]. intros y Hy. apply H. right. exact Hy.
Qed.

Section FixedPoint.
  Variable cp : bytes -> bool.
  Variable c : cfg.
  Variable p : program.

  (* traversal's only effect on such a file: Include.Used and Name2Category are reset *)
  Definition reset_file (f : file) : file :=
    File (f_filename f) (map (fun inc => Include (in_path inc) (in_ref inc) None) (f_includes f))
         (f_cpp_includes f) (f_namespaces f) (f_typedefs f) (f_constants f) (f_enums f)
         (f_structs f) (f_unions f) (f_exceptions f) (f_services f) None.

  Definition everything_kept (st : mstate) (F : bytes) (f : file) : Prop :=
    (forall ii, In ii (indexed (f_includes f)) -> keep_include p st F ii = Ok true) /\
    (forall k is, In is (indexed (sl_list k f)) -> keep_sl cp c st F k is = true) /\
    (forall i s, In (i, s) (indexed (f_services f)) ->
       marked st (NService F i) = true /\ in_ext st F i = false /\
       forall jf, In jf (indexed (sv_functions s)) -> marked st (NFunction F i (fst jf)) = true).

  Theorem trim_file_fixpoint st F f : everything_kept st F f -> trim_file cp c p st F f = Ok (reset_file f).
  Proof.
    intros [Hi [Hs Hv]]. unfold trim_file, reset_file.
    rewrite (filter_res_all _ _ Hi). cbn [bind].
    pose proof (Hs SKStruct) as H1. pose proof (Hs SKUnion) as H2. pose proof (Hs SKException) as H3.
    cbn [sl_list] in H1, H2, H3.
    rewrite (filter_all _ _ H1), (filter_all _ _ H2), (filter_all _ _ H3). rewrite !map_snd_indexed.
    rewrite filter_all by (intros [i s] Hin; apply (Hv i s Hin)).
    do 2 f_equal.
    - rewrite <- (map_snd_indexed (f_includes f)) at 2. rewrite map_map. reflexivity.
    - rewrite <- (map_snd_indexed (f_services f)) at 2. apply map_ext_in.
      intros [i s] Hin. destruct (Hv i s Hin) as [_ [He Hf]]. unfold trim_service. cbn [fst snd]. rewrite He.
      assert ((if filtering c
               then map snd (filter (fun jf => marked st (NFunction F i (fst jf))) (indexed (sv_functions s)))
               else sv_functions s) = sv_functions s) as ->.
      { destruct (filtering c); [|reflexivity]. rewrite (filter_all _ _ Hf). apply map_snd_indexed. }
      destruct s; reflexivity.
  Qed.
End FixedPoint.
