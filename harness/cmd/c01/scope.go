package main

// Scope cases (third case kind of C01): for one accepted (program, option set) run of the real
// thriftgo, every Go package directory it wrote is parsed with go/parser (harness/godecls) and
// handed to the Coq side together with the resolved IDL files generated into it (astdump of the
// real front end), the features the table-building code reads, and the answers of the REAL
// naming style (cu.NamingStyle().Identify) and of common.LowerFirstRune for every string the
// model may ask about.  No Go identifier is computed here.

import (
	"encoding/json"
	"fmt"
	"os"
	"path/filepath"
	"sort"
	"strings"

	"github.com/cloudwego/thriftgo/generator/backend"
	"github.com/cloudwego/thriftgo/generator/golang"
	"github.com/cloudwego/thriftgo/generator/golang/common"
	"github.com/cloudwego/thriftgo/parser"
	"github.com/cloudwego/thriftgo/semantic"

	"verif/harness/astdump"
	"verif/harness/coqfmt"
	"verif/harness/godecls"
	"verif/harness/idlast"
)

type ScopeCase struct {
	Kind     string            `json:"kind"`
	Prog     Prog              `json:"program"`
	Backend  string            `json:"backend"`
	Dir      string            `json:"go_package_dir"`
	IDL      []string          `json:"idl_files"`
	Features map[string]bool   `json:"features"`
	Declared *godecls.Package  `json:"declared"`
	Identify map[string]string `json:"identify_answers"`
}

// frontEnd runs the real front end the way main.go does (cwd = program root).
func frontEnd(src, main string) (ast *parser.Thrift, err error) {
	defer func() {
		if e := recover(); e != nil {
			err = fmt.Errorf("panic: %v", e)
		}
	}()
	old, _ := os.Getwd()
	if err = os.Chdir(src); err != nil {
		return nil, err
	}
	defer os.Chdir(old)
	ast, err = parser.ParseFile(main, nil, true)
	if err != nil {
		return nil, err
	}
	if path := parser.CircleDetect(ast); len(path) > 0 {
		return nil, fmt.Errorf("include cycle")
	}
	if _, err = semantic.NewChecker(semantic.Options{FixWarnings: true}).CheckAll(ast); err != nil {
		return nil, err
	}
	if err = semantic.ResolveSymbols(ast); err != nil {
		return nil, err
	}
	return ast, nil
}

func trimDollar(s string) string { return strings.TrimPrefix(s, "$") }

// queries lists every string the table-building code can pass to the naming style for file t.
func queries(t *parser.Thrift, ident func(string) string) []string {
	var q []string
	add := func(s string) { q = append(q, s) }
	fields := func(fs []*parser.Field) {
		for _, f := range fs {
			add(f.Name)
			if f.Type != nil {
				add(f.Type.Name) // enable_nested_struct asks for the type name
				n := ident(f.Type.Name)
				if i := strings.LastIndex(n, "."); i >= 0 {
					add(n[i+1:])
				}
			}
		}
	}
	for _, s := range t.Services {
		add(s.Name)
		for _, f := range s.Functions {
			add(f.Name)
			for _, suf := range []string{"_args", "_result"} {
				add(f.Name + suf)
				add(s.Name + ident(f.Name+suf))
			}
			fields(f.Arguments)
			fields(f.Throws)
		}
	}
	add("success")
	for _, s := range t.GetStructLikes() {
		add(s.Name)
		fields(s.Fields)
	}
	for _, e := range t.Enums {
		add(e.Name)
	}
	for _, d := range t.Typedefs {
		add(d.Alias)
	}
	for _, c := range t.Constants {
		add(c.Name)
	}
	return q
}

func lowerFirst(s string) (out string, ok bool) {
	defer func() {
		if recover() != nil {
			ok = false
		}
	}()
	return common.LowerFirstRune(s), true
}

func coqFunc(f godecls.Func) string {
	return fmt.Sprintf("GoFunc %s %s %s %s", coqfmt.Bytes(f.Name), coqfmt.Bytes(f.Recv), bytesList(f.Params), bytesList(f.Results))
}

func bytesList(ss []string) string {
	items := make([]string, len(ss))
	for i, s := range ss {
		items[i] = coqfmt.Bytes(s)
	}
	return coqfmt.List(items)
}

func coqType(t *godecls.Type) string {
	kind := map[string]int{"struct": 0, "interface": 1, "alias": 2, "other": 3}[t.Kind]
	var ifc, ms []string
	for _, f := range t.Interface {
		ifc = append(ifc, coqFunc(f))
	}
	for _, f := range t.Methods {
		ms = append(ms, coqFunc(f))
	}
	return fmt.Sprintf("GoType %s %d%%N %s %s %s", coqfmt.Bytes(t.Name), kind, bytesList(t.Fields), coqfmt.List(ifc), coqfmt.List(ms))
}

func pairList(m map[string]string) string {
	keys := make([]string, 0, len(m))
	for k := range m {
		keys = append(keys, k)
	}
	sort.Strings(keys)
	items := make([]string, len(keys))
	for i, k := range keys {
		items[i] = "(" + coqfmt.Bytes(k) + ", " + coqfmt.Bytes(m[k]) + ")"
	}
	return coqfmt.List(items)
}

// scopeOptionSets: option sets for which the rule "which table entries the templates declare"
// (tflags in Corr/C01.v) has been established.
func scopeFlags(be string) (processor, synth, serdes, slim, ok bool) {
	opts := be[strings.IndexByte(be, ':')+1:]
	processor, synth, serdes, ok = true, true, true, true
	for _, o := range strings.Split(opts, ",") {
		switch {
		case o == "template=slim":
			slim, processor, synth, serdes = true, false, false, false
		case o == "no_processor":
			processor = false
		case o == "no_default_serdes":
			processor, serdes = false, false
		case o == "reorder_fields", o == "thrift_streaming", o == "streamx", o == "code_ref", o == "enable_nested_struct", o == "trim_idl", o == "skip_empty":
			// field order / streaming signatures / reference files / embedded fields change what is declared: not compared
			ok = false
		}
	}
	return
}

// scopeCasesFor builds the scope cases of one accepted run. outdir is the -o directory.
func scopeCasesFor(p Prog, src, be, outdir string) (cases []ScopeCase, terms []string, err error) {
	processor, synth, serdes, slim, ok := scopeFlags(be)
	if !ok {
		return nil, nil, nil
	}
	ast, err := frontEnd(src, p.Main)
	if err != nil {
		return nil, nil, fmt.Errorf("front end rejected a program thriftgo accepted: %v", err)
	}
	opts := be[strings.IndexByte(be, ':')+1:]
	cu := golang.NewCodeUtils(backend.DummyLogFunc())
	cu.UseInitialisms(true) // the style objects are process-global: start from the state of a fresh process
	var ol []string
	for _, o := range strings.Split(opts, ",") {
		if o != "" {
			ol = append(ol, o)
		}
	}
	if err := cu.HandleOptions(ol); err != nil {
		return nil, nil, fmt.Errorf("options: %v", err)
	}
	style := cu.NamingStyle()
	ident := func(raw string) string {
		s, e := style.Identify(raw)
		if e != nil {
			return "?error?"
		}
		return s
	}
	ft := cu.Features()
	byDir := map[string][]*parser.Thrift{}
	var dirs []string
	seen := map[*parser.Thrift]bool{}
	for t := range ast.DepthFirstSearch() {
		if seen[t] {
			continue
		}
		seen[t] = true
		d := cu.CombineOutputPath(outdir, t)
		if _, ok := byDir[d]; !ok {
			dirs = append(dirs, d)
		}
		byDir[d] = append(byDir[d], t)
	}
	sort.Strings(dirs)
	for _, d := range dirs {
		pkg, derr := godecls.Dir(d)
		if derr != nil || len(pkg.Bad) > 0 {
			continue // nothing written there (skip_empty) or unparsable: judged by the build case
		}
		idt, lft := map[string]string{}, map[string]string{}
		var files []string
		var names []string
		for _, t := range byDir[d] {
			f, ferr := astdump.FileChecked(t)
			if ferr != nil {
				return nil, nil, ferr
			}
			files = append(files, f.Coq())
			names = append(names, t.Filename)
			for _, q := range queries(t, func(s string) string { return ident(trimDollar(s)) }) {
				q = trimDollar(q)
				if _, ok := idt[q]; ok {
					continue
				}
				v := ident(q)
				idt[q] = v
				for _, x := range []string{v, v + "_"} {
					if l, ok := lowerFirst(x); ok {
						lft[x] = l
					}
				}
			}
		}
		rel, _ := filepath.Rel(outdir, d)
		pkg.Dir = rel
		var types []string
		for _, t := range pkg.Types {
			types = append(types, coqType(t))
		}
		feat := map[string]bool{"keep_unknown_fields": ft.KeepUnknownFields, "gen_deep_equal": ft.GenDeepEqual, "gen_setter": ft.GenerateSetter,
			"enable_nested_struct": ft.EnableNestedStruct, "compatible_names": ft.CompatibleNames}
		term := fmt.Sprintf("ScopeCase (Features %s %s %s %s %s) (TFlags %s %s %s %s)\n  %s\n  %s\n  %s\n  %s\n  %s",
			coqfmt.Bool(ft.KeepUnknownFields), coqfmt.Bool(ft.GenDeepEqual), coqfmt.Bool(ft.GenerateSetter), coqfmt.Bool(ft.EnableNestedStruct), coqfmt.Bool(ft.CompatibleNames),
			coqfmt.Bool(processor), coqfmt.Bool(synth), coqfmt.Bool(serdes), coqfmt.Bool(slim),
			pairList(idt), pairList(lft), coqfmt.List(files), bytesList(pkg.Idents), coqfmt.List(types))
		cases = append(cases, ScopeCase{Kind: "scope", Prog: p, Backend: be, Dir: rel, IDL: names, Features: feat, Declared: pkg, Identify: idt})
		terms = append(terms, term)
	}
	return
}

var _ = idlast.Program(nil)

// RejectCase: the backend refused the program with the MustReserve panic ("failed to reserve",
// recovered in Scope.init, exit status 2). The model must raise the reserve failure for one of
// the program's files.
type RejectCase struct {
	Kind    string   `json:"kind"`
	Prog    Prog     `json:"program"`
	Backend string   `json:"backend"`
	Output  string   `json:"thriftgo_output"`
	IDL     []string `json:"idl_files"`
}

func rejectCaseFor(p Prog, src, be, output string) (*RejectCase, string, error) {
	if _, _, _, _, ok := scopeFlags(be); !ok {
		return nil, "", nil
	}
	ast, err := frontEnd(src, p.Main)
	if err != nil {
		return nil, "", nil // rejected by the front end as well: not a table matter
	}
	cu := golang.NewCodeUtils(backend.DummyLogFunc())
	cu.UseInitialisms(true)
	var ol []string
	for _, o := range strings.Split(be[strings.IndexByte(be, ':')+1:], ",") {
		if o != "" {
			ol = append(ol, o)
		}
	}
	if err := cu.HandleOptions(ol); err != nil {
		return nil, "", nil
	}
	style := cu.NamingStyle()
	ident := func(raw string) string {
		s, e := style.Identify(raw)
		if e != nil {
			return "?error?"
		}
		return s
	}
	ft := cu.Features()
	idt, lft := map[string]string{}, map[string]string{}
	var files, names []string
	seen := map[*parser.Thrift]bool{}
	for t := range ast.DepthFirstSearch() {
		if seen[t] {
			continue
		}
		seen[t] = true
		f, ferr := astdump.FileChecked(t)
		if ferr != nil {
			return nil, "", ferr
		}
		files = append(files, f.Coq())
		names = append(names, t.Filename)
		for _, q := range queries(t, func(s string) string { return ident(trimDollar(s)) }) {
			q = trimDollar(q)
			if _, ok := idt[q]; ok {
				continue
			}
			v := ident(q)
			idt[q] = v
			for _, x := range []string{v, v + "_"} {
				if l, ok := lowerFirst(x); ok {
					lft[x] = l
				}
			}
		}
	}
	if len(output) > 300 {
		output = output[:300]
	}
	term := fmt.Sprintf("RejectCase (Features %s %s %s %s %s)\n  %s\n  %s\n  %s",
		coqfmt.Bool(ft.KeepUnknownFields), coqfmt.Bool(ft.GenDeepEqual), coqfmt.Bool(ft.GenerateSetter), coqfmt.Bool(ft.EnableNestedStruct), coqfmt.Bool(ft.CompatibleNames),
		pairList(idt), pairList(lft), coqfmt.List(files))
	return &RejectCase{Kind: "reject", Prog: p, Backend: be, Output: output, IDL: names}, term, nil
}

// scopeSelected samples the accepted runs that get scope cases.  Quick tier: the small corpus
// programs under every option set, the large naming corpus under a rotating third and the
// generated programs under a rotating quarter of the option sets; thorough tier: corpus under
// every option set, generated programs under every fifth one.
func scopeSelected(tier string, p Prog, pi, oi int) bool {
	corpus := strings.HasPrefix(p.Name, "corpus-")
	if tier == "thorough" {
		return corpus || (pi+oi)%5 == 0
	}
	if corpus && p.Name != "corpus-naming" {
		return true
	}
	if corpus {
		return (pi+oi)%3 == 0
	}
	return (pi+oi)%4 == 0
}

// scopeWriter writes scope cases into their own shards (scope_NNN.v / .jsonl).  The terms are
// large (a resolved AST each) and every shard pays about 10 s for loading the libraries, so a
// shard is closed by size.
type scopeWriter struct {
	dir      string
	maxBytes int
	n, bytes int
	Total    int
	Tables   int
	Shards   []string
	v, j     *os.File
}

func newScopeWriter(dir string, maxBytes int) *scopeWriter {
	return &scopeWriter{dir: dir, maxBytes: maxBytes}
}

func (w *scopeWriter) Add(term string, desc interface{}, tables int) {
	if w.v == nil {
		name := fmt.Sprintf("scope_%03d", len(w.Shards))
		w.v, _ = os.Create(filepath.Join(w.dir, name+".v"))
		w.j, _ = os.Create(filepath.Join(w.dir, name+".jsonl"))
		w.Shards = append(w.Shards, name)
		w.n, w.bytes = 0, 0
		fmt.Fprint(w.v, "From Verif Require Import Base.Bytes Gen.Namespace Idl.Ast Gen.Scope Corr.C01.\nFrom Coq Require Import List NArith ZArith String.\nImport ListNotations.\nOpen Scope string_scope.\nDefinition cases : list case := [\n")
	}
	if w.n > 0 {
		fmt.Fprint(w.v, ";\n")
	}
	fmt.Fprint(w.v, " ", term)
	b, _ := json.Marshal(desc)
	w.j.Write(append(b, '\n'))
	w.n++
	w.bytes += len(term)
	w.Total++
	w.Tables += tables
	if w.bytes >= w.maxBytes {
		w.closeShard()
	}
}

func (w *scopeWriter) closeShard() {
	if w.v == nil {
		return
	}
	fmt.Fprint(w.v, "\n].\nSet Printing Depth 10000000.\nSet Printing Width 2000.\nDefinition R := Eval vm_compute in (mismatches cases).\nPrint R.\n")
	w.v.Close()
	w.j.Close()
	w.v, w.j = nil, nil
}

func (w *scopeWriter) Close() { w.closeShard() }
