(* Idl/ResolvableFacts.v — laws of the decidable predicates of Idl/ResolvableSpec.v and
   Idl/ResolvableConst.v against the relations of Idl/ResolveSpec.v (for users who have to
   establish [resolvable] for a program of their own, e.g. a trimmed one). *)
From Coq Require Import List Bool Arith Lia NArith ZArith Permutation.
From Coq.Strings Require Import Byte.
From Verif Require Import Base.Bytes Idl.Ast Idl.AstUtil Idl.AstFacts Idl.Resolve Idl.ResolveSpec Idl.ResolveTd
     Idl.ResolveLemmas Idl.ResolveInv Idl.ResolveConst Idl.ResolveDeref Idl.ResolveFacts
     Idl.ResolvableSpec Idl.ResolveComplete Idl.ResolvePath Idl.ResolvableConst Idl.ResolveCompleteConst.
Import ListNotations.

(* ---- identifiers: a positive count is an explanation *)

Lemma count_name_pos v vs : 1 <= count_name v vs -> In v vs.
Proof.
  unfold count_name. induction vs as [|x vs IH]; cbn [filter length]; [lia|].
  destruct (beqb x v) eqn:E; [apply beqb_true in E; subst; intros _; left; reflexivity | intros H; right; auto].
Qed.

Lemma sum_incs_pos cnt pre : forall incs, 1 <= sum_incs cnt pre incs ->
  exists i gn, nth_error incs i = Some (pre, Some gn) /\ 1 <= cnt gn.
Proof.
  induction incs as [|[pre' ref] incs IH]; cbn [sum_incs]; [lia|]. intros H.
  destruct (beqb pre' pre) eqn:E.
  - apply beqb_true in E. subst. destruct ref as [gn|].
    + destruct (cnt gn) as [|k] eqn:C.
      * destruct IH as (i & gn' & Hn & Hc); [lia|]. exists (S i), gn'. auto.
      * exists 0, gn. cbn. split; [reflexivity | lia].
    + destruct IH as (i & gn' & Hn & Hc); [lia|]. exists (S i), gn'. auto.
  - destruct IH as (i & gn' & Hn & Hc); [lia|]. exists (S i), gn'. auto.
Qed.

Lemma const_count_pos p gn v : 1 <= const_count p gn v -> def_of p gn v = Some DkConst.
Proof. unfold const_count. destruct (def_of p gn v) as [k|]; [|lia]. destruct k; try lia. reflexivity. Qed.

Lemma enum_value_count_pos p gn e v : 1 <= enum_value_count p gn e v ->
  exists efn vs i, enum_denotes p gn e efn vs i /\ In v vs.
Proof.
  unfold enum_value_count. destruct (enum_values_of p gn e) as [vs|] eqn:E; [|lia]. intros H.
  apply enum_values_of_spec in E. destruct E as (efn & i & He). exists efn, vs, i. split; [exact He | apply count_name_pos; exact H].
Qed.

Lemma alt_count_pos p fn f ss : prog_file p fn = Some f -> 1 <= alt_count p fn f ss -> exists x, alt_denotes p fn ss x.
Proof.
  intros Hf. destruct ss as [|a [|b [|c [|? ?]]]]; cbn [alt_count alt_denotes]; try lia.
  - intros H. eexists. split; [apply const_count_pos; exact H | reflexivity].
  - intros H. destruct (enum_value_count p fn a b) as [|k] eqn:C.
    + destruct (sum_incs_pos _ _ _ H) as (i & gn & Hn & Hc). eexists. right. exists f, i, gn.
      split; [exact Hf|]. split; [exact Hn|]. split; [apply const_count_pos; exact Hc | reflexivity].
    + destruct (enum_value_count_pos p fn a b) as (efn & vs & i & He & Hv); [lia|]. eexists. left. eauto 8.
  - intros H. destruct (sum_incs_pos _ _ _ H) as (i & gn & Hn & Hc).
    destruct (enum_value_count_pos p gn b c Hc) as (efn & vs & j & He & Hv). eexists. exists f, i, gn, efn, vs, j. auto 8.
Qed.

(* an identifier accepted by [ident_ok] has an explanation in the sense of the specification *)
Theorem ident_ok_denotes p fn s : ident_ok p fn s = true -> exists e, const_denotes p fn s e.
Proof.
  unfold ident_ok. destruct (prog_file p fn) as [f|] eqn:Hf; [|discriminate]. intros H. apply Nat.eqb_eq in H.
  unfold explanations in H.
  assert (G : forall sss, 1 <= fold_right (fun ss acc => alt_count p fn f ss + acc) 0 sss ->
              exists ss, In ss sss /\ 1 <= alt_count p fn f ss).
  { induction sss as [|ss sss IH]; cbn [fold_right]; [lia|]. intros Hs.
    destruct (alt_count p fn f ss) as [|k] eqn:C.
    - destruct IH as (ss' & Hin & Hc); [lia|]. exists ss'. cbn. auto.
    - exists ss. cbn. split; [auto | lia]. }
  destruct (G (split_value s)) as (ss & Hin & Hc); [lia|].
  destruct (alt_count_pos p fn f ss Hf Hc) as (x & Hx). exists x. apply const_denotes_alt. eauto.
Qed.

(* ---- includes: [includes_ok] only looks at the include references *)

Lemma includes_ok_ext p q :
  (forall fn, option_map (fun f => map in_ref (f_includes f)) (prog_file p fn) =
              option_map (fun f => map in_ref (f_includes f)) (prog_file q fn)) ->
  forall n fn, includes_ok n p fn = includes_ok n q fn.
Proof.
  intros H. induction n as [|k IH]; intros fn; cbn [includes_ok]; [reflexivity|].
  specialize (H fn). destruct (prog_file p fn) as [f|], (prog_file q fn) as [g|]; cbn [option_map] in H; try discriminate; [|reflexivity].
  injection H as H. revert H. generalize (f_includes g). induction (f_includes f) as [|i l IHl]; intros [|j l'] E; try discriminate; [reflexivity|].
  cbn [map] in E. injection E as Ei El. cbn [forallb]. rewrite (IHl _ El), Ei. destruct (in_ref j); [rewrite IH|]; reflexivity.
Qed.
