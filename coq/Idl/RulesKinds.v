(* Idl/RulesKinds.v — property C04: the rules ConstKindMismatch and StructLiteralBadKey
   for EVERY way a type can be written (definitions only).  Idl/Rules.v states them for
   types named directly; here the declared type may be a typedef (chain, across
   includes), an include-qualified name, a container whose elements are checked
   against its element types, and a struct literal whose values are checked against
   the field types in the file of the struct.  What a type name stands for is C05's
   executable denotation [ResolvableSpec.denote] on the PARSED program. *)
From Coq Require Import List Bool Arith NArith ZArith.
From Coq.Strings Require Import Byte.
From Verif Require Import Base.Bytes Idl.Ast Idl.AstUtil Idl.Resolve Idl.ResolveSpec Idl.ResolvableSpec Idl.Rules.
Import ListNotations.

Inductive kdefect := DMismatch | DBadKey.
Definition kdefect_eqb (a b : kdefect) : bool :=
  match a, b with DMismatch, DMismatch | DBadKey, DBadKey => true | _, _ => false end.

Fixpoint first_defect {A} (h : A -> option kdefect) (l : list A) : option kdefect :=
  match l with
  | [] => None
  | x :: r => match h x with Some d => Some d | None => first_defect h r end
  end.

(* the first defect of the value [v] written for the type [t] in file [fn]:
     container named directly   every element / key / value against the element types
     scalar (through typedefs)  a written form the scalar cannot hold     -> DMismatch
     enum (through typedefs)    anything but an integer or an identifier  -> DMismatch
     struct-like (through typedefs and include prefixes)
                                neither map literal nor identifier        -> DMismatch
                                a key that is no string literal / no field -> DBadKey
                                the value of a key against the field's type, read in
                                the file that defines the struct-like *)
Fixpoint spec_kind (fuel : nat) (p : program) (fn : bytes) (t : ty) (v : const_value) : option kdefect :=
  match fuel with
  | O => None
  | S k =>
    match builtin_category (ty_name t) with
    | Some CatList | Some CatSet =>
      match v, ty_value t with
      | CList l, Some et => first_defect (spec_kind k p fn et) l
      | _, _ => None
      end
    | Some CatMap =>
      match v, ty_key t, ty_value t with
      | CMap l, Some kt, Some vt =>
        first_defect (fun kv => match spec_kind k p fn kt (fst kv) with
                                | Some d => Some d
                                | None => spec_kind k p fn vt (snd kv)
                                end) l
      | _, _, _ => None
      end
    | _ =>
      match denote (denote_fuel p) p fn (ty_name t) with
      | Some (TBuiltin c) => if scalar_holds c v then None else Some DMismatch
      | Some (TEnum _ _) => match v with CInt _ | CIdent _ _ => None | _ => Some DMismatch end
      | Some (TStruct gn name _) =>
        match v with
        | CIdent _ _ => None
        | CMap l =>
          match prog_file p gn with
          | Some g =>
            match find_struct_like g name with
            | Some s =>
              first_defect (fun kv =>
                              match fst kv with
                              | CLiteral n =>
                                match find_field s n with
                                | Some fd => spec_kind k p gn (fd_type fd) (snd kv)
                                | None => Some DBadKey
                                end
                              | _ => Some DBadKey
                              end) l
            | None => None
            end
          | None => None
          end
        | _ => Some DMismatch
        end
      | None => None
      end
    end
  end.

(* some typed value of the file (constant, default of a struct / union / exception
   field, of an argument, of a throws field) has the defect *)
Definition value_defect (d : kdefect) (p : program) (fn : bytes) (f : file) : bool :=
  existsb (fun tv => match spec_kind (S (cv_depth (snd tv))) p fn (fst tv) (snd tv) with
                     | Some d' => kdefect_eqb d' d
                     | None => false
                     end) (typed_values f).

(* the two rules, for every shape of the declared type *)
Definition violates_deep (r : rule) (p : program) : bool :=
  match r with
  | ConstKindMismatch => some_file p (value_defect DMismatch p)
  | StructLiteralBadKey => some_file p (value_defect DBadKey p)
  | _ => violates r p
  end.
