package main

// Hand-written corpus: run first on every tier.
//
//   - "ways": every way of writing a value the property lists, for every type shape, with
//     references across an include (valid; all observations are compared);
//   - "foreign": identifiers inside struct literals whose struct lives in another file (the
//     shape the backend resolved in the wrong scope before the C06 repair);
//   - "negzero": the known finding (sign of a zero double);
//   - "tolerant": containers written with a value of another kind (accepted, empty literal);
//   - rejects: one small program per kind mismatch the property lists (scalar and struct
//     cases), per shape the backend refuses (enum through a typedef, typedef'd container) —
//     only the outcome of the pipeline is compared.

type corpusProg struct {
	Key    string
	Main   string
	Files  map[string]string
	Reject bool // expected to be refused by thriftgo (informational; the model decides)
}

const incThrift = `namespace go corpus.inc
enum Color { RED = 1, GREEN = 5, BLUE }
const i32 BASE = 7
const i64 BIG = -9223372036854775808
const double HALF = 0.5
const bool YES = true
const string GREETING = "hi"
const binary BLOB = "\x00\x01blob"
const Color FAVORITE = Color.GREEN
const list<i32> PRIMES = [2, 3, 5]
const map<string, i32> AGES = {"a": 1, "b": 2}
struct Pt { 1: i32 x = 3, 2: optional i32 y, 3: optional string s = "dflt", 4: Color c = Color.GREEN, 5: optional binary bn, 6: list<i32> l }
const Pt ORIGIN = {"x": 0}
`

const waysThrift = `namespace go corpus.ways
include "inc.thrift"
enum E { A = 1, B = 2, C = 4, N = -3 }
typedef i32 MyInt
typedef E MyEnum
typedef inc.Pt MyPt
typedef string MyStr
const bool B1 = true
const bool B2 = false
const bool B3 = 0
const bool B4 = 1
const bool B5 = 5
const bool B6 = -1
const bool B7 = 0.5
const bool B8 = inc.YES
const bool B10 = 0.0
const bool B11 = -1.5
const bool B12 = 2.5e-300
const bool B9 = B8
const byte Y1 = true
const byte Y2 = -128
const i16 I1 = -5
const i16 I1b = false
const i32 I2 = inc.BASE
const i64 I3 = 9223372036854775807
const i64 I4 = inc.BIG
const i64 I5 = I4
const MyInt I6 = 77
const i32 I7 = I6
const double D1 = 3
const double D3 = 3.0
const double D4 = 1e21
const double D5 = 4.9e-324
const double D6 = true
const double D6b = false
const double D7 = 1000000.0
const double D8 = -5
const double D9 = 1.7976931348623157e308
const double D10 = inc.HALF
const double D11 = -2.5e-7
const double D12 = 9007199254740993
const string S1 = "a\tb\\n\"q\" 'x' \x41é"
const string S2 = 'single "dq" \'sq\''
const string S3 = inc.GREETING
const string S4 = ""
const string S5 = "新龙 \\ \r\n"
const MyStr S6 = "typedef'd"
const binary BN1 = "bin\x00\xff"
const binary BN2 = BN1
const binary BN3 = inc.BLOB
const E E1 = E.B
const E E2 = 4
const E E3 = 77
const E E4 = E1
const E E5 = E.N
const MyEnum E6 = E.C
const MyEnum E7 = 2
const inc.Color C1 = inc.Color.BLUE
const inc.Color C2 = inc.FAVORITE
const inc.Color C3 = 5
const list<i32> L1 = [1, 2, I2]
const list<i32> L3 = inc.PRIMES
const list<i32> L4 = []
const list<list<string>> L5 = [["a"], [], ["b", "c"]]
const list<bool> L6 = [true, 0, 1, false, 7]
const list<double> L7 = [1, 2.5, true]
const list<E> L8 = [E.A, 2, E1]
const set<string> SS1 = ["a", "b"]
const set<i64> SS2 = [1, -1]
const map<string, list<double>> M1 = {"a": [1, 2.5], "b": []}
const map<E, bool> M2 = {E.A: 1, 2: false}
const map<binary, i32> M3 = {"k": 1, "\x00": 2}
const map<string, i32> M4 = inc.AGES
const map<i32, map<i32, string>> M5 = {1: {2: "x"}, 3: {}}
const map<bool, double> M6 = {true: 1}
const map<bool, double> M6b = {0: 0.25}
const map<bool, i32> M6c = {5: 1}
const inc.Pt P1 = {"x": 9, "y": 8, "s": "zz", "bn": "raw", "l": [1, I2]}
const inc.Pt P2 = inc.ORIGIN
const MyPt P3 = {"c": 1}
const inc.Pt P4 = {}
const list<inc.Pt> LP = [{"x": 1}, {}]
const map<i32, inc.Pt> MP = {1: {"y": 2}}
const list<inc.Pt> LP2 = [inc.ORIGIN, P1, {"s": "lit"}]
const map<string, inc.Pt> MP2 = {"o": inc.ORIGIN, "l": {"x": 4}}
struct Inner { 1: required string name = "in", 2: optional list<i32> nums = [1, 2] }
struct S {
  1: bool b = 1,
  2: optional double d = 2,
  3: optional i32 oi,
  4: optional E e = E.C,
  5: list<E> le = [E.A, 2],
  6: optional inc.Pt pt = {"x": 5},
  7: inc.Pt pt2,
  8: optional binary bn = "xyz",
  9: required string rs = S1,
  10: optional map<string, i32> m = {"q": 1},
  11: optional E e2,
  12: E e3 = 2,
  13: optional string os,
  14: optional bool ob = true,
  15: optional double zero = 0.0,
  16: Inner inner = {"name": "given"},
  17: optional Inner oinner,
  18: optional i64 big = I3,
  19: optional list<string> ol,
  20: optional binary obn,
  21: optional byte yb = 7,
  22: inc.Color col = inc.Color.BLUE,
  23: i32 plain,
  24: string ps,
  25: double pd = inc.HALF,
  26: optional MyInt mi = 5,
  27: optional inc.Pt ptc = inc.ORIGIN,
}
union U { 1: i32 a = 3, 2: string b, 3: inc.Pt p }
exception X { 1: string msg = "boom", 2: optional i64 code = 42 }
service Svc { i32 f(1: i32 a = 5, 2: string s = "arg") }
`

const foreignThrift = `namespace go corpus.foreign
include "lib.thrift"
include "lib2.thrift"
const i32 K = 222
const string NAME = "main-name"
enum Local { A = 10, B = 20 }
const lib.S s1 = {"f": K, "l": [K, lib2.K2], "name": NAME}
const list<lib.S> ls = [{"f": K}, {"f": lib.K}]
const lib.S s2 = {"f": lib2.K2, "e": lib.LE.Y}
const map<string, lib.S> ms = {"k": {"l": [K]}}
struct Holder { 1: lib.S held = {"f": K, "name": NAME} }
`

const libThrift = `namespace go corpus.lib
include "lib3.thrift"
enum LE { X = 1, Y = 2 }
struct S { 1: i32 f, 2: list<i32> l, 3: string name, 4: LE e }
const i32 K = 111
const string NAME = "lib-name"
`

const lib2Thrift = `namespace go corpus.lib2
const i32 K2 = 333
`

const lib3Thrift = `namespace go corpus.lib3
const i32 K2 = 444
const i32 K = 555
`

const shadowThrift = `namespace go corpus.shadow
include "shadowed.thrift"
const i32 K = 222
const string NAME = "outer"
const shadowed.S s = {"f": K, "l": [K], "name": NAME}
const list<shadowed.S> ls = [{"f": K}]
struct Holder { 1: shadowed.S held = {"f": K} }
`

const shadowedThrift = `namespace go corpus.shadowed
struct S { 1: i32 f, 2: list<i32> l, 3: string name }
const i32 K = 111
const string NAME = "inner"
`

const historyThrift = `namespace go corpus.history
struct Inner { 1: i32 n = 7, 2: string name = "in" }
const list<i32> BASE_SCORES = [10, 20]
const Inner BASE_INNER = {"n": 3}
struct Item {
  1: optional list<i32> scores = [1, 2, 3],
  2: list<i32> dscores = [4, 5],
  3: optional map<string, i32> ages = {"a": 1},
  4: map<i32, string> dnames = {1: "x"},
  5: optional Inner inner = {"n": 9},
  6: Inner dinner = {"name": "given"},
  7: optional binary blob = "abc",
  8: binary dblob = "xyz",
  9: optional set<string> tags = ["t"],
  10: optional list<Inner> inners = [{"n": 1}],
  11: optional list<list<i32>> nested = [[1], [2]],
  12: i32 plain = 5,
  13: optional map<string, list<i32>> table = {"k": [1]},
}
struct Shared { 1: optional list<i32> s = BASE_SCORES, 2: Inner i = BASE_INNER }
struct Bag { 1: list<Item> items, 2: list<Shared> shared, 3: map<string, Item> byname }
exception XD { 1: optional list<string> trace = ["f"], 2: string msg = "m" }
`

const negzeroThrift = `namespace go corpus.negzero
const double NZ = -0.0
const list<double> LNZ = [-0.0, 0.0]
struct Z { 1: double z = -0.0, 2: optional double oz = -0.0 }
`

const structkeyThrift = `namespace go corpus.structkey
struct Pt { 1: i32 x, 2: optional string s }
struct Empty {}
const map<Pt, string> KP = {{"x": 1}: "one", {"x": 1}: "uno", {}: "zero"}
const map<Empty, i32> KE = {{}: 1, {}: 2}
struct H { 1: map<Pt, i32> m = {{"s": "k"}: 1} }
`

const tolerantThrift = `namespace go corpus.tolerant
struct T { 1: i32 a }
const list<i32> L2 = 5
const list<i32> L3 = {}
const list<i32> L4 = "text"
const set<string> S2 = 1.5
const map<i32, i32> M2 = [1]
const map<i32, i32> M3 = 7
typedef list<i32> TL
typedef map<string, i32> TM
const TL TL1 = []
const TM TM1 = {}
const TL TL2 = 3
struct D { 1: list<string> l = 5, 2: optional map<i32, i32> m = [] }
`

func single(key, body string, reject bool) corpusProg {
	return corpusProg{Key: key, Main: "main.thrift", Reject: reject,
		Files: map[string]string{"main.thrift": "namespace go corpus." + key + "\n" + body}}
}

func corpus(tier string) []corpusProg {
	ps := []corpusProg{
		{Key: "ways", Main: "ways.thrift", Files: map[string]string{"ways.thrift": waysThrift, "inc.thrift": incThrift}},
		{Key: "foreign", Main: "foreign.thrift", Files: map[string]string{"foreign.thrift": foreignThrift, "lib.thrift": libThrift, "lib2.thrift": lib2Thrift, "lib3.thrift": lib3Thrift}},
		{Key: "shadow", Main: "shadow.thrift", Files: map[string]string{"shadow.thrift": shadowThrift, "shadowed.thrift": shadowedThrift}},
		{Key: "history", Main: "history.thrift", Files: map[string]string{"history.thrift": historyThrift}},
		{Key: "negzero", Main: "negzero.thrift", Files: map[string]string{"negzero.thrift": negzeroThrift}},
		{Key: "tolerant", Main: "tolerant.thrift", Files: map[string]string{"tolerant.thrift": tolerantThrift}},
		{Key: "structkey", Main: "structkey.thrift", Files: map[string]string{"structkey.thrift": structkeyThrift}},
	}
	ps = append(ps, single("intmap", "const map<i32, i32> SQUARES = {2: 4, 3: 9}\nconst map<string, string> NAMES = {\"k\": \"v\"}\nstruct M { 1: map<i64, i64> m = {1: 10} }\n", false))
	pre := "enum E { A = 1 }\nstruct S { 1: i32 a, 2: optional S next }\ntypedef E TE\ntypedef list<i32> TL\ntypedef map<i32, i32> TM\n"
	rejects := []struct{ key, body string }{
		{"r01", "const i32 x = \"str\""},
		{"r02", "const i32 x = 1.5"},
		{"r03", "const i32 x = [1]"},
		{"r04", "const string s = 5"},
		{"r05", "const string s = true"},
		{"r06", "const binary s = 5"},
		{"r07", "const bool b = \"x\""},
		{"r08", "const bool b = [1]"},
		{"r09", "const double d = \"x\""},
		{"r10", "const double d = {}"},
		{"r11", "const E e = \"x\""},
		{"r12", "const E e = 1.5"},
		{"r13", "const S s = 5"},
		{"r14", "const S s = [1]"},
		{"r15", "const S s = \"x\""},
		{"r16", "const S s = {\"nofield\": 1}"},
		{"r17", "const S s = {1: 2}"},
		{"r18", "const S s = {\"a\": \"str\"}"},
		{"r19", "const S s = true"},
		{"r20", "const E e = TE.A"},
		{"r21", "const TL l = [1]"},
		{"r22", "const TM m = {1: 2}"},
		{"r23", "struct D { 1: i32 a = \"x\" }"},
		{"r24", "struct D { 1: S s = 5 }"},
		{"r25", "const list<i32> l = [\"x\"]"},
		{"r26", "const map<string, i32> m = {1: 1}"},
		{"r27", "const list<S> l = [{\"a\": \"x\"}]"},
		{"r28", "const i64 x = 2.0"},
		{"r29", "const S s = {\"next\": {\"a\": [1]}}"},
	}
	for _, r := range rejects {
		ps = append(ps, single(r.key, pre+r.body+"\n", true))
	}
	if tier == "thorough" {
		// accepted by thriftgo, but the emitted Go does not compile (the backend takes the address of an
		// operand that has none): the model answers with an error value, the build drops the unit
		ps = append(ps,
			single("h01", "enum E { A = 1 }\nstruct S { 1: optional E e }\nconst S s = {\"e\": E.A}\n", true),
			single("h02", "struct I { 1: i32 a }\nstruct S { 1: I inner }\nconst I K = {\"a\": 1}\nconst S s = {\"inner\": K}\n", true),
			single("h03", "enum E { A = 1 }\nunion U { 1: E e, 2: i32 i }\nconst U u = {\"e\": 1}\n", true))
	}
	return ps
}
