package main

import (
	"encoding/json"
	"reflect"
)

// mwrite_own (property C13, field_mask_halfway): a mask set by the user on a NON-ROOT struct value.
//
//	mwrite_own <unit> <struct> <value JSON> <black 0|1> <paths JSON> <field ids JSON> <black2 0|1> <paths2 JSON>
//	    -> {"maskerr":bool,"nosub":bool,"err":class,"bytes":hex}
//	    object = zero value + the given slots; the sub object is reached from the root through the
//	    struct-typed fields with the given thrift ids; sub.Set_FieldMask(NewFieldMask(sub.GetTypeDescriptor(),
//	    paths2...)); x.Set_FieldMask(NewFieldMask(x.GetTypeDescriptor(), paths...)); x.Write.
func init() {
	RegisterCommand("mwrite_own", func(a []string) interface{} {
		x := NewZero(a[0], a[1])
		Fill(reflect.ValueOf(x).Elem(), ParseValue(a[2]))
		var ids []int
		if err := json.Unmarshal([]byte(a[5]), &ids); err != nil {
			panic(err)
		}
		cur := reflect.ValueOf(x)
		for _, id := range ids {
			if cur.Kind() != reflect.Ptr || cur.IsNil() || cur.Elem().Kind() != reflect.Struct {
				return map[string]interface{}{"nosub": true}
			}
			found := false
			for _, f := range ThriftFields(cur.Elem().Type()) {
				if f.ID == id {
					cur = cur.Elem().Field(f.Index)
					found = true
					break
				}
			}
			if !found {
				return map[string]interface{}{"nosub": true}
			}
		}
		if cur.Kind() != reflect.Ptr || cur.IsNil() {
			return map[string]interface{}{"nosub": true}
		}
		sub, ok := cur.Interface().(maskable)
		if !ok {
			return map[string]interface{}{"nosub": true}
		}
		own, ok1 := buildMask(sub, a[6], a[7])
		root, ok2 := buildMask(x, a[3], a[4])
		if !ok1 || !ok2 {
			return map[string]interface{}{"maskerr": true}
		}
		sub.Set_FieldMask(own)
		x.(maskable).Set_FieldMask(root)
		res := observeWrite(x)
		res["maskerr"] = false
		return res
	})
}
