(* Gen/ScopeTypeNames.v — the Go type names of the struct-likes of one file (user-defined and
   synthesized <Svc><Func>Args / Result) are pairwise distinct for EVERY accepted file, with no
   premise about ids: buildStructLike reserves New<name> right after it obtained <name>, a
   second struct-like that came back with the same name would make that MustReserve land on an
   occupied name.  Instance of reserved_name_fresh (hence of ns_owner_stable). *)
From Coq Require Import List Arith Bool ZArith NArith Lia.
From Coq.Strings Require Import Byte.
From Verif Require Import Base.Bytes Gen.Namespace Gen.NamespaceFacts Idl.Ast Idl.AstUtil Gen.Scope Gen.ScopeFacts.
Import ListNotations.

Definition is_struct_type (e : entry) : bool := kind_eqb (e_kind e) KStructType.

(* [e'] is the reservation of New<name of e> on the file table *)
Definition is_new_for (e' e : entry) : Prop :=
  e_table e' = TGlobals /\ e_table e = TGlobals /\ is_add (e_op e') = false /\
  kind_eqb (e_kind e') KNew = true /\ e_name e' = s_New ++ e_name e.

(* newest first: every struct-type entry below the head is directly followed by its reservation *)
Fixpoint paired_in (tr : list entry) : Prop :=
  match tr with
  | e' :: older =>
    match older with
    | e :: _ => (is_struct_type e = true -> is_new_for e' e) /\ paired_in older
    | [] => True
    end
  | [] => True
  end.
Definition head_settled (tr : list entry) : Prop :=
  match tr with e :: _ => is_struct_type e = false | [] => True end.
Definition paired (tr : list entry) : Prop := paired_in tr /\ head_settled tr.

Definition presJ {A} (m : M A) : Prop :=
  forall tr a tr', paired tr -> m tr = SOk (a, tr') -> paired tr'.

Lemma presJ_ret {A} (a : A) : presJ (ret a).
Proof. intros tr x tr' H [= _ <-]. exact H. Qed.
Lemma presJ_bind {A B} (m : M A) (f : A -> M B) : presJ m -> (forall a, presJ (f a)) -> presJ (bind m f).
Proof.
  intros Hm Hf tr b tr' H. unfold bind. destruct (m tr) as [[a tr1]|e] eqn:E; [|discriminate].
  intro E2. eapply Hf; [eapply Hm; eassumption | exact E2].
Qed.
Lemma presJ_seq {A} (m : M unit) (k : M A) : presJ m -> presJ k -> presJ (seq m k).
Proof. intros Hm Hk. apply presJ_bind; [exact Hm | intros _; exact Hk]. Qed.
Lemma presJ_when b m : presJ m -> presJ (when b m).
Proof. destruct b; cbn [when]; [auto | intros _; apply presJ_ret]. Qed.
Lemma presJ_for_idx {A} (f : nat -> A -> M unit) : (forall i x, presJ (f i x)) -> forall l i, presJ (for_idx f i l).
Proof.
  intros Hf. induction l as [|x l IH]; intros i; cbn [for_idx]; [apply presJ_ret | apply presJ_seq; [apply Hf | apply IH]].
Qed.
Lemma presJ_for_each {A} (f : A -> M unit) l : (forall x, presJ (f x)) -> presJ (for_each f l).
Proof. intros Hf. unfold for_each. apply presJ_for_idx. intros _ x. apply Hf. Qed.

(* pushing an entry that is not a struct-type entry on a settled trace *)
Lemma paired_push e tr : paired tr -> is_struct_type e = false -> paired (e :: tr).
Proof.
  intros [Hin Hh] He. split; [|exact He]. cbn [paired_in]. destruct tr as [|h r]; [exact I|].
  split; [|exact Hin]. cbn [head_settled] in Hh. intro Hs. congruence.
Qed.

Lemma presJ_add t ow k name id : kind_eqb k KStructType = false -> presJ (m_add t ow k name id).
Proof.
  intros Hk tr a tr' H. unfold m_add.
  destruct (add underscore_suffix (ns_of t tr) name id) as [[s' r]|]; [|discriminate].
  intros [= _ <-]. apply paired_push; [exact H | exact Hk].
Qed.
Lemma presJ_add_ t k name id : kind_eqb k KStructType = false -> presJ (m_add_ t k name id).
Proof. intros Hk. unfold m_add_. apply presJ_bind; [apply presJ_add; exact Hk | intros _; apply presJ_ret]. Qed.
Lemma presJ_reserve t ow k name id : kind_eqb k KStructType = false -> presJ (m_reserve t ow k name id).
Proof.
  intros Hk tr a tr' H. unfold m_reserve.
  destruct (snd (reserve (ns_of t tr) name id)); [|discriminate].
  intros [= _ <-]. apply paired_push; [exact H | exact Hk].
Qed.

(* the head of buildStructLike: Add of the type name, then MustReserve of New<that name> *)
Lemma presJ_struct_head {A} t n id id' (k : bytes -> M A) :
  (forall sn, presJ (k sn)) ->
  presJ (bind (m_add TGlobals t KStructType n id) (fun sn => seq (m_reserve TGlobals t KNew (s_New ++ sn) id') (k sn))).
Proof.
  intros Hk tr a tr' H. unfold bind at 1. unfold m_add at 1.
  destruct (add underscore_suffix (ns_of TGlobals tr) n id) as [[s' r]|]; [|discriminate].
  unfold seq, bind. unfold m_reserve at 1.
  destruct (snd (reserve _ (s_New ++ r) id')); [|discriminate].
  intro E. eapply Hk; [|exact E].
  destruct H as [Hin Hh]. split; [|reflexivity].
  cbn [paired_in]. split.
  - intros _. unfold is_new_for. cbn [e_table e_op e_kind e_name is_add]. repeat split; reflexivity.
  - destruct tr as [|h r0]; [exact I|]. split; [|exact Hin]. cbn [head_settled] in Hh. intro Hs. congruence.
Qed.

Section WithStyle.
Variable identify : bytes -> bytes.
Variable lower_first : bytes -> bytes.

Ltac pj := repeat first
  [ apply presJ_ret | apply presJ_add; reflexivity | apply presJ_add_; reflexivity | apply presJ_reserve; reflexivity
  | apply presJ_when | apply presJ_seq | apply presJ_for_each; intros ? | apply presJ_for_idx; intros ? ?
  | apply presJ_bind; [|intros ?] ].

Lemma presJ_build_struct_like ft t vname cat fields nn :
  presJ (build_struct_like identify ft t vname cat fields nn).
Proof.
  unfold build_struct_like.
  apply (presJ_struct_head t (s_identify identify ft nn) vname (i_new ++ nn)
           (fun sn => seq (m_reserve TGlobals t KIds (s_ids ++ sn) (i_ids ++ nn)) _)).
  intros sn. pj.
Qed.

Lemma presJ_build_function ft t v : presJ (build_function identify lower_first ft t v).
Proof. unfold build_function. pj. Qed.

Lemma presJ_install_names ft f : presJ (install_names identify lower_first ft f).
Proof.
  unfold install_names.
  apply presJ_seq.
  { apply presJ_for_idx. intros i v. unfold build_service.
    apply presJ_bind; [apply presJ_add; reflexivity | intros sn].
    apply presJ_seq; [pj|].
    apply presJ_seq.
    { apply presJ_for_idx. intros j fn.
      apply presJ_seq; [apply presJ_build_struct_like|].
      apply presJ_seq; [apply presJ_when, presJ_build_struct_like | apply presJ_build_function]. }
    pj. }
  apply presJ_seq; [apply presJ_for_idx; intros k v; apply presJ_build_struct_like|].
  unfold build_enum, build_typedef, build_constant. pj.
Qed.

Lemma scope_run_paired ft f es :
  scope_run identify lower_first ft f = SOk es -> paired (rev es).
Proof.
  unfold scope_run. destruct (install_names identify lower_first ft f []) as [[u tr]|e] eqn:E; [|discriminate].
  intros [= <-]. rewrite rev_involutive. eapply presJ_install_names; [|exact E]. split; exact I.
Qed.
End WithStyle.

(* reading the pairing off a newest-first trace *)
Lemma paired_in_at : forall p x e q,
  paired_in (p ++ x :: e :: q) -> is_struct_type e = true -> is_new_for x e.
Proof.
  induction p as [|y p IH]; intros x e q H Hs.
  - cbn [app paired_in] in H. apply H. exact Hs.
  - cbn [app] in H. cbn [paired_in] in H.
    destruct (p ++ x :: e :: q) as [|z zs] eqn:Ez; [destruct p; discriminate|].
    destruct H as [_ H]. rewrite <- Ez in H. eapply IH; eassumption.
Qed.

Section TypeNames.
Variable identify : bytes -> bytes.
Variable lower_first : bytes -> bytes.

(* chronological: a struct-type entry is never the last operation, and the next one reserves New<name> *)
Lemma struct_type_followed ft f es a e rest :
  scope_run identify lower_first ft f = SOk es -> es = a ++ e :: rest -> is_struct_type e = true ->
  exists x rest', rest = x :: rest' /\ is_new_for x e.
Proof.
  intros Hr -> Hs. apply scope_run_paired in Hr. destruct Hr as [Hin Hh].
  destruct rest as [|x rest'].
  - rewrite rev_app_distr in Hh. cbn [rev app head_settled] in Hh. congruence.
  - exists x, rest'. split; [reflexivity|].
    replace (rev (a ++ e :: x :: rest')) with (rev rest' ++ x :: e :: rev a) in Hin.
    + eapply paired_in_at; eassumption.
    + rewrite rev_app_distr. cbn [rev]. repeat rewrite <- app_assoc. reflexivity.
Qed.

Theorem struct_type_names_distinct ft f es a e1 b e2 c :
  scope_run identify lower_first ft f = SOk es ->
  es = a ++ e1 :: b ++ e2 :: c ->
  is_struct_type e1 = true -> is_struct_type e2 = true ->
  e_name e1 <> e_name e2.
Proof.
  intros Hr He H1 H2 Hn.
  destruct (struct_type_followed ft f es a e1 (b ++ e2 :: c) Hr He H1) as (x1 & r1 & Er1 & N1).
  assert (He' : es = (a ++ e1 :: b) ++ e2 :: c) by (rewrite He, <- app_assoc; reflexivity).
  destruct (struct_type_followed ft f es (a ++ e1 :: b) e2 c Hr He' H2) as (x2 & c' & -> & N2).
  destruct b as [|b0 b'].
  - (* the operation right after e1 would be e2 itself: a reservation is not a struct-type entry *)
    cbn [app] in Er1. injection Er1 as <- _. destruct N1 as (_ & _ & _ & K & _).
    unfold is_struct_type in H2. unfold kind_eqb in *. apply N.eqb_eq in K, H2. rewrite K in H2. discriminate.
  - cbn [app] in Er1. injection Er1 as <- _.
    destruct N1 as (T1 & _ & _ & _ & M1). destruct N2 as (T2 & _ & A2 & _ & M2).
    assert (Hes : es = (a ++ [e1]) ++ b0 :: (b' ++ [e2]) ++ x2 :: c').
    { rewrite He. repeat rewrite <- app_assoc. reflexivity. }
    apply (reserved_name_fresh identify lower_first ft f es (a ++ [e1]) b0 (b' ++ [e2]) x2 c' Hr Hes); [congruence | exact A2|].
    rewrite M1, M2, Hn. reflexivity.
Qed.
End TypeNames.
