(* Corr/C12.v — correspondence record and comparison for property C12.
   A case = a history of Feed calls and what the real FileManager returned
   (None = some Feed returned an error; Some outs = BuildResponse contents).
   [mismatches] returns (case index, code):
     1  model and implementation disagree                      (correspondence)
     2  implementation output contains the same file name twice   (property oracle)
     3  a named patch whose target name was neither submitted before it nor is
        the name of any output file was accepted without an error (property oracle;
        conservative: names produced by renaming count as possible targets)
     4  an unnamed first item was accepted without an error       (property oracle)
     9  the model ran out of fuel (never expected)                            *)
From Coq Require Import List Arith Bool NArith.
From Verif Require Import Base.Bytes Gen.FileManager.
Import ListNotations.

Record case := mkcase { c_hist : list (list gen); c_obs : option (list (bytes * bytes)) }.

Definition outs_eqb (a b : list (bytes * bytes)) : bool :=
  (List.length a =? List.length b) &&
  forallb (fun p => beqb (fst (fst p)) (fst (snd p)) && beqb (snd (fst p)) (snd (snd p))) (combine a b).

Fixpoint has_dup (l : list bytes) : bool :=
  match l with [] => false | x :: r => existsb (beqb x) r || has_dup r end.

(* names submitted so far as files (named items) *)
Fixpoint named_patch_without_target (seen : list bytes) (items : list gen) : bool * list bytes :=
  match items with
  | [] => (false, seen)
  | g :: r =>
    match g_name g with
    | None => named_patch_without_target seen r
    | Some n =>
      if negb (beqb (g_ip g) []) && negb (existsb (beqb n) seen) then (true, seen)
      else named_patch_without_target (n :: seen) r
    end
  end.

Fixpoint hist_named_patch_without_target (seen : list bytes) (h : list (list gen)) : bool :=
  match h with
  | [] => false
  | call :: r => let '(b, seen') := named_patch_without_target seen call in
                 b || hist_named_patch_without_target seen' r
  end.

Definition unnamed_first (h : list (list gen)) : bool :=
  existsb (fun call => match call with g :: _ => match g_name g with None => true | _ => false end | [] => false end) h.

Definition check (c : case) : list N :=
  let model := run (c_hist c) in
  let corr :=
    match model, c_obs c with
    | Ok outs, Some obs => if outs_eqb outs obs then [] else [1%N]
    | Err, None => []
    | Fuel, _ => [9%N]
    | _, _ => [1%N]
    end in
  let spec :=
    match c_obs c with
    | Some obs =>
        (if has_dup (map fst obs) then [2%N] else []) ++
        (if hist_named_patch_without_target (map fst obs) (c_hist c) then [3%N] else []) ++
        (if unnamed_first (c_hist c) then [4%N] else [])
    | None => []
    end in
  corr ++ spec.

Fixpoint mismatches_from (i : N) (cs : list case) : list (N * N) :=
  match cs with
  | [] => []
  | c :: r => map (fun code => (i, code)) (check c) ++ mismatches_from (i + 1)%N r
  end.
Definition mismatches (cs : list case) : list (N * N) := mismatches_from 0%N cs.
