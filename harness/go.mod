module verif/harness

go 1.18

require (
	github.com/apache/thrift v0.13.0
	github.com/cloudwego/gopkg v0.2.0
	github.com/cloudwego/thriftgo v0.0.0
)

require github.com/bytedance/gopkg v0.1.4 // indirect

replace github.com/cloudwego/thriftgo => /repo
