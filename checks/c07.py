"""C07 — code generation is deterministic (partial: see DESIGN.md C07)."""
import json
import os
import vlib


class S(vlib.Spec):
    prop = "C07"
    coq_targets = ["Props/C07.vo", "Corr/C07.vo"]
    props_file = "Props/C07.v"
    harness_pkg = "./cmd/c07"
    harness_name = "c07"
    needs_thriftgo = True
    corr_codes = {1, 9}
    code_names = {2: "output files differ between runs", 3: "plugin stdin bytes differ only in map-entry order",
                  4: "plugin stdin differs between runs (canonical form)", 5: "generated program rejected by thriftgo"}
    modelled = ("every Go construct whose result can depend on map iteration order or goroutine scheduling in the packages reachable from "
                "main (regenerated list coq/Gen/MapSites.v) is assigned a class in coq/Gen/SiteClasses.v; the classes are justified by the "
                "permutation-invariance theorems of coq/Gen/Determinism.v and by C19 for the concurrent writer")
    trusted_base = [
        "translator /verif/sitescan (go/packages + go/types, lists range-over-map, reflect MapRange/MapKeys, sync.Map.Range, go and select statements)",
        "the hand-maintained assignment site -> class in coq/Gen/SiteClasses.v (reviewed abstraction: the theorems are about the classes)",
        "text/template visits map keys in sorted order; go/format is deterministic",
        "harness/cmd/c07 (program generator, process runner), harness/cmd/recplugin (records plugin stdin), lib/vlib.py",
        "repeated execution under GOMAXPROCS 1..16 is a search for a counterexample, not a proof (partial)",
    ]
    assumptions = ["generated programs stay inside the language thriftgo accepts (code 5 reports when they do not)"]

    def translators(self, ctx):
        d = os.path.join(vlib.VERIF, "sitescan")
        os.makedirs(vlib.BIN, exist_ok=True)
        b = os.path.join(vlib.BIN, "sitescan")
        with vlib.Lock("go"):
            rc, out = vlib.sh(["go", "build", "-o", b, "."], cwd=d)
        if rc != 0:
            raise RuntimeError("sitescan build failed: " + out[-2000:])
        rc, out = vlib.sh([b, "-repo", vlib.REPO, "-out", os.path.join(vlib.COQ, "Gen", "MapSites.v")])
        if rc != 0:
            raise RuntimeError("sitescan failed: " + out[-2000:])
        return ["sitescan -> coq/Gen/MapSites.v"]

    def producer_args(self, ctx):
        ok, log, plug = vlib.go_build("./cmd/recplugin", "recplugin")
        if not ok:
            raise RuntimeError("recplugin build failed: " + log[-2000:])
        return ["-seed", str(ctx.seed), "-tier", ctx.tier, "-out", ctx.out, "-thriftgo", ctx.thriftgo, "-plugin", plug]

    def classify(self, code, case):
        return {2: "C07-output-differs-between-runs", 3: "C07-plugin-stdin-map-entry-order",
                4: "C07-plugin-request-differs", 5: "C07-generated-program-rejected"}.get(code, "C07-code-%d" % code)


def run(tier):
    return vlib.standard_run(S(), tier)


def replay(path):
    print(open(path).read()[:4000])
    return 0
