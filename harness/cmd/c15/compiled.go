package main

type compiler struct {
	dir, thriftgo, repo string
	st                  *stats
}

func newCompiler(dir, thriftgo, repo string, st *stats) *compiler {
	return &compiler{dir: dir, thriftgo: thriftgo, repo: repo, st: st}
}

func (c *compiler) run(ctx *progCtx, key, root string) []*Case { return nil }
