(* Idl/ResolveSpec.v — declarative specification of symbol resolution (property C05).
   Definitions only.  Nothing here mentions the model Idl/Resolve.v except the record
   [tde] (the abstract state of the typedef fixpoint) in the last section.

   The specification speaks about the PARSED program [p] through its symbol table:
     file_defs f   the global definitions of a file: name and what kind of thing it is
     file_incs f   the includes of a file: IDL prefix and the file they refer to
   and says
     name_denotes p fn n d    the type name [n], written in file [fn], finally stands
                              for the definition / builtin [d] (typedef chains are
                              followed to the end, across includes)
     def_denotes p fn n d     the same for the definition called [n] OF file [fn]
     spec_include p f ok pre m   the include a qualified name pre.m goes through
     enum_denotes, const_denotes   what an identifier used as a value is bound to *)
From Coq Require Import List Bool Arith NArith ZArith.
From Coq.Strings Require Import Byte.
From Verif Require Import Base.Bytes Idl.Ast Idl.AstUtil Idl.Resolve.
Import ListNotations.

(* ---------------------------------------------------------------- symbol table *)

Inductive dkind :=
| DkTypedef (target : bytes)        (* typedef <target> name *)
| DkConst
| DkEnum (values : list bytes)
| DkStruct (k : sl_kind)
| DkService.

Definition dkind_cat (k : dkind) : category :=
  match k with
  | DkTypedef _ => CatTypedef | DkConst => CatConstant | DkEnum _ => CatEnum
  | DkStruct s => sl_kind_category s | DkService => CatService
  end.

Definition is_type_kind (k : dkind) : bool := is_type_cat (dkind_cat k).
Definition is_service_kind (k : dkind) : bool := is_service_cat (dkind_cat k).

(* same order as AstUtil.file_def_names / RegisterNames *)
Definition file_defs (f : file) : list (bytes * dkind) :=
  map (fun t => (td_alias t, DkTypedef (ty_name (td_type t)))) (f_typedefs f) ++
  map (fun c => (co_name c, DkConst)) (f_constants f) ++
  map (fun e => (en_name e, DkEnum (map ev_name (en_values e)))) (f_enums f) ++
  map (fun s => (sl_name s, DkStruct (sl_category s))) (struct_likes f) ++
  map (fun s => (sv_name s, DkService)) (f_services f).

Definition file_incs (f : file) : list (bytes * option bytes) :=
  map (fun i => (idl_prefix (in_path i), in_ref i)) (f_includes f).

Definition def_of (p : program) (fn name : bytes) : option dkind :=
  match prog_file p fn with Some f => lookup name (file_defs f) | None => None end.

(* the include a qualified name pre.m goes through: the first one with the prefix whose
   file defines m with a fitting kind; result: index and file name *)
Fixpoint spec_include (p : program) (ok : dkind -> bool) (pre m : bytes)
         (incs : list (bytes * option bytes)) (idx : nat) : option (nat * bytes) :=
  match incs with
  | [] => None
  | (pre', ref) :: r =>
    let next := spec_include p ok pre m r (S idx) in
    if beqb pre' pre then
      match ref with
      | Some gn =>
        match def_of p gn m with
        | Some k => if ok k then Some (idx, gn) else next
        | None => next
        end
      | None => next
      end
    else next
  end.

(* ---------------------------------------------------------------- what a type name denotes *)

Inductive tdef :=
| TBuiltin (c : category)                 (* base types, map, list, set *)
| TEnum (fn name : bytes)                 (* the enum [name] of file [fn] *)
| TStruct (fn name : bytes) (k : sl_kind).

Definition kind (d : tdef) : category :=
  match d with TBuiltin c => c | TEnum _ _ => CatEnum | TStruct _ _ k => sl_kind_category k end.

Inductive def_denotes (p : program) : bytes -> bytes -> tdef -> Prop :=
| dd_enum fn n vs : def_of p fn n = Some (DkEnum vs) -> def_denotes p fn n (TEnum fn n)
| dd_struct fn n k : def_of p fn n = Some (DkStruct k) -> def_denotes p fn n (TStruct fn n k)
| dd_typedef fn n tgt d :
    def_of p fn n = Some (DkTypedef tgt) -> name_denotes p fn tgt d -> def_denotes p fn n d
with name_denotes (p : program) : bytes -> bytes -> tdef -> Prop :=
| nd_builtin fn n c : builtin_category n = Some c -> name_denotes p fn n (TBuiltin c)
| nd_local fn n a d :
    builtin_category n = None -> split_type n = [a] -> def_denotes p fn a d ->
    name_denotes p fn n d
| nd_qualified fn f n pre m i gn d :
    builtin_category n = None -> split_type n = [pre; m] -> prog_file p fn = Some f ->
    spec_include p is_type_kind pre m (file_incs f) 0 = Some (i, gn) ->
    def_denotes p gn m d -> name_denotes p fn n d.

(* the name is that of a typedef (local, or through the include the name goes through) *)
Definition names_typedef (p : program) (fn n : bytes) : Prop :=
  builtin_category n = None /\
  ((exists a tgt, split_type n = [a] /\ def_of p fn a = Some (DkTypedef tgt)) \/
   (exists f pre m i gn tgt, split_type n = [pre; m] /\ prog_file p fn = Some f /\
      spec_include p is_type_kind pre m (file_incs f) 0 = Some (i, gn) /\
      def_of p gn m = Some (DkTypedef tgt))).

(* the type occurrences the pass visits: a type, the key and value of a map, the
   element of a list / set *)
Fixpoint ty_occs (t : ty) : list ty :=
  match t with
  | Ty n k v _ _ _ _ _ =>
    t :: match builtin_category n with
         | Some CatMap => (match k with Some x => ty_occs x | None => [] end) ++
                          (match v with Some x => ty_occs x | None => [] end)
         | Some CatList | Some CatSet => (match v with Some x => ty_occs x | None => [] end)
         | _ => []
         end
  end.

Definition function_top_types (fn : function) : list ty :=
  (if fn_void fn then [] else [fn_type fn]) ++ map fd_type (function_fields fn).

(* every type occurrence of a file that resolution looks at ("void" is not one) *)
Definition file_top_occs (f : file) : list ty :=
  map td_type (f_typedefs f) ++ map co_type (f_constants f) ++
  map fd_type (flat_map' sl_fields (struct_likes f)) ++
  flat_map' (fun s => flat_map' function_top_types (sv_functions s)) (f_services f).
Definition file_occs (f : file) : list ty := flat_map' ty_occs (file_top_occs f).

(* ---------------------------------------------------------------- identifiers used as values *)

(* the enum a name of file [fn] stands for in NAME.VALUE, with the include index the
   binding records: -1 while the typedef chain stays in the file, else the index of
   the include the first qualified hop goes through *)
Inductive enum_denotes (p : program) : bytes -> bytes -> bytes -> list bytes -> Z -> Prop :=
| ed_enum fn n vs : def_of p fn n = Some (DkEnum vs) -> enum_denotes p fn n fn vs (-1)%Z
| ed_local fn n tgt a efn vs i :
    def_of p fn n = Some (DkTypedef tgt) -> builtin_category tgt = None -> split_type tgt = [a] ->
    enum_denotes p fn a efn vs i -> enum_denotes p fn n efn vs i
| ed_qualified fn f n tgt pre m i gn efn vs j :
    def_of p fn n = Some (DkTypedef tgt) -> builtin_category tgt = None -> split_type tgt = [pre; m] ->
    prog_file p fn = Some f ->
    spec_include p is_type_kind pre m (file_incs f) 0 = Some (i, gn) ->
    enum_denotes p gn m efn vs j -> enum_denotes p fn n efn vs (Z.of_nat i).

(* one explanation of the identifier [s] written in file [fn] *)
Inductive const_denotes (p : program) (fn : bytes) (s : bytes) : const_extra -> Prop :=
| cd_local a :
    In [a] (split_value s) -> def_of p fn a = Some DkConst ->
    const_denotes p fn s (Extra false (-1)%Z a [])
| cd_enum_value e v efn vs i :
    In [e; v] (split_value s) -> enum_denotes p fn e efn vs i -> In v vs ->
    const_denotes p fn s (Extra true i v e)
| cd_include_const f pre v i gn :
    In [pre; v] (split_value s) -> prog_file p fn = Some f ->
    nth_error (file_incs f) i = Some (pre, Some gn) -> def_of p gn v = Some DkConst ->
    const_denotes p fn s (Extra false (Z.of_nat i) v pre)
| cd_include_enum_value f pre e v i gn efn vs j :
    In [pre; e; v] (split_value s) -> prog_file p fn = Some f ->
    nth_error (file_incs f) i = Some (pre, Some gn) ->
    enum_denotes p gn e efn vs j -> In v vs ->
    const_denotes p fn s (Extra true (Z.of_nat i) v e).

(* an identifier constant of a resolved file is bound to the one thing it denotes *)
Definition cv_bound (p : program) (fn : bytes) (c : const_value) : Prop :=
  match c with
  | CIdent s (Some e) => const_denotes p fn s e /\ forall e', const_denotes p fn s e' -> e' = e
  | _ => True
  end.

(* definition names are plain identifiers: no dot, not the name of a builtin type.
   (The grammar of thriftgo is laxer.  getEnum falls back to looking the target of a
   typedef up as a LOCAL name, which differs from this specification only when some
   definition is called like a builtin type or has a dot in its name.) *)
Definition plain_name (n : bytes) : bool :=
  match builtin_category n with
  | Some _ => false
  | None => match split_type n with [_] => true | _ => false end
  end.
Definition plain_names (p : program) : bool :=
  forallb (fun e => forallb (fun d => plain_name (fst d)) (file_defs (snd e))) p.

(* ---------------------------------------------------------------- Include.Used *)

(* something of the (resolved) file refers through its include number [z]: a type
   occurrence, an identifier bound through the include, or a base service *)
Definition refers_through (f : file) (z : Z) : Prop :=
  (exists t r, In t (file_types f) /\ ty_ref t = Some r /\ ref_index r = z) \/
  (exists c s e, In c (file_const_values f) /\ c = CIdent s (Some e) /\ ex_index e = z) \/
  (exists sv r, In sv (f_services f) /\ sv_ref sv = Some r /\ ref_index r = z).

(* ---------------------------------------------------------------- the typedef fixpoint, abstractly *)

(* [st0]: one entry per local typedef (alias, the local typedef its type names while
   pending, category).  The category the chain starting at [a] ends in: *)
Inductive te_chain (st0 : list tde) : bytes -> category -> Prop :=
| tc_done e : In e st0 -> is_typedef_cat (te_cat e) = false -> te_chain st0 (te_alias e) (te_cat e)
| tc_step e b c :
    In e st0 -> is_typedef_cat (te_cat e) = true -> te_local e = Some b ->
    te_chain st0 b c -> te_chain st0 (te_alias e) c.

(* no cycle, no dangling end: every entry has a chain end *)
Definition te_resolvable (st0 : list tde) : Prop :=
  forall e, In e st0 -> exists c, te_chain st0 (te_alias e) c.

(* ---------------------------------------------------------------- permutations of definitions *)

From Coq Require Import Permutation.

Definition file_perm (a b : file) : Prop :=
  f_filename a = f_filename b /\ f_includes a = f_includes b /\
  f_cpp_includes a = f_cpp_includes b /\ f_namespaces a = f_namespaces b /\
  Permutation (f_typedefs a) (f_typedefs b) /\ Permutation (f_constants a) (f_constants b) /\
  Permutation (f_enums a) (f_enums b) /\ Permutation (f_structs a) (f_structs b) /\
  Permutation (f_unions a) (f_unions b) /\ Permutation (f_exceptions a) (f_exceptions b) /\
  Permutation (f_services a) (f_services b) /\ f_name2cat a = f_name2cat b.

Definition program_perm (p q : program) : Prop :=
  Forall2 (fun x y => fst x = fst y /\ file_perm (snd x) (snd y)) p q.

(* the input of the pass: what the parser delivers *)
Definition unresolved_file (f : file) : bool :=
  match f_name2cat f with None => true | Some _ => false end &&
  forallb (fun i => match in_used i with None => true | Some _ => false end) (f_includes f).
Definition parsed_program (p : program) : bool := forallb (fun e => unresolved_file (snd e)) p.
