// Command c13: case producer for property C13 (field-mask filtered serialization).
//
// Per run: seeded schema programs are compiled (gendrv) with with_field_mask,with_reflection x
// {default, field_mask_halfway, field_mask_zero_required} and once WITHOUT the option (reference).
// For every struct-like, model values and value-directed thrift-path lists (inside and outside the
// domain of the field-mask library's path-set semantics; white and black lists; the nil mask) are
// turned into masks by the REAL fieldmask.NewFieldMask inside the driver; the driver reports the
// bytes of Write under the mask, the bytes of a second Write after Set_FieldMask(nil), and the
// reflection dump after Read under the mask. Inputs and observations become Coq cases
// (Corr/C13.v), one set of shards per program.
package main

import (
	"crypto/sha256"
	"encoding/hex"
	"encoding/json"
	"flag"
	"fmt"
	"os"
	"path/filepath"
	"sort"
	"strings"
	"time"

	"verif/harness/casefile"
	"verif/harness/coqfmt"
	"verif/harness/gendrv"
	"verif/harness/maskkit"
	"verif/harness/rng"
	"verif/harness/schemagen"
	"verif/harness/valgen"
)

type optSet struct {
	Key     string
	Options string
	Halfway bool
	Zero    bool
	Plain   bool
}

func (o optSet) coq() string {
	return fmt.Sprintf("(mkcfg %s %s false)", coqfmt.Bool(o.Halfway), coqfmt.Bool(o.Zero))
}

var sets = []optSet{
	{Key: "m0", Options: "with_field_mask,with_reflection"},
	{Key: "m1", Options: "with_field_mask,with_reflection,field_mask_halfway", Halfway: true},
	{Key: "m2", Options: "with_field_mask,with_reflection,field_mask_zero_required", Zero: true},
	{Key: "pl", Options: "", Plain: true},
}

type maskSpec struct {
	Black bool
	Nil   bool
	Paths []maskkit.Path
	Strs  []string
	Style string
}

func (m *maskSpec) pathsJSON() string {
	if m.Nil {
		return "null"
	}
	b, _ := json.Marshal(m.Strs)
	if m.Strs == nil {
		return "[]"
	}
	return string(b)
}

func (m *maskSpec) coqPaths() string {
	if m.Nil {
		return "None"
	}
	return "(Some " + stringsCoq(m.Strs) + ")"
}

type vector struct {
	S     *schemagen.Struct
	V     *valgen.Value
	W     *valgen.W
	Masks []*maskSpec
	Owns  []*ownSpec
	Thin  bool // reads: the valid input only, every other mask on the non-default sets
}

type pending struct {
	kind  string // mwrite mread plainw plainr
	prog  int
	unit  *gendrv.Unit
	os    optSet
	vec   *vector
	mask  *maskSpec
	own   *ownSpec
	input []byte
	rkind string
	zero  bool
	src   *valgen.Value
	cmd   int
	plain int // index into pend of the plain observation
}

type stats struct {
	Programs       int               `json:"programs"`
	RejectedByImpl int               `json:"rejected_by_impl"`
	RejectedSample []string          `json:"rejected_sample,omitempty"`
	Units          int               `json:"units"`
	Structs        int               `json:"structs"`
	Values         int               `json:"values"`
	Masks          int               `json:"masks"`
	Schema         map[string]int    `json:"schema"`
	CaseKinds      map[string]int    `json:"case_kinds"`
	MaskStyles     map[string]int    `json:"mask_styles"`
	MaskModes      map[string]int    `json:"mask_modes"`
	MaskErrors     int               `json:"masks_refused_by_library"`
	ObsErr         map[string]int    `json:"observed_error_classes"`
	OptionSets     map[string]string `json:"option_sets"`
	Evaluations    int               `json:"evaluations"`
	Distinct       int               `json:"distinct_nontrivial"`
	Rule           string            `json:"rule"`
	Samples        []interface{}     `json:"samples"`
}

func obsErr(s string) string {
	switch s {
	case "ok":
		return "OOk"
	case "invalid_data":
		return "OInvalidData"
	case "protocol":
		return "OProtocol"
	case "transport":
		return "OTransport"
	case "error":
		return "OError"
	}
	return "OPanic"
}

// orderFields puts the fields of an observed struct dump into schema order.
func orderFields(p *schemagen.Program, t *schemagen.Type, v *valgen.Value) {
	switch v.K {
	case "struct":
		if t.Kind != "struct" {
			return
		}
		s := p.Struct(t.Name)
		if s == nil {
			return
		}
		pos := map[int]int{}
		for i, f := range s.Fields {
			pos[f.ID] = i
		}
		sort.SliceStable(v.F, func(a, b int) bool {
			pa, oka := pos[v.F[a].ID]
			pb, okb := pos[v.F[b].ID]
			if !oka {
				pa = 1 << 20
			}
			if !okb {
				pb = 1 << 20
			}
			return pa < pb
		})
		for _, fv := range v.F {
			for _, f := range s.Fields {
				if f.ID == fv.ID {
					orderFields(p, f.Type, fv.V)
				}
			}
		}
	case "some":
		orderFields(p, t, v.P)
	case "list":
		if t.Elem != nil {
			for _, x := range v.L {
				orderFields(p, t.Elem, x)
			}
		}
	case "map":
		if t.Key != nil {
			for _, kv := range v.M {
				orderFields(p, t.Key, kv[0])
				orderFields(p, t.Elem, kv[1])
			}
		}
	}
}

// corpus: the IDL and vectors of the confirmed defects (kept so that every run exercises them).
func corpusProgram() *schemagen.Program {
	i32 := &schemagen.Type{Kind: "i32"}
	str := &schemagen.Type{Kind: "string"}
	dbl := &schemagen.Type{Kind: "double"}
	li := &schemagen.Type{Kind: "list", Elem: i32}
	in := &schemagen.Struct{File: "a", Name: "In", Kind: "struct", Fields: []*schemagen.Field{
		{ID: 1, Name: "x", Req: "default", Type: i32},
		{ID: 2, Name: "y", Req: "optional", ReqText: "optional", Type: str},
		{ID: 3, Name: "z", Req: "required", ReqText: "required", Type: i32},
	}}
	inT := &schemagen.Type{Kind: "struct", Name: "a.In"}
	rq := &schemagen.Struct{File: "a", Name: "Rq", Kind: "struct", Fields: []*schemagen.Field{
		{ID: 1, Name: "r", Req: "required", ReqText: "required", Type: inT},
		{ID: 2, Name: "o", Req: "optional", ReqText: "optional", Type: i32},
	}}
	rqT := &schemagen.Type{Kind: "struct", Name: "a.Rq"}
	u := &schemagen.Struct{File: "a", Name: "U", Kind: "union", Fields: []*schemagen.Field{
		{ID: 1, Name: "a", Req: "optional", Type: i32},
		{ID: 2, Name: "b", Req: "optional", Type: str},
	}}
	uT := &schemagen.Type{Kind: "struct", Name: "a.U"}
	s := &schemagen.Struct{File: "a", Name: "S", Kind: "struct", Fields: []*schemagen.Field{
		{ID: 1, Name: "l", Req: "default", Type: li},
		{ID: 2, Name: "rl", Req: "required", ReqText: "required", Type: li},
		{ID: 3, Name: "ll", Req: "default", Type: &schemagen.Type{Kind: "list", Elem: li}},
		{ID: 4, Name: "oi", Req: "optional", ReqText: "optional", Type: i32},
		{ID: 5, Name: "di", Req: "default", Type: i32},
		{ID: 6, Name: "rq", Req: "required", ReqText: "required", Type: rqT},
		{ID: 7, Name: "dm", Req: "default", Type: &schemagen.Type{Kind: "map", Key: dbl, Elem: i32}},
		{ID: 8, Name: "st", Req: "default", Type: &schemagen.Type{Kind: "set", Elem: i32}},
		{ID: 9, Name: "lm", Req: "default", Type: &schemagen.Type{Kind: "list", Elem: &schemagen.Type{Kind: "map", Key: dbl, Elem: i32}}},
		{ID: 10, Name: "im", Req: "default", Type: &schemagen.Type{Kind: "map", Key: i32, Elem: inT}},
		{ID: 11, Name: "rsm", Req: "required", ReqText: "required", Type: &schemagen.Type{Kind: "map", Key: str, Elem: i32}},
		{ID: 12, Name: "ru", Req: "required", ReqText: "required", Type: uT},
		{ID: 13, Name: "li", Req: "default", Type: &schemagen.Type{Kind: "list", Elem: inT}},
		{ID: 14, Name: "tl", Req: "required", ReqText: "required", Type: &schemagen.Type{Kind: "list", Elem: i32, Via: "a.L"}},
		{ID: 15, Name: "si", Req: "default", Type: &schemagen.Type{Kind: "set", Elem: inT}},
		{ID: 16, Name: "sm", Req: "default", Type: &schemagen.Type{Kind: "map", Key: str, Elem: inT}},
	}}
	f := &schemagen.File{Name: "a", Namespace: "c13corp.apkg"}
	// a required field whose type is a typedef of a container (ZeroWriter, C13-6)
	f.Defs = append(f.Defs, &schemagen.Def{Typedef: &schemagen.Typedef{File: "a", Name: "L", Type: li}})
	for _, st := range append([]*schemagen.Struct{in, rq, u, s}, boundaryStructs(i32, inT)...) {
		f.Defs = append(f.Defs, &schemagen.Def{Struct: st})
	}
	return &schemagen.Program{Key: "c13corp", Files: []*schemagen.File{f}}
}

func corpusValue() *valgen.Value {
	I := valgen.Int
	inV := func(x, z int64, y string) *valgen.Value {
		return valgen.Struct([]valgen.FieldVal{{ID: 1, V: I(x)}, {ID: 2, V: valgen.Some(valgen.Str([]byte(y)))}, {ID: 3, V: I(z)}})
	}
	list := func(xs ...int64) *valgen.Value {
		var l []*valgen.Value
		for _, x := range xs {
			l = append(l, I(x))
		}
		return valgen.List(l)
	}
	dm := valgen.Map([][2]*valgen.Value{{valgen.Dbl(0x3ff8000000000000), I(2)}})
	return valgen.Struct([]valgen.FieldVal{
		{ID: 1, V: list(40, 41, 42, 43)},
		{ID: 2, V: list(1, 2)},
		{ID: 3, V: valgen.List([]*valgen.Value{list(7, 8), list(9)})},
		{ID: 4, V: valgen.Some(I(5))},
		{ID: 5, V: I(6)},
		{ID: 6, V: valgen.Struct([]valgen.FieldVal{{ID: 1, V: inV(1, 3, "yy")}, {ID: 2, V: valgen.Some(I(5))}})},
		{ID: 7, V: dm},
		{ID: 8, V: list(1, 2, 3, 4)},
		{ID: 9, V: valgen.List([]*valgen.Value{dm})},
		{ID: 10, V: valgen.Map([][2]*valgen.Value{{I(1), inV(10, 30, "a")}, {I(2), inV(11, 31, "b")}})},
		{ID: 11, V: valgen.Map([][2]*valgen.Value{{valgen.Str([]byte("a")), I(1)}})},
		{ID: 12, V: valgen.Struct([]valgen.FieldVal{{ID: 1, V: valgen.Some(I(9))}, {ID: 2, V: valgen.Nil()}})},
		{ID: 13, V: valgen.List([]*valgen.Value{inV(1, 2, "p"), inV(3, 4, "q"), inV(5, 6, "r")})},
		{ID: 14, V: list(5, 6)},
		{ID: 15, V: valgen.List([]*valgen.Value{inV(21, 22, "s0"), inV(23, 24, "s1")})},
		{ID: 16, V: valgen.Map([][2]*valgen.Value{{valgen.Str([]byte("x")), inV(31, 32, "mx")}, {valgen.Str([]byte("y")), inV(33, 34, "my")}})},
	})
}

func P(segs ...maskkit.PSeg) maskkit.Path { return maskkit.Path(segs) }
func nm(n string) maskkit.PSeg            { return maskkit.PSeg{Kind: "name", Name: n} }
func ix(i ...int64) maskkit.PSeg          { return maskkit.PSeg{Kind: "idx", Ints: i} }
func ki(i ...int64) maskkit.PSeg          { return maskkit.PSeg{Kind: "keyi", Ints: i} }
func ks(s ...string) maskkit.PSeg         { return maskkit.PSeg{Kind: "keys", Strs: s} }

var idxStar = maskkit.PSeg{Kind: "idxstar"}

func corpusMasks() []*maskSpec {
	mk := func(black bool, style string, ps ...maskkit.Path) *maskSpec {
		return &maskSpec{Black: black, Paths: ps, Strs: renderAll(ps), Style: style}
	}
	return []*maskSpec{
		mk(false, "corpus-list-index", P(nm("l"), ix(3))), // defect #6: header 2, one element
		mk(false, "corpus-set-index", P(nm("st"), ix(3))),
		mk(false, "corpus-list-index", P(nm("l"), ix(0, 2)), P(nm("li"), ix(1), nm("x"))),
		mk(true, "corpus-black-required-list", P(nm("rl"))), // header n, no element (before C13-2)
		mk(true, "corpus-black-required-map", P(nm("rsm"))),
		mk(true, "corpus-black-star-nested", P(nm("ll"), idxStar)), // outside the domain
		mk(true, "corpus-black-star-nested", P(nm("lm"), idxStar)),
		mk(true, "corpus-black-required-struct", P(nm("rq"))),
		mk(false, "corpus-filtered-fields", P(nm("l"))), // zero_required: other fields must be absent
		mk(false, "corpus-map-keys", P(nm("im"), ki(1), nm("y")), P(nm("im"), ki(5))),
		mk(true, "corpus-map-keys", P(nm("im"), ki(1), nm("y")), P(nm("li"), ix(0, 7))),
		// a set with a continuation, then a refinement of a strict subset of its members: the other
		// members must not change (the library must not share one sub mask among the members)
		mk(false, "corpus-group-extension", P(nm("li"), ix(0, 1), nm("x")), P(nm("li"), ix(1), nm("y"))),
		mk(true, "corpus-group-extension", P(nm("li"), ix(0, 1), nm("x")), P(nm("li"), ix(1), nm("y"))),
		mk(false, "corpus-group-extension", P(nm("si"), ix(0, 1), nm("x")), P(nm("si"), ix(0), nm("y"))),
		mk(true, "corpus-group-extension", P(nm("si"), ix(0, 1), nm("y")), P(nm("si"), ix(0), nm("x"))),
		mk(false, "corpus-group-extension", P(nm("im"), ki(1, 2), nm("x")), P(nm("im"), ki(2), nm("y"))),
		mk(true, "corpus-group-extension", P(nm("im"), ki(1, 2), nm("x")), P(nm("im"), ki(2), nm("y"))),
		mk(false, "corpus-group-extension", P(nm("sm"), ks("x", "y"), nm("x")), P(nm("sm"), ks("y"), nm("y"))),
		mk(true, "corpus-group-extension", P(nm("sm"), ks("x", "y"), nm("x")), P(nm("sm"), ks("y"), nm("y"))),
		{Nil: true, Style: "nil"},
		mk(false, "empty"),
	}
}

func main() {
	seed := flag.Uint64("seed", 1, "")
	tier := flag.String("tier", "quick", "")
	out := flag.String("out", "", "")
	tg := flag.String("thriftgo", "", "thriftgo binary built from VERIF_REPO")
	scratch := flag.String("scratch", "", "scratch directory for the generated module")
	flag.Parse()
	repo := os.Getenv("VERIF_REPO")
	if repo == "" {
		repo = "/repo"
	}
	if *out == "" || *tg == "" || *scratch == "" {
		fmt.Fprintln(os.Stderr, "usage: c13 -seed N -tier quick|thorough -out DIR -thriftgo BIN -scratch DIR")
		os.Exit(2)
	}
	r := rng.New(*seed)
	nProg, nVal, nMask := 2, 3, 5
	if *tier == "thorough" {
		nProg, nVal, nMask = 8, 4, 8
	}
	st := &stats{Schema: map[string]int{}, CaseKinds: map[string]int{}, MaskStyles: map[string]int{}, MaskModes: map[string]int{},
		ObsErr: map[string]int{}, OptionSets: map[string]string{},
		Rule: "a case is non-trivial when its mask has at least one path and its value at least 2 fields; distinct = distinct (struct, option set, value, mode, path list) for writes, (struct, option set, input bytes, mode, path list) for reads"}
	for _, o := range sets {
		st.OptionSets[o.Key] = o.Options
	}

	// 1. programs and units
	b := gendrv.New(*scratch, *tg, repo)
	progs := []*schemagen.Program{corpusProgram()}
	for i := 0; i < nProg; i++ {
		pp := schemagen.DefaultParams()
		if i%2 == 1 {
			pp.StructKeys = false
		}
		if i%3 == 2 {
			pp.MaxFiles, pp.MaxStructs, pp.MaxFields = 1, 3, 6
		}
		if *tier != "thorough" {
			pp.MaxFiles, pp.MaxStructs = 2, 3
		}
		progs = append(progs, schemagen.Generate(r.Fork(), pp, fmt.Sprintf("p%d", i)))
	}
	for pi, p := range progs {
		for oi, o := range sets {
			// quick tier: the corpus program under every option set, the random programs under
			// the plain set and a rotating choice of the masked sets (every unit costs a go build)
			if *tier != "thorough" && pi > 0 && !o.Plain && !(oi == (pi-1)%3 || (pi == 1 && oi == 2)) {
				continue
			}
			b.Add(&gendrv.Unit{Key: o.Key + "/" + p.Key, Prog: p, Options: o.Options})
		}
	}
	st.Programs = len(progs)
	t0 := time.Now()
	if err := b.Generate(); err != nil {
		fmt.Fprintln(os.Stderr, "generate:", err)
		os.Exit(1)
	}
	rejectedProg := map[string]bool{}
	for _, rj := range b.Rejected {
		rejectedProg[rj.Unit.Prog.Key] = true
		if len(st.RejectedSample) < 3 {
			st.RejectedSample = append(st.RejectedSample, rj.Unit.Key+": "+firstLine(rj.Output))
		}
	}
	st.RejectedByImpl = len(rejectedProg)
	if err := b.Build(); err != nil {
		fmt.Fprintln(os.Stderr, "build:", err)
		os.Exit(1)
	}
	st.Units = len(b.Units)
	fmt.Fprintf(os.Stderr, "c13: generate+build %d units: %.1fs\n", len(b.Units), time.Since(t0).Seconds())
	progIndex := map[string]int{}
	for i, p := range progs {
		progIndex[p.Key] = i
	}
	setOf := func(u *gendrv.Unit) optSet {
		k := strings.SplitN(u.Key, "/", 2)[0]
		for _, o := range sets {
			if o.Key == k {
				return o
			}
		}
		return sets[0]
	}
	unitOf := map[string]*gendrv.Unit{}
	for _, u := range b.Units {
		unitOf[u.Key] = u
	}

	// 2. vectors and masks per program (shared by the option sets)
	vectors := map[string][]*vector{}
	for pi, p := range progs {
		if rejectedProg[p.Key] {
			continue
		}
		p.Stats(st.Schema)
		if pi == 0 {
			s := p.Struct("a.S")
			vec := &vector{S: s, V: corpusValue(), Masks: corpusMasks(), Owns: corpusOwns()}
			if w, err := valgen.ToWire(p, s, vec.V); err == nil {
				vec.W = w
			}
			vectors[p.Key] = append(vectors[p.Key], vec)
			st.Structs++
			st.Values++
			st.Masks += len(vec.Masks)
			// the storage boundary of the library's field map (ids 62..65 and a negative one)
			for k := 0; k < 3; k++ {
				bs := p.Struct(fmt.Sprintf("a.B%d", k))
				bv := &vector{S: bs, V: boundaryValue(k), Masks: boundaryMasks(k), Thin: true}
				if w, err := valgen.ToWire(p, bs, bv.V); err == nil {
					bv.W = w
				}
				vectors[p.Key] = append(vectors[p.Key], bv)
				st.Structs++
				st.Values++
				st.Masks += len(bv.Masks)
			}
			continue
		}
		gw := &valgen.G{R: r.Fork(), Prog: p, P: valgen.DefaultParams()}
		ge := &valgen.G{R: r.Fork(), Prog: p, P: valgen.DefaultParams()}
		ge.P.Edge = true
		for si, s := range p.Structs() {
			st.Structs++
			for k := 0; k < nVal; k++ {
				g := gw
				if k == nVal-1 && r.Chance(1, 3) {
					g = ge
				}
				v := g.Struct(s, r.Range(1, 3))
				if k == 1 {
					// the second value of a struct should offer a site for a group extension (a
					// list / set / map of structs with two members): retry a few times
					probe := &pgen{r: r.Fork(), prog: p}
					for tries := 0; tries < 12; tries++ {
						var sites []geSite
						probe.geSites(s, v, nil, 1, &sites)
						if len(sites) > 0 {
							break
						}
						v = gw.Struct(s, 3)
					}
				}
				vec := &vector{S: s, V: v}
				if w, err := valgen.ToWire(p, s, v); err == nil {
					vec.W = w
				}
				for m := 0; m < nMask; m++ {
					black := r.Chance(2, 5)
					pg := &pgen{r: r.Fork(), prog: p, black: black}
					ms := &maskSpec{Black: black}
					switch {
					case m == 0 && k == 0 && si%3 == 0:
						ms.Nil, ms.Style = true, "nil"
					case m == 1 || r.Chance(1, 6):
						// one slot per value is reserved for a group extension when the value has a site
						if ps, ok := pg.groupExt(s, v); ok {
							ms.Paths, ms.Style = ps, "group-extension"
						} else {
							ms.Paths, ms.Style = pg.domain(s, v), "domain"
						}
					case r.Chance(1, 4):
						ms.Paths, ms.Style = pg.wild(s, v)
						ms.Style = "wild-" + ms.Style
					default:
						ms.Paths, ms.Style = pg.domain(s, v), "domain"
					}
					ms.Strs = renderAll(ms.Paths)
					if !ms.Nil && len(ms.Paths) == 0 {
						ms.Style = "empty"
					}
					vec.Masks = append(vec.Masks, ms)
					st.Masks++
				}
				if k == 0 || *tier == "thorough" {
					vec.Owns = (&pgen{r: r.Fork(), prog: p}).ownSpecs(s, v, 2)
				}
				vectors[p.Key] = append(vectors[p.Key], vec)
				st.Values++
			}
		}
	}

	// 3. commands
	var cmds []gendrv.Cmd
	var pend []*pending
	add := func(pd *pending, verb string, args ...string) int {
		pd.cmd = len(cmds)
		cmds = append(cmds, gendrv.Cmd{Verb: verb, Args: args})
		pend = append(pend, pd)
		return len(pend) - 1
	}
	b01 := func(x bool) string {
		if x {
			return "1"
		}
		return "0"
	}
	for pi, p := range progs {
		if rejectedProg[p.Key] {
			continue
		}
		plainU := unitOf["pl/"+p.Key]
		if plainU == nil {
			continue
		}
		rr := rng.New(*seed ^ uint64(pi)*7919)
		for _, vec := range vectors[p.Key] {
			s := vec.S
			pw := add(&pending{kind: "plainw", prog: pi, unit: plainU, vec: vec}, "write", plainU.Key, s.QName(), vec.V.JSON())
			// read inputs: the plain encoding of the value, and one with an unknown field inserted
			type rin struct {
				kind string
				bs   []byte
				src  *valgen.Value
				pr   int
				zero bool
			}
			var rins []*rin
			if vec.W != nil {
				enc := vec.W.Enc()
				rins = append(rins, &rin{kind: "valid", bs: enc, src: vec.V})
				if ins := valgen.AllInsertions(rr, s, vec.W); len(ins) > 0 {
					rins = append(rins, &rin{kind: valgen.PInsertUnknown, bs: ins[rr.Intn(len(ins))].Enc(), src: nil})
				}
				if len(enc) > 2 && rr.Chance(1, 3) {
					rins = append(rins, &rin{kind: "truncate", bs: enc[:rr.Intn(len(enc))]})
				}
				if rr.Chance(1, 3) {
					rins = append(rins, &rin{kind: "valid_zero_init", bs: enc, src: vec.V, zero: true})
				}
			}
			for _, ri := range rins {
				init := "new"
				if ri.zero {
					init = "zero"
				}
				ri.pr = add(&pending{kind: "plainr", prog: pi, unit: plainU, vec: vec, input: ri.bs}, "read", plainU.Key, s.QName(), hex.EncodeToString(ri.bs), init)
			}
			for _, o := range sets {
				if o.Plain {
					continue
				}
				u := unitOf[o.Key+"/"+p.Key]
				if u == nil {
					continue
				}
				for _, ow := range vec.Owns {
					add(&pending{kind: "mown", prog: pi, unit: u, os: o, vec: vec, own: ow},
						"mwrite_own", u.Key, s.QName(), vec.V.JSON(), b01(ow.Root.Black), ow.Root.pathsJSON(),
						ow.pathJSON(), b01(ow.Own.Black), ow.Own.pathsJSON())
				}
				for mi, ms := range vec.Masks {
					add(&pending{kind: "mwrite", prog: pi, unit: u, os: o, vec: vec, mask: ms, plain: pw},
						"mwrite", u.Key, s.QName(), vec.V.JSON(), b01(ms.Black), ms.pathsJSON())
					for ri, rn := range rins {
						if (pi != 0 || vec.Thin) && (ri+mi)%2 == 1 && o.Key != "m0" {
							continue // thin the reads on the non-default sets
						}
						if vec.Thin && rn.kind != "valid" {
							continue
						}
						init := "new"
						if rn.zero {
							init = "zero"
						}
						add(&pending{kind: "mread", prog: pi, unit: u, os: o, vec: vec, mask: ms, input: rn.bs, rkind: rn.kind, zero: rn.zero, src: rn.src, plain: rn.pr},
							"mread", u.Key, s.QName(), hex.EncodeToString(rn.bs), init, b01(ms.Black), ms.pathsJSON())
					}
				}
			}
		}
	}
	_ = setOf

	// 4. run
	results, err := b.Run(cmds)
	if err != nil {
		fmt.Fprintln(os.Stderr, "run:", err)
		os.Exit(1)
	}

	fmt.Fprintf(os.Stderr, "c13: %d commands run, total %.1fs\n", len(cmds), time.Since(t0).Seconds())
	// 5. cases
	writers := make([]*casefile.Writer, len(progs))
	var shards []string
	distinct := map[[32]byte]bool{}
	getW := func(pi int) *casefile.Writer {
		if writers[pi] == nil {
			p := progs[pi]
			dir := filepath.Join(*out, p.Key)
			os.MkdirAll(dir, 0o755)
			pre := "From Verif Require Import Base.Bytes Base.BE Wire.TType Wire.WVal Wire.Codec Wire.Schema Wire.Value Wire.Std Wire.Masked Corr.C02 Corr.C13.\n" +
				"From Verif Require Mask.Spec.\n" +
				"From Coq Require Import List NArith ZArith String.\nImport ListNotations.\nOpen Scope string_scope.\n" +
				coqfmt.FastPreamble +
				"Definition E : env := " + p.Coq() + ".\n" +
				"Definition mismatches := mismatches_from E N0.\n"
			writers[pi] = casefile.New(dir, pre, 80)
		}
		return writers[pi]
	}
	type wr struct {
		Err   string `json:"err"`
		Bytes string `json:"bytes"`
	}
	for _, pd := range pend {
		if pd.kind != "mwrite" && pd.kind != "mread" {
			continue
		}
		p := progs[pd.prog]
		w := getW(pd.prog)
		res := results[pd.cmd]
		s := pd.vec.S
		ms := pd.mask
		desc := map[string]interface{}{"kind": pd.kind, "unit": pd.unit.Key, "options": pd.unit.Options, "struct": s.QName(),
			"black": ms.Black, "nil_mask": ms.Nil, "paths": ms.Strs, "style": ms.Style, "program": p,
			"observed": json.RawMessage(res), "plain_observed": json.RawMessage(results[pend[pd.plain].cmd])}
		var generic map[string]interface{}
		json.Unmarshal(res, &generic)
		maskerr := generic["maskerr"] == true
		if maskerr {
			st.MaskErrors++
		}
		mode := "white"
		if ms.Black {
			mode = "black"
		}
		if ms.Nil {
			mode = "nil"
		}
		switch pd.kind {
		case "mwrite":
			var o struct {
				wr
				Again wr `json:"again"`
			}
			json.Unmarshal(res, &o)
			if generic["panic"] == true {
				o.Err, o.Again.Err = "panic", "panic"
			}
			var pl wr
			json.Unmarshal(results[pend[pd.plain].cmd], &pl)
			var plg map[string]interface{}
			json.Unmarshal(results[pend[pd.plain].cmd], &plg)
			if plg["panic"] == true {
				pl.Err = "panic"
			}
			if maskerr {
				o.Err, o.Again.Err = "ok", pl.Err
				o.Again.Bytes = pl.Bytes
			}
			bs, _ := hex.DecodeString(o.Bytes)
			ab, _ := hex.DecodeString(o.Again.Bytes)
			pb, _ := hex.DecodeString(pl.Bytes)
			desc["value"] = pd.vec.V
			term := fmt.Sprintf("(CMWrite %s %s %s %s %s %s %s %s %s %s %s %s %s)", coqfmt.BytesF(s.QName()), pd.os.coq(), coqfmt.Bool(ms.Black),
				ms.coqPaths(), pathsCoq(ms.Paths), pd.vec.V.Coq(), coqfmt.Bool(maskerr), obsErr(o.Err), coqfmt.BytesF(string(bs)),
				obsErr(o.Again.Err), coqfmt.BytesF(string(ab)), obsErr(pl.Err), coqfmt.BytesF(string(pb)))
			w.Add(term, desc)
			st.CaseKinds["mwrite"]++
			st.ObsErr["mwrite:"+o.Err]++
			st.MaskStyles[ms.Style]++
			st.MaskModes[mode]++
			distinct[sha256.Sum256([]byte("w"+s.QName()+pd.os.Key+pd.vec.V.JSON()+mode+strings.Join(ms.Strs, "|")))] = len(ms.Strs) > 0 && len(pd.vec.V.F) >= 2
		case "mread":
			var o struct {
				Err  string        `json:"err"`
				Dump *valgen.Value `json:"dump"`
			}
			if err := json.Unmarshal(res, &o); err != nil {
				desc["parse_error"] = err.Error()
			}
			if generic["panic"] == true {
				o.Err = "panic"
			}
			var pl struct {
				Err  string        `json:"err"`
				Dump *valgen.Value `json:"dump"`
			}
			json.Unmarshal(results[pend[pd.plain].cmd], &pl)
			if maskerr {
				o.Err = "ok"
			}
			top := &schemagen.Type{Kind: "struct", Name: s.QName()}
			dumpOf := func(e string, d *valgen.Value) string {
				if e == "ok" && d != nil {
					x := valgen.RetypeStruct(p, s, d)
					orderFields(p, top, x)
					return x.Coq()
				}
				return "VNil"
			}
			src := "None"
			if pd.src != nil {
				src = "(Some " + pd.src.Coq() + ")"
				desc["source_value"] = pd.src
			}
			desc["input"] = hex.EncodeToString(pd.input)
			desc["perturbation"] = pd.rkind
			term := fmt.Sprintf("(CMRead %s %s %s %s %s %s %s %s %s %s %s %s %s)", coqfmt.BytesF(s.QName()), pd.os.coq(), coqfmt.Bool(ms.Black),
				ms.coqPaths(), pathsCoq(ms.Paths), coqfmt.Bool(pd.zero), coqfmt.BytesF(string(pd.input)), src,
				coqfmt.Bool(maskerr), obsErr(o.Err), dumpOf(o.Err, o.Dump), obsErr(pl.Err), dumpOf(pl.Err, pl.Dump))
			w.Add(term, desc)
			st.CaseKinds["mread"]++
			st.ObsErr["mread:"+o.Err]++
			distinct[sha256.Sum256([]byte("r"+s.QName()+pd.os.Key+string(pd.input)+mode+strings.Join(ms.Strs, "|")))] = len(ms.Strs) > 0 && len(pd.input) > 8
		}
	}
	for _, pd := range pend {
		if pd.kind != "mown" {
			continue
		}
		p := progs[pd.prog]
		w := getW(pd.prog)
		res := results[pd.cmd]
		s := pd.vec.S
		ow := pd.own
		var generic map[string]interface{}
		json.Unmarshal(res, &generic)
		if generic["nosub"] == true {
			continue
		}
		maskerr := generic["maskerr"] == true
		var o wr
		json.Unmarshal(res, &o)
		if generic["panic"] == true {
			o.Err = "panic"
		}
		if maskerr {
			o.Err = "ok"
		}
		bs, _ := hex.DecodeString(o.Bytes)
		var ids []string
		for _, id := range ow.Path {
			ids = append(ids, coqfmt.ZF(int64(id)))
		}
		desc := map[string]interface{}{"kind": "mown", "unit": pd.unit.Key, "options": pd.unit.Options, "struct": s.QName(),
			"black": ow.Root.Black, "nil_mask": ow.Root.Nil, "paths": ow.Root.Strs, "style": ow.Own.Style,
			"own_path": ow.Path, "own_black": ow.Own.Black, "own_nil": ow.Own.Nil, "own_paths": ow.Own.Strs,
			"program": p, "value": pd.vec.V, "observed": json.RawMessage(res)}
		term := fmt.Sprintf("(CMOwn %s %s %s %s %s %s %s %s %s %s %s %s)", coqfmt.BytesF(s.QName()), pd.os.coq(), coqfmt.Bool(ow.Root.Black),
			ow.Root.coqPaths(), coqfmt.List(ids), coqfmt.Bool(ow.Own.Black), ow.Own.coqPaths(), pathsCoq(ow.Own.Paths), pd.vec.V.Coq(),
			coqfmt.Bool(maskerr), obsErr(o.Err), coqfmt.BytesF(string(bs)))
		w.Add(term, desc)
		st.CaseKinds["mown"]++
		st.ObsErr["mown:"+o.Err]++
		distinct[sha256.Sum256([]byte("o"+s.QName()+pd.os.Key+pd.vec.V.JSON()+ow.pathJSON()+strings.Join(ow.Own.Strs, "|")+strings.Join(ow.Root.Strs, "|")))] = len(ow.Own.Strs) > 0
	}
	total := 0
	for pi, w := range writers {
		if w == nil {
			continue
		}
		if err := w.Close(); err != nil {
			fmt.Fprintln(os.Stderr, err)
			os.Exit(1)
		}
		for _, sh := range w.Shards {
			shards = append(shards, progs[pi].Key+"/"+sh)
		}
		total += w.Total()
	}
	st.Evaluations = total
	for _, nt := range distinct {
		if nt {
			st.Distinct++
		}
	}
	for i, p := range progs {
		if i < 2 {
			st.Samples = append(st.Samples, map[string]interface{}{"program": p.Key, "idl": p.Render()})
		}
	}
	for _, p := range progs[1:] {
		for _, vec := range vectors[p.Key] {
			for _, ms := range vec.Masks {
				if len(st.Samples) < 6 && len(ms.Strs) > 1 {
					st.Samples = append(st.Samples, map[string]interface{}{"struct": vec.S.QName(), "black": ms.Black, "paths": ms.Strs, "style": ms.Style})
				}
			}
		}
	}
	if err := casefile.WriteMeta(*out, map[string]interface{}{"stats": st, "shards": shards, "total": total}); err != nil {
		fmt.Fprintln(os.Stderr, err)
		os.Exit(1)
	}
}

func firstLine(s string) string {
	s = strings.TrimSpace(s)
	if i := strings.IndexByte(s, '\n'); i >= 0 {
		s = s[:i]
	}
	if len(s) > 300 {
		s = s[:300]
	}
	return s
}
