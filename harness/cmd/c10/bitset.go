package main

// The required-field bit set of generator/fastgo/bitset.go, observed directly: for n = 0 .. 72 added values the
// text bitsetCodeGen emits (through the verif-tagged export VerifBitsetCode) is parsed into the small syntax of
// coq/Wire/FastBitset.v — declaration, set-bit statements, guarded / plain runs of tests — and compared in Coq
// with the model of the generator; the oracle evaluates the emitted statements themselves on a family of
// "fields read" sets (none, all, all but one for every field, halves) and demands that they report exactly the
// first field that was not read.

import (
	"fmt"
	"regexp"
	"strconv"
	"strings"

	"github.com/cloudwego/thriftgo/generator/fastgo"

	"verif/harness/coqfmt"
)

var (
	reDeclOne = regexp.MustCompile(`^var isset uint8$`)
	reDeclArr = regexp.MustCompile(`^var isset \[(\d+)\]uint8$`)
	reSetOne  = regexp.MustCompile(`^isset \|= 0x([0-9a-f]+)$`)
	reSetArr  = regexp.MustCompile(`^isset\[(\d+)\] \|= 0x([0-9a-f]+)$`)
	reGuard   = regexp.MustCompile(`^if isset(?:\[(\d+)\])? != +0x([0-9a-f]+) \{$`)
	reTest    = regexp.MustCompile(`^if isset(?:\[(\d+)\])? & 0x([0-9a-f]+) == 0 \{$`)
	reFid     = regexp.MustCompile(`^fid = (\d+)$`)
)

func natZ(s string) string {
	if s == "" {
		s = "0"
	}
	n, _ := strconv.ParseInt(s, 10, 64)
	return coqfmt.ZF(n)
}

func hexZ(s string) string {
	n, _ := strconv.ParseUint(s, 16, 64)
	return coqfmt.ZFU(n)
}

// bitsetCase returns the Coq term of the case for n values, or an error text when the emitted text does not
// have the expected statement shapes (reported as a correspondence failure by an empty program).
func bitsetCase(n int) (term string, desc map[string]interface{}) {
	decl, setbits, tests := fastgo.VerifBitsetCode(n)
	desc = map[string]interface{}{"kind": "bitset", "n": n, "decl": decl, "setbits": setbits, "tests": tests}
	bad := func(why string) (string, map[string]interface{}) {
		desc["parse_error"] = why
		return fmt.Sprintf("(CBitset %s (zn 1) [] [])", coqfmt.ZF(int64(n))), desc
	}
	words := "0"
	d := strings.TrimSpace(decl)
	switch {
	case d == "":
	case reDeclOne.MatchString(d):
		words = "1"
	case reDeclArr.MatchString(d):
		words = reDeclArr.FindStringSubmatch(d)[1]
	default:
		return bad("declaration: " + d)
	}
	var sb []string
	for _, s := range setbits {
		s = strings.TrimSpace(s)
		if m := reSetOne.FindStringSubmatch(s); m != nil {
			sb = append(sb, "("+natZ("0")+", "+hexZ(m[1])+")")
		} else if m := reSetArr.FindStringSubmatch(s); m != nil {
			sb = append(sb, "("+natZ(m[1])+", "+hexZ(m[2])+")")
		} else {
			return bad("set-bit statement: " + s)
		}
	}
	var blocks []string
	var lines []string
	for _, l := range strings.Split(tests, "\n") {
		if l = strings.TrimSpace(l); l != "" {
			lines = append(lines, l)
		}
	}
	inGuard := false
	var guardHead string
	var cur []string
	flushPlain := func() {
		if !inGuard && len(cur) > 0 {
			blocks = append(blocks, "(bplain "+coqfmt.List(cur)+")")
			cur = nil
		}
	}
	for i := 0; i < len(lines); i++ {
		l := lines[i]
		if m := reGuard.FindStringSubmatch(l); m != nil {
			if inGuard {
				return bad("nested guard")
			}
			flushPlain()
			inGuard, guardHead, cur = true, natZ(m[1])+" "+hexZ(m[2]), nil
			continue
		}
		if m := reTest.FindStringSubmatch(l); m != nil {
			if i+2 >= len(lines) || !reFid.MatchString(lines[i+1]) || lines[i+2] != "}" {
				return bad("test without `fid = n` and `}`: " + l)
			}
			v := reFid.FindStringSubmatch(lines[i+1])[1]
			cur = append(cur, "(btest "+natZ(m[1])+" "+hexZ(m[2])+" "+natZ(v)+")")
			i += 2
			continue
		}
		if l == "}" && inGuard {
			blocks = append(blocks, "(bguard "+guardHead+" "+coqfmt.List(cur)+")")
			inGuard, cur = false, nil
			continue
		}
		return bad("statement: " + l)
	}
	if inGuard {
		return bad("guard not closed")
	}
	flushPlain()
	return fmt.Sprintf("(CBitset %s %s %s %s)", coqfmt.ZF(int64(n)), natZ(words), coqfmt.List(sb), coqfmt.List(blocks)), desc
}
