package main

import (
	"fmt"

	"verif/harness/idlgen"
	"verif/harness/rng"
	"verif/harness/schemagen"
)

// programs from the two shared generators: idlgen (every definition kind, services, constants,
// annotations, naming stress) and schemagen (struct-heavy programs with deep containers, enum and
// struct map keys, typedef chains).
func init() {
	generatedPrograms = func(r *rng.R, tier string) []Prog {
		nIdl, nSch := 3, 3
		if tier == "thorough" {
			nIdl, nSch = 18, 18
		}
		var out []Prog
		for i := 0; i < nIdl; i++ {
			opt := idlgen.Options{Envelope: idlgen.Valid, MaxFiles: 4, Size: 8, NamingStress: i%2 == 0}
			p := idlgen.Generate(r.Fork(), opt)
			out = append(out, Prog{Name: fmt.Sprintf("idlgen-%d", i), Files: p.Render(nil), Main: p.Main()})
		}
		for i := 0; i < nSch; i++ {
			params := schemagen.DefaultParams()
			params.StructKeys = i%3 == 0 // struct keys do not compile with value_type_in_container (C02 note)
			params.BaseTypedefs = false  // typedefs of base types under use_type_alias=false: recorded finding, has its own corpus entry
			key := fmt.Sprintf("sg%d", i)
			p := schemagen.Generate(r.Fork(), params, key)
			files := map[string]string{}
			for n, t := range p.Render() {
				files[n] = t
			}
			main := p.Files[0].Name + ".thrift"
			if _, ok := files[main]; !ok {
				for n := range files {
					main = n
					break
				}
			}
			out = append(out, Prog{Name: key, Files: files, Main: main})
		}
		return out
	}
}
