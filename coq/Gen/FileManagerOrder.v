(* Gen/FileManagerOrder.v — insertionPointReplacer.Replace lists the table's keys in descending
   string order before handing them to strings.NewReplacer.  Facts: the listing has the same
   entries as the table, does not depend on the order in which the table delivers its keys (a Go
   map), and puts a key before every key that is a proper prefix of it (so the replacer's
   first-listed-wins rule picks the longest key matching at a position). *)
From Coq Require Import List Arith Bool Lia NArith Permutation Sorted.
From Coq.Strings Require Import Byte.
From Verif Require Import Base.Bytes Gen.FileManager Gen.Determinism Gen.DeterminismInst.
Import ListNotations.

Definition geb (x y : bytes) : bool := lex_leb y x.

Lemma sort_desc_isort l : sort_desc l = isort bytes geb l.
Proof.
  induction l as [|x l IH]; [reflexivity|]. cbn [sort_desc isort]. rewrite IH.
  generalize (isort bytes geb l) as r. induction r as [|y r IHr]; [reflexivity|].
  cbn [insert_desc insert]. unfold geb at 1. destruct (lex_leb y x); [reflexivity | f_equal; exact IHr].
Qed.

Lemma sort_desc_perm l : Permutation l (sort_desc l).
Proof. rewrite sort_desc_isort. apply isort_perm. Qed.

Lemma In_sort_desc k l : In k (sort_desc l) <-> In k l.
Proof.
  split; intro H.
  - eapply Permutation_in; [apply Permutation_sym, sort_desc_perm | exact H].
  - eapply Permutation_in; [apply sort_desc_perm | exact H].
Qed.

Lemma geb_total x y : geb x y = true \/ geb y x = true.
Proof. unfold geb. destruct (lex_total x y); [right | left]; assumption. Qed.
Lemma geb_trans x y z : geb x y = true -> geb y z = true -> geb x z = true.
Proof. unfold geb. intros H1 H2. eapply lex_trans; eassumption. Qed.
Lemma geb_antisym x y : geb x y = true -> geb y x = true -> x = y.
Proof. unfold geb. intros H1 H2. apply lex_antisym; assumption. Qed.

(* the order in which a map delivers its keys is irrelevant *)
Lemma sort_desc_perm_invariant l l' : Permutation l l' -> sort_desc l = sort_desc l'.
Proof.
  intro H. rewrite !sort_desc_isort.
  exact (sort_then_emit_perm_invariant bytes geb geb_total geb_trans geb_antisym _ (fun x => x) l l' H).
Qed.

Lemma lookup_map_keys_in (f : bytes -> bytes) k l :
  In k l -> lookup k (map (fun x => (x, f x)) l) = Some (f k).
Proof.
  induction l as [|x l IH]; cbn [map lookup]; [intros []|].
  destruct (beqb k x) eqn:E.
  - apply beqb_true in E. subst x. reflexivity.
  - apply beqb_false in E. intros [->|H]; [congruence | apply IH, H].
Qed.

Lemma lookup_map_keys_out (f : bytes -> bytes) k l :
  ~ In k l -> lookup k (map (fun x => (x, f x)) l) = None.
Proof.
  induction l as [|x l IH]; cbn [map lookup]; [reflexivity|]. intro H.
  destruct (beqb k x) eqn:E.
  - apply beqb_true in E. subst x. exfalso. apply H. left. reflexivity.
  - apply IH. intro H'. apply H. right. exact H'.
Qed.

(* the listing is the same table *)
Lemma lookup_listed P k : lookup k (listed_pairs P) = lookup k P.
Proof.
  unfold listed_pairs. destruct (lookup k P) as [v|] eqn:E.
  - rewrite lookup_map_keys_in; [rewrite E; reflexivity|].
    apply (proj2 (In_sort_desc _ _)). apply in_map_iff. exists (k, v). split; [reflexivity | apply lookup_In, E].
  - apply lookup_map_keys_out. intro H. apply (proj1 (In_sort_desc _ _)) in H. apply lookup_None_not_In in E. exact (E H).
Qed.

Lemma In_listed P k v : In (k, v) (listed_pairs P) -> In (k, v) P.
Proof.
  unfold listed_pairs. intro H. apply in_map_iff in H. destruct H as [x [[= -> <-] Hin]].
  apply (proj1 (In_sort_desc _ _)) in Hin. destruct (lookup k P) as [v|] eqn:E; [apply lookup_In; exact E|].
  apply lookup_None_not_In in E. contradiction.
Qed.

Lemma lookup_perm (P P' : list (bytes * bytes)) k :
  NoDup (map fst P) -> Permutation P P' -> lookup k P = lookup k P'.
Proof.
  intros Hnd Hp.
  assert (Hnd' : NoDup (map fst P')) by (eapply Permutation_NoDup; [apply Permutation_map; exact Hp | exact Hnd]).
  assert (G : forall (Q : list (bytes * bytes)) v, NoDup (map fst Q) -> In (k, v) Q -> lookup k Q = Some v).
  { induction Q as [|[k0 v0] Q IH]; intros v HndQ Hin; [destruct Hin|]. cbn [lookup].
    cbn [map fst] in HndQ. inversion HndQ as [|? ? Hni HndQ']; subst.
    destruct Hin as [[= -> ->]|Hin]; [rewrite beqb_refl; reflexivity|].
    destruct (beqb k k0) eqn:E; [|apply IH; assumption].
    apply beqb_true in E. subst k0. exfalso. apply Hni. apply in_map_iff. exists (k, v). split; [reflexivity | exact Hin]. }
  destruct (lookup k P) as [v|] eqn:E.
  - symmetry. apply G; [exact Hnd'|]. eapply Permutation_in; [exact Hp|]. apply lookup_In. exact E.
  - symmetry. apply lookup_None_not_In. apply lookup_None_not_In in E. intro H. apply E.
    eapply Permutation_in; [apply Permutation_sym, Permutation_map; exact Hp | exact H].
Qed.

(* The table is a Go map: whatever order it delivers its entries in, the same list of pairs goes
   to strings.NewReplacer, hence the same output text. *)
Theorem listed_pairs_order_irrelevant P P' :
  NoDup (map fst P) -> Permutation P P' -> listed_pairs P = listed_pairs P'.
Proof.
  intros Hnd Hp. unfold listed_pairs.
  rewrite (sort_desc_perm_invariant (map fst P) (map fst P')) by (apply Permutation_map; exact Hp).
  apply map_ext. intro k. rewrite (lookup_perm P P' k Hnd Hp). reflexivity.
Qed.

(* a proper prefix is strictly smaller, so the longer key is listed first *)
Lemma lex_leb_prefix a r : lex_leb a (a ++ r) = true.
Proof.
  induction a as [|c a IH]; [reflexivity|]. cbn [app lex_leb]. rewrite byte_eqb_refl. exact IH.
Qed.

Lemma sort_desc_sorted l : StronglySorted (fun x y => lex_leb y x = true) (sort_desc l).
Proof.
  rewrite sort_desc_isort.
  exact (isort_sorted bytes geb geb_total geb_trans l).
Qed.

(* ---- of all keys matching at a position the replacer takes the longest ---- *)
Lemma first_match_split L : forall s k v, first_match L s = Some (k, v) ->
  exists L1 L2, L = L1 ++ (k, v) :: L2 /\ (forall p, In p L1 -> is_prefix (fst p) s = false).
Proof.
  induction L as [|[k0 v0] L IH]; intros s k v; cbn [first_match]; [discriminate|].
  destruct (is_prefix k0 s) eqn:E.
  - intros [= -> ->]. exists [], L. split; [reflexivity | intros p []].
  - intro H. destruct (IH _ _ _ H) as [L1 [L2 [-> Hn]]]. exists ((k0, v0) :: L1), L2.
    split; [reflexivity|]. intros p [<-|Hp]; [exact E | apply Hn, Hp].
Qed.

Lemma sorted_after {A} (R : A -> A -> Prop) l1 x l2 :
  StronglySorted R (l1 ++ x :: l2) -> forall y, In y l2 -> R x y.
Proof.
  induction l1 as [|a l1 IH]; cbn [app]; intros H y Hy.
  - inversion H as [|? ? _ Hall]; subst. rewrite Forall_forall in Hall. apply Hall, Hy.
  - inversion H as [|? ? Hs _]; subst. eapply IH; eassumption.
Qed.

Lemma map_fst_listed P : map fst (listed_pairs P) = sort_desc (map fst P).
Proof. unfold listed_pairs. rewrite map_map. cbn [fst]. apply map_id. Qed.

Theorem listed_longest_first P s k v :
  first_match (listed_pairs P) s = Some (k, v) ->
  forall k', In k' (map fst P) -> is_prefix k' s = true -> List.length k' <= List.length k.
Proof.
  intros Hfm k' Hin Hp.
  pose proof (first_match_In _ _ _ _ Hfm) as [_ Hpk].
  destruct (first_match_split _ _ _ _ Hfm) as [L1 [L2 [HL Hn]]].
  pose proof (sort_desc_sorted (map fst P)) as Hs. rewrite <- map_fst_listed, HL, map_app in Hs. cbn [map fst] in Hs.
  assert (Hk' : In k' (map fst (listed_pairs P))) by (rewrite map_fst_listed; apply (proj2 (In_sort_desc _ _)), Hin).
  rewrite HL, map_app in Hk'. cbn [map fst] in Hk'. apply in_app_iff in Hk'.
  destruct Hk' as [H1|[<-|H2]].
  - apply in_map_iff in H1. destruct H1 as [p [<- Hp1]]. rewrite (Hn p Hp1) in Hp. discriminate.
  - apply Nat.le_refl.
  - pose proof (sorted_after _ _ _ _ Hs k' H2) as Hle. cbn beta in Hle.
    apply is_prefix_spec in Hp. apply is_prefix_spec in Hpk. destruct Hp as [r' E'], Hpk as [r E]. rewrite E in E'.
    destruct (app_prefix_split _ _ _ _ E') as [t [[E1 _]|[E1 _]]].
    + rewrite E1, app_length. lia.
    + (* k' = k ++ t: then k <= k' <= k, so t = [] *)
      assert (k = k') as ->; [|apply Nat.le_refl].
      apply lex_antisym; [rewrite E1; apply lex_leb_prefix | exact Hle].
Qed.
