// c16 produces correspondence cases for property C16 (IDL trimming): real resolved
// ASTs of generated multi-file programs, trimmed in-process by trim.TrimAST under
// many configurations, dumped before and after (and after trimming once more).
// Thorough tier: the trimmer binary (-r / -m / -p), TrimBatchContentWithConfig, and
// `thriftgo -g go:trim_idl` with the generated code compiled.
package main

import (
	"encoding/json"
	"flag"
	"fmt"
	"os"
	"path/filepath"
	"regexp"
	"sort"
	"strings"
	"time"

	"github.com/cloudwego/thriftgo/parser"
	"github.com/cloudwego/thriftgo/semantic"
	"github.com/cloudwego/thriftgo/tool/trimmer/trim"
	"github.com/dlclark/regexp2"

	"verif/harness/astdump"
	"verif/harness/casefile"
	"verif/harness/coqfmt"
	"verif/harness/idlast"
	"verif/harness/idlgen"
	"verif/harness/rng"
)

// Config mirrors trim.TrimASTArg (without the AST).
type Config struct {
	Methods         []string `json:"methods"`
	Preserve        *bool    `json:"preserve,omitempty"`
	MatchGoName     *bool    `json:"match_go_name,omitempty"`
	NoComment       *bool    `json:"disable_preserve_comment,omitempty"`
	PreserveStructs []string `json:"preserved_structs,omitempty"`
	PreservedFiles  []string `json:"preserved_files,omitempty"`
}

func bp(b bool) *bool { return &b }

func (c Config) force() bool   { return c.Preserve != nil && !*c.Preserve }
func (c Config) goName() bool  { return c.MatchGoName != nil && *c.MatchGoName }
func (c Config) noCmt() bool   { return c.NoComment != nil && *c.NoComment }
func (c Config) label() string { b, _ := json.Marshal(c); return string(b) }

// what TrimAST returned
const (
	errNone       = 0
	errBadPattern = 1 // regexp2.Compile failed
	errAfterTrim  = 2 // include circle / CheckAll / ResolveSymbols on the trimmed AST failed
	errPanic      = 3
)

type Case struct {
	Kind      string            `json:"kind"`
	Files     map[string]string `json:"files"` // the IDL texts
	Main      string            `json:"main"`
	Config    Config            `json:"config"`
	Second    bool              `json:"second_run"` // the input is the output of a first trim
	Err       int               `json:"err"`
	ErrText   string            `json:"err_text,omitempty"`
	ReparseOK bool              `json:"reparse_ok"`
	ReparseEr string            `json:"reparse_err,omitempty"`
	Summary   []string          `json:"after_summary"`
}

var preserveRegex = regexp.MustCompile(`(?m)^[\s]*(\/\/|#)[\s]*@preserve[\s]*$`)

func load(mainFile string) (*parser.Thrift, error) {
	ast, err := parser.ParseFile(mainFile, nil, true)
	if err != nil {
		return nil, fmt.Errorf("parse: %w", err)
	}
	if path := parser.CircleDetect(ast); len(path) > 0 {
		return nil, fmt.Errorf("include circle %s", path)
	}
	chk := semantic.NewChecker(semantic.Options{FixWarnings: true})
	if _, err := chk.CheckAll(ast); err != nil {
		return nil, fmt.Errorf("check: %w", err)
	}
	if err := semantic.ResolveSymbols(ast); err != nil {
		return nil, fmt.Errorf("resolve: %w", err)
	}
	return ast, nil
}

func writeTree(dir string, files map[string]string) error {
	for name, text := range files {
		full := filepath.Join(dir, filepath.FromSlash(name))
		if err := os.MkdirAll(filepath.Dir(full), 0o755); err != nil {
			return err
		}
		if err := os.WriteFile(full, []byte(text), 0o644); err != nil {
			return err
		}
	}
	return nil
}

func allFiles(t *parser.Thrift) []*parser.Thrift {
	var out []*parser.Thrift
	seen := map[*parser.Thrift]bool{}
	var walk func(t *parser.Thrift)
	walk = func(t *parser.Thrift) {
		if t == nil || seen[t] {
			return
		}
		seen[t] = true
		out = append(out, t)
		for _, inc := range t.Includes {
			walk(inc.Reference)
		}
	}
	walk(t)
	return out
}

func toGoName(input string) string {
	var b strings.Builder
	for _, w := range strings.Split(input, "_") {
		if w != "" {
			b.WriteString(strings.ToUpper(string(w[0])) + w[1:])
		}
	}
	return b.String()
}

func summary(t *parser.Thrift) []string {
	var out []string
	for _, f := range allFiles(t) {
		var parts []string
		for _, i := range f.Includes {
			parts = append(parts, "inc:"+i.Path)
		}
		for _, x := range f.Typedefs {
			parts = append(parts, "td:"+x.Alias)
		}
		for _, x := range f.Constants {
			parts = append(parts, "c:"+x.Name)
		}
		for _, x := range f.Enums {
			parts = append(parts, "e:"+x.Name)
		}
		for _, x := range f.GetStructLikes() {
			parts = append(parts, "s:"+x.Name)
		}
		for _, x := range f.Services {
			s := "svc:" + x.Name + "<" + x.Extends + ">("
			for _, fn := range x.Functions {
				s += fn.Name + ","
			}
			parts = append(parts, s+")")
		}
		out = append(out, f.Filename+" "+strings.Join(parts, " "))
	}
	return out
}

type tables struct {
	match    [][3]string // pattern, name, "1"/"0"
	compile  [][2]string
	preserve [][2]string
	anyBad   bool
}

// everything the model may ask the regexp engines, evaluated with the same engines
func buildTables(ast *parser.Thrift, cfg Config) tables {
	var tb tables
	files := allFiles(ast)
	// candidate patterns: as given and qualified with any service name of the main file
	pats := map[string]bool{}
	for _, m := range cfg.Methods {
		pats[m] = true
		for _, s := range ast.Services {
			pats[s.Name+"."+m] = true
		}
	}
	names := map[string]bool{}
	var svcNames, fnNames []string
	for _, f := range files {
		for _, s := range f.Services {
			svcNames = append(svcNames, s.Name)
			for _, fn := range s.Functions {
				fnNames = append(fnNames, fn.Name, toGoName(fn.Name))
			}
		}
	}
	for _, s := range svcNames {
		for _, fn := range fnNames {
			names[s+"."+fn] = true
		}
	}
	var ps, ns []string
	for p := range pats {
		ps = append(ps, p)
	}
	for n := range names {
		ns = append(ns, n)
	}
	sort.Strings(ps)
	sort.Strings(ns)
	for _, p := range ps {
		re, err := regexp2.Compile(p, 0)
		if err != nil {
			tb.compile = append(tb.compile, [2]string{p, "0"})
			tb.anyBad = true
			continue
		}
		tb.compile = append(tb.compile, [2]string{p, "1"})
		for _, n := range ns {
			ok, _ := re.MatchString(n)
			if ok {
				tb.match = append(tb.match, [3]string{p, n, "1"})
			}
		}
	}
	seen := map[string]bool{}
	for _, f := range files {
		for _, s := range f.GetStructLikes() {
			c := s.ReservedComments
			if seen[c] {
				continue
			}
			seen[c] = true
			if preserveRegex.MatchString(strings.ToLower(c)) {
				tb.preserve = append(tb.preserve, [2]string{c, "1"})
			}
		}
	}
	sort.Slice(tb.preserve, func(i, j int) bool { return tb.preserve[i][0] < tb.preserve[j][0] })
	return tb
}

func coqStrList(xs []string) string {
	items := make([]string, len(xs))
	for i, x := range xs {
		items[i] = coqfmt.Bytes(x)
	}
	return coqfmt.List(items)
}

func coqCfg(c Config) string {
	return fmt.Sprintf("(Cfg %s %s %s %s %s %s)", coqStrList(c.Methods), coqfmt.Bool(c.force()), coqfmt.Bool(c.goName()),
		coqfmt.Bool(c.noCmt()), coqStrList(c.PreserveStructs), coqStrList(c.PreservedFiles))
}

func coqTables(tb tables) (string, string, string) {
	var m, c, p []string
	for _, e := range tb.match {
		m = append(m, fmt.Sprintf("(%s, %s)", coqfmt.Bytes(e[0]), coqfmt.Bytes(e[1])))
	}
	for _, e := range tb.compile {
		if e[1] == "0" {
			c = append(c, coqfmt.Bytes(e[0]))
		}
	}
	for _, e := range tb.preserve {
		p = append(p, coqfmt.Bytes(e[0]))
	}
	return coqfmt.List(m), coqfmt.List(c), coqfmt.List(p)
}

func trimArg(ast *parser.Thrift, cfg Config) *trim.TrimASTArg {
	return &trim.TrimASTArg{
		Ast:                    ast,
		TrimMethods:            append([]string(nil), cfg.Methods...), // doTrimAST rewrites the slice
		Preserve:               cfg.Preserve,
		MatchGoName:            cfg.MatchGoName,
		DisablePreserveComment: cfg.NoComment,
		PreserveStructs:        append([]string(nil), cfg.PreserveStructs...),
		PreservedFiles:         append([]string(nil), cfg.PreservedFiles...),
	}
}

// runTrim calls the real trimmer, recovering panics.
func runTrim(ast *parser.Thrift, cfg Config, anyBad bool) (code int, text string) {
	defer func() {
		if r := recover(); r != nil {
			code, text = errPanic, fmt.Sprint(r)
		}
	}()
	// TrimAST prints warnings on stdout
	_, err := trim.TrimAST(trimArg(ast, cfg))
	if err == nil {
		return errNone, ""
	}
	if anyBad && len(ast.Services) > 0 && !strings.Contains(err.Error(), "from file") && !strings.Contains(err.Error(), "include circle") {
		return errBadPattern, err.Error()
	}
	return errAfterTrim, err.Error()
}

// reparse renders the dumped program as IDL text and runs the whole front end on it.
func reparse(scratch string, p idlast.Program) (ok bool, msg string) {
	dir, err := os.MkdirTemp(scratch, "re")
	if err != nil {
		return false, err.Error()
	}
	defer os.RemoveAll(dir)
	files := map[string]string{}
	for _, e := range p {
		text := idlgen.RenderFile(e.File, nil)
		if text == "" {
			text = "\n" // the parser rejects a zero-byte document; the trimmer's own dump is checked in the thorough tier
		}
		files[string(e.Filename)] = text
	}
	if err := writeTree(dir, files); err != nil {
		return false, err.Error()
	}
	old, _ := os.Getwd()
	if err := os.Chdir(dir); err != nil {
		return false, err.Error()
	}
	defer os.Chdir(old)
	defer func() {
		if r := recover(); r != nil {
			ok, msg = false, fmt.Sprint("panic: ", r)
		}
	}()
	if _, err := load(string(p[0].Filename)); err != nil {
		return false, err.Error()
	}
	return true, ""
}

type runner struct {
	scratch string
	w       *casefile.Writer
	st      *stats
	seen    map[string]bool
}

type stats struct {
	Evaluations        int            `json:"evaluations"`
	DistinctNontrivial int            `json:"distinct_nontrivial"`
	Rule               string         `json:"rule"`
	Kinds              map[string]int `json:"kinds"`
	Configs            map[string]int `json:"config_shapes"`
	Errors             map[string]int `json:"trim_results"`
	Shapes             map[string]int `json:"program_shapes"`
	Removed            map[string]int `json:"removed"`
	Samples            []Case         `json:"samples"`
	Rejected           int            `json:"programs_rejected_by_front_end"`
	RejectedWhy        []string       `json:"rejected_examples"`
	Process            []ProcResult   `json:"process_checks"`
}

type ProcResult struct {
	Kind   string `json:"kind"`
	Name   string `json:"name"`
	OK     bool   `json:"ok"`
	Detail string `json:"detail,omitempty"`
}

func cfgShape(c Config) string {
	var parts []string
	if len(c.Methods) > 0 {
		kind := "m-exact"
		for _, m := range c.Methods {
			if !strings.Contains(m, ".") {
				kind = "m-unqualified"
			}
			if strings.ContainsAny(m, "*+\\[(|^$?") {
				kind = "m-regexp"
			}
		}
		parts = append(parts, kind)
	} else {
		parts = append(parts, "no-filter")
	}
	if c.force() {
		parts = append(parts, "preserve-off")
	}
	if c.goName() {
		parts = append(parts, "go-name")
	}
	if c.noCmt() {
		parts = append(parts, "no-comment")
	}
	if len(c.PreserveStructs) > 0 {
		parts = append(parts, "struct-list")
	}
	if len(c.PreservedFiles) > 0 {
		parts = append(parts, "file-list")
	}
	return strings.Join(parts, "+")
}

func count(p idlast.Program) (sl, inc, fn, files int) {
	for _, e := range p {
		f := e.File
		sl += len(f.Structs) + len(f.Unions) + len(f.Exceptions)
		inc += len(f.Includes)
		for _, s := range f.Services {
			fn += len(s.Functions)
		}
	}
	return sl, inc, fn, len(p)
}

// one scenario = IDL texts + configuration.  Emits the first-run case and, when the
// trimmer succeeded, the second-run case (input = trimmed output).
func (rn *runner) scenario(kind string, files map[string]string, mainFile string, cfg Config) {
	dir, err := os.MkdirTemp(rn.scratch, "p")
	if err != nil {
		fatal(err)
	}
	defer os.RemoveAll(dir)
	if err := writeTree(dir, files); err != nil {
		fatal(err)
	}
	old, _ := os.Getwd()
	if err := os.Chdir(dir); err != nil {
		fatal(err)
	}
	defer os.Chdir(old)
	ast, err := load(mainFile)
	if err != nil {
		rn.st.Rejected++
		if len(rn.st.RejectedWhy) < 5 {
			rn.st.RejectedWhy = append(rn.st.RejectedWhy, err.Error())
		}
		return
	}
	rn.emit(kind, files, mainFile, cfg, ast, false)
}

func (rn *runner) emit(kind string, files map[string]string, mainFile string, cfg Config, ast *parser.Thrift, second bool) {
	before := astdump.Program(ast)
	tb := buildTables(ast, cfg)
	code, text := runTrim(ast, cfg, tb.anyBad)
	after := astdump.Program(ast)
	c := Case{Kind: kind, Files: files, Main: mainFile, Config: cfg, Second: second, Err: code, ErrText: text, Summary: summary(ast)}
	if code == errNone {
		c.ReparseOK, c.ReparseEr = reparse(rn.scratch, after)
	}
	m, cp, pr := coqTables(tb)
	term := fmt.Sprintf("mkcase %s\n %s\n %s\n %s\n %s %s\n %s\n %s\n %s", coqCfg(cfg), m, cp, pr,
		coqfmt.Bool(second), coqfmt.N(uint64(code)), coqfmt.Bool(c.ReparseOK), before.Coq(), after.Coq())
	if err := rn.w.Add(term, c); err != nil {
		fatal(err)
	}
	st := rn.st
	st.Evaluations++
	st.Kinds[kind]++
	st.Configs[cfgShape(cfg)]++
	st.Errors[[]string{"ok", "bad-pattern", "error-after-trimming", "panic"}[code]]++
	if second {
		st.Kinds["second-run"]++
	}
	sl0, inc0, fn0, f0 := count(before)
	sl1, inc1, fn1, f1 := count(after)
	if !second {
		if sl1 < sl0 {
			st.Removed["cases_removing_struct_likes"]++
		}
		if inc1 < inc0 {
			st.Removed["cases_removing_includes"]++
		}
		if fn1 < fn0 {
			st.Removed["cases_removing_functions"]++
		}
		if f1 < f0 {
			st.Removed["cases_dropping_files"]++
		}
		if sl1 > 0 && sl1 < sl0 {
			st.Removed["cases_keeping_some_and_removing_some"]++
		}
		key := before.Coq() + coqCfg(cfg)
		if (sl1 < sl0 || inc1 < inc0 || fn1 < fn0) && !rn.seen[key] {
			rn.seen[key] = true
			st.DistinctNontrivial++
		}
		if len(st.Samples) < 4 && sl1 > 0 && sl1 < sl0 && st.Evaluations%37 == 0 {
			st.Samples = append(st.Samples, c)
		}
	}
	if code == errNone && !second {
		rn.emit(kind, files, mainFile, cfg, ast, true)
	}
}

func fatal(err error) {
	fmt.Fprintln(os.Stderr, "c16:", err)
	os.Exit(2)
}

// configurations for one parsed program (service and function names known)
func configsFor(r *rng.R, g *gProgram, n int) []Config {
	main := g.files[0]
	var all []Config
	all = append(all, Config{})
	all = append(all, Config{Preserve: bp(false)})
	var qual, unq []string
	for _, f := range g.files {
		for _, s := range f.services {
			for _, fn := range s.funcs {
				qual = append(qual, s.name+"."+fn)
				unq = append(unq, fn)
			}
		}
	}
	var mainSvc []string
	for _, s := range main.services {
		mainSvc = append(mainSvc, s.name)
	}
	pick := func(xs []string, k int) []string {
		var out []string
		for i := 0; i < k && len(xs) > 0; i++ {
			out = append(out, rng.Pick(r, xs))
		}
		return out
	}
	if len(qual) > 0 {
		all = append(all, Config{Methods: pick(qual, r.Range(1, 2))})
		all = append(all, Config{Methods: pick(unq, r.Range(1, 2))})
		// main-service-qualified names of base-service methods
		if len(mainSvc) > 0 {
			all = append(all, Config{Methods: []string{rng.Pick(r, mainSvc) + "." + rng.Pick(r, unq)}})
			s := rng.Pick(r, mainSvc)
			regs := []string{s + `\.get.*`, `.*\.foo`, s + ".f", `^` + s + `\.(get|put)$`, `Svc\d\.[a-z]+$`, s + `\..*_.*`, `.*`, s + `\.(?!get).*`, `Base0\..*`}
			all = append(all, Config{Methods: []string{rng.Pick(r, regs)}})
			all = append(all, Config{Methods: []string{rng.Pick(r, regs), rng.Pick(r, qual)}})
			all = append(all, Config{Methods: pick(qual, 1), MatchGoName: bp(true)})
		}
		all = append(all, Config{Methods: pick(qual, 1), Preserve: bp(false)})
	}
	all = append(all, Config{NoComment: bp(true)})
	if len(g.structNames) > 0 {
		all = append(all, Config{PreserveStructs: pick(g.structNames, r.Range(1, 3))})
		all = append(all, Config{PreserveStructs: []string{"UserInfo", rng.Pick(r, g.structNames)}, MatchGoName: bp(true)})
		all = append(all, Config{PreserveStructs: pick(g.structNames, 2), Preserve: bp(false)})
	}
	if len(g.files) > 1 {
		f := g.files[1+r.Intn(len(g.files)-1)]
		all = append(all, Config{PreservedFiles: []string{f.name}})
		all = append(all, Config{PreservedFiles: []string{f.name, "nonexistent.thrift"}, NoComment: bp(true)})
	}
	if r.Chance(1, 15) {
		all = append(all, Config{Methods: []string{"Svc0.(unclosed"}})
	}
	// always the plain one, then a random selection of the others
	out := []Config{all[0]}
	rest := all[1:]
	for len(out) < n && len(rest) > 0 {
		i := r.Intn(len(rest))
		out = append(out, rest[i])
		rest = append(rest[:i], rest[i+1:]...)
	}
	return out
}

func main() {
	seed := flag.Uint64("seed", 1, "seed")
	tier := flag.String("tier", "quick", "quick|thorough")
	out := flag.String("out", ".", "output directory")
	trimmerBin := flag.String("trimmer", "", "trimmer binary (thorough tier)")
	thriftgoBin := flag.String("thriftgo", "", "thriftgo binary (thorough tier)")
	repo := flag.String("repo", "/repo", "thriftgo source tree (for compiling generated code)")
	only := flag.String("only", "", "debug: run only corpus entries whose name contains this")
	witness := flag.String("witness", "", "write coq/Idl/TrimWitness.v (the resolved AST of the known-finding trigger) to this path and exit")
	flag.Parse()
	if *witness != "" {
		if err := writeWitness(*witness); err != nil {
			fatal(err)
		}
		return
	}

	scratch, err := os.MkdirTemp("", "c16-")
	if err != nil {
		fatal(err)
	}
	defer os.RemoveAll(scratch)
	absOut, _ := filepath.Abs(*out)

	st := &stats{Kinds: map[string]int{}, Configs: map[string]int{}, Errors: map[string]int{}, Shapes: map[string]int{}, Removed: map[string]int{}}
	w := casefile.New(absOut, "From Verif Require Import Base.Bytes Idl.Ast Idl.Trim Corr.C16.", 60)
	rn := &runner{scratch: scratch, w: w, st: st, seen: map[string]bool{}}

	// stdout of this process would otherwise receive the trimmer's warnings
	devnull, _ := os.OpenFile(os.DevNull, os.O_WRONLY, 0)
	realStdout := os.Stdout
	os.Stdout = devnull

	// ---- corpus ----
	for _, e := range corpus() {
		if *only != "" && !strings.Contains(e.name, *only) {
			continue
		}
		for _, cfg := range e.cfgs {
			rn.scenario("corpus:"+e.name, e.files, "main.thrift", cfg)
		}
	}

	// ---- generated programs ----
	r := rng.New(*seed)
	nprog, ncfg, nidlgen := 24, 3, 6
	if *tier == "thorough" {
		nprog, ncfg, nidlgen = 200, 5, 30
	}
	if *only != "" {
		nprog, nidlgen = 0, 0
	}
	for i := 0; i < nprog; i++ {
		g := &gen{r: r.Fork()}
		p := g.newProgram(g.r.Range(1, 5))
		for k, v := range p.stats {
			st.Shapes[k] += v
		}
		st.Shapes[fmt.Sprintf("files_%d", len(p.files))]++
		for _, cfg := range configsFor(g.r, p, ncfg) {
			rn.scenario("generated", p.texts, "main.thrift", cfg)
		}
	}
	// ---- idlgen programs (general IDL shapes: annotations, defaults, namespaces ...) ----
	idlgenDead := false
	for i := 0; i < nidlgen && !idlgenDead; i++ {
		sd := r.U64()
		rr := rng.New(sd)
		// idlgen is a shared package still being written: do not let it stall the check
		done := make(chan *idlgen.Program, 1)
		go func() {
			defer func() {
				if rec := recover(); rec != nil {
					done <- nil
				}
			}()
			done <- idlgen.Generate(rr, idlgen.Options{Envelope: idlgen.Valid, MaxFiles: 4, Size: 6})
		}()
		var p *idlgen.Program
		select {
		case p = <-done:
		case <-time.After(5 * time.Second):
			idlgenDead = true
			st.Shapes[fmt.Sprintf("idlgen_stalled_seed_%d", sd)]++
		}
		if p == nil {
			continue
		}
		texts := p.Render(nil)
		var svc []string
		for _, s := range p.Files[0].File.Services {
			for _, fn := range s.Functions {
				svc = append(svc, string(s.Name)+"."+string(fn.Name))
			}
		}
		cfgs := []Config{{}, {Preserve: bp(false)}}
		if len(svc) > 0 {
			cfgs = append(cfgs, Config{Methods: []string{rng.Pick(rr, svc)}})
		}
		for _, cfg := range cfgs {
			rn.scenario("idlgen", texts, p.Main(), cfg)
		}
	}

	// ---- process level (thorough) ----
	if *tier == "thorough" && *trimmerBin != "" {
		st.Process = processChecks(r.Fork(), scratch, *trimmerBin, *thriftgoBin, *repo)
	}

	os.Stdout = realStdout
	if err := w.Close(); err != nil {
		fatal(err)
	}
	st.Rule = "a first-run case is non-trivial when trimming removed a struct-like, an include or a function; distinct = distinct (resolved input AST, configuration)"
	if err := casefile.WriteMeta(absOut, map[string]interface{}{"stats": st, "shards": w.Shards, "total": w.Total()}); err != nil {
		fatal(err)
	}
}

// writeWitness dumps the resolved AST of the corpus entry that pins the method-filter
// findings, as Coq definitions used by the _refuted theorems of Props/C16.v.
func writeWitness(path string) error {
	var e corpusEntry
	for _, x := range corpus() {
		if x.name == "include-kept-after-extends-cleared" {
			e = x
		}
	}
	cfg := e.cfgs[0]
	dir, err := os.MkdirTemp("", "c16w-")
	if err != nil {
		return err
	}
	defer os.RemoveAll(dir)
	if err := writeTree(dir, e.files); err != nil {
		return err
	}
	abs, _ := filepath.Abs(path)
	if err := os.Chdir(dir); err != nil {
		return err
	}
	ast, err := load("main.thrift")
	if err != nil {
		return err
	}
	before := astdump.Program(ast)
	tb := buildTables(ast, cfg)
	m, _, _ := coqTables(tb)
	var b strings.Builder
	b.WriteString("(* Idl/TrimWitness.v — GENERATED by `c16 -witness` from the real parser + semantic pass:\n")
	b.WriteString("   the resolved AST of the input that pins the known findings of the method filter\n")
	b.WriteString("   (main.thrift: include \"a.thrift\"  service S extends a.Base { void f()  void fooBar() };\n")
	b.WriteString("    a.thrift: struct BR {1: i32 x}  service Base { BR g() };  trimmer -m S.f),\n")
	b.WriteString("   with the answers of regexp2 for the pattern S.f.  Definitions only. *)\n")
	b.WriteString("From Coq Require Import List Bool NArith ZArith String.\nFrom Verif Require Import Base.Bytes Idl.Ast Idl.Trim.\nImport ListNotations.\nOpen Scope string_scope.\n\n")
	fmt.Fprintf(&b, "Definition w_cfg : cfg := %s.\n\n", coqCfg(cfg))
	fmt.Fprintf(&b, "Definition w_match_table : list (bytes * bytes) := %s.\n\n", m)
	b.WriteString("Definition w_matches (pat name : bytes) : bool :=\n  existsb (fun e => beqb (fst e) pat && beqb (snd e) name) w_match_table.\n\n")
	fmt.Fprintf(&b, "Definition w_program : program :=\n %s.\n", before.Coq())
	return os.WriteFile(abs, []byte(b.String()), 0o644)
}
